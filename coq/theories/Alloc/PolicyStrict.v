(** C16 - strict policies at the level of a whole request (several coupled entries), no coupling weights,
    first admission test of the request (cache miss): has_resources_for_request admits EXACTLY when the solver's
    answer for the current free resources selects in total at most as many groups as its answer for the empty
    worker.  (Alloc.Strict treats one entry and only the direction "admitted => ...".) *)
From Coq Require Import Permutation.
From HQ Require Import Base.Prelude Gen.Consts Alloc.Model Alloc.Spec Alloc.Lemmas Alloc.GroupsProofs Alloc.Admission Alloc.Objective Alloc.Strict.
Require Import ZifyBool ZifyN ZifyNat.
Open Scope N_scope.
Arguments N.add : simpl never.
Arguments N.sub : simpl never.
Arguments N.mul : simpl never.
Arguments N.div : simpl never.
Arguments N.modulo : simpl never.
Arguments N.eqb : simpl never.
Arguments N.ltb : simpl never.
Arguments N.leb : simpl never.
Arguments N.of_nat : simpl never.
Arguments N.to_nat : simpl never.
Arguments sumN : simpl never.

(** number of groups selected by an answer of the solver, all entries together *)
Definition total_groups (masks : list mask) : N := sumN (map (fun m : mask => len m) masks).

Definition full_masks (rows : list (list (N * N) * N * N)) : list mask := map (fun r => full_mask (fst (fst r))) rows.

(** without the tie-breaking terms and without coupling weights the objective counts the selected groups *)
Lemma masks_objective_count rows : forall masks,
  masks_feasible rows masks = true ->
  masks_objective false rows masks = (- GROUP_COST * Z.of_N (total_groups masks))%Z.
Proof.
  induction rows as [|[[per u] f] rows IH]; intros [|m masks] H; cbn [masks_feasible] in H; try discriminate.
  - unfold total_groups. cbn [masks_objective map]. rewrite sumN_nil. lia.
  - apply andb_true_iff in H. destruct H as [H H3]. apply andb_true_iff in H. destruct H as [H1 H2].
    cbn [masks_objective]. rewrite (IH _ H3).
    pose proof (in_range_full _ _ (answer_in_sublists _ _ H1)) as Hr.
    unfold total_groups. cbn [map]. rewrite sumN_cons, N2Z.inj_add.
    destruct (N.eq_dec f 0) as [->|Hf].
    + rewrite objective_int by auto. ring.
    + rewrite objective_frac by auto. ring.
Qed.

Lemma group_solver_nw_some free entries tie ms r :
  group_solver free entries [] tie (Some ms) = Ok r ->
  exists rows, solver_rows free entries = Ok rows /\ masks_feasible rows ms = true
               /\ r = Some (ms, (masks_objective tie rows ms + 0)%Z).
Proof.
  unfold group_solver. intros H.
  destruct (solver_rows free entries) as [rows| |]; cbn [bind weights_objective] in H; try discriminate.
  destruct (masks_feasible rows ms) eqn:Ef; try discriminate. inversion H; subst. eauto.
Qed.

Lemma group_solver_nw_none free entries tie r :
  group_solver free entries [] tie None = Ok r ->
  exists rows, solver_rows free entries = Ok rows /\ masks_feasible rows (full_masks rows) = false /\ r = None.
Proof.
  unfold group_solver. intros H.
  destruct (solver_rows free entries) as [rows| |]; cbn [bind weights_objective] in H; try discriminate.
  fold (full_masks rows) in H. destruct (masks_feasible rows (full_masks rows)) eqn:Ef; try discriminate.
  inversion H; subst. eauto.
Qed.

(** the 0.1 slack is smaller than the cost of one group *)
Lemma strict_compare (k_now k_all : N) :
  Z.leb (- GROUP_COST * Z.of_N k_all + 0 - SLACK) (- GROUP_COST * Z.of_N k_now + 0) = (k_now <=? k_all).
Proof.
  unfold GROUP_COST, SLACK, OBJ_SCALE, ALLOC_GROUP_WEIGHT, ALLOC_SLACK_TENTHS, ALLOC_UNIT_DIV, FPU, FRACTIONS_PER_UNIT.
  destruct (N.leb_spec k_now k_all); [apply Z.leb_le | apply Z.leb_gt]; lia.
Qed.

(** ResourceAllocator::has_resources_for_request when the per-entry tests pass, some coupled entry is strict,
    there are no coupling weights and the request is not in the cache *)
Theorem strict_admission_counts a rq w ok yard cp :
  a_weights a = [] -> yard_lookup (a_yard a) rq = None ->
  hr_entries (a_pools a) (a_free a) rq [] = Ok (true, cp) ->
  forallb (fun e => negb (is_forced (e_req e))) cp = false ->
  has_resources a rq w = Ok (ok, yard) ->
  exists rows_now, solver_rows (a_free a) cp = Ok rows_now
    /\ ((w_adm w = None /\ masks_feasible rows_now (full_masks rows_now) = false /\ ok = false)
        \/ exists ms_now ms_all rows_all,
             w_adm w = Some ms_now /\ w_yard w = Some ms_all
             /\ masks_feasible rows_now ms_now = true
             /\ solver_rows (a_all a) cp = Ok rows_all /\ masks_feasible rows_all ms_all = true
             /\ ok = (total_groups ms_now <=? total_groups ms_all)).
Proof.
  intros Hws Hmiss Hhr Hforced Hh. unfold has_resources in Hh. rewrite Hhr in Hh. cbn [bind negb] in Hh.
  rewrite Hforced, Hws in Hh.
  destruct (w_adm w) as [ms_now|].
  - destruct (group_solver (a_free a) cp [] false (Some ms_now)) as [r| |] eqn:Eg; cbn [bind] in Hh; try discriminate.
    destruct (group_solver_nw_some _ _ _ _ _ Eg) as (rows_now & Hrows & Hfeas & ->).
    exists rows_now. split; auto. right.
    rewrite Hmiss in Hh.
    destruct (w_yard w) as [ms_all|].
    + destruct (group_solver (a_all a) cp [] false (Some ms_all)) as [r| |] eqn:Eg2; cbn [bind] in Hh; try discriminate.
      destruct (group_solver_nw_some _ _ _ _ _ Eg2) as (rows_all & Hrows2 & Hfeas2 & ->).
      exists ms_now, ms_all, rows_all. repeat split; auto.
      inversion Hh; subst. rewrite !masks_objective_count by auto. apply strict_compare.
    + destruct (group_solver (a_all a) cp [] false None) as [r| |] eqn:Eg2; cbn [bind] in Hh; try discriminate.
      destruct (group_solver_nw_none _ _ _ _ Eg2) as (rows_all & _ & _ & ->). discriminate.
  - destruct (group_solver (a_free a) cp [] false None) as [r| |] eqn:Eg; cbn [bind] in Hh; try discriminate.
    destruct (group_solver_nw_none _ _ _ _ Eg) as (rows_now & Hrows & Hinf & ->).
    exists rows_now. split; auto. left. inversion Hh; subst. auto.
Qed.

(* ------------------------------------------------------------------------------------------ *)
(** * answers that are minimal per entry *)

(** [mins rows] = the reference minimum number of groups per row *)
Fixpoint minimal_answer (rows : list (list (N * N) * N * N)) (masks : list mask) : Prop :=
  match rows, masks with
  | [], [] => True
  | (per, u, f) :: rows', m :: masks' => min_groups per u f = Some (len m) /\ minimal_answer rows' masks'
  | _, _ => False
  end.

Fixpoint row_mins (rows : list (list (N * N) * N * N)) : list (option N) :=
  match rows with [] => [] | (per, u, f) :: rows' => min_groups per u f :: row_mins rows' end.

Lemma minimal_answer_mins rows : forall masks, minimal_answer rows masks ->
  row_mins rows = map (fun m : mask => Some (len m)) masks.
Proof.
  induction rows as [|[[per u] f] rows IH]; intros [|m masks] H; cbn [minimal_answer] in H; try contradiction; [reflexivity|].
  destruct H as [H1 H2]. cbn [row_mins map]. rewrite H1, (IH _ H2). reflexivity.
Qed.

(** the rows of the empty worker dominate the rows now: whatever selection holds the amount now, holds it on
    the empty worker *)
Fixpoint rows_dominated (rows_now rows_all : list (list (N * N) * N * N)) : Prop :=
  match rows_now, rows_all with
  | [], [] => True
  | (pn, un, fn) :: rn, (pa, ua, fa) :: ra =>
      un = ua /\ fn = fa /\ len pn = len pa
      /\ (forall m, sufficient pn un fn m = true -> sufficient pa ua fa m = true)
      /\ rows_dominated rn ra
  | _, _ => False
  end.

Lemma min_groups_le per_now per_all u f k_now k_all :
  len per_now = len per_all ->
  (forall m, sufficient per_now u f m = true -> sufficient per_all u f m = true) ->
  min_groups per_now u f = Some k_now -> min_groups per_all u f = Some k_all -> k_all <= k_now.
Proof.
  intros Hlen Hdom Hn Ha.
  pose proof (min_groups_correct per_now u f) as Cn. rewrite Hn in Cn. destruct Cn as [(m & Hm & Hs & Hl) _].
  pose proof (min_groups_correct per_all u f) as Ca. rewrite Ha in Ca. destruct Ca as [_ Hmin].
  assert (Hfm : full_mask per_now = full_mask per_all).
  { unfold full_mask. f_equal. unfold len in Hlen. lia. }
  rewrite Hfm in Hm. specialize (Hmin m Hm (Hdom m Hs)). lia.
Qed.

Definition opt_eqb (a b : option N) : bool :=
  match a, b with Some x, Some y => x =? y | None, None => true | _, _ => false end.

(** with minimal answers: in total at most as many groups now as on the empty worker iff every entry is at its
    empty-worker minimum *)
Lemma counts_iff_at_minimum rows_now : forall rows_all ms_now ms_all,
  rows_dominated rows_now rows_all ->
  minimal_answer rows_now ms_now -> minimal_answer rows_all ms_all ->
  (total_groups ms_now <=? total_groups ms_all) = list_eqb opt_eqb (row_mins rows_now) (row_mins rows_all).
Proof.
  induction rows_now as [|[[pn un] fn] rn IH]; intros [|[[pa ua] fa] ra] [|mn msn] [|ma msa] Hd Hn Ha;
    cbn [rows_dominated minimal_answer] in *; try contradiction.
  - reflexivity.
  - destruct Hd as (-> & -> & Hlen & Hdom & Hd'). destruct Hn as [Hn1 Hn2]. destruct Ha as [Ha1 Ha2].
    cbn [row_mins list_eqb]. rewrite Hn1, Ha1. cbn [opt_eqb]. rewrite <- (IH _ _ _ Hd' Hn2 Ha2).
    pose proof (min_groups_le _ _ _ _ _ _ Hlen Hdom Hn1 Ha1) as Hle.
    assert (Hrest : total_groups msa <= total_groups msn).
    { clear - Hd' Hn2 Ha2. revert ra msn msa Hd' Hn2 Ha2.
      induction rn as [|[[pn un] fn] rn IH]; intros [|[[pa ua] fa] ra] [|mn msn] [|ma msa] Hd Hn Ha;
        cbn [rows_dominated minimal_answer] in *; try contradiction.
      - unfold total_groups. cbn [map]. lia.
      - destruct Hd as (-> & -> & Hlen & Hdom & Hd'). destruct Hn as [Hn1 Hn2]. destruct Ha as [Ha1 Ha2].
        pose proof (min_groups_le _ _ _ _ _ _ Hlen Hdom Hn1 Ha1). specialize (IH _ _ _ Hd' Hn2 Ha2).
        unfold total_groups in *. cbn [map]. rewrite !sumN_cons. lia. }
    unfold total_groups in *. cbn [map]. rewrite !sumN_cons.
    destruct (N.eqb_spec (len mn) (len ma)) as [E|E]; cbn [andb].
    + rewrite E. destruct (N.leb_spec (sumN (map (fun m : mask => len m) msn)) (sumN (map (fun m : mask => len m) msa))),
                          (N.leb_spec (len ma + sumN (map (fun m : mask => len m) msn)) (len ma + sumN (map (fun m : mask => len m) msa))); auto; lia.
    + destruct (N.leb_spec (len mn + sumN (map (fun m : mask => len m) msn)) (len ma + sumN (map (fun m : mask => len m) msa))); auto; lia.
Qed.
