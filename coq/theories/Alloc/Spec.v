(** Executable specification predicates for C04 / C16.  The theorems in Proofs*.v are stated with
    these definitions and the model runner evaluates the very same (extracted) functions as
    monitors on the implementation's outputs. *)
From HQ Require Import Base.Prelude Gen.Consts Alloc.Model.
Open Scope N_scope.

(* ------------------------------------------------------------------------------------------ *)
(** * What is held / what is free *)


Definition sumN (l : list N) : N := fold_right N.add 0 l.

Definition ra_held (ra : ralloc) (g i : N) : N :=
  sumN (map (fun ix => if (ai_group ix =? g) && (ai_index ix =? i) then held_ix ix else 0) (ra_indices ra)).
Definition alloc_held (al : allocation) (r g i : N) : N :=
  sumN (map (fun ra => if ra_res ra =? r then ra_held ra g i else 0) al).
Definition live_held (live : list allocation) (r g i : N) : N :=
  sumN (map (fun al => alloc_held al r g i) live).


(** amount taken from a sum resource *)
Definition alloc_sum_amount (al : allocation) (r : N) : N :=
  sumN (map (fun ra => if ra_res ra =? r then ra_amount ra else 0) al).
Definition live_sum_amount (live : list allocation) (r : N) : N :=
  sumN (map (fun al => alloc_sum_amount al r) live).

Definition memN (x : N) (l : list N) : bool := existsb (N.eqb x) l.

(** free amount of index i in a group *)
Definition group_free (g : group) (i : N) : N := if memN i (g_idx g) then FPU else fget0 (g_fr g) i.


Definition pool_free (p : pool) (g i : N) : N :=
  match nth_error (pool_groups p) (nat_of g) with Some gr => group_free gr i | None => 0 end.

Definition pools_free (pools : list pool) (r g i : N) : N :=
  match nth_error pools (nat_of r) with Some p => pool_free p g i | None => 0 end.

(** the indices a pool owns, per group (read off the initial pools) *)
Definition pool_universe (p : pool) : list (list N) := map g_idx (pool_groups p).

Definition in_universe (pools0 : list pool) (r g i : N) : bool :=
  match nth_error pools0 (nat_of r) with
  | Some p => match nth_error (pool_universe p) (nat_of g) with Some u => memN i u | None => false end
  | None => false
  end.

Fixpoint enum_from {A} (n : N) (l : list A) : list (N * A) :=
  match l with [] => [] | x :: l' => (n, x) :: enum_from (n + 1) l' end.
Definition enum {A} (l : list A) := enum_from 0 l.

(** all (r, g, i) of the initial pools *)
Definition universe_triples (pools0 : list pool) : list (N * N * N) :=
  flat_map (fun rp => flat_map (fun gu => map (fun i => (fst rp, fst gu, i)) (snd gu)) (enum (pool_universe (snd rp))))
           (enum pools0).

Definition live_triples (live : list allocation) : list (N * N * N) :=
  flat_map (fun al => flat_map (fun ra => map (fun ix => (ra_res ra, ai_group ix, ai_index ix)) (ra_indices ra)) al) live.

(* ------------------------------------------------------------------------------------------ *)
(** * C04 predicates *)

(** C04 exclusivity: every held index is an index of the worker, and no index is held beyond 100 % *)
Definition exclusive_ok (pools0 : list pool) (live : list allocation) : bool :=
  forallb (fun t => let '(r, g, i) := t in in_universe pools0 r g i) (live_triples live)
  && forallb (fun t => let '(r, g, i) := t in live_held live r g i <=? FPU) (universe_triples pools0).

(** C04 sum bound: amounts taken from a sum resource never exceed its size *)
Definition sum_bound_ok (pools0 : list pool) (live : list allocation) : bool :=
  forallb (fun rp => match snd rp with
                     | PSum full _ => live_sum_amount live (fst rp) <=? full
                     | _ => true
                     end) (enum pools0).


Definition pool_is_sum (p : pool) : bool := match p with PSum _ _ => true | _ => false end.

(** C04 exact amount for one entry / resource allocation pair *)
Definition ra_exact (pools0 : list pool) (e : entry) (ra : ralloc) : bool :=
  match nth_error pools0 (nat_of (e_res e)) with
  | None => false
  | Some p =>
      (ra_res ra =? e_res e)
      && (ra_amount ra =? req_amount (e_req e) (pool_full_size p))
      && (if pool_is_sum p then match ra_indices ra with [] => true | _ => false end
          else (ra_total ra =? ra_amount ra) && shape_ok (ra_indices ra))
  end.

Fixpoint exact_amount_ok (pools0 : list pool) (rq : request) (al : allocation) : bool :=
  match rq, al with
  | [], [] => true
  | e :: rq', ra :: al' => ra_exact pools0 e ra && exact_amount_ok pools0 rq' al'
  | _, _ => false
  end.

(** the same without relying on the order of the entries: as many resource allocations as entries,
    each one exact for some entry of the request *)
Definition exact_amount_set_ok (pools0 : list pool) (rq : request) (al : allocation) : bool :=
  (len al =? len rq) && forallb (fun ra => existsb (fun e => ra_exact pools0 e ra) rq) al.

(** `all` is only granted when everything is free *)
Definition all_entries_free (pools_before : list pool) (pools0 : list pool) (rq : request) : bool :=
  forallb (fun e => match e_req e with
                    | ReqAll =>
                        forallb (fun t => let '(r, g, i) := t in
                                          negb (r =? e_res e) || (pools_free pools_before r g i =? FPU))
                                (universe_triples pools0)
                        && match nth_error pools_before (nat_of (e_res e)) with
                           | Some (PSum full free) => free =? full
                           | _ => true
                           end
                    | _ => true
                    end) rq.

(** C04 told-is-held / release: the free view changes by exactly what the allocation holds *)
Definition transfer_ok (pools0 before after : list pool) (al : allocation) : bool :=
  forallb (fun t => let '(r, g, i) := t in
                    pools_free before r g i =? pools_free after r g i + alloc_held al r g i)
          (universe_triples pools0)
  && forallb (fun t => let '(r, g, i) := t in in_universe pools0 r g i) (live_triples [al])
  && forallb (fun rp => match snd rp, nth_error after (nat_of (fst rp)) with
                        | PSum _ fb, Some (PSum _ fa) => fb =? fa + alloc_sum_amount al (fst rp)
                        | PSum _ _, _ => false
                        | _, _ => true
                        end) (enum before).

(** conservation: free + held = 100 % for every index, free + taken = size for sums *)
Definition conserved_ok (pools0 pools : list pool) (live : list allocation) : bool :=
  forallb (fun t => let '(r, g, i) := t in pools_free pools r g i + live_held live r g i =? FPU)
          (universe_triples pools0)
  && forallb (fun rp => match snd rp, nth_error pools (nat_of (fst rp)) with
                        | PSum full _, Some (PSum full' free) => (full =? full') && (free + live_sum_amount live (fst rp) =? full)
                        | PSum _ _, _ => false
                        | _, _ => true
                        end) (enum pools0).

(** equality of free states up to the order of the index stacks and of the hash maps *)
Definition sub_list (a b : list N) : bool := forallb (fun x => memN x b) a.
Definition fmap_sub (a b : fmap) : bool := forallb (fun kv => match fget b (fst kv) with Some v => v =? snd kv | None => false end) a.
Definition group_equiv (a b : group) : bool :=
  (len (g_idx a) =? len (g_idx b)) && sub_list (g_idx a) (g_idx b) && sub_list (g_idx b) (g_idx a)
  && fmap_sub (g_fr a) (g_fr b) && fmap_sub (g_fr b) (g_fr a).
Fixpoint groups_equiv (a b : list group) : bool :=
  match a, b with
  | [], [] => true
  | x :: a', y :: b' => group_equiv x y && groups_equiv a' b'
  | _, _ => false
  end.
Definition pool_equiv (a b : pool) : bool :=
  match a, b with
  | PEmpty, PEmpty => true
  | PIndices f g, PIndices f' g' => (f =? f') && group_equiv g g'
  | PGroups f gs, PGroups f' gs' => (f =? f') && groups_equiv gs gs'
  | PSum f x, PSum f' x' => (f =? f') && (x =? x')
  | _, _ => false
  end.
Fixpoint pools_equiv (a b : list pool) : bool :=
  match a, b with
  | [], [] => true
  | x :: a', y :: b' => pool_equiv x y && pools_equiv a' b'
  | _, _ => false
  end.

(** C04 concise mirrors: the admission summary = summary recomputed from the pools, modulo
    zero entries (the debug-only [validate()] of the allocator: strip_zeros on both sides) *)
Definition fmap_sub0 (a b : fmap) : bool := forallb (fun kv => fget0 b (fst kv) =? fget0 a (fst kv)) a.
Definition cgroup_equiv (a b : cgroup) : bool :=
  (c_units a =? c_units b) && fmap_sub0 (c_fr a) (c_fr b) && fmap_sub0 (c_fr b) (c_fr a).
Fixpoint cstate_equiv (a b : cstate) : bool :=
  match a, b with
  | [], [] => true
  | x :: a', y :: b' => cgroup_equiv x y && cstate_equiv a' b'
  | _, _ => false
  end.
Fixpoint mirror_ok (pools : list pool) (free : list cstate) : bool :=
  match pools, free with
  | [], [] => true
  | p :: pools', s :: free' => cstate_equiv (concise_state p) s && mirror_ok pools' free'
  | _, _ => false
  end.

(* ------------------------------------------------------------------------------------------ *)
(** * C16 predicates *)

(** per group (free whole units, biggest free fraction) read off a POOL (not the concise mirror) *)
Definition pool_per_group (p : pool) : list (N * N) :=
  map (fun g => (len (g_idx g), fmax (g_fr g))) (pool_groups p).

(** A set of groups [m] can hold (units, fr): enough whole indices, and the fraction from a single
    index - either a partly used index with enough left or one more whole index. *)
Definition sufficient (per : list (N * N)) (units fr : N) (m : mask) : bool :=
  (units <=? mask_sum per m fst)
  && ((fr =? 0) || (units + 1 <=? mask_sum per m fst)
      || existsb (fun gi => match nth_error per (nat_of gi) with Some uf => fr <=? snd uf | None => false end) m).

Fixpoint sublists {A} (l : list A) : list (list A) :=
  match l with
  | [] => [[]]
  | x :: l' => let r := sublists l' in map (cons x) r ++ r
  end.

Definition min_opt (a : option N) (b : N) : option N :=
  match a with Some x => Some (N.min x b) | None => Some b end.

(** reference: the smallest number of groups that can hold the amount ([None]: not even all groups) *)
Definition min_groups (per : list (N * N)) (units fr : N) : option N :=
  fold_right (fun m acc => if sufficient per units fr m then min_opt acc (len m) else acc) None
             (sublists (full_mask per)).

Fixpoint dedup (l : list N) : list N :=
  match l with [] => [] | x :: l' => if memN x l' then dedup l' else x :: dedup l' end.
Definition groups_used (ra : ralloc) : N := len (dedup (map ai_group (ra_indices ra))).

(** reference admission test computed from the POOLS: the free resources contain enough *)
Definition entry_fits (pools : list pool) (e : entry) : bool :=
  match nth_error pools (nat_of (e_res e)) with
  | None => false
  | Some PEmpty => match e_req e with Req _ a => a =? 0 | ReqAll => true end
  | Some (PSum full free) => match e_req e with Req _ a => a <=? free | ReqAll => free =? full end
  | Some p =>
      let per := pool_per_group p in
      match e_req e with
      | Req _ a => let '(u, f) := split a in sufficient per u f (full_mask per)
      | ReqAll => (mask_sum per (full_mask per) fst * FPU =? pool_full_size p)
      end
  end.
Definition request_fits (pools : list pool) (rq : request) : bool := forallb (entry_fits pools) rq.

Definition is_coupled (pools : list pool) (e : entry) : bool :=
  match nth_error pools (nat_of (e_res e)) with
  | Some p => is_groups p && is_relevant_for_coupling (e_req e)
  | None => false
  end.

(** the coupling weights play a role for this request *)
Definition weights_apply (pools : list pool) (ws : list cweight) (rq : request) : bool :=
  existsb (fun w => existsb (fun e => is_coupled pools e && (e_res e =? cw_r1 w)) rq
                    && existsb (fun e => is_coupled pools e && (e_res e =? cw_r2 w)) rq) ws.

(** C16 group count: compact/tight use the minimum for the state before the grant, the strict
    variants the minimum for the empty worker *)
Definition group_count_ok (pools0 before : list pool) (e : entry) (ra : ralloc) : bool :=
  match e_req e, nth_error before (nat_of (e_res e)), nth_error pools0 (nat_of (e_res e)) with
  | Req p a, Some (PGroups _ _ as pb), Some p0 =>
      let '(u, f) := split a in
      match p with
      | Compact | Tight => match min_groups (pool_per_group pb) u f with Some k => groups_used ra =? k | None => false end
      | ForceCompact | ForceTight => match min_groups (pool_per_group p0) u f with Some k => groups_used ra =? k | None => false end
      | Scatter => true
      end
  | _, _, _ => true
  end.

Definition whole_count (ra : ralloc) (g : N) : N :=
  len (filter (fun ix => (ai_group ix =? g) && (ai_frac ix =? 0)) (ra_indices ra)).

(** scatter: the whole indices come from as many groups as have a free index (or one per unit) *)
Definition scatter_ok (before : list pool) (e : entry) (ra : ralloc) : bool :=
  match e_req e, nth_error before (nat_of (e_res e)) with
  | Req Scatter a, Some (PGroups _ gs) =>
      let nonempty := len (filter (fun g => negb (len (g_idx g) =? 0)) gs) in
      let used := len (filter (fun gi => negb (whole_count ra gi =? 0)) (seqN 0 (length gs))) in
      used =? N.min (fst (split a)) nonempty
  | _, _ => true
  end.

(** compact: whole indices are spread evenly over the groups used: two groups differ by more than
    one index only if the smaller one was drained *)
Definition compact_even_ok (before : list pool) (e : entry) (ra : ralloc) : bool :=
  match e_req e, nth_error before (nat_of (e_res e)) with
  | Req Compact _, Some (PGroups _ gs) | Req ForceCompact _, Some (PGroups _ gs) =>
      let used := dedup (map ai_group (ra_indices ra)) in
      forallb (fun g => forallb (fun h =>
          (whole_count ra h <=? whole_count ra g + 1)
          || match nth_error gs (nat_of g) with Some gr => whole_count ra g =? len (g_idx gr) | None => false end) used) used
  | _, _ => true
  end.

(** tight: at most one of the groups used is not drained of its whole indices *)
Definition tight_ok (before : list pool) (e : entry) (ra : ralloc) : bool :=
  match e_req e, nth_error before (nat_of (e_res e)) with
  | Req Tight _, Some (PGroups _ gs) | Req ForceTight _, Some (PGroups _ gs) =>
      let used := dedup (map ai_group (ra_indices ra)) in
      len (filter (fun g => match nth_error gs (nat_of g) with
                            | Some gr => whole_count ra g <? len (g_idx gr)
                            | None => true end) used) <=? 1
  | _, _ => true
  end.

(** min-fraction rule: a fractional remainder is taken from the partly used index of its group with the
    LEAST free fraction that still fits; only if none fits a whole free index is split *)
Definition min_fraction_ok (before : list pool) (e : entry) (ra : ralloc) : bool :=
  match nth_error before (nat_of (e_res e)) with
  | Some p =>
      forallb (fun ix =>
        if ai_frac ix =? 0 then true
        else match nth_error (pool_groups p) (nat_of (ai_group ix)) with
             | Some g =>
                 match cand_min (g_fr g) (ai_frac ix) with
                 | Some mn => match fget (g_fr g) (ai_index ix) with Some v => v =? mn | None => false end
                 | None => memN (ai_index ix) (g_idx g)
                 end
             | None => false
             end) (ra_indices ra)
  | None => true
  end.

(** optimality of a solver answer, checked per answer (DESIGN C16 Limits): no assignment of masks
    has a larger objective.  Brute force over all mask tuples. *)
Fixpoint all_mask_tuples (rows : list (list (N * N) * N * N)) : list (list mask) :=
  match rows with
  | [] => [[]]
  | (per, _, _) :: rows' =>
      let rest := all_mask_tuples rows' in
      flat_map (fun m => map (cons m) rest) (sublists (full_mask per))
  end.

Definition solver_objective (tie : bool) (rows : list (list (N * N) * N * N)) (entries : list entry) (ws : list cweight) (masks : list mask) : option Z :=
  if masks_feasible rows masks then
    match weights_objective entries (map (fun r => len (fst (fst r))) rows) ws masks with
    | Ok wobj => Some (masks_objective tie rows masks + wobj)%Z
    | _ => None
    end
  else None.

Definition best_objective (tie : bool) (rows : list (list (N * N) * N * N)) (entries : list entry) (ws : list cweight) : option Z :=
  fold_right (fun ms acc => match solver_objective tie rows entries ws ms, acc with
                            | Some o, Some b => Some (Z.max o b)
                            | Some o, None => Some o
                            | None, _ => acc
                            end) None (all_mask_tuples rows).

(** the coupled entries of a request, as claim_resources collects them *)
Definition coupled_entries (pools : list pool) (rq : request) : list entry := filter (is_coupled pools) rq.

Definition answer_optimal (tie : bool) (free : list cstate) (pools : list pool) (ws : list cweight) (rq : request) (ans : list mask) : bool :=
  let entries := coupled_entries pools rq in
  match solver_rows free entries with
  | Ok rows =>
      match solver_objective tie rows entries ws ans, best_objective tie rows entries ws with
      | Some o, Some b => Z.eqb o b
      | _, _ => false
      end
  | _ => false
  end.
