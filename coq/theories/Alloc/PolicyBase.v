(** C16 policy shapes - common definitions and lemmas: counting whole indices per group, elementary facts
    about take_indices / best_fraction_match / the fraction helpers, counting lemmas over [seqN]. *)
From Coq Require Import Permutation.
From HQ Require Import Base.Prelude Gen.Consts Alloc.Model Alloc.Spec Alloc.Lemmas Alloc.Group Alloc.Pool Alloc.Inv Alloc.System Alloc.Mirror Alloc.MirrorSystem Alloc.Complete Alloc.CompleteTight.
Require Import ZifyBool ZifyN ZifyNat.
Open Scope N_scope.
Arguments N.add : simpl never.
Arguments N.sub : simpl never.
Arguments N.mul : simpl never.
Arguments N.div : simpl never.
Arguments N.modulo : simpl never.
Arguments N.eqb : simpl never.
Arguments N.ltb : simpl never.
Arguments N.leb : simpl never.
Arguments N.of_nat : simpl never.
Arguments N.to_nat : simpl never.
Arguments sumN : simpl never.

(* ------------------------------------------------------------------------------------------ *)
(** * whole indices per group of a list of AllocationIndex *)

Definition wc (out : list aidx) (g : N) : N :=
  len (filter (fun ix => (ai_group ix =? g) && (ai_frac ix =? 0)) out).

Lemma whole_count_wc ra g : whole_count ra g = wc (ra_indices ra) g.
Proof. reflexivity. Qed.

Lemma wc_nil g : wc [] g = 0.
Proof. reflexivity. Qed.

Lemma wc_cons ix l g :
  wc (ix :: l) g = (if (ai_group ix =? g) && (ai_frac ix =? 0) then 1 else 0) + wc l g.
Proof.
  unfold wc. cbn [filter]. destruct ((ai_group ix =? g) && (ai_frac ix =? 0)); unfold len; cbn [length]; lia.
Qed.

Lemma wc_app a b g : wc (a ++ b) g = wc a g + wc b g.
Proof. unfold wc. rewrite filter_app, len_app. auto. Qed.

Lemma wc_perm a b g : Permutation a b -> wc a g = wc b g.
Proof. induction 1; rewrite ?wc_cons; lia. Qed.

Lemma wc_whole_same i gi g : wc [mkAidx i gi 0] g = if gi =? g then 1 else 0.
Proof. rewrite wc_cons, wc_nil. cbn [ai_group ai_frac]. rewrite N.eqb_refl, andb_true_r. destruct (gi =? g); lia. Qed.

Lemma wc_frac F g : ai_frac F <> 0 -> wc [F] g = 0.
Proof.
  intros H. rewrite wc_cons, wc_nil. destruct (N.eqb_spec (ai_frac F) 0); [congruence|]. rewrite andb_false_r. lia.
Qed.

(** a block of whole indices of one group *)
Lemma wc_block (l : list N) gi g : wc (map (fun i => mkAidx i gi 0) l) g = if gi =? g then len l else 0.
Proof.
  induction l as [|i l IH]; cbn [map].
  - rewrite wc_nil. destruct (gi =? g); reflexivity.
  - rewrite wc_cons, IH. cbn [ai_group ai_frac]. rewrite N.eqb_refl, andb_true_r.
    unfold len. cbn [length]. destruct (gi =? g); lia.
Qed.

(** number of whole indices *)
Definition nwhole (out : list aidx) : N := len (filter (fun ix => ai_frac ix =? 0) out).

Lemma nwhole_app a b : nwhole (a ++ b) = nwhole a + nwhole b.
Proof. unfold nwhole. rewrite filter_app, len_app. auto. Qed.

Lemma nwhole_cons ix l : nwhole (ix :: l) = (if ai_frac ix =? 0 then 1 else 0) + nwhole l.
Proof. unfold nwhole. cbn [filter]. destruct (ai_frac ix =? 0); unfold len; cbn [length]; lia. Qed.

Lemma nwhole_nil : nwhole [] = 0.
Proof. reflexivity. Qed.

Lemma nwhole_perm a b : Permutation a b -> nwhole a = nwhole b.
Proof. induction 1; rewrite ?nwhole_cons; lia. Qed.

(* ------------------------------------------------------------------------------------------ *)
(** * free whole indices of a group of a group list *)

Definition lenidx (gs : list group) (gi : N) : N :=
  match get_at gs gi with Ok g => len (g_idx g) | _ => 0 end.

Lemma lenidx_get gs gi g : get_at gs gi = Ok g -> lenidx gs gi = len (g_idx g).
Proof. unfold lenidx. intros ->. auto. Qed.

Lemma lenidx_set_at_same gs gi g g' : get_at gs gi = Ok g -> lenidx (set_at gs gi g') gi = len (g_idx g').
Proof. intros H. unfold lenidx. rewrite (get_at_set_at_same' _ _ _ _ H). auto. Qed.

Lemma lenidx_set_at_other gs gi gj g' : gi <> gj -> lenidx (set_at gs gi g') gj = lenidx gs gj.
Proof. intros H. unfold lenidx. rewrite get_at_set_at_other by auto. auto. Qed.

Lemma lenidx_nth gs gi : lenidx gs gi = match nth_error gs (nat_of gi) with Some g => len (g_idx g) | None => 0 end.
Proof.
  unfold lenidx. destruct (get_at gs gi) as [g| |] eqn:E.
  - apply get_at_ok in E. destruct E as [_ ->]. auto.
  - exfalso. eapply get_at_not_disabled; eauto.
  - unfold get_at in E. destruct (N.ltb_spec gi (len gs)).
    + destruct (nth_res_lt gs (nat_of gi)) as [x Hx]; [unfold len, nat_of in *; lia|]. congruence.
    + assert (X : nth_error gs (nat_of gi) = None) by (apply nth_error_None; unfold len, nat_of in *; lia).
      rewrite X. auto.
Qed.

Lemma get_at_range {A} (l : list A) i x : get_at l i = Ok x -> i < len l.
Proof. intros H. apply get_at_ok in H. tauto. Qed.

Lemma get_at_fun {A} (l : list A) i x y : get_at l i = Ok x -> get_at l i = Ok y -> x = y.
Proof. congruence. Qed.

(* ------------------------------------------------------------------------------------------ *)
(** * seqN *)

Lemma length_seqN n : forall k, length (seqN k n) = n.
Proof. induction n; intros k; simpl; auto. Qed.

Lemma nth_error_seqN n : forall k j x, nth_error (seqN k n) j = Some x -> x = k + N.of_nat j.
Proof.
  induction n as [|n IH]; intros k j x H.
  - destruct j; discriminate.
  - destruct j as [|j]; simpl in H.
    + inversion H; subst. lia.
    + apply IH in H. lia.
Qed.

Lemma in_seqN n : forall k x, In x (seqN k n) <-> k <= x < k + N.of_nat n.
Proof.
  induction n as [|n IH]; intros k x; simpl.
  - lia.
  - rewrite IH. lia.
Qed.

Lemma get_at_seqN n j x : get_at (seqN 0 n) j = Ok x -> x = j.
Proof.
  intros H. apply get_at_ok in H. destruct H as [_ H]. apply nth_error_seqN in H. unfold nat_of in H. lia.
Qed.

Lemma get_at_seqN_lt n j : j < N.of_nat n -> get_at (seqN 0 n) j = Ok j.
Proof.
  intros H. destruct (get_at_lt (seqN 0 n) j) as [x Hx].
  - unfold len. rewrite length_seqN. auto.
  - rewrite Hx. f_equal. eapply get_at_seqN; eauto.
Qed.

Lemma nodup_seqN n : forall k, NoDup (seqN k n).
Proof.
  induction n as [|n IH]; intros k; simpl; constructor; auto.
  rewrite in_seqN. lia.
Qed.

(* ------------------------------------------------------------------------------------------ *)
(** * counting *)

Lemma sum_ge_count {A} (f : A -> N) l : len (filter (fun j => negb (f j =? 0)) l) <= sumN (map f l).
Proof.
  induction l as [|x l IH]; cbn [map filter]; rewrite ?sumN_cons.
  - unfold len. simpl. rewrite sumN_nil. lia.
  - destruct (N.eqb_spec (f x) 0); cbn [negb]; unfold len in *; cbn [length]; lia.
Qed.

Lemma sum_eq_count {A} (f : A -> N) l : (forall j, In j l -> f j <= 1) ->
  sumN (map f l) = len (filter (fun j => negb (f j =? 0)) l).
Proof.
  induction l as [|x l IH]; intros H; cbn [map filter]; rewrite ?sumN_cons.
  - reflexivity.
  - rewrite IH by (intros; apply H; right; auto).
    assert (f x <= 1) by (apply H; left; auto).
    destruct (N.eqb_spec (f x) 0); cbn [negb]; unfold len in *; cbn [length]; lia.
Qed.

Lemma count_le {A} (p q : A -> bool) l : (forall j, In j l -> p j = true -> q j = true) ->
  len (filter p l) <= len (filter q l).
Proof.
  induction l as [|x l IH]; intros H; cbn [filter]; [lia|].
  assert (IH' : len (filter p l) <= len (filter q l)) by (apply IH; intros; apply H; auto; right; auto).
  destruct (p x) eqn:Ep.
  - rewrite (H x) by (auto; left; auto). unfold len in *; cbn [length]; lia.
  - destruct (q x); unfold len in *; cbn [length]; lia.
Qed.

Lemma count_ext {A} (p q : A -> bool) l : (forall j, In j l -> p j = q j) -> len (filter p l) = len (filter q l).
Proof.
  intros H. assert (len (filter p l) <= len (filter q l)) by (apply count_le; intros j Hj; rewrite H; auto).
  assert (len (filter q l) <= len (filter p l)) by (apply count_le; intros j Hj; rewrite H; auto).
  lia.
Qed.

(** filter over the elements = filter over the positions *)
Lemma count_positions {A} (p : A -> bool) (f : N -> bool) (l : list A) : forall k,
  (forall j x, nth_error l j = Some x -> f (k + N.of_nat j) = p x) ->
  len (filter p l) = len (filter f (seqN k (length l))).
Proof.
  induction l as [|x l IH]; intros k H; cbn [filter length seqN]; [reflexivity|].
  assert (E0 : f k = p x) by (rewrite <- (H O x eq_refl); f_equal; lia).
  rewrite E0.
  assert (IH' : len (filter p l) = len (filter f (seqN (k + 1) (length l)))).
  { apply IH. intros j y Hy. rewrite <- (H (S j) y Hy). f_equal. lia. }
  destruct (p x); unfold len in *; cbn [length]; lia.
Qed.

(** the whole indices, counted per group *)
Lemma nwhole_sum_wc out n : Forall (fun ix => ai_group ix < N.of_nat n) out ->
  nwhole out = sumN (map (wc out) (seqN 0 n)).
Proof.
  assert (Z : forall l, sumN (map (wc []) l) = 0) by (intros l; apply sumN_map_zero; intros; apply wc_nil).
  assert (One : forall g m k, sumN (map (fun j => if g =? j then 1 else 0) (seqN k m)) = if (k <=? g) && (g <? k + N.of_nat m) then 1 else 0).
  { intros g m. induction m as [|m IHm]; intros k; cbn [seqN map].
    - rewrite sumN_nil. destruct (N.leb_spec k g), (N.ltb_spec g (k + N.of_nat 0)); simpl; lia.
    - rewrite sumN_cons, IHm.
      destruct (N.eqb_spec g k), (N.leb_spec (k + 1) g), (N.ltb_spec g (k + 1 + N.of_nat m)), (N.leb_spec k g), (N.ltb_spec g (k + N.of_nat (S m))); simpl; lia. }
  induction out as [|ix out IH]; intros H.
  - rewrite Z. reflexivity.
  - inversion H as [|? ? Hix Hout]; subst. rewrite nwhole_cons, (IH Hout).
    assert (E : forall l, sumN (map (wc (ix :: out)) l)
                          = sumN (map (fun j => if ai_group ix =? j then (if ai_frac ix =? 0 then 1 else 0) else 0) l) + sumN (map (wc out) l)).
    { induction l as [|j l IHl]; cbn [map]; rewrite ?sumN_cons, ?sumN_nil; [lia|].
      rewrite IHl, wc_cons. destruct (ai_group ix =? j), (ai_frac ix =? 0); simpl; lia. }
    rewrite E. f_equal.
    destruct (ai_frac ix =? 0).
    + rewrite One. destruct (N.leb_spec 0 (ai_group ix)), (N.ltb_spec (ai_group ix) (0 + N.of_nat n)); simpl; lia.
    + symmetry. apply sumN_map_zero. intros j _. destruct (ai_group ix =? j); auto.
Qed.

(* ------------------------------------------------------------------------------------------ *)
(** * elementary facts about the helpers of the claim functions *)

Lemma take_indices_inv st gid units out st' out' :
  take_indices st gid units out = Ok (st', out') ->
  units <= len st /\ st' = skipn (nat_of units) st
  /\ out' = out ++ map (fun i => mkAidx i gid 0) (firstn (nat_of units) st).
Proof.
  unfold take_indices. destruct (N.ltb_spec (len st) units) as [Hlt|Hge]; [discriminate|].
  intros H; inversion H; subst. auto.
Qed.

Lemma len_firstn {A} (l : list A) units : units <= len l -> len (firstn (nat_of units) l) = units.
Proof. intros H. unfold len, nat_of in *. rewrite firstn_length. lia. Qed.

Lemma len_skipn {A} (l : list A) units : len (skipn (nat_of units) l) = len l - units.
Proof. unfold len, nat_of. rewrite skipn_length. lia. Qed.

Lemma incl_skipn {A} (l : list A) k : incl (skipn k l) l.
Proof. intros x Hx. rewrite <- (firstn_skipn k l). apply in_or_app. auto. Qed.

(** best_fraction_match picks an entry with the LEAST fitting value; None only if nothing fits *)
Lemma bfm_some_min m fr wit i f :
  best_fraction_match m fr wit = Ok (Some (i, f)) -> cand_min m fr = Some f /\ fget m i = Some f.
Proof.
  unfold best_fraction_match. destruct (cand_min m fr) as [mn|] eqn:E; [|discriminate].
  destruct wit as [j|]; [|discriminate]. destruct (fget m j) as [v|] eqn:Ej; [|discriminate].
  destruct (N.eqb_spec v mn); [|discriminate]. intros H; inversion H; subst. auto.
Qed.

Lemma bfm_none m fr wit : best_fraction_match m fr wit = Ok None -> cand_min m fr = None.
Proof.
  unfold best_fraction_match. destruct (cand_min m fr) as [mn|] eqn:E; auto.
  destruct wit as [j|]; [|discriminate]. destruct (fget m j) as [v|]; [|discriminate].
  destruct (v =? mn); discriminate.
Qed.

Lemma scatter_loop_done fuel gs sel pos wit out : scatter_loop fuel gs sel 0 0 pos wit out = Ok (gs, out).
Proof. destruct fuel; reflexivity. Qed.

(** swap_to_last permutes *)
Lemma swap_to_last_perm {A} (l : list A) : forall k, Permutation (swap_to_last l k) l.
Proof.
  induction l as [|x l IH]; intros k; [destruct k; apply Permutation_refl|].
  destruct k as [|k]; cbn [swap_to_last].
  - destruct (rev l) as [|y r] eqn:E.
    + assert (l = []) by (destruct l; auto; simpl in E; destruct (rev l); discriminate). subst. apply Permutation_refl.
    + assert (Hl : l = rev r ++ [y]) by (rewrite <- (rev_involutive l), E; reflexivity). rewrite Hl.
      change (y :: rev r ++ [x]) with ((y :: rev r) ++ [x]).
      eapply perm_trans; [apply Permutation_app_comm|]. cbn [app]. apply perm_skip.
      apply Permutation_cons_append.
  - apply perm_skip. apply IH.
Qed.

(** membership in a de-duplicated list *)
Lemma in_dedup x l : In x (dedup l) <-> In x l.
Proof.
  induction l as [|y l IH]; simpl; [tauto|].
  destruct (memN y l) eqn:E.
  - rewrite IH. apply memN_in in E. split; auto. intros [->|H]; auto.
  - simpl. rewrite IH. tauto.
Qed.

Lemma nodup_dedup l : NoDup (dedup l).
Proof.
  induction l as [|y l IH]; simpl; [constructor|].
  destruct (memN y l) eqn:E; auto. constructor; auto. rewrite in_dedup. apply memN_false. auto.
Qed.

Lemma filter_at_most_one (f : N -> bool) l a : NoDup l -> (forall x, In x l -> f x = true -> x = a) ->
  len (filter f l) <= 1.
Proof.
  induction l as [|y l IH]; intros Hnd H; cbn [filter]; [unfold len; simpl; lia|].
  inversion Hnd as [|? ? Hn Hd]; subst.
  destruct (f y) eqn:E.
  - assert (y = a) by (apply H; auto; left; auto). subst y.
    assert (Z : filter f l = []).
    { destruct (filter f l) as [|z r] eqn:Ef; auto. exfalso.
      assert (Hz : In z (filter f l)) by (rewrite Ef; left; auto). apply filter_In in Hz. destruct Hz as [Hz1 Hz2].
      assert (z = a) by (apply H; auto; right; auto). subst. auto. }
    rewrite Z. unfold len; simpl; lia.
  - apply IH; auto. intros x Hx. apply H. right; auto.
Qed.
