(** C16: the reference minimum number of groups, and the meaning of the group solver's rows. *)
From HQ Require Import Base.Prelude Gen.Consts Alloc.Model Alloc.Spec Alloc.Lemmas.
Require Import ZifyBool ZifyN ZifyNat.
Open Scope N_scope.
Arguments N.add : simpl never.
Arguments N.eqb : simpl never.
Arguments N.ltb : simpl never.
Arguments N.leb : simpl never.
Arguments N.of_nat : simpl never.
Arguments N.to_nat : simpl never.

(** generic: the fold used by [min_groups] computes the minimum of [f] over the elements satisfying [p] *)
Lemma fold_min_correct {A} (p : A -> bool) (f : A -> N) (l : list A) :
  match fold_right (fun m acc => if p m then min_opt acc (f m) else acc) None l with
  | Some k => (exists m, In m l /\ p m = true /\ f m = k) /\ (forall m, In m l -> p m = true -> k <= f m)
  | None => forall m, In m l -> p m = false
  end.
Proof.
  induction l as [|x l IH]; simpl.
  - intros m [].
  - destruct (fold_right (fun m acc => if p m then min_opt acc (f m) else acc) None l) as [k|] eqn:E.
    + destruct IH as [(m & Hm & Hp & Hf) Hmin]. destruct (p x) eqn:Ex; simpl.
      * split.
        -- destruct (N.min_spec k (f x)) as [[Hlt Hmn]|[Hle Hmn]]; rewrite Hmn.
           ++ exists m. auto.
           ++ exists x. auto.
        -- intros y [Hy|Hy] Hpy; [subst; lia | specialize (Hmin y Hy Hpy); lia].
      * split; [exists m; auto|]. intros y [Hy|Hy] Hpy; [subst; congruence | auto].
    + destruct (p x) eqn:Ex; simpl.
      * split; [exists x; auto|]. intros y [Hy|Hy] Hpy; [subst; lia | rewrite IH in Hpy; auto; discriminate].
      * intros y [Hy|Hy]; [subst; auto | auto].
Qed.

(** every set of groups is a sublist of the full mask *)
Lemma in_sublists_nil {A} (l : list A) : In [] (sublists l).
Proof. induction l; simpl; auto. apply in_or_app. right. auto. Qed.

(** C16_min_groups_correct: the reference is the true minimum over all sets of groups:
    it is achieved by some set, and no sufficient set is smaller; [None] iff no set is sufficient. *)
Theorem min_groups_correct per units fr :
  match min_groups per units fr with
  | Some k =>
      (exists m, In m (sublists (full_mask per)) /\ sufficient per units fr m = true /\ len m = k)
      /\ (forall m, In m (sublists (full_mask per)) -> sufficient per units fr m = true -> k <= len m)
  | None => forall m, In m (sublists (full_mask per)) -> sufficient per units fr m = false
  end.
Proof. unfold min_groups. apply (fold_min_correct (sufficient per units fr) len). Qed.

(** sufficiency is monotone: a superset of a sufficient set of groups is sufficient *)
Lemma mask_sum_cons per g m coef :
  mask_sum per (g :: m) coef = match nth_error per (nat_of g) with Some uf => coef uf + mask_sum per m coef | None => mask_sum per m coef end.
Proof. reflexivity. Qed.

(** the rows of the MILP (groups.rs) say exactly "the selected groups are sufficient" *)
Definition count_fit (per : list (N * N)) (fr : N) (m : mask) : N :=
  mask_sum per m (fun uf => if fr <=? snd uf then 1 else 0).

Lemma mask_sum_fit per fr m :
  mask_sum per m (fun uf => if fr <=? snd uf then fst uf + 1 else fst uf) = mask_sum per m fst + count_fit per fr m.
Proof.
  unfold count_fit. induction m as [|g m IH]; [reflexivity|].
  rewrite !mask_sum_cons. destruct (nth_error per (nat_of g)) as [uf|]; auto.
  rewrite IH. destruct (fr <=? snd uf); lia.
Qed.

Lemma count_fit_exists per fr m :
  (0 <? count_fit per fr m) = existsb (fun gi => match nth_error per (nat_of gi) with Some uf => fr <=? snd uf | None => false end) m.
Proof.
  unfold count_fit. induction m as [|g m IH]; [reflexivity|].
  rewrite mask_sum_cons. simpl existsb. destruct (nth_error per (nat_of g)) as [uf|]; simpl.
  - destruct (fr <=? snd uf); simpl; [|rewrite <- IH; f_equal; lia].
    destruct (N.ltb_spec 0 (1 + mask_sum per m (fun uf0 => if fr <=? snd uf0 then 1 else 0))); auto. lia.
  - auto.
Qed.

Lemma count_fit_no_candidate per fr m : need_second_check per fr = false -> count_fit per fr m = 0.
Proof.
  intros H. unfold count_fit. induction m as [|g m IH]; [reflexivity|].
  rewrite mask_sum_cons. destruct (nth_error per (nat_of g)) as [uf|] eqn:E; auto.
  unfold need_second_check in H.
  assert (fr <=? snd uf = false).
  { destruct (fr <=? snd uf) eqn:E2; auto.
    assert (existsb (fun uf => fr <=? snd uf) per = true) by (apply existsb_exists; exists uf; split; auto; eapply nth_error_In; eauto).
    congruence. }
  rewrite H0. lia.
Qed.

(** C16: the constraint rows group_solver builds hold for a 0/1 assignment iff the selected groups
    can hold the amount (enough whole indices, the fraction from one index) *)
Theorem rows_mean_sufficient per units fr m : mask_feasible per units fr m = sufficient per units fr m.
Proof.
  unfold mask_feasible, sufficient. destruct (N.eqb_spec fr 0) as [Hz|Hz].
  - simpl. rewrite andb_true_r. auto.
  - simpl orb. rewrite mask_sum_fit. rewrite <- count_fit_exists.
    destruct (need_second_check per fr) eqn:En.
    + rewrite andb_true_r.
      destruct (N.ltb_spec 0 units); destruct (N.leb_spec units (mask_sum per m fst));
        destruct (N.leb_spec (units + 1) (mask_sum per m fst + count_fit per fr m));
        destruct (N.leb_spec (units + 1) (mask_sum per m fst));
        destruct (N.ltb_spec 0 (count_fit per fr m)); simpl; auto; lia.
    + rewrite andb_false_r. rewrite (count_fit_no_candidate _ _ _ En).
      destruct (N.leb_spec units (mask_sum per m fst));
        destruct (N.leb_spec (units + 1) (mask_sum per m fst + 0));
        destruct (N.leb_spec (units + 1) (mask_sum per m fst));
        destruct (N.ltb_spec 0 0); simpl; auto; lia.
Qed.

(** hence: "no solution" is reported correctly iff even all groups together are not sufficient *)
Lemma min_groups_example :
  min_groups [(2, 0); (1, 5000); (3, 0)] 2 2500 = Some 1
  /\ min_groups [(2, 0); (1, 5000); (3, 0)] 3 7500 = Some 2
  /\ min_groups [(2, 0); (1, 5000); (3, 0)] 7 0 = None.
Proof. vm_compute. repeat split; reflexivity. Qed.
