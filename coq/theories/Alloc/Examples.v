(** Concrete runs of the allocator model (non-vacuity witnesses, all by [vm_compute]). *)
From HQ Require Import Base.Prelude Gen.Consts Alloc.Model Alloc.Spec.
Open Scope N_scope.

(** two groups of 2 cpus + a sum resource of 1.5 units *)
Definition ex_desc : desc :=
  mkDesc 2 [(0, KGroups [[10; 11]; [12; 13]]); (1, KSum 15000)] [].

Definition no_wit : witness := mkWitness None None None [].

Definition ex_ops : list op :=
  [ OAlloc [mkEntry 0 (Req Compact 15000); mkEntry 1 (Req Compact 5000)] (mkWitness (Some [[0]]) None None [(0, 0)]);
    OAlloc [mkEntry 0 (Req Scatter 20000)] no_wit;
    OAlloc [mkEntry 0 (Req Tight 5000)] (mkWitness (Some [[0]]) None None [(0, 0)]);
    ORelease 0;
    ORelease 0;
    ORelease 0 ].

Definition ex_final : res sys := do s <- init ex_desc; run s ex_ops.

Example ex_run_ok : exists s, ex_final = Ok s /\ s_live s = [].
Proof. vm_compute. eexists; split; reflexivity. Qed.

(** a reachable state with three live allocations (whole, scattered and fractional holdings) *)
Definition ex_mid : res sys := do s <- init ex_desc; run s (firstn 3 ex_ops).
Example ex_mid_ok : exists s0 s, init ex_desc = Ok s0 /\ run s0 (firstn 3 ex_ops) = Ok s /\ length (s_live s) = 3%nat
  /\ exclusive_ok (a_pools (s_alloc s0)) (s_live s) = true
  /\ conserved_ok (a_pools (s_alloc s0)) (a_pools (s_alloc s)) (s_live s) = true
  /\ mirror_ok (a_pools (s_alloc s)) (a_free (s_alloc s)) = true.
Proof.
  eexists. eexists. split; [vm_compute; reflexivity|]. split; [vm_compute; reflexivity|].
  repeat split; vm_compute; reflexivity.
Qed.

(** the scenario of corpus/alloc/strict-tiebreak-refusal.trace: groups of 2 and 6 indices, one index of the
    small group partly used; `tight! 2` is granted (it was refused before the fix of has_resources_for_request) *)
Definition ex_strict_desc : desc := mkDesc 1 [(0, KGroups [[2; 4]; [6; 7; 9; 11; 13; 15]])] [].
Definition ex_strict_ops : list op :=
  [ OAlloc [mkEntry 0 (Req Scatter 7500)] (mkWitness None None None [(0, 1)]);
    OAlloc [mkEntry 0 (Req ForceTight 20000)] (mkWitness (Some [[1]]) (Some [[1]]) (Some [[0]]) []) ].
Example ex_strict_granted :
  exists s, (do s0 <- init ex_strict_desc; run s0 ex_strict_ops) = Ok s /\ length (s_live s) = 2%nat.
Proof. vm_compute. eexists. split; reflexivity. Qed.
