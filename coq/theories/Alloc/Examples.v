(** Concrete runs of the allocator model (non-vacuity witnesses, all by [vm_compute]). *)
From HQ Require Import Base.Prelude Gen.Consts Alloc.Model Alloc.Spec.
Open Scope N_scope.

(** two groups of 2 cpus + a sum resource of 1.5 units *)
Definition ex_desc : desc :=
  mkDesc 2 [(0, KGroups [[10; 11]; [12; 13]]); (1, KSum 15000)] [].

Definition no_wit : witness := mkWitness None None None [].

Definition ex_ops : list op :=
  [ OAlloc [mkEntry 0 (Req Compact 15000); mkEntry 1 (Req Compact 5000)] (mkWitness (Some [[0]]) None None [(0, 0)]);
    OAlloc [mkEntry 0 (Req Scatter 20000)] no_wit;
    OAlloc [mkEntry 0 (Req Tight 5000)] (mkWitness (Some [[0]]) None None [(0, 0)]);
    ORelease 0;
    ORelease 0;
    ORelease 0 ].

Definition ex_final : res sys := do s <- init ex_desc; run s ex_ops.

Example ex_run_ok : exists s, ex_final = Ok s /\ s_live s = [].
Proof. vm_compute. eexists; split; reflexivity. Qed.
