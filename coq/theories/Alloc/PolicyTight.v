(** C16 - the loop of ResourcePool::claim_compact_from_groups (policies tight / tight! over the groups selected
    by the solver): every group the claim uses is drained of its whole free indices, except the last one
    (the smallest group that can hold the rest). *)
From Coq Require Import Permutation.
From HQ Require Import Base.Prelude Gen.Consts Alloc.Model Alloc.Spec Alloc.Lemmas Alloc.Group Alloc.Pool Alloc.Inv Alloc.System Alloc.Mirror Alloc.MirrorSystem Alloc.Complete Alloc.CompleteTight Alloc.PolicyBase Alloc.PolicyFrac.
Require Import ZifyBool ZifyN ZifyNat.
Open Scope N_scope.
Arguments N.add : simpl never.
Arguments N.sub : simpl never.
Arguments N.mul : simpl never.
Arguments N.div : simpl never.
Arguments N.modulo : simpl never.
Arguments N.eqb : simpl never.
Arguments N.ltb : simpl never.
Arguments N.leb : simpl never.
Arguments N.of_nat : simpl never.
Arguments N.to_nat : simpl never.
Arguments sumN : simpl never.

Definition in_group (gi : N) (ix : aidx) : Prop := ai_group ix = gi.

Lemma wc_group_other nw gi g : Forall (in_group gi) nw -> g <> gi -> wc nw g = 0.
Proof.
  induction 1 as [|ix nw Hix Hnw IH]; intros Hne; [apply wc_nil|].
  rewrite wc_cons, IH by auto. unfold in_group in Hix. destruct (N.eqb_spec (ai_group ix) g); [congruence|]. reflexivity.
Qed.

Lemma block_in_group gi (l : list N) : Forall (in_group gi) (map (fun i => mkAidx i gi 0) l).
Proof. apply Forall_forall. intros x Hx. apply in_map_iff in Hx. destruct Hx as [i [<- _]]. reflexivity. Qed.

(** what the loop has taken so far: every group it touched is drained *)
Definition DrainedInv (L : N -> N) (n : nat) (gs : list group) (out : list aidx) : Prop :=
  length gs = n
  /\ (forall g, wc out g + lenidx gs g = L g)
  /\ (forall ix, In ix out -> lenidx gs (ai_group ix) = 0)
  /\ Forall (fun ix => ai_group ix < N.of_nat n) out.

Lemma compact_loop_tight L n fuel : forall gs amounts sel remaining wit out fidx gs' out' fidx',
  DrainedInv L n gs out ->
  compact_loop fuel gs amounts sel remaining wit out fidx = Ok (gs', out', fidx') ->
  exists gstar,
    (forall ix, In ix out' -> ai_group ix <> gstar -> wc out' (ai_group ix) = L (ai_group ix))
    /\ Forall (fun ix => ai_group ix < N.of_nat n) out'.
Proof.
  induction fuel as [|fuel IH]; intros gs amounts sel remaining wit out fidx gs' out' fidx' (Hn & Hcons & Hdr & Hrg) Hl; [discriminate|].
  rewrite compact_loop_unfold in Hl.
  destruct (find_min_fit amounts 0 remaining sel) as [[gi a]|].
  - (* the last group: the smallest one that holds the rest *)
    destruct (split remaining) as [units fr] eqn:Es.
    destruct (get_at gs gi) as [g| |] eqn:Eg; cbn [bind] in Hl; try discriminate.
    destruct (take_indices (g_idx g) gi units out) as [[st out1]| |] eqn:Et; cbn [bind] in Hl; try discriminate.
    destruct (take_fraction_index_or_split (mkGroup st (g_fr g)) fr gi wit out1) as [[g2 out2]| |] eqn:Ef; cbn [bind] in Hl; try discriminate.
    inversion Hl; subst gs' out' fidx'. clear Hl.
    apply take_indices_inv in Et. destruct Et as (Hle & -> & ->).
    assert (Hgi : gi < N.of_nat n) by (apply get_at_range in Eg; unfold len in Eg; lia).
    assert (Hnew : exists nw, out2 = out ++ nw /\ Forall (in_group gi) nw).
    { destruct (take_fraction_mf (mkGroup (skipn (nat_of units) (g_idx g)) (g_fr g)) (mkGroup (skipn (nat_of units) (g_idx g)) (g_fr g))
                  fr gi wit _ _ _ eq_refl (incl_refl _) Ef) as [(_ & -> & _)|(_ & F & -> & HgF & _)].
      - eexists. split; [reflexivity|]. apply block_in_group.
      - eexists. rewrite <- app_assoc. split; [reflexivity|]. apply Forall_app. split; [apply block_in_group|].
        constructor; [exact HgF|constructor]. }
    destruct Hnew as (nw & -> & Hnw).
    exists gi. split.
    + intros ix Hin Hne. apply in_app_or in Hin. destruct Hin as [Hin|Hin].
      * rewrite wc_app, (wc_group_other nw gi) by auto.
        pose proof (Hcons (ai_group ix)) as Hc. rewrite (Hdr _ Hin) in Hc. lia.
      * exfalso. rewrite Forall_forall in Hnw. apply Hne. apply Hnw. auto.
    + apply Forall_app. split; auto. eapply Forall_impl; [|exact Hnw]. intros ix Hx. unfold in_group in Hx. rewrite Hx. auto.
  - (* the biggest group is taken entirely *)
    destruct (find_max amounts 0 sel) as [[gi a]|]; [|discriminate].
    destruct (split remaining) as [units fr] eqn:Es.
    destruct (get_at gs gi) as [g| |] eqn:Eg; cbn [bind] in Hl; try discriminate.
    destruct (N.ltb_spec units (len (g_idx g))) as [|Hge]; [discriminate|].
    destruct (take_indices (g_idx g) gi (len (g_idx g)) out) as [[st out1]| |] eqn:Et; cbn [bind] in Hl; try discriminate.
    destruct (try_take_fraction (mkGroup st (g_fr g)) fr gi wit out1) as [[[g2 out2] took]| |] eqn:Ef; cbn [bind] in Hl; try discriminate.
    apply take_indices_inv in Et. destruct Et as (Hle & -> & ->).
    assert (Hgi : gi < N.of_nat n) by (apply get_at_range in Eg; unfold len in Eg; lia).
    pose proof (try_take_fraction_idx _ _ _ _ _ _ _ _ Ef) as Hidx. cbn [g_idx] in Hidx.
    assert (Hnew : exists nw, out2 = out ++ nw /\ Forall (in_group gi) nw /\ wc nw gi = len (g_idx g)).
    { destruct (try_take_fraction_mf (mkGroup (skipn (nat_of (len (g_idx g))) (g_idx g)) (g_fr g))
                  (mkGroup (skipn (nat_of (len (g_idx g))) (g_idx g)) (g_fr g)) fr gi wit _ _ _ _ eq_refl Ef)
        as [(_ & -> & _)|(_ & Hz & _ & F & -> & HgF & HfF & _)].
      - eexists. split; [reflexivity|]. split; [apply block_in_group|].
        rewrite wc_block, N.eqb_refl. apply len_firstn. lia.
      - eexists. rewrite <- app_assoc. split; [reflexivity|]. split.
        + apply Forall_app. split; [apply block_in_group|]. constructor; [exact HgF|constructor].
        + rewrite wc_app, wc_block, N.eqb_refl, wc_frac by congruence. rewrite len_firstn by lia. lia. }
    destruct Hnew as (nw & -> & Hnw & Hwc).
    assert (Hlen2 : lenidx (set_at gs gi g2) gi = 0).
    { rewrite (lenidx_set_at_same _ _ _ _ Eg), Hidx, len_skipn. lia. }
    eapply IH; [|exact Hl]. split; [|split; [|split]].
    + rewrite set_at_length. auto.
    + intros g'. destruct (N.eq_dec gi g') as [<-|Hne].
      * rewrite wc_app, Hwc, Hlen2. pose proof (Hcons gi) as Hc. rewrite (lenidx_get _ _ _ Eg) in Hc. lia.
      * rewrite wc_app, (wc_group_other nw gi) by auto. rewrite lenidx_set_at_other by auto. rewrite N.add_0_r. auto.
    + intros ix Hin. destruct (N.eq_dec gi (ai_group ix)) as [<-|Hne]; [auto|].
      rewrite lenidx_set_at_other by auto. apply in_app_or in Hin. destruct Hin as [Hin|Hin]; [auto|].
      exfalso. rewrite Forall_forall in Hnw. apply Hne. symmetry. apply Hnw. auto.
    + apply Forall_app. split; auto. eapply Forall_impl; [|exact Hnw]. intros ix Hx. unfold in_group in Hx. rewrite Hx. auto.
Qed.

(** the whole claim_compact_from_groups (loop + moving the fractional index to the end) *)
Theorem tight_shape a gs sel wit gs' out :
  claim_compact_from_groups a gs sel wit = Ok (gs', out) ->
  exists gstar, forall g, In g (map ai_group out) -> g <> gstar ->
    exists gr, nth_error gs (nat_of g) = Some gr /\ wc out g = len (g_idx gr).
Proof.
  intros Hc. unfold claim_compact_from_groups in Hc.
  destruct (compact_loop (length gs + 2) gs (map group_amount gs) sel a wit [] None) as [[[gs1 raw] fidx]| |] eqn:El; cbn [bind] in Hc; try discriminate.
  inversion Hc; subst gs1 out. clear Hc.
  assert (Hinv : DrainedInv (lenidx gs) (length gs) gs []).
  { split; auto. split; [intros g; rewrite wc_nil; lia|]. split; [intros ix []|constructor]. }
  destruct (compact_loop_tight _ _ _ _ _ _ _ _ _ _ _ _ _ Hinv El) as (gstar & Hdr & Hrg).
  assert (Hp : Permutation (match fidx with Some k => swap_to_last raw k | None => raw end) raw)
    by (destruct fidx; [apply swap_to_last_perm | apply Permutation_refl]).
  exists gstar. intros g Hg Hne.
  apply in_map_iff in Hg. destruct Hg as (ix & <- & Hin).
  apply (Permutation_in _ Hp) in Hin.
  rewrite (wc_perm _ _ _ Hp), (Hdr _ Hin Hne), lenidx_nth.
  rewrite Forall_forall in Hrg. specialize (Hrg _ Hin). cbv beta in Hrg.
  destruct (nth_error gs (nat_of (ai_group ix))) as [gr|] eqn:En; [eauto|].
  exfalso. apply nth_error_None in En. unfold nat_of in En. lia.
Qed.

(** The monitor tight-shape as a theorem: for EVERY group pool, EVERY tight / tight! request and EVERY group
    selection, of the groups used by what ResourcePool::claim_resources_with_group_mask returns at most one is
    not drained of its whole free indices. *)
Theorem C16_tight_shape : forall before e a mask wit full gs p' ra,
  e_req e = Req Tight a \/ e_req e = Req ForceTight a ->
  nth_error before (nat_of (e_res e)) = Some (PGroups full gs) ->
  claim_with_group_mask (PGroups full gs) (e_res e) (e_req e) mask wit = Ok (p', ra) ->
  tight_ok before e ra = true.
Proof.
  intros before e a mask wit full gs p' ra He Hn Hc.
  assert (Hc' : exists gs' out, claim_compact_from_groups a gs (Some mask) wit = Ok (gs', out) /\ ra_indices ra = out).
  { destruct He as [He|He]; rewrite He in Hc; cbn [claim_with_group_mask] in Hc;
      destruct (claim_compact_from_groups a gs (Some mask) wit) as [[gs' out]| |]; cbn [bind] in Hc; try discriminate;
      inversion Hc; subst; eauto. }
  destruct Hc' as (gs' & out & E & Hout).
  destruct (tight_shape _ _ _ _ _ _ E) as (gstar & Hdr).
  assert (Hgoal : len (filter (fun g => match nth_error gs (nat_of g) with
                                        | Some gr => whole_count ra g <? len (g_idx gr)
                                        | None => true end) (dedup (map ai_group (ra_indices ra)))) <=? 1 = true).
  { apply N.leb_le. apply (filter_at_most_one _ _ gstar); [apply nodup_dedup|].
    intros g Hg Hf. rewrite in_dedup, Hout in Hg. rewrite whole_count_wc, Hout in Hf.
    destruct (N.eq_dec g gstar) as [|Hne]; auto. exfalso.
    destruct (Hdr g Hg Hne) as (gr & Hgr & Heq). rewrite Hgr, Heq, N.ltb_irrefl in Hf. discriminate. }
  unfold tight_ok. destruct He as [He|He]; rewrite He, Hn; exact Hgoal.
Qed.

(** non-vacuity: tight of 4.25 units over the groups [2 free; 3 free + partly used index 7 (0.6 free)]:
    the bigger group 1 is drained (3 indices + the fraction from index 7), the rest comes from group 0 *)
Example tight_shape_example :
  let gs := [mkGroup [1; 0] []; mkGroup [6; 5; 4] [(7, 6000)]] in
  let p := PGroups (mk_amount 6 0) gs in
  exists p' ra,
    claim_with_group_mask p 0 (Req Tight 42500) [0; 1] (Some 7) = Ok (p', ra)
    /\ whole_count ra 1 = 3 /\ whole_count ra 0 = 1
    /\ tight_ok [p] (mkEntry 0 (Req Tight 42500)) ra = true.
Proof. vm_compute. eexists _, _. repeat split. Qed.

Print Assumptions C16_tight_shape.
