(** C16 group count - one claim with the groups chosen by the solver (claim_resources_with_group_mask):
    - the groups claimed are among the groups selected (for EVERY selection, whatever objective produced it);
    - hence min_groups(pool before) <= groups used <= groups selected;
    - for a selection with the minimum number of groups: the groups claimed are EXACTLY the groups selected. *)
From Coq Require Import Permutation.
From HQ Require Import Base.Prelude Gen.Consts Alloc.Model Alloc.Spec Alloc.Lemmas Alloc.Group Alloc.Pool Alloc.Inv Alloc.System Alloc.Mirror Alloc.MirrorSystem Alloc.GroupsProofs Alloc.Complete Alloc.CompleteTight
  Alloc.PolicyBase Alloc.PolicyFrac Alloc.PolicyGCBase.
Require Import ZifyBool ZifyN ZifyNat.
Open Scope N_scope.
Arguments N.add : simpl never.
Arguments N.sub : simpl never.
Arguments N.mul : simpl never.
Arguments N.div : simpl never.
Arguments N.modulo : simpl never.
Arguments N.eqb : simpl never.
Arguments N.ltb : simpl never.
Arguments N.leb : simpl never.
Arguments N.of_nat : simpl never.
Arguments N.to_nat : simpl never.
Arguments sumN : simpl never.

Definition in_selP (sel : option (list N)) (ix : aidx) : Prop := in_sel sel (ai_group ix) = true.

Lemma in_selP_block sel gi (l : list N) : in_sel sel gi = true -> Forall (in_selP sel) (map (fun i => mkAidx i gi 0) l).
Proof. intros H. apply Forall_forall. intros x Hx. apply in_map_iff in Hx. destruct Hx as [i [<- _]]. exact H. Qed.

(* ---------- the scatter loop ---------- *)
Lemma scatter_loop_in_sel fuel : forall gs sel units fr pos wit out gs' out',
  Forall (in_selP sel) out ->
  scatter_loop fuel gs sel units fr pos wit out = Ok (gs', out') -> Forall (in_selP sel) out'.
Proof.
  induction fuel as [|fuel IH]; intros gs sel units fr pos wit out gs' out' Hout Hl; cbn [scatter_loop] in Hl.
  - destruct ((units =? 0) && (fr =? 0)); [|discriminate]. inversion Hl; subst; auto.
  - destruct ((units =? 0) && (fr =? 0)); [inversion Hl; subst; auto|].
    destruct (match sel with Some s => get_at s pos | None => Ok pos end) as [gi| |] eqn:Egi; cbn [bind] in Hl; try discriminate.
    assert (Hgi : in_sel sel gi = true).
    { destruct sel as [s|]; [|reflexivity]. cbn [in_sel]. apply existsb_exists. exists gi. split; [|apply N.eqb_refl].
      apply get_at_ok in Egi. destruct Egi as [_ Hn]. eapply nth_error_In; eauto. }
    assert (Hnew : forall i f, Forall (in_selP sel) (out ++ [mkAidx i gi f])).
    { intros i f. apply Forall_app. split; [exact Hout|]. constructor; [exact Hgi|constructor]. }
    destruct (get_at gs gi) as [g| |]; cbn [bind] in Hl; try discriminate.
    destruct (0 <? units).
    + destruct (g_idx g) as [|i rest]; (eapply IH; [|exact Hl]; first [exact Hout | apply Hnew]).
    + destruct (best_fraction_match (g_fr g) fr wit) as [[[i f]|]| |]; cbn [bind] in Hl; try discriminate.
      * eapply IH; [|exact Hl]; apply Hnew.
      * destruct (g_idx g) as [|i rest]; (eapply IH; [|exact Hl]; first [exact Hout | apply Hnew]).
Qed.

Lemma claim_scatter_in_sel a gs sel wit gs' out :
  claim_scatter_from_groups a gs sel wit = Ok (gs', out) -> Forall (in_selP sel) out.
Proof.
  intros Hc. unfold claim_scatter_from_groups in Hc. destruct (split a) as [units fr].
  destruct (scatter_loop (scatter_fuel gs sel) gs sel units fr 0 wit []) as [[gs1 raw]| |] eqn:El; cbn [bind] in Hc; try discriminate.
  inversion Hc; subst.
  eapply Permutation_Forall; [apply Permutation_sym, isort_perm|].
  eapply scatter_loop_in_sel; [|exact El]. constructor.
Qed.

(* ---------- the compact loop ---------- *)
Lemma find_min_fit_sel amounts : forall i remaining sel gi a,
  find_min_fit amounts i remaining sel = Some (gi, a) -> in_sel sel gi = true.
Proof.
  induction amounts as [|x rest IH]; intros i remaining sel gi a H; cbn [find_min_fit] in H; [discriminate|].
  destruct ((remaining <=? x) && in_sel sel i) eqn:E.
  - apply andb_true_iff in E. destruct E as [_ Es].
    destruct (find_min_fit rest (i + 1) remaining sel) as [[j b]|] eqn:Er.
    + destruct (x <=? b); inversion H; subst; eauto.
    + inversion H; subst; auto.
  - eauto.
Qed.

Lemma find_max_sel amounts : forall i sel gi a, find_max amounts i sel = Some (gi, a) -> in_sel sel gi = true.
Proof.
  induction amounts as [|x rest IH]; intros i sel gi a H; cbn [find_max] in H; [discriminate|].
  destruct (in_sel sel i) eqn:Es.
  - destruct (find_max rest (i + 1) sel) as [[j b]|] eqn:Er.
    + destruct (b <? x); inversion H; subst; eauto.
    + inversion H; subst; auto.
  - eauto.
Qed.

Lemma compact_loop_in_sel fuel : forall gs amounts sel remaining wit out fidx gs' out' fidx',
  Forall (in_selP sel) out ->
  compact_loop fuel gs amounts sel remaining wit out fidx = Ok (gs', out', fidx') -> Forall (in_selP sel) out'.
Proof.
  induction fuel as [|fuel IH]; intros gs amounts sel remaining wit out fidx gs' out' fidx' Hout Hl; [discriminate|].
  rewrite compact_loop_unfold in Hl.
  destruct (find_min_fit amounts 0 remaining sel) as [[gi a]|] eqn:Efm.
  - pose proof (find_min_fit_sel _ _ _ _ _ _ Efm) as Hgi.
    destruct (split remaining) as [units fr].
    destruct (get_at gs gi) as [g| |] eqn:Eg; cbn [bind] in Hl; try discriminate.
    destruct (take_indices (g_idx g) gi units out) as [[st out1]| |] eqn:Et; cbn [bind] in Hl; try discriminate.
    destruct (take_fraction_index_or_split (mkGroup st (g_fr g)) fr gi wit out1) as [[g2 out2]| |] eqn:Ef; cbn [bind] in Hl; try discriminate.
    inversion Hl; subst gs' out' fidx'. clear Hl.
    apply take_indices_inv in Et. destruct Et as (_ & -> & ->).
    assert (H1 : Forall (in_selP sel) (out ++ map (fun i => mkAidx i gi 0) (firstn (nat_of units) (g_idx g))))
      by (apply Forall_app; split; auto; apply in_selP_block; auto).
    destruct (take_fraction_mf (mkGroup (skipn (nat_of units) (g_idx g)) (g_fr g)) (mkGroup (skipn (nat_of units) (g_idx g)) (g_fr g))
                fr gi wit _ _ _ eq_refl (incl_refl _) Ef) as [(_ & -> & _)|(_ & F & -> & HgF & _)]; auto.
    apply Forall_app. split; auto. constructor; [|constructor]. unfold in_selP. rewrite HgF. exact Hgi.
  - destruct (find_max amounts 0 sel) as [[gi a]|] eqn:Efx; [|discriminate].
    pose proof (find_max_sel _ _ _ _ _ Efx) as Hgi.
    destruct (split remaining) as [units fr].
    destruct (get_at gs gi) as [g| |] eqn:Eg; cbn [bind] in Hl; try discriminate.
    destruct (units <? len (g_idx g)); [discriminate|].
    destruct (take_indices (g_idx g) gi (len (g_idx g)) out) as [[st out1]| |] eqn:Et; cbn [bind] in Hl; try discriminate.
    destruct (try_take_fraction (mkGroup st (g_fr g)) fr gi wit out1) as [[[g2 out2] took]| |] eqn:Ef; cbn [bind] in Hl; try discriminate.
    apply take_indices_inv in Et. destruct Et as (_ & -> & ->).
    assert (H1 : Forall (in_selP sel) (out ++ map (fun i => mkAidx i gi 0) (firstn (nat_of (len (g_idx g))) (g_idx g))))
      by (apply Forall_app; split; auto; apply in_selP_block; auto).
    eapply IH; [|exact Hl].
    destruct (try_take_fraction_mf (mkGroup (skipn (nat_of (len (g_idx g))) (g_idx g)) (g_fr g))
                (mkGroup (skipn (nat_of (len (g_idx g))) (g_idx g)) (g_fr g)) fr gi wit _ _ _ _ eq_refl Ef)
      as [(_ & -> & _)|(_ & _ & _ & F & -> & HgF & _)]; auto.
    apply Forall_app. split; auto. constructor; [|constructor]. unfold in_selP. rewrite HgF. exact Hgi.
Qed.

Lemma claim_compact_in_sel a gs sel wit gs' out :
  claim_compact_from_groups a gs sel wit = Ok (gs', out) -> Forall (in_selP sel) out.
Proof.
  intros Hc. unfold claim_compact_from_groups in Hc.
  destruct (compact_loop (length gs + 2) gs (map group_amount gs) sel a wit [] None) as [[[gs1 raw] fidx]| |] eqn:El; cbn [bind] in Hc; try discriminate.
  inversion Hc; subst.
  assert (Hraw : Forall (in_selP sel) raw) by (eapply compact_loop_in_sel; [|exact El]; constructor).
  destruct fidx as [k|]; auto.
  eapply Permutation_Forall; [apply Permutation_sym, swap_to_last_perm|]. auto.
Qed.

(* ------------------------------------------------------------------------------------------ *)
(** * claimed groups vs selected groups *)

(** claimed is a subset of selected: for EVERY selection (no assumption on feasibility, objective, weights) *)
Theorem claimed_subset_selected p rid rq mask wit p' ra :
  claim_with_group_mask p rid rq mask wit = Ok (p', ra) ->
  forall g, In g (used (ra_indices ra)) -> In g mask.
Proof.
  intros Hc.
  assert (HF : Forall (in_selP (Some mask)) (ra_indices ra)).
  { destruct p as [|full g|full gs|full free]; cbn [claim_with_group_mask] in Hc; try discriminate.
    destruct rq as [[] a|]; try discriminate.
    - destruct (claim_scatter_from_groups a gs (Some mask) wit) as [[gs' out]| |] eqn:E; cbn [bind] in Hc; try discriminate.
      inversion Hc; subst. eapply claim_scatter_in_sel; eauto.
    - destruct (claim_compact_from_groups a gs (Some mask) wit) as [[gs' out]| |] eqn:E; cbn [bind] in Hc; try discriminate.
      inversion Hc; subst. eapply claim_compact_in_sel; eauto.
    - destruct (claim_scatter_from_groups a gs (Some mask) wit) as [[gs' out]| |] eqn:E; cbn [bind] in Hc; try discriminate.
      inversion Hc; subst. eapply claim_scatter_in_sel; eauto.
    - destruct (claim_compact_from_groups a gs (Some mask) wit) as [[gs' out]| |] eqn:E; cbn [bind] in Hc; try discriminate.
      inversion Hc; subst. eapply claim_compact_in_sel; eauto. }
  intros g Hg. apply in_used in Hg. destruct Hg as (ix & Hix & <-).
  rewrite Forall_forall in HF. specialize (HF _ Hix). unfold in_selP in HF. cbn [in_sel] in HF.
  apply existsb_exists in HF. destruct HF as (y & Hy & E). apply N.eqb_eq in E. subst. auto.
Qed.

Lemma claim_mask_is_groups p rid rq mask wit p' ra :
  claim_with_group_mask p rid rq mask wit = Ok (p', ra) ->
  exists full gs pol a, p = PGroups full gs /\ rq = Req pol a.
Proof.
  destruct p as [|full g|full gs|full free]; cbn [claim_with_group_mask]; try discriminate.
  destruct rq as [pol a|]; [|discriminate]. intros _. eexists _, _, _, _. split; reflexivity.
Qed.

(** min_groups(before) <= claimed <= selected, for every accepted claim with a selection *)
Theorem claimed_between full gs rid pol a mask wit p' ra :
  claim_with_group_mask (PGroups full gs) rid (Req pol a) mask wit = Ok (p', ra) ->
  claim_ok (PGroups full gs) p' rid (Req pol a) ra = true ->
  exists k, min_groups (per_of gs) (fst (split a)) (snd (split a)) = Some k
            /\ k <= groups_used ra /\ groups_used ra <= len mask.
Proof.
  intros Hc Hok. destruct (accepted_ge_min _ _ _ _ _ _ _ Hok) as (_ & k & Hk & Hle).
  exists k. split; auto. split; auto.
  rewrite groups_used_eq. unfold len.
  pose proof (NoDup_incl_length (nodup_dedup (map ai_group (ra_indices ra))) (claimed_subset_selected _ _ _ _ _ _ _ Hc)) as H.
  fold (used (ra_indices ra)) in H. lia.
Qed.

(** a selection with the minimum number of groups is claimed entirely *)
Theorem claimed_eq_selected full gs rid pol a mask wit p' ra :
  claim_with_group_mask (PGroups full gs) rid (Req pol a) mask wit = Ok (p', ra) ->
  claim_ok (PGroups full gs) p' rid (Req pol a) ra = true ->
  min_groups (per_of gs) (fst (split a)) (snd (split a)) = Some (len mask) ->
  groups_used ra = len mask
  /\ (NoDup mask -> forall g, In g mask <-> In g (used (ra_indices ra))).
Proof.
  intros Hc Hok Hmin. destruct (claimed_between _ _ _ _ _ _ _ _ _ Hc Hok) as (k & Hk & H1 & H2).
  rewrite Hmin in Hk. inversion Hk; subst k. split; [lia|].
  intros Hnd g. split; [|apply (claimed_subset_selected _ _ _ _ _ _ _ Hc)].
  apply NoDup_length_incl; [apply nodup_dedup | | exact (claimed_subset_selected _ _ _ _ _ _ _ Hc)].
  rewrite groups_used_eq in H1. unfold len in H1. fold (used (ra_indices ra)). lia.
Qed.

(** the gate is transparent: on a well-formed pool the hypothesis [claim_ok] can be dropped *)
Corollary claimed_eq_selected_wf full gs rid pol a mask wit p' ra :
  gs_wf gs ->
  claim_with_group_mask (PGroups full gs) rid (Req pol a) mask wit = Ok (p', ra) ->
  min_groups (per_of gs) (fst (split a)) (snd (split a)) = Some (len mask) ->
  groups_used ra = len mask.
Proof.
  intros Hwf Hc Hmin.
  assert (Hok : claim_ok (PGroups full gs) p' rid (Req pol a) ra = true).
  { destruct pol; try discriminate Hc.
    - apply (claim_complete_compact full gs rid _ a mask wit); auto.
    - apply (claim_complete_tight full gs rid _ a mask wit); auto.
    - apply (claim_complete_compact full gs rid _ a mask wit); auto.
    - apply (claim_complete_tight full gs rid _ a mask wit); auto. }
  apply (claimed_eq_selected _ _ _ _ _ _ _ _ _ Hc Hok Hmin).
Qed.

(** non-vacuity: tight 4.25 over the minimal selection [0; 1] of the groups [2 free; 3 free + index 7 with 0.6]:
    both groups are claimed; over the non-minimal selection [0; 1; 2] (group 2: 5 free) only group 2 is claimed *)
Example claimed_eq_selected_example :
  let gs := [mkGroup [1; 0] []; mkGroup [6; 5; 4] [(7, 6000)]] in
  let p := PGroups (mk_amount 6 0) gs in
  exists p' ra,
    claim_with_group_mask p 0 (Req Tight 42500) [0; 1] (Some 7) = Ok (p', ra)
    /\ claim_ok p p' 0 (Req Tight 42500) ra = true
    /\ min_groups (per_of gs) (fst (split 42500)) (snd (split 42500)) = Some (len [0; 1])
    /\ groups_used ra = 2.
Proof. vm_compute. eexists _, _. repeat split. Qed.

Example claimed_subset_strict_example :
  let gs := [mkGroup [1; 0] []; mkGroup [6; 5; 4] [(7, 6000)]; mkGroup [12; 11; 10; 9; 8] []] in
  let p := PGroups (mk_amount 11 0) gs in
  exists p' ra,
    claim_with_group_mask p 0 (Req Tight 42500) [0; 1; 2] None = Ok (p', ra)
    /\ groups_used ra = 1 /\ min_groups (per_of gs) (fst (split 42500)) (snd (split 42500)) = Some 1.
Proof. vm_compute. eexists _, _. repeat split. Qed.

Print Assumptions claimed_subset_selected.
Print Assumptions claimed_between.
Print Assumptions claimed_eq_selected.
