(** Invariant of the allocator + live allocations, preserved by every accepted step. *)
From Coq Require Import Permutation.
From HQ Require Import Base.Prelude Gen.Consts Alloc.Model Alloc.Spec Alloc.Lemmas Alloc.Group Alloc.Pool.
Require Import ZifyBool ZifyN ZifyNat.
Open Scope N_scope.
Arguments N.add : simpl never.
Arguments N.sub : simpl never.
Arguments N.mul : simpl never.
Arguments N.div : simpl never.
Arguments N.modulo : simpl never.
Arguments N.eqb : simpl never.
Arguments N.ltb : simpl never.
Arguments N.leb : simpl never.
Arguments N.of_nat : simpl never.
Arguments N.to_nat : simpl never.
Arguments sumN : simpl never.
Ltac Zify.zify_post_hook ::= Z.div_mod_to_equations.

(* ---------- boolean equalities of the validator ---------- *)
Lemma list_eqb_eq {A} (eqb : A -> A -> bool) (Heq : forall x y, eqb x y = true -> x = y) a b :
  list_eqb eqb a b = true -> a = b.
Proof.
  revert b; induction a as [|x a IH]; intros [|y b]; simpl; try discriminate; auto.
  intros H. apply andb_true_iff in H. destruct H as [H1 H2]. f_equal; auto.
Qed.

Lemma group_eqb_eq a b : group_eqb a b = true -> a = b.
Proof.
  unfold group_eqb. intros H. apply andb_true_iff in H. destruct H as [H1 H2].
  apply list_eqb_eq in H1; [|intros x y E; apply N.eqb_eq; auto].
  apply list_eqb_eq in H2.
  - destruct a, b; simpl in *; congruence.
  - intros [x1 x2] [y1 y2] E. unfold pair_eqb in E. simpl in E. apply andb_true_iff in E. destruct E as [E1 E2].
    apply N.eqb_eq in E1, E2. congruence.
Qed.

Definition same_kind (p0 p : pool) : bool :=
  match p0, p with
  | PEmpty, PEmpty | PIndices _ _, PIndices _ _ | PGroups _ _, PGroups _ _ | PSum _ _, PSum _ _ => true
  | _, _ => false
  end.

Lemma claim_ok_inv p p' rid rq ra :
  claim_ok p p' rid rq ra = true ->
  ra_res ra = rid /\ ra_amount ra = req_amount rq (pool_full_size p)
  /\ same_kind p p' = true /\ pool_full_size p' = pool_full_size p
  /\ match p, p' with
     | PSum _ free, PSum _ free' => ra_amount ra <= free /\ free' = free - ra_amount ra /\ ra_indices ra = []
     | PEmpty, _ => False
     | _, _ => shape_ok (ra_indices ra) = true /\ ra_total ra = ra_amount ra
               /\ take_all (pool_groups p) (ra_indices ra) = Some (pool_groups p')
     end.
Proof.
  unfold claim_ok. rewrite !andb_true_iff. intros [[H1 H2] H3].
  apply N.eqb_eq in H1, H2. split; auto. split; auto.
  destruct p, p'; try discriminate H3.
  - rewrite !andb_true_iff in H3. destruct H3 as [[[Ha Hb] Hc] Hd].
    apply N.eqb_eq in Ha, Hc. simpl in *. subst. repeat split; auto.
    destruct (take_all [g] (ra_indices ra)) eqn:E; [|discriminate Hd].
    apply list_eqb_eq in Hd; [|apply group_eqb_eq]. subst. auto.
  - rewrite !andb_true_iff in H3. destruct H3 as [[[Ha Hb] Hc] Hd].
    apply N.eqb_eq in Ha, Hc. simpl in *. subst. repeat split; auto.
    destruct (take_all gs (ra_indices ra)) eqn:E; [|discriminate Hd].
    apply list_eqb_eq in Hd; [|apply group_eqb_eq]. subst. auto.
  - rewrite !andb_true_iff in H3. destruct H3 as [[[Ha Hb] Hc] Hd].
    apply N.eqb_eq in Ha, Hc. apply N.leb_le in Hb. simpl. subst. repeat split; auto.
    destruct (ra_indices ra); [auto|discriminate].
Qed.

(* ---------- holdings of the live allocations, per resource ---------- *)
Definition flat_al (al : allocation) (r : N) : list aidx :=
  flat_map (fun ra => if ra_res ra =? r then ra_indices ra else []) al.
Definition flat_live (live : list allocation) (r : N) : list aidx := flat_map (fun al => flat_al al r) live.

Lemma flat_map_app' {A B} (f : A -> list B) a b : flat_map f (a ++ b) = flat_map f a ++ flat_map f b.
Proof. induction a; simpl; auto. rewrite IHa, app_assoc. auto. Qed.

Lemma live_held_flat live r g i : live_held live r g i = hsum (flat_live live r) g i.
Proof.
  unfold live_held, flat_live. induction live as [|al live IH]; cbn [map flat_map]; [reflexivity|].
  rewrite sumN_cons, hsum_app, IH. f_equal.
  unfold alloc_held, flat_al. induction al as [|ra al IHa]; cbn [map flat_map]; [reflexivity|].
  rewrite sumN_cons, hsum_app, IHa. f_equal.
  destruct (ra_res ra =? r); reflexivity.
Qed.

Lemma live_sum_app live al r : live_sum_amount (live ++ [al]) r = live_sum_amount live r + alloc_sum_amount al r.
Proof. unfold live_sum_amount. rewrite map_app, sumN_app. cbn [map]. rewrite sumN_cons, sumN_nil. lia. Qed.

(** holdings are sums of whole indices and positive fractions *)
Lemma compat_hsum l g : compat (hsum l g) (hfany l g).
Proof.
  induction l as [|ix l IH]; intros i.
  - rewrite hsum_nil. simpl. split; [discriminate | auto].
  - destruct (IH i) as [C1 C2]. rewrite hsum_cons, hfany_cons.
    destruct ((ai_group ix =? g) && (ai_index ix =? i)); simpl.
    + pose proof (held_ix_pos ix). unfold held_ix in *. destruct (N.eqb_spec (ai_frac ix) 0); simpl.
      * split; intros Hx; [lia|]. destruct (C2 Hx); lia.
      * split; [lia | discriminate].
    + split; intros Hx; [specialize (C1 Hx); lia | destruct (C2 Hx); lia].
Qed.

(* ---------- per-pool invariant ---------- *)
Definition pool_us (p0 : pool) : list (list N) := map g_idx (pool_groups p0).

Definition sum_mirror (free : N) (c : cstate) : Prop :=
  exists cg, c = [cg] /\ c_units cg * FPU + fget0 (c_fr cg) 0 = free /\ fget0 (c_fr cg) 0 < FPU
             /\ forall i, i <> 0 -> fget0 (c_fr cg) i = 0.

Definition PoolInv (p0 p : pool) (c : cstate) (H : list aidx) (taken : N) : Prop :=
  same_kind p0 p = true /\ pool_full_size p = pool_full_size p0
  /\ match p with
     | PSum f free => free + taken = f /\ sum_mirror free c /\ H = []
     | _ => GsI (pool_us p0) (pool_groups p) (hsum H) (hfany H) /\ gs_mirror (pool_groups p) c
            /\ gs_wf (pool_groups p)
            /\ Forall (fun ix => ai_frac ix < FPU /\ ai_group ix < len (pool_groups p)) H
     end.

Lemma shape_ok_frac ixs : shape_ok ixs = true -> Forall (fun ix => ai_frac ix < FPU) ixs.
Proof.
  induction ixs as [|ix [|iy l] IH]; simpl; intros H; constructor; auto.
  - lia.
  - apply andb_true_iff in H. destruct H. pose proof FPU_pos. lia.
  - apply andb_true_iff in H. destruct H. auto.
Qed.

Definition whole (ix : aidx) : Prop := ai_frac ix = 0.

Lemma shape_split l : shape_ok l = true ->
  exists ws fs, l = ws ++ fs /\ Forall whole ws
                /\ (fs = [] \/ exists F, fs = [F] /\ ai_frac F <> 0 /\ ai_frac F < FPU).
Proof.
  induction l as [|ix [|iy l] IH]; intros H.
  - exists [], []. repeat split; auto.
  - change (shape_ok [ix]) with (ai_frac ix <? FPU) in H. destruct (N.eqb_spec (ai_frac ix) 0).
    + exists [ix], []. repeat split; auto.
    + exists [], [ix]. repeat split; auto. right. exists ix. repeat split; auto. lia.
  - change (shape_ok (ix :: iy :: l)) with ((ai_frac ix =? 0) && shape_ok (iy :: l)) in H.
    apply andb_true_iff in H. destruct H as [H1 H2]. apply N.eqb_eq in H1.
    destruct (IH H2) as (ws & fs & E & Hw & Hf). exists (ix :: ws), fs. rewrite E. repeat split; auto.
Qed.

Lemma ra_total_sum l : fold_right N.add 0 (map held_ix l) = sumN (map held_ix l).
Proof. reflexivity. Qed.

Lemma sum_whole ws : Forall whole ws -> sumN (map held_ix ws) = len ws * FPU.
Proof.
  induction 1 as [|ix ws Hx Hw IH]; cbn [map]; [reflexivity|].
  rewrite sumN_cons, IH. unfold held_ix. rewrite Hx, N.eqb_refl. unfold len. simpl length. lia.
Qed.

Lemma take_all_wf out : forall gs gs', gs_wf gs -> take_all gs out = Some gs' -> gs_wf gs'.
Proof.
  induction out as [|ix out IH]; intros gs gs' Hwf Ht; simpl in Ht.
  - inversion Ht; subst; auto.
  - destruct (get_at gs (ai_group ix)) as [g| |] eqn:Eg; try discriminate.
    destruct (take1 g ix) as [g'|] eqn:Et; try discriminate.
    apply get_at_ok in Eg. destruct Eg as [Hlt Hnth].
    eapply IH; [|eauto]. apply Forall_set_at; auto. eapply take1_wf; eauto. eapply Forall_nth; eauto.
Qed.

(** single group: taking whole indices only shortens the stack *)
Lemma single_whole ws : forall g g1 cg,
  Forall whole ws -> take_all [g] ws = Some [g1] -> cmirror g cg ->
  len ws <= c_units cg /\ cmirror g1 (mkCgroup (c_units cg - len ws) (c_fr cg)) /\ Forall (fun ix => ai_group ix = 0) ws.
Proof.
  induction ws as [|ix ws IH]; intros g g1 cg Hw Ht Hm; simpl in Ht.
  - inversion Ht; subst. unfold len; simpl. destruct Hm as [Hu Hf]. repeat split; auto; simpl; try lia.
  - inversion Hw as [|? ? Hx Hw']; subst.
    destruct (get_at [g] (ai_group ix)) as [g0| |] eqn:Eg; try discriminate.
    apply get_at_ok in Eg. destruct Eg as [Hlt Hnth]. unfold len in Hlt; simpl in Hlt.
    assert (Hg0 : ai_group ix = 0) by lia. rewrite Hg0 in *. simpl in Hnth. inversion Hnth; subst g0.
    destruct (take1 g ix) as [g'|] eqn:Et; try discriminate.
    rewrite take1_memN in Et; cbv zeta in Et. unfold whole in Hx. rewrite Hx in Et. simpl in Et.
    destruct (memN (ai_index ix) (g_idx g)) eqn:E; [|discriminate]. inversion Et; subst g'; clear Et.
    apply memN_in in E. pose proof (len_removeN _ _ E).
    unfold set_at in Ht. simpl in Ht.
    destruct Hm as [Hu Hf].
    destruct (IH _ _ (mkCgroup (c_units cg - 1) (c_fr cg)) Hw' Ht) as (A & B & C).
    { split; simpl; [lia | auto]. }
    simpl in *. unfold len in *. simpl length. repeat split; auto; try lia.
    + destruct B as [B1 B2]. simpl in *. lia.
    + destruct B as [B1 B2]. auto.
Qed.

Lemma split_mk units fr : fr < FPU -> split (units * FPU + fr) = (units, fr).
Proof.
  intros H. unfold split. pose proof FPU_pos. f_equal.
  - rewrite N.div_add_l by lia. rewrite N.div_small by lia. lia.
  - rewrite N.add_comm, N.mod_add by lia. apply N.mod_small; auto.
Qed.

Lemma same_kind_trans a b c : same_kind a b = true -> same_kind b c = true -> same_kind a c = true.
Proof. destruct a, b, c; simpl; auto; discriminate. Qed.

Lemma get_at_single {A} (x : A) : get_at [x] 0 = Ok x.
Proof. reflexivity. Qed.

(** ConciseResourceState::remove on a sum resource *)
Lemma cs_remove_sum free c ra :
  sum_mirror free c -> ra_amount ra <= free -> ra_indices ra = [] ->
  exists c', cs_remove c ra = Ok c' /\ sum_mirror (free - ra_amount ra) c'.
Proof.
  intros (cg & -> & Hsum & Hlt & Hoth) Hle Hnil. unfold cs_remove. rewrite Hnil.
  unfold split. set (a := ra_amount ra) in *.
  assert (Hau : a / FPU <= c_units cg) by (unfold FPU, FRACTIONS_PER_UNIT in *; lia).
  destruct (N.ltb_spec (c_units cg) (a / FPU)); [lia|].
  destruct (N.ltb_spec 0 (a mod FPU)) as [Hpos|Hz].
  - unfold remove_fractions. rewrite get_at_single. cbn [bind c_units c_fr]. cbv zeta.
    destruct (N.ltb_spec (fget0 (c_fr cg) 0) (a mod FPU)) as [Hb|Hb].
    + assert (c_units cg - a / FPU <> 0) by (unfold FPU, FRACTIONS_PER_UNIT in *; lia).
      destruct (N.eqb_spec (c_units cg - a / FPU) 0); [congruence|].
      eexists; split; [reflexivity|]. eexists; split; [reflexivity|]. cbn [c_units c_fr].
      rewrite fget0_fset, N.eqb_refl. repeat split.
      * unfold FPU, FRACTIONS_PER_UNIT in *; lia.
      * unfold FPU, FRACTIONS_PER_UNIT in *; lia.
      * intros i Hi. rewrite fget0_fset. destruct (N.eqb_spec 0 i); [congruence|auto].
    + eexists; split; [reflexivity|]. eexists; split; [reflexivity|]. cbn [c_units c_fr].
      rewrite fget0_fset, N.eqb_refl. repeat split.
      * unfold FPU, FRACTIONS_PER_UNIT in *; lia.
      * unfold FPU, FRACTIONS_PER_UNIT in *; lia.
      * intros i Hi. rewrite fget0_fset. destruct (N.eqb_spec 0 i); [congruence|auto].
  - eexists; split; [reflexivity|]. eexists; split; [reflexivity|]. cbn [c_units c_fr]. repeat split; auto.
    unfold FPU, FRACTIONS_PER_UNIT in *; lia.
Qed.

Lemma fr_loop_single_whole f s l : Forall whole l -> fr_loop_single f s l = Ok s.
Proof. intros H. destruct H as [|ix l Hx _]; simpl; auto. unfold whole in Hx. rewrite Hx. auto. Qed.

(** ConciseResourceState::remove when the resource has a single group *)
Lemma cs_remove_single g cg ra g' :
  gwf g -> cmirror g cg -> shape_ok (ra_indices ra) = true -> ra_total ra = ra_amount ra ->
  take_all [g] (ra_indices ra) = Some [g'] ->
  exists cg', cs_remove [cg] ra = Ok [cg'] /\ cmirror g' cg'.
Proof.
  intros Hwf Hm Hshape Htot Ht.
  destruct (shape_split _ Hshape) as (ws & fs & E & Hw & Hf).
  rewrite E in Ht. rewrite take_all_app in Ht.
  destruct (take_all [g] ws) as [gs1|] eqn:Ews; [|discriminate].
  pose proof (take_all_length _ _ _ Ews) as Hl1. destruct gs1 as [|g1 [|? ?]]; try discriminate Hl1.
  destruct (single_whole _ _ _ _ Hw Ews Hm) as (Hle & Hm1 & Hg0).
  assert (Hwf1 : gwf g1).
  { assert (X : gs_wf [g1]) by (eapply take_all_wf; [|eauto]; constructor; auto). inversion X; auto. }
  unfold ra_total in Htot. rewrite ra_total_sum, E, map_app, sumN_app, (sum_whole _ Hw) in Htot.
  unfold cs_remove. rewrite <- Htot.
  destruct Hf as [->|(F & -> & HFz & HFl)].
  - cbn [map] in Htot |- *. rewrite sumN_nil in *. rewrite split_mk by apply FPU_pos.
    simpl in Ht. inversion Ht; subst g'.
    destruct (N.ltb_spec (c_units cg) (len ws)); [lia|]. simpl.
    eexists; split; [reflexivity|]. auto.
  - cbn [map] in Htot |- *. rewrite sumN_cons, sumN_nil in *.
    assert (HhF : held_ix F = ai_frac F) by (unfold held_ix; destruct (N.eqb_spec (ai_frac F) 0); congruence).
    rewrite HhF, N.add_0_r in *. rewrite split_mk by auto.
    destruct (N.ltb_spec (c_units cg) (len ws)); [lia|].
    destruct (N.ltb_spec 0 (ai_frac F)); [|lia].
    simpl in Ht. destruct (get_at [g1] (ai_group F)) as [g0| |] eqn:Eg; try discriminate.
    apply get_at_ok in Eg. destruct Eg as [Hlt Hnth]. unfold len in Hlt; simpl in Hlt.
    assert (HgF : ai_group F = 0) by lia. rewrite HgF in *. simpl in Hnth. inversion Hnth; subst g0.
    destruct (take1 g1 F) as [g2|] eqn:Et; try discriminate. unfold set_at in Ht; simpl in Ht. inversion Ht; subst g2.
    destruct (ctake1_mirror _ _ _ _ Hwf1 Hm1 Et) as (c' & Hc' & Hm').
    rewrite E. destruct (ws ++ [F]) eqn:EE; [destruct ws; discriminate|]. rewrite <- EE. clear EE.
    rewrite rev_app_distr. simpl rev. simpl app. cbn [fr_loop_single].
    destruct (N.eqb_spec (ai_frac F) 0); [congruence|].
    rewrite remove_fractions_ctake1 by auto. rewrite get_at_single, Hc'. cbn [bind].
    unfold set_at; simpl. rewrite fr_loop_single_whole.
    + eexists; split; [reflexivity|]. auto.
    + apply Forall_rev; auto.
Qed.

(** a validated claim keeps the pool invariant, with the claimed indices added to the holdings *)
Lemma hsum_app_ext H l g i : hsum H g i + hsum l g i = hsum (H ++ l) g i.
Proof. rewrite hsum_app. auto. Qed.

Lemma claim_PoolInv p0 p c H taken p' rid rq ra :
  PoolInv p0 p c H taken -> claim_ok p p' rid rq ra = true ->
  exists c', cs_remove c ra = Ok c'
             /\ PoolInv p0 p' c' (H ++ ra_indices ra) (taken + (if pool_is_sum p then ra_amount ra else 0)).
Proof.
  intros (Hk & Hfull & HI) Hok.
  destruct (claim_ok_inv _ _ _ _ _ Hok) as (Hres & Ham & Hk' & Hfull' & Hcl).
  assert (Hk0 : same_kind p0 p' = true) by (eapply same_kind_trans; eauto).
  destruct p as [|f g|f gs|f free]; [contradiction| | |].
  - (* indices pool *)
    destruct p' as [|f' g'| |]; try discriminate Hk'.
    destruct HI as (HG & Hm & Hwf & Hb). destruct Hcl as (Hshape & Htot & Ht). simpl in Ht, Hm, Hwf, HG, Hb.
    inversion Hm as [|? cg ? ? Hmg Hm']; subst. inversion Hm'; subst.
    inversion Hwf as [|? ? Hwg _]; subst.
    destruct (cs_remove_single _ _ _ _ Hwg Hmg Hshape Htot Ht) as (cg' & Hc' & Hm2).
    exists [cg']. split; auto. split; auto. split; [congruence|]. simpl pool_is_sum. cbv iota.
    destruct (take_all_GsI _ _ _ _ _ _ HG Ht) as [HG' Hgrp]. simpl pool_groups.
    split; [|split; [|split]].
    + eapply GsI_ext; [| |exact HG']; intros; simpl; rewrite ?hsum_app, ?hfany_app; auto.
    + constructor; auto.
    + eapply take_all_wf; eauto.
    + apply Forall_app. split; auto.
      pose proof (shape_ok_frac _ Hshape) as Hfr. rewrite Forall_forall in *. intros ix Hin.
      split; [apply Hfr; auto|]. specialize (Hgrp ix Hin). unfold len in *; simpl in *. auto.
  - (* groups pool *)
    destruct p' as [| |f' gs'|]; try discriminate Hk'.
    destruct HI as (HG & Hm & Hwf & Hb). destruct Hcl as (Hshape & Htot & Ht). simpl in Ht, Hm, Hwf, HG, Hb.
    assert (Hc' : exists c', cs_remove c ra = Ok c' /\ gs_mirror gs' c').
    { destruct gs as [|g [|g2 gs2]].
      - inversion Hm; subst. destruct (remove_loop_groups_mirror _ _ _ _ Hwf Hm Ht) as (c' & A & B & _). exists c'. split; auto.
      - pose proof (take_all_length _ _ _ Ht) as Hl. destruct gs' as [|g' [|? ?]]; try discriminate Hl.
        inversion Hm as [|? cg ? ? Hmg Hm']; subst. inversion Hm'; subst. inversion Hwf as [|? ? Hwg _]; subst.
        destruct (cs_remove_single _ _ _ _ Hwg Hmg Hshape Htot Ht) as (cg' & A & B).
        exists [cg']. split; auto. constructor; auto.
      - inversion Hm as [|? cg ? ? Hmg Hm']; subst. inversion Hm' as [|? cg2 ? ? Hmg2 Hm'']; subst.
        destruct (remove_loop_groups_mirror _ _ _ _ Hwf Hm Ht) as (c' & A & B & _). exists c'. split; auto. }
    destruct Hc' as (c' & Hc' & Hm2).
    exists c'. split; auto. split; auto. split; [congruence|]. simpl pool_is_sum. cbv iota.
    destruct (take_all_GsI _ _ _ _ _ _ HG Ht) as [HG' Hgrp]. simpl pool_groups.
    split; [|split; [|split]].
    + eapply GsI_ext; [| |exact HG']; intros; simpl; rewrite ?hsum_app, ?hfany_app; auto.
    + auto.
    + eapply take_all_wf; eauto.
    + pose proof (take_all_length _ _ _ Ht) as Hl.
      assert (Hlen : len gs' = len gs) by (unfold len; rewrite Hl; auto).
      apply Forall_app. split.
      * rewrite Forall_forall in *. intros ix Hin. rewrite Hlen. auto.
      * pose proof (shape_ok_frac _ Hshape) as Hfr. rewrite Forall_forall in *. intros ix Hin.
        split; [apply Hfr; auto|]. rewrite Hlen. auto.
  - (* sum pool *)
    destruct p' as [| | |f' free']; try discriminate Hk'.
    destruct HI as (Hsumf & Hsm & HH). destruct Hcl as (Hle & Hfree' & Hnil).
    destruct (cs_remove_sum _ _ _ Hsm Hle Hnil) as (c' & Hc' & Hsm').
    exists c'. split; auto. split; auto. split; [congruence|]. simpl in *. subst.
    rewrite Hnil, app_nil_r. repeat split; auto. lia.
Qed.

(* ------------------------------------------------------------------------------------------ *)
(** * Core invariant (without the concise mirror): preserved by claims AND releases *)

Definition PoolCore (p0 p : pool) (H : list aidx) (taken : N) : Prop :=
  same_kind p0 p = true /\ pool_full_size p = pool_full_size p0
  /\ match p with
     | PSum f free => free + taken = f /\ H = []
     | _ => GsI (pool_us p0) (pool_groups p) (hsum H) (hfany H)
            /\ Forall (fun ix => ai_frac ix < FPU /\ ai_group ix < len (pool_groups p)) H
     end.

Lemma PoolInv_core p0 p c H taken : PoolInv p0 p c H taken -> PoolCore p0 p H taken.
Proof.
  intros (A & B & C). split; auto. split; auto. destruct p; tauto.
Qed.

Lemma claim_PoolCore p0 p H taken p' rid rq ra :
  PoolCore p0 p H taken -> claim_ok p p' rid rq ra = true ->
  PoolCore p0 p' (H ++ ra_indices ra) (taken + (if pool_is_sum p then ra_amount ra else 0)).
Proof.
  intros (Hk & Hfull & HI) Hok.
  destruct (claim_ok_inv _ _ _ _ _ Hok) as (Hres & Ham & Hk' & Hfull' & Hcl).
  assert (Hk0 : same_kind p0 p' = true) by (eapply same_kind_trans; eauto).
  split; auto. split; [congruence|].
  destruct p as [|f g|f gs|f free]; [contradiction| | |].
  - destruct p' as [|f' g'| |]; try discriminate Hk'.
    destruct HI as (HG & Hb). destruct Hcl as (Hshape & Htot & Ht). simpl in Ht, HG, Hb.
    destruct (take_all_GsI _ _ _ _ _ _ HG Ht) as [HG' Hgrp]. simpl pool_groups. split.
    + eapply GsI_ext; [| |exact HG']; intros; simpl; rewrite ?hsum_app, ?hfany_app; auto.
    + apply Forall_app. split; auto.
      pose proof (shape_ok_frac _ Hshape) as Hfr. rewrite Forall_forall in *. intros ix Hin.
      split; [apply Hfr; auto|]. specialize (Hgrp ix Hin). unfold len in *; simpl in *. auto.
  - destruct p' as [| |f' gs'|]; try discriminate Hk'.
    destruct HI as (HG & Hb). destruct Hcl as (Hshape & Htot & Ht). simpl in Ht, HG, Hb.
    destruct (take_all_GsI _ _ _ _ _ _ HG Ht) as [HG' Hgrp]. simpl pool_groups.
    pose proof (take_all_length _ _ _ Ht) as Hl.
    assert (Hlen : len gs' = len gs) by (unfold len; rewrite Hl; auto). split.
    + eapply GsI_ext; [| |exact HG']; intros; simpl; rewrite ?hsum_app, ?hfany_app; auto.
    + apply Forall_app. split.
      * rewrite Forall_forall in *. intros ix Hin. rewrite Hlen. auto.
      * pose proof (shape_ok_frac _ Hshape) as Hfr. rewrite Forall_forall in *. intros ix Hin.
        split; [apply Hfr; auto|]. rewrite Hlen. auto.
  - destruct p' as [| | |f' free']; try discriminate Hk'.
    destruct HI as (Hsumf & HH). destruct Hcl as (Hle & Hfree' & Hnil). simpl in *. subst.
    rewrite Hnil, app_nil_r. split; auto. lia.
Qed.

(** returning a list of AllocationIndex (the loops of release_allocation) never panics for
    indices that are held, and restores the invariant without them *)
Lemma release_list us l : forall gs Hb,
  GsI us gs (hsum (Hb ++ l)) (hfany (Hb ++ l)) ->
  Forall (fun ix => ai_frac ix < FPU /\ ai_group ix < len gs) l ->
  exists gs', release_indices_groups gs l = Ok gs' /\ GsI us gs' (hsum Hb) (hfany Hb) /\ length gs' = length gs.
Proof.
  induction l as [|ix l IH]; intros gs Hb HG Hf; simpl.
  - rewrite app_nil_r in HG. eauto.
  - inversion Hf as [|? ? [Hfr Hgr] Hf']; subst.
    destruct (get_at_lt gs (ai_group ix) Hgr) as [g Hg]. rewrite Hg. cbn [bind].
    pose proof Hg as Hg'. apply get_at_ok in Hg'. destruct Hg' as [_ Hnth].
    destruct HG as [Hlen HG].
    assert (Hu : exists u, nth_error us (nat_of (ai_group ix)) = Some u).
    { destruct (nth_error us (nat_of (ai_group ix))) eqn:E; eauto.
      apply nth_error_None in E. unfold len, nat_of in *. lia. }
    destruct Hu as [u Hu].
    assert (HGI : GI u g (add_h (hsum (Hb ++ l) (ai_group ix)) ix) (add_hf (hfany (Hb ++ l) (ai_group ix)) ix)).
    { eapply GI_ext; [| |eapply HG; eauto]; intros i; unfold add_h, add_hf; rewrite ?hsum_app, ?hfany_app, ?hsum_cons, ?hfany_cons.
      - rewrite N.eqb_refl. simpl. destruct (N.eqb_spec i (ai_index ix)); destruct (N.eqb_spec (ai_index ix) i); try congruence; lia.
      - rewrite N.eqb_refl. simpl. destruct (N.eqb_spec i (ai_index ix)); destruct (N.eqb_spec (ai_index ix) i); try congruence; simpl;
          destruct (hfany Hb (ai_group ix) i); destruct (ai_frac ix =? 0); destruct (hfany l (ai_group ix) i); reflexivity. }
    destruct (release_index_GI _ _ _ _ _ HGI (compat_hsum _ _) Hfr) as (g' & Hr & HGI').
    rewrite Hr. cbn [bind].
    assert (HG1 : GsI us (set_at gs (ai_group ix) g') (hsum (Hb ++ l)) (hfany (Hb ++ l))).
    { eapply GsI_ext; [| |apply (GsI_set_at us gs (hsum (Hb ++ ix :: l)) (hfany (Hb ++ ix :: l)) (ai_group ix) g' (hsum (Hb ++ l) (ai_group ix)) (hfany (Hb ++ l) (ai_group ix)))].
      - intros g0 i. cbv beta. destruct (N.eqb_spec g0 (ai_group ix)); [subst; auto|].
        rewrite !hsum_app, hsum_cons. destruct (N.eqb_spec (ai_group ix) g0); [congruence|]. simpl. lia.
      - intros g0 i. cbv beta. destruct (N.eqb_spec g0 (ai_group ix)); [subst; auto|].
        rewrite !hfany_app, hfany_cons. destruct (N.eqb_spec (ai_group ix) g0); [congruence|]. simpl. auto.
      - split; auto.
      - auto.
      - intros u' Hu'. rewrite Hu in Hu'. inversion Hu'; subst. auto. }
    destruct (IH (set_at gs (ai_group ix) g') Hb HG1) as (gs' & A & B & C).
    { rewrite len_set_at. auto. }
    exists gs'. split; auto. split; auto. rewrite C. apply set_at_length.
Qed.
