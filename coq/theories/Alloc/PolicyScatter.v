(** C16 - the round-robin loop of ResourcePool::claim_scatter_from_groups (policy scatter over all groups,
    policies compact / compact! over the groups selected by the solver):
    the whole indices are handed out in rounds over the groups, one index per non-empty group and round.
    Hence (scatter) the claim touches min(units, number of non-empty groups) groups and (compact) the numbers of
    whole indices taken from two of the groups differ by at most one unless the smaller one was drained. *)
From Coq Require Import Permutation.
From HQ Require Import Base.Prelude Gen.Consts Alloc.Model Alloc.Spec Alloc.Lemmas Alloc.Group Alloc.Pool Alloc.Inv Alloc.System Alloc.Mirror Alloc.MirrorSystem Alloc.Complete Alloc.CompleteTight Alloc.PolicyBase.
Require Import ZifyBool ZifyN ZifyNat.
Open Scope N_scope.
Arguments N.add : simpl never.
Arguments N.sub : simpl never.
Arguments N.mul : simpl never.
Arguments N.div : simpl never.
Arguments N.modulo : simpl never.
Arguments N.eqb : simpl never.
Arguments N.ltb : simpl never.
Arguments N.leb : simpl never.
Arguments N.of_nat : simpl never.
Arguments N.to_nat : simpl never.
Arguments sumN : simpl never.

(** the list of groups the loop cycles through *)
Definition slist (n : nat) (sel : option (list N)) : list N := match sel with Some s => s | None => seqN 0 n end.

(** positions of [s] are pairwise different groups *)
Definition sinj (s : list N) : Prop := forall j1 j2 g, get_at s j1 = Ok g -> get_at s j2 = Ok g -> j1 = j2.

Lemma sinj_nodup s : NoDup s -> sinj s.
Proof.
  intros Hnd j1 j2 g H1 H2. apply get_at_ok in H1, H2. destruct H1 as [L1 N1], H2 as [L2 N2].
  apply nat_of_inj. rewrite NoDup_nth_error in Hnd. apply Hnd; [unfold len, nat_of in *; lia | congruence].
Qed.

Lemma sinj_seqN n : sinj (seqN 0 n).
Proof. apply sinj_nodup, nodup_seqN. Qed.

(** state of the rounds: in round [c], the groups at positions < [pos] already got their index of this round *)
Definition EvenAt (s : list N) (L : N -> N) (out : list aidx) (c pos : N) : Prop :=
  forall j g, get_at s j = Ok g -> wc out g = N.min (if j <? pos then c + 1 else c) (L g).

Definition okix (n : nat) (s : list N) (ix : aidx) : Prop :=
  (exists j, get_at s j = Ok (ai_group ix)) /\ ai_group ix < N.of_nat n.

Section RoundRobin.
  Variables (n : nat) (sel : option (list N)) (wit : option N) (L : N -> N).
  Let s := slist n sel.
  Hypothesis Hinj : sinj s.

  Lemma sel_get (gs : list group) pos gi g : length gs = n ->
    (match sel with Some s0 => get_at s0 pos | None => Ok pos end) = Ok gi -> get_at gs gi = Ok g ->
    get_at s pos = Ok gi.
  Proof.
    intros Hn Hs Hg. unfold s, slist. destruct sel; auto. inversion Hs; subst. apply get_at_seqN_lt.
    apply get_at_range in Hg. unfold len in Hg. lia.
  Qed.

  Lemma sel_mod (gs : list group) : length gs = n ->
    (match sel with Some s0 => len s0 | None => len gs end) = len s.
  Proof. intros Hn. unfold s, slist. destruct sel; auto. unfold len. rewrite length_seqN. lia. Qed.

  (** once the whole indices are taken, at most one fractional index is added *)
  Lemma scatter_frac_phase fuel : forall gs fr pos out gs' out',
    length gs = n ->
    scatter_loop fuel gs sel 0 fr pos wit out = Ok (gs', out') ->
    out' = out \/ exists F, out' = out ++ [F] /\ ai_frac F = fr /\ fr <> 0 /\ okix n s F.
  Proof.
    induction fuel as [|fuel IH]; intros gs fr pos out gs' out' Hn Hl; cbn [scatter_loop] in Hl.
    - destruct ((0 =? 0) && (fr =? 0)); [|discriminate]. inversion Hl; subst; auto.
    - destruct (N.eqb_spec fr 0) as [Hz|Hz].
      + rewrite N.eqb_refl in Hl. cbn [andb] in Hl. inversion Hl; subst; auto.
      + rewrite N.eqb_refl in Hl. cbn [andb] in Hl.
        destruct (match sel with Some s0 => get_at s0 pos | None => Ok pos end) as [gi| |] eqn:Egi; cbn [bind] in Hl; try discriminate.
        destruct (get_at gs gi) as [g| |] eqn:Eg; cbn [bind] in Hl; try discriminate.
        pose proof (sel_get _ _ _ _ Hn Egi Eg) as Hs.
        assert (Hrange : gi < N.of_nat n) by (apply get_at_range in Eg; unfold len in Eg; lia).
        destruct (N.ltb_spec 0 0) as [Hlt|_]; [lia|].
        destruct (best_fraction_match (g_fr g) fr wit) as [[[i f]|]| |] eqn:Eb; cbn [bind] in Hl; try discriminate.
        * rewrite scatter_loop_done in Hl. inversion Hl; subst. right. eexists. split; [reflexivity|].
          cbn [ai_frac ai_group]. repeat split; auto. exists pos; auto.
        * destruct (g_idx g) as [|i rest] eqn:Es.
          -- eapply IH; eauto.
          -- rewrite scatter_loop_done in Hl. inversion Hl; subst. right. eexists. split; [reflexivity|].
             cbn [ai_frac ai_group]. repeat split; auto. exists pos; auto.
  Qed.

  (** one visit of the group at position [pos] *)
  Lemma even_step out out1 c pos gi :
    get_at s pos = Ok gi ->
    EvenAt s L out c pos ->
    wc out1 gi = N.min (c + 1) (L gi) ->
    (forall g, g <> gi -> wc out1 g = wc out g) ->
    exists c', EvenAt s L out1 c' ((pos + 1) mod len s).
  Proof.
    intros Hs Hev Hgi Hoth. pose proof (get_at_range _ _ _ Hs) as Hlt.
    destruct (N.eq_dec (pos + 1) (len s)) as [Hwrap|Hnw].
    - exists (c + 1). rewrite Hwrap, N.mod_same by lia.
      intros j g Hj. destruct (N.ltb_spec j 0) as [|_]; [lia|].
      destruct (N.eq_dec j pos) as [->|Hne].
      + rewrite Hj in Hs. inversion Hs; subst. auto.
      + assert (g <> gi) by (intros ->; apply Hne; eapply Hinj; eauto).
        rewrite Hoth by auto. rewrite (Hev _ _ Hj). pose proof (get_at_range _ _ _ Hj).
        destruct (N.ltb_spec j pos); [auto|lia].
    - exists c. rewrite N.mod_small by lia.
      intros j g Hj. destruct (N.eq_dec j pos) as [->|Hne].
      + rewrite Hj in Hs. inversion Hs; subst. destruct (N.ltb_spec pos (pos + 1)); [auto|lia].
      + assert (g <> gi) by (intros ->; apply Hne; eapply Hinj; eauto).
        rewrite Hoth by auto. rewrite (Hev _ _ Hj).
        destruct (N.ltb_spec j pos), (N.ltb_spec j (pos + 1)); auto; lia.
  Qed.

  (** the loop: conservation (whole indices taken + still free = free before) and the round structure *)
  Lemma scatter_units fuel : forall gs units fr pos out gs' out' c,
    length gs = n ->
    (forall g, wc out g + lenidx gs g = L g) ->
    EvenAt s L out c pos ->
    Forall (okix n s) out ->
    scatter_loop fuel gs sel units fr pos wit out = Ok (gs', out') ->
    (exists c' pos', EvenAt s L out' c' pos') /\ Forall (okix n s) out' /\ nwhole out' = nwhole out + units.
  Proof.
    induction fuel as [|fuel IH]; intros gs units fr pos out gs' out' c Hn Hcons Hev Hok Hl.
    - cbn [scatter_loop] in Hl. destruct ((units =? 0) && (fr =? 0)) eqn:E0; [|discriminate].
      inversion Hl; subst. apply andb_true_iff in E0. destruct E0 as [E1 _]. apply N.eqb_eq in E1. subst.
      split; [eauto|]. split; auto. lia.
    - destruct (N.eq_dec units 0) as [->|Hu].
      + apply scatter_frac_phase in Hl; auto. destruct Hl as [->|(F & -> & HfF & Hfr & HokF)].
        * split; [eauto|]. split; auto. lia.
        * split; [|split].
          -- exists c, pos. intros j g Hj. rewrite wc_app, wc_frac by congruence. rewrite N.add_0_r. auto.
          -- apply Forall_app; split; auto.
          -- rewrite nwhole_app, nwhole_cons, nwhole_nil. destruct (N.eqb_spec (ai_frac F) 0); [congruence|lia].
      + cbn [scatter_loop] in Hl.
        destruct (N.eqb_spec units 0) as [|_]; [congruence|]. cbn [andb] in Hl.
        destruct (match sel with Some s0 => get_at s0 pos | None => Ok pos end) as [gi| |] eqn:Egi; cbn [bind] in Hl; try discriminate.
        destruct (get_at gs gi) as [g| |] eqn:Eg; cbn [bind] in Hl; try discriminate.
        pose proof (sel_get _ _ _ _ Hn Egi Eg) as Hs.
        assert (Hrange : gi < N.of_nat n) by (apply get_at_range in Eg; unfold len in Eg; lia).
        rewrite (sel_mod gs Hn) in Hl.
        destruct (N.ltb_spec 0 units) as [_|Hle]; [|lia].
        pose proof (Hev _ _ Hs) as Hpos. rewrite N.ltb_irrefl in Hpos.
        pose proof (Hcons gi) as Hcgi. rewrite (lenidx_get _ _ _ Eg) in Hcgi.
        destruct (g_idx g) as [|i rest] eqn:Es.
        * (* the group is empty: next group *)
          unfold len in Hcgi. cbn [length] in Hcgi.
          destruct (even_step out out c pos gi Hs Hev) as [c' Hev']; [lia|auto|].
          eapply IH; eauto.
        * (* one index of this group *)
          unfold len in Hcgi. cbn [length] in Hcgi.
          destruct (even_step out (out ++ [mkAidx i gi 0]) c pos gi Hs Hev) as [c' Hev'].
          { rewrite wc_app, wc_whole_same, N.eqb_refl. lia. }
          { intros g' Hg'. rewrite wc_app, wc_whole_same. destruct (N.eqb_spec gi g'); [congruence|lia]. }
          assert (Hcons1 : forall g', wc (out ++ [mkAidx i gi 0]) g' + lenidx (set_at gs gi (mkGroup rest (g_fr g))) g' = L g').
          { intros g'. destruct (N.eq_dec gi g') as [<-|Hne].
            - rewrite wc_app, wc_whole_same, N.eqb_refl, (lenidx_set_at_same _ _ _ _ Eg). cbn [g_idx]. unfold len. lia.
            - rewrite wc_app, wc_whole_same, lenidx_set_at_other by auto.
              destruct (N.eqb_spec gi g'); [congruence|]. rewrite N.add_0_r. auto. }
          assert (Hok1 : Forall (okix n s) (out ++ [mkAidx i gi 0])).
          { apply Forall_app. split; auto. constructor; [|constructor]. split; cbn [ai_group]; eauto. }
          destruct (IH _ _ _ _ _ _ _ c' (eq_trans (set_at_length _ _ _) Hn) Hcons1 Hev' Hok1 Hl) as (A & B & C).
          split; auto. split; auto. rewrite C, nwhole_app, nwhole_cons, nwhole_nil. cbn [ai_frac]. rewrite N.eqb_refl. lia.
  Qed.
End RoundRobin.

(** the whole claim_scatter_from_groups (loop + sort) *)
Lemma claim_scatter_even a gs sel wit gs' out :
  sinj (slist (length gs) sel) ->
  claim_scatter_from_groups a gs sel wit = Ok (gs', out) ->
  (exists c pos, EvenAt (slist (length gs) sel) (lenidx gs) out c pos)
  /\ Forall (okix (length gs) (slist (length gs) sel)) out
  /\ nwhole out = fst (split a).
Proof.
  intros Hinj Hc. unfold claim_scatter_from_groups in Hc. destruct (split a) as [units fr]. cbn [fst].
  destruct (scatter_loop (scatter_fuel gs sel) gs sel units fr 0 wit []) as [[gs1 raw]| |] eqn:El; cbn [bind] in Hc; try discriminate.
  inversion Hc; subst gs1 out. clear Hc.
  assert (Hc0 : forall g, wc [] g + lenidx gs g = lenidx gs g) by (intros g; rewrite wc_nil; lia).
  assert (He0 : EvenAt (slist (length gs) sel) (lenidx gs) [] 0 0).
  { intros j g Hj. rewrite wc_nil. destruct (N.ltb_spec j 0); lia. }
  destruct (scatter_units (length gs) sel wit (lenidx gs) Hinj _ _ _ _ _ _ _ _ 0 eq_refl Hc0 He0 (Forall_nil _) El)
    as ((c & pos & Hev) & Hok & Hn).
  pose proof (isort_perm aidx_le raw) as Hp.
  split; [|split].
  - exists c, pos. intros j g Hj. rewrite (wc_perm _ _ _ Hp). auto.
  - eapply Permutation_Forall; [apply Permutation_sym; exact Hp|auto].
  - rewrite (nwhole_perm _ _ Hp), Hn, nwhole_nil. lia.
Qed.

(* ------------------------------------------------------------------------------------------ *)
(** * scatter: min(units, number of non-empty groups) groups are touched *)

Theorem scatter_shape a gs wit gs' out :
  claim_scatter_from_groups a gs None wit = Ok (gs', out) ->
  len (filter (fun gi => negb (wc out gi =? 0)) (seqN 0 (length gs)))
  = N.min (fst (split a)) (len (filter (fun g => negb (len (g_idx g) =? 0)) gs)).
Proof.
  intros Hc. destruct (claim_scatter_even a gs None wit gs' out (sinj_seqN _) Hc) as ((c & pos & Hev) & Hok & Hn).
  cbn [slist] in *. set (n := length gs) in *.
  assert (Hin : forall j, In j (seqN 0 n) -> wc out j = N.min (if j <? pos then c + 1 else c) (lenidx gs j)).
  { intros j Hj. apply Hev. apply get_at_seqN_lt. apply in_seqN in Hj. lia. }
  (* whole indices = sum over the groups *)
  assert (Hsum : fst (split a) = sumN (map (wc out) (seqN 0 n))).
  { rewrite <- Hn. apply nwhole_sum_wc. eapply Forall_impl; [|exact Hok]. intros ix [_ H]. exact H. }
  (* non-empty groups, by position *)
  assert (Hne : len (filter (fun g => negb (len (g_idx g) =? 0)) gs)
                = len (filter (fun j => negb (lenidx gs j =? 0)) (seqN 0 n))).
  { apply count_positions. intros j x Hx. rewrite lenidx_nth. unfold nat_of.
    replace (N.to_nat (0 + N.of_nat j)) with j by lia. rewrite Hx. auto. }
  rewrite Hne, Hsum.
  pose proof (sum_ge_count (wc out) (seqN 0 n)) as Hge.
  destruct (N.eq_dec c 0) as [->|Hc0].
  - (* first round: one index per touched group *)
    assert (Hle1 : forall j, In j (seqN 0 n) -> wc out j <= 1).
    { intros j Hj. rewrite (Hin j Hj). destruct (j <? pos); lia. }
    rewrite (sum_eq_count _ _ Hle1).
    assert (Hle : len (filter (fun j => negb (wc out j =? 0)) (seqN 0 n))
                  <= len (filter (fun j => negb (lenidx gs j =? 0)) (seqN 0 n))).
    { apply count_le. intros j Hj. rewrite (Hin j Hj).
      destruct (j <? pos), (N.eqb_spec (lenidx gs j) 0), (N.eqb_spec (N.min (0 + 1) (lenidx gs j)) 0), (N.eqb_spec (N.min 0 (lenidx gs j)) 0);
        cbn [negb]; auto; lia. }
    lia.
  - (* later rounds: every non-empty group is touched *)
    assert (Heq : len (filter (fun j => negb (wc out j =? 0)) (seqN 0 n))
                  = len (filter (fun j => negb (lenidx gs j =? 0)) (seqN 0 n))).
    { apply count_ext. intros j Hj. rewrite (Hin j Hj).
      destruct (j <? pos), (N.eqb_spec (lenidx gs j) 0), (N.eqb_spec (N.min (c + 1) (lenidx gs j)) 0), (N.eqb_spec (N.min c (lenidx gs j)) 0);
        cbn [negb]; auto; lia. }
    lia.
Qed.

(** The monitor scatter-shape as a theorem: for EVERY group pool and EVERY scatter request, whatever
    ResourcePool::claim_resources returns touches min(units, number of non-empty groups) groups. *)
Theorem C16_scatter_shape : forall before e a wit full gs p' ra,
  e_req e = Req Scatter a ->
  nth_error before (nat_of (e_res e)) = Some (PGroups full gs) ->
  pool_claim (PGroups full gs) (e_res e) (e_req e) wit = Ok (p', ra) ->
  scatter_ok before e ra = true.
Proof.
  intros before e a wit full gs p' ra He Hn Hc. unfold scatter_ok. rewrite He in *. rewrite Hn.
  cbn [pool_claim] in Hc.
  destruct (claim_scatter_from_groups a gs None wit) as [[gs' out]| |] eqn:E; cbn [bind] in Hc; try discriminate.
  inversion Hc; subst. apply N.eqb_eq.
  rewrite <- (scatter_shape _ _ _ _ _ E). apply count_ext. intros j _. rewrite whole_count_wc. reflexivity.
Qed.

(* ------------------------------------------------------------------------------------------ *)
(** * compact: even spread over the selected groups *)

Theorem compact_even a gs mask wit gs' out :
  NoDup mask ->
  claim_scatter_from_groups a gs (Some mask) wit = Ok (gs', out) ->
  forall g h, In g (map ai_group out) -> In h (map ai_group out) ->
    wc out h <= wc out g + 1
    \/ exists gr, nth_error gs (nat_of g) = Some gr /\ wc out g = len (g_idx gr).
Proof.
  intros Hnd Hc g h Hg Hh.
  destruct (claim_scatter_even a gs (Some mask) wit gs' out (sinj_nodup _ Hnd) Hc) as ((c & pos & Hev) & Hok & Hn).
  cbn [slist] in *. rewrite Forall_forall in Hok.
  apply in_map_iff in Hg. destruct Hg as (xg & <- & Hxg). destruct (Hok _ Hxg) as [[jg Hjg] Hrg].
  apply in_map_iff in Hh. destruct Hh as (xh & <- & Hxh). destruct (Hok _ Hxh) as [[jh Hjh] Hrh].
  pose proof (Hev _ _ Hjg) as Eg. pose proof (Hev _ _ Hjh) as Eh.
  destruct (N.le_gt_cases (wc out (ai_group xh)) (wc out (ai_group xg) + 1)) as [Hle|Hgt]; [left; auto|right].
  rewrite lenidx_nth in Eg.
  destruct (nth_error gs (nat_of (ai_group xg))) as [gr|] eqn:En.
  - exists gr. split; auto. destruct (jg <? pos), (jh <? pos); lia.
  - exfalso. apply nth_error_None in En. unfold nat_of in En. lia.
Qed.

(** The monitor compact-shape as a theorem: for EVERY group pool, EVERY compact / compact! request and EVERY
    duplicate-free group selection (the solver's answers are strictly increasing lists of group ids),
    whatever ResourcePool::claim_resources_with_group_mask returns is spread evenly: the numbers of whole
    indices taken from two of the groups used differ by more than one only if the smaller one was drained. *)
Theorem C16_compact_shape : forall before e a mask wit full gs p' ra,
  e_req e = Req Compact a \/ e_req e = Req ForceCompact a ->
  NoDup mask ->
  nth_error before (nat_of (e_res e)) = Some (PGroups full gs) ->
  claim_with_group_mask (PGroups full gs) (e_res e) (e_req e) mask wit = Ok (p', ra) ->
  compact_even_ok before e ra = true.
Proof.
  intros before e a mask wit full gs p' ra He Hnd Hn Hc.
  assert (Hc' : exists gs' out, claim_scatter_from_groups a gs (Some mask) wit = Ok (gs', out) /\ ra_indices ra = out).
  { destruct He as [He|He]; rewrite He in Hc; cbn [claim_with_group_mask] in Hc;
      destruct (claim_scatter_from_groups a gs (Some mask) wit) as [[gs' out]| |]; cbn [bind] in Hc; try discriminate;
      inversion Hc; subst; eauto. }
  destruct Hc' as (gs' & out & E & Hout).
  assert (Hgoal : forallb (fun g => forallb (fun h =>
            (whole_count ra h <=? whole_count ra g + 1)
            || match nth_error gs (nat_of g) with Some gr => whole_count ra g =? len (g_idx gr) | None => false end)
            (dedup (map ai_group (ra_indices ra)))) (dedup (map ai_group (ra_indices ra))) = true).
  { apply forallb_forall. intros g Hg. apply forallb_forall. intros h Hh.
    rewrite in_dedup in Hg, Hh. rewrite !whole_count_wc, Hout in *.
    destruct (compact_even _ _ _ _ _ _ Hnd E g h Hg Hh) as [Hle|(gr & Hgr & Heq)].
    - apply orb_true_iff. left. apply N.leb_le. auto.
    - apply orb_true_iff. right. rewrite Hgr. apply N.eqb_eq. auto. }
  unfold compact_even_ok. destruct He as [He|He]; rewrite He, Hn; exact Hgoal.
Qed.

(** strictly increasing answers of the solver are duplicate free *)
Lemma increasing_nodup m : forall lo n, strictly_increasing_below m lo n = true -> NoDup m /\ Forall (fun g => lo <= g) m.
Proof.
  induction m as [|g m IH]; intros lo n H; [split; constructor|].
  cbn [strictly_increasing_below] in H. apply andb_true_iff in H. destruct H as [H H3]. apply andb_true_iff in H. destruct H as [H1 H2].
  destruct (IH _ _ H3) as [Hnd Hge]. split.
  - constructor; auto. intros Hin. rewrite Forall_forall in Hge. specialize (Hge _ Hin). lia.
  - constructor; [lia|]. eapply Forall_impl; [|exact Hge]. intros x Hx. cbv beta in Hx. lia.
Qed.

(** non-vacuity: scatter of 3.5 units over the groups [2 free; 0 free; 3 free + a partly used index]:
    2 = min(3, 2) groups are touched; compact of 5 units over groups 0 and 2: group 0 is drained (2), group 2 gives 3 *)
Example scatter_shape_example :
  let gs := [mkGroup [1; 0] []; mkGroup [] []; mkGroup [6; 5; 4] [(7, 6000)]] in
  let p := PGroups (mk_amount 6 0) gs in
  exists p' ra,
    pool_claim p 0 (Req Scatter 35000) (Some 7) = Ok (p', ra)
    /\ ra_indices ra = [mkAidx 0 0 0; mkAidx 1 0 0; mkAidx 6 2 0; mkAidx 7 2 5000]
    /\ scatter_ok [p] (mkEntry 0 (Req Scatter 35000)) ra = true.
Proof. vm_compute. eexists _, _. repeat split. Qed.

Example compact_shape_example :
  let gs := [mkGroup [1; 0] []; mkGroup [] []; mkGroup [6; 5; 4] [(7, 6000)]] in
  let p := PGroups (mk_amount 6 0) gs in
  exists p' ra,
    claim_with_group_mask p 0 (Req Compact 50000) [0; 2] None = Ok (p', ra)
    /\ NoDup [0; 2]
    /\ whole_count ra 0 = 2 /\ whole_count ra 2 = 3
    /\ compact_even_ok [p] (mkEntry 0 (Req Compact 50000)) ra = true.
Proof.
  vm_compute. eexists _, _. split; [reflexivity|]. split; [|repeat split].
  constructor; [intros [H|[]]; discriminate|]. constructor; [intros []|constructor].
Qed.

Print Assumptions C16_scatter_shape.
Print Assumptions C16_compact_shape.
