(** Executable model of tako's worker-side resource allocator (properties C04, C16).

    Function by function with
      crates/tako/src/internal/worker/resources/{pool.rs,concise.rs,groups.rs,allocator.rs}
      crates/tako/src/internal/common/resources/{amount.rs,allocation.rs,request.rs,descriptor.rs}

    Conventions
    * amounts are [N] in fractions ([FPU] = FRACTIONS_PER_UNIT fractions per unit);
      [split a = (a / FPU, a mod FPU)].
    * a Rust [Vec<ResourceIndex>] used as a stack (push/pop at the end) is a list whose HEAD is the
      LAST element of the Vec (top of the stack).
    * a Rust [Map<ResourceIndex, ResourceFractions>] (hash map) is an association list with
      pairwise distinct keys; the only place where the hash order is observable is the tie break of
      [best_fraction_match] (min_by_key over the iteration order) - that choice is a WITNESS.
    * the answer of the HiGHS group solver is a WITNESS (the selected group sets) which the model
      checks for feasibility against the very constraint rows groups.rs builds; its objective value
      is recomputed exactly (scaled to integers).
    * every unwrap / expect / assert! / unreachable! / index / arithmetic overflow of the modelled
      functions is a [Panic site]; a loop that would not terminate is [Panic SITE_HANG];
      a witness the model does not accept is [Disabled]. *)
From HQ Require Import Base.Prelude Gen.Consts.
Open Scope N_scope.

Definition FPU : N := FRACTIONS_PER_UNIT.

(** Panic sites *)
Definition SITE_POP : N := 1.            (* pool_indices.pop().unwrap() *)
Definition SITE_UNREACHABLE : N := 2.    (* unreachable!() in pool.rs *)
Definition SITE_INDEX : N := 3.          (* slice / Vec index out of bounds *)
Definition SITE_HANG : N := 4.           (* a loop of the real code that never terminates *)
Definition SITE_UNDERFLOW : N := 5.      (* u32/u64 subtraction overflow (debug build) *)
Definition SITE_RELEASE_UNWRAP : N := 6. (* fractions.get_mut(..).unwrap() in release_allocation *)
Definition SITE_RELEASE_ASSERT : N := 7. (* assert! in release_allocation *)
Definition SITE_CONCISE_ASSERT : N := 8. (* assert! in concise.rs *)
Definition SITE_AMOUNT_ASSERT : N := 9.  (* assert!(fractions < FRACTIONS_PER_UNIT) in ResourceAmount::new *)
Definition SITE_SOLVER_UNWRAP : N := 10. (* group_solver(..).unwrap() *)
Definition SITE_NEW : N := 11.           (* expect(..) in ResourceAllocator::new *)
Definition SITE_MAXBY_UNWRAP : N := 12.  (* max_by_key(..).unwrap() in claim_compact_from_groups *)

(* ------------------------------------------------------------------------------------------ *)
(** * Amounts, allocations, requests *)

Definition split (a : N) : N * N := (a / FPU, a mod FPU).
Definition mk_amount (units fr : N) : N := units * FPU + fr.

Record aidx := mkAidx { ai_index : N; ai_group : N; ai_frac : N }.          (* AllocationIndex *)
Record ralloc := mkRalloc { ra_res : N; ra_amount : N; ra_indices : list aidx }. (* ResourceAllocation *)
Definition allocation := list ralloc.                                        (* Allocation.resources *)

Inductive policy := Compact | Tight | Scatter | ForceCompact | ForceTight.
Inductive areq := Req (p : policy) (amount : N) | ReqAll.                    (* AllocationRequest *)
Record entry := mkEntry { e_res : N; e_req : areq }.                         (* ResourceAllocRequest *)
Definition request := list entry.                                            (* ResourceRequest.resources *)

Definition policy_eqb (p q : policy) : bool :=
  match p, q with
  | Compact, Compact | Tight, Tight | Scatter, Scatter | ForceCompact, ForceCompact | ForceTight, ForceTight => true
  | _, _ => false
  end.
Definition areq_eqb (a b : areq) : bool :=
  match a, b with
  | Req p x, Req q y => policy_eqb p q && (x =? y)
  | ReqAll, ReqAll => true
  | _, _ => false
  end.
Definition entry_eqb (a b : entry) : bool := (e_res a =? e_res b) && areq_eqb (e_req a) (e_req b).
Fixpoint request_eqb (a b : request) : bool :=
  match a, b with
  | [], [] => true
  | x :: a', y :: b' => entry_eqb x y && request_eqb a' b'
  | _, _ => false
  end.

Definition is_relevant_for_coupling (r : areq) : bool :=
  match r with Req Scatter _ => false | Req _ _ => true | ReqAll => false end.
Definition is_forced (r : areq) : bool :=
  match r with Req ForceCompact _ | Req ForceTight _ => true | _ => false end.
(** AllocationRequest::amount(all) *)
Definition req_amount (r : areq) (all : N) : N := match r with Req _ a => a | ReqAll => all end.

(* ------------------------------------------------------------------------------------------ *)
(** * Fraction maps *)

Definition fmap := list (N * N).

Fixpoint fget (m : fmap) (i : N) : option N :=
  match m with
  | [] => None
  | (k, v) :: m' => if k =? i then Some v else fget m' i
  end.
(** insert / overwrite *)
Fixpoint fset (m : fmap) (i v : N) : fmap :=
  match m with
  | [] => [(i, v)]
  | (k, w) :: m' => if k =? i then (k, v) :: m' else (k, w) :: fset m' i v
  end.
Fixpoint fremove (m : fmap) (i : N) : fmap :=
  match m with
  | [] => []
  | (k, w) :: m' => if k =? i then m' else (k, w) :: fremove m' i
  end.
Definition fget0 (m : fmap) (i : N) : N := match fget m i with Some v => v | None => 0 end.
(** values().max().unwrap_or(0) *)
Fixpoint fmax (m : fmap) : N :=
  match m with [] => 0 | (_, v) :: m' => N.max v (fmax m') end.

(** smallest value >= fr among the entries *)
Fixpoint cand_min (m : fmap) (fr : N) : option N :=
  match m with
  | [] => None
  | (_, v) :: m' =>
      let r := cand_min m' fr in
      if fr <=? v then match r with Some w => Some (N.min v w) | None => Some v end else r
  end.

(** ResourcePool::best_fraction_match: filter(f >= fractions).min_by_key(f) over the hash map's
    iteration order.  Which of several minimal entries wins is decided by the hash order: the
    winner is the witness [wit]; the model checks that it is a minimal fitting entry. *)
Definition best_fraction_match (m : fmap) (fr : N) (wit : option N) : res (option (N * N)) :=
  match cand_min m fr with
  | None => Ok None
  | Some mn =>
      match wit with
      | Some i =>
          match fget m i with
          | Some f => if f =? mn then Ok (Some (i, f)) else Disabled
          | None => Disabled
          end
      | None => Disabled
      end
  end.

(* ------------------------------------------------------------------------------------------ *)
(** * Pools (pool.rs) *)

Record group := mkGroup { g_idx : list N; g_fr : fmap }.

Inductive pool :=
| PEmpty
| PIndices (full : N) (g : group)
| PGroups (full : N) (gs : list group)
| PSum (full free : N).

Definition pool_full_size (p : pool) : N :=
  match p with PEmpty => 0 | PIndices f _ => f | PGroups f _ => f | PSum f _ => f end.

Definition len {A} (l : list A) : N := N.of_nat (length l).

Fixpoint nth_res {A} (l : list A) (n : nat) : res A :=
  match l, n with
  | [], _ => Panic SITE_INDEX
  | x :: _, O => Ok x
  | _ :: l', S n' => nth_res l' n'
  end.
Fixpoint set_nth {A} (l : list A) (n : nat) (x : A) : list A :=
  match l, n with
  | [], _ => []
  | _ :: l', O => x :: l'
  | y :: l', S n' => y :: set_nth l' n' x
  end.
(** bounded conversion: only called after a bounds check against a list length *)
Definition nat_of (n : N) : nat := N.to_nat n.
Definition get_at {A} (l : list A) (i : N) : res A :=
  if i <? len l then nth_res l (nat_of i) else Panic SITE_INDEX.
Definition set_at {A} (l : list A) (i : N) (x : A) : list A :=
  if i <? len l then set_nth l (nat_of i) x else l.

(** ResourcePool::take_indices: [units] times [out.push(pop().unwrap())] *)
Definition take_indices (st : list N) (gid units : N) (out : list aidx) : res (list N * list aidx) :=
  if len st <? units then Panic SITE_POP
  else
    let n := nat_of units in
    Ok (skipn n st, out ++ map (fun i => mkAidx i gid 0) (firstn n st)).

(** ResourcePool::take_fraction_index_or_split *)
Definition take_fraction_index_or_split (g : group) (fr gid : N) (wit : option N) (out : list aidx)
  : res (group * list aidx) :=
  if fr =? 0 then Ok (g, out)
  else
    do m <- best_fraction_match (g_fr g) fr wit;
    match m with
    | Some (i, f) => Ok (mkGroup (g_idx g) (fset (g_fr g) i (f - fr)), out ++ [mkAidx i gid fr])
    | None =>
        match g_idx g with
        | [] => Panic SITE_POP
        | i :: rest => Ok (mkGroup rest (fset (g_fr g) i (FPU - fr)), out ++ [mkAidx i gid fr])
        end
    end.

(** ResourcePool::try_take_fraction *)
Definition try_take_fraction (g : group) (fr gid : N) (wit : option N) (out : list aidx)
  : res (group * list aidx * bool) :=
  if fr =? 0 then Ok (g, out, false)
  else
    do m <- best_fraction_match (g_fr g) fr wit;
    match m with
    | Some (i, f) => Ok (mkGroup (g_idx g) (fset (g_fr g) i (f - fr)), out ++ [mkAidx i gid fr], true)
    | None => Ok (g, out, false)
    end.

(** ResourcePool::claim_all_from_groups: [take(group).into_iter()] - Vec order = reversed stack *)
Fixpoint claim_all_from_groups (gs : list group) (gid : N) : list group * list aidx :=
  match gs with
  | [] => ([], [])
  | g :: gs' =>
      let '(gs'', out) := claim_all_from_groups gs' (gid + 1) in
      (mkGroup [] (g_fr g) :: gs'', map (fun i => mkAidx i gid 0) (rev (g_idx g)) ++ out)
  end.

(** stable insertion sort *)
Section Sort.
  Context {A : Type} (le : A -> A -> bool).
  Fixpoint insert_sorted (x : A) (l : list A) : list A :=
    match l with
    | [] => [x]
    | y :: l' => if le x y then x :: l else y :: insert_sorted x l'
    end.
  Definition isort (l : list A) : list A := fold_right insert_sorted [] l.
End Sort.

(** key of [indices.sort_by_key(|i| (i.fractions, i.group_idx, i.index))] *)
Definition aidx_le (a b : aidx) : bool :=
  if ai_frac a <? ai_frac b then true
  else if ai_frac b <? ai_frac a then false
  else if ai_group a <? ai_group b then true
  else if ai_group b <? ai_group a then false
  else ai_index a <=? ai_index b.

Definition total_free_indices (gs : list group) : nat :=
  fold_right (fun g n => (length (g_idx g) + n)%nat) O gs.

(** the loop of ResourcePool::claim_scatter_from_groups; [sel] = group_set.
    A step either takes something or moves to the next group; the real loop has no bound, the
    model's fuel (enough for every terminating run, see [scatter_fuel]) running out = it hangs. *)
Fixpoint scatter_loop (fuel : nat) (gs : list group) (sel : option (list N)) (units fr pos : N)
  (wit : option N) (out : list aidx) : res (list group * list aidx) :=
  if (units =? 0) && (fr =? 0) then Ok (gs, out)
  else
    match fuel with
    | O => Panic SITE_HANG
    | S fuel' =>
        do gi <- match sel with Some s => get_at s pos | None => Ok pos end;
        do g <- get_at gs gi;
        let modulus := match sel with Some s => len s | None => len gs end in
        let pos' := (pos + 1) mod modulus in
        if 0 <? units then
          match g_idx g with
          | i :: rest =>
              scatter_loop fuel' (set_at gs gi (mkGroup rest (g_fr g))) sel (units - 1) fr pos' wit
                (out ++ [mkAidx i gi 0])
          | [] => scatter_loop fuel' gs sel units fr pos' wit out
          end
        else
          do m <- best_fraction_match (g_fr g) fr wit;
          match m with
          | Some (i, f) =>
              scatter_loop fuel' (set_at gs gi (mkGroup (g_idx g) (fset (g_fr g) i (f - fr)))) sel units 0 pos' wit
                (out ++ [mkAidx i gi fr])
          | None =>
              match g_idx g with
              | i :: rest =>
                  scatter_loop fuel' (set_at gs gi (mkGroup rest (fset (g_fr g) i (FPU - fr)))) sel units 0 pos' wit
                    (out ++ [mkAidx i gi fr])
              | [] => scatter_loop fuel' gs sel units fr pos' wit out
              end
          end
    end.

Definition scatter_fuel (gs : list group) (sel : option (list N)) : nat :=
  ((total_free_indices gs + 2) * (S (match sel with Some s => length s | None => length gs end)))%nat.

Definition claim_scatter_from_groups (amount : N) (gs : list group) (sel : option (list N)) (wit : option N)
  : res (list group * list aidx) :=
  let '(units, fr) := split amount in
  do r <- scatter_loop (scatter_fuel gs sel) gs sel units fr 0 wit [];
  let '(gs', out) := r in
  Ok (gs', isort aidx_le out).

(** GroupsResourcePool::group_amounts *)
Definition group_amount (g : group) : N := mk_amount (len (g_idx g)) (fmax (g_fr g)).

Definition in_sel (sel : option (list N)) (i : N) : bool :=
  match sel with None => true | Some s => existsb (N.eqb i) s end.

(** [.enumerate().filter(a >= remaining && sel).min_by_key(a)]: the FIRST minimal element *)
Fixpoint find_min_fit (amounts : list N) (i : N) (remaining : N) (sel : option (list N)) : option (N * N) :=
  match amounts with
  | [] => None
  | a :: rest =>
      let r := find_min_fit rest (i + 1) remaining sel in
      if (remaining <=? a) && in_sel sel i then
        match r with
        | Some (j, b) => if a <=? b then Some (i, a) else Some (j, b)
        | None => Some (i, a)
        end
      else r
  end.
(** [.enumerate().filter(sel).max_by_key(a)]: the LAST maximal element *)
Fixpoint find_max (amounts : list N) (i : N) (sel : option (list N)) : option (N * N) :=
  match amounts with
  | [] => None
  | a :: rest =>
      let r := find_max rest (i + 1) sel in
      if in_sel sel i then
        match r with
        | Some (j, b) => if b <? a then Some (i, a) else Some (j, b)
        | None => Some (i, a)
        end
      else r
  end.

Fixpoint swap_to_last {A} (l : list A) (k : nat) : list A :=
  (* indices.swap(k, len-1) *)
  match l, k with
  | [], _ => []
  | x :: l', O =>
      match rev l' with
      | [] => [x]
      | y :: r => y :: rev r ++ [x]
      end
  | x :: l', S k' => x :: swap_to_last l' k'
  end.

(** the loop of ResourcePool::claim_compact_from_groups *)
Fixpoint compact_loop (fuel : nat) (gs : list group) (amounts : list N) (sel : option (list N))
  (remaining : N) (wit : option N) (out : list aidx) (fraction_idx : option nat)
  : res (list group * list aidx * option nat) :=
  match fuel with
  | O => Panic SITE_HANG
  | S fuel' =>
      match find_min_fit amounts 0 remaining sel with
      | Some (gi, _) =>
          let '(units, fr) := split remaining in
          do g <- get_at gs gi;
          do r <- take_indices (g_idx g) gi units out;
          let '(st, out1) := r in
          do r2 <- take_fraction_index_or_split (mkGroup st (g_fr g)) fr gi wit out1;
          let '(g2, out2) := r2 in
          Ok (set_at gs gi g2, out2, fraction_idx)
      | None =>
          match find_max amounts 0 sel with
          | None => Panic SITE_MAXBY_UNWRAP
          | Some (gi, _) =>
              let amounts' := set_at amounts gi 0 in
              let '(units, fr) := split remaining in
              do g <- get_at gs gi;
              let size := len (g_idx g) in
              if units <? size then Panic SITE_UNDERFLOW
              else
                let units' := units - size in
                do r <- take_indices (g_idx g) gi size out;
                let '(st, out1) := r in
                do r2 <- try_take_fraction (mkGroup st (g_fr g)) fr gi wit out1;
                let '(g2, out2, took) := r2 in
                let fraction_idx' := if took then Some (length out2 - 1)%nat else fraction_idx in
                let fr' := if took then 0 else fr in
                compact_loop fuel' (set_at gs gi g2) amounts' sel (mk_amount units' fr') wit out2 fraction_idx'
          end
      end
  end.

Definition claim_compact_from_groups (amount : N) (gs : list group) (sel : option (list N)) (wit : option N)
  : res (list group * list aidx) :=
  do r <- compact_loop (length gs + 2) gs (map group_amount gs) sel amount wit [] None;
  let '(gs', out, fidx) := r in
  Ok (gs', match fidx with Some k => swap_to_last out k | None => out end).

(** ResourcePool::claim_resources_with_group_mask *)
Definition claim_with_group_mask (p : pool) (rid : N) (rq : areq) (mask : list N) (wit : option N)
  : res (pool * ralloc) :=
  match p with
  | PGroups full gs =>
      match rq with
      | Req Compact a | Req ForceCompact a =>
          do r <- claim_scatter_from_groups a gs (Some mask) wit;
          let '(gs', out) := r in Ok (PGroups full gs', mkRalloc rid a out)
      | Req Tight a | Req ForceTight a =>
          do r <- claim_compact_from_groups a gs (Some mask) wit;
          let '(gs', out) := r in Ok (PGroups full gs', mkRalloc rid a out)
      | Req Scatter _ | ReqAll => Panic SITE_UNREACHABLE
      end
  | _ => Panic SITE_UNREACHABLE   (* as_groups_mut *)
  end.

(** ResourcePool::claim_resources *)
Definition pool_claim (p : pool) (rid : N) (rq : areq) (wit : option N) : res (pool * ralloc) :=
  match p with
  | PEmpty => Panic SITE_UNREACHABLE
  | PIndices full g =>
      let amount := req_amount rq full in
      let '(units, fr) := split amount in
      do r <- take_indices (g_idx g) 0 units [];
      let '(st, out1) := r in
      do r2 <- take_fraction_index_or_split (mkGroup st (g_fr g)) fr 0 wit out1;
      let '(g2, out2) := r2 in
      Ok (PIndices full g2, mkRalloc rid amount out2)
  | PGroups full gs =>
      match rq with
      | Req Scatter a =>
          do r <- claim_scatter_from_groups a gs None wit;
          let '(gs', out) := r in Ok (PGroups full gs', mkRalloc rid a out)
      | ReqAll =>
          let '(gs', out) := claim_all_from_groups gs 0 in
          Ok (PGroups full gs', mkRalloc rid full out)
      | Req _ _ => Panic SITE_UNREACHABLE
      end
  | PSum full free =>
      let amount := req_amount rq full in
      if free <? amount then Panic SITE_UNDERFLOW
      else Ok (PSum full (free - amount), mkRalloc rid amount [])
  end.

(** one iteration of the release loops: return one AllocationIndex to a group *)
Definition release_index (g : group) (ix : aidx) : res group :=
  if ai_frac ix =? 0 then Ok (mkGroup (ai_index ix :: g_idx g) (g_fr g))
  else
    match fget (g_fr g) (ai_index ix) with
    | None => Panic SITE_RELEASE_UNWRAP
    | Some f =>
        let f' := f + ai_frac ix in
        if f' =? FPU then Ok (mkGroup (ai_index ix :: g_idx g) (fremove (g_fr g) (ai_index ix)))
        else Ok (mkGroup (g_idx g) (fset (g_fr g) (ai_index ix) f'))
    end.

Fixpoint release_indices_single (g : group) (ixs : list aidx) : res group :=
  (* [ixs] already reversed *)
  match ixs with
  | [] => Ok g
  | ix :: rest =>
      if negb (ai_group ix =? 0) then Panic SITE_RELEASE_ASSERT
      else do g' <- release_index g ix; release_indices_single g' rest
  end.

Fixpoint release_indices_groups (gs : list group) (ixs : list aidx) : res (list group) :=
  match ixs with
  | [] => Ok gs
  | ix :: rest =>
      do g <- get_at gs (ai_group ix);
      do g' <- release_index g ix;
      release_indices_groups (set_at gs (ai_group ix) g') rest
  end.

(** ResourcePool::release_allocation (without the debug-only validate()) *)
Definition pool_release (p : pool) (ra : ralloc) : res pool :=
  match p with
  | PEmpty => Panic SITE_UNREACHABLE
  | PIndices full g =>
      do g' <- release_indices_single g (rev (ra_indices ra)); Ok (PIndices full g')
  | PSum full free =>
      let free' := free + ra_amount ra in
      if full <? free' then Panic SITE_RELEASE_ASSERT
      else if negb (len (ra_indices ra) =? 0) then Panic SITE_RELEASE_ASSERT
      else Ok (PSum full free')
  | PGroups full gs =>
      do gs' <- release_indices_groups gs (rev (ra_indices ra)); Ok (PGroups full gs')
  end.

(* ------------------------------------------------------------------------------------------ *)
(** * Validation of a claim ([claim_ok])

    The allocation a claim returns (which indices, which groups, which fractional index) is checked
    against the pool before / after: replaying the returned AllocationIndex list as elementary
    "take one index" steps on the pool before the claim must give exactly the pool after it, whole
    indices come first and at most one fractional index last, and the amounts add up.  A claim the
    check rejects makes the step [Disabled]; the theorems hold for every accepted claim.
    The check is PROVED transparent on well-formed pools (HQ.Alloc.Complete / CompleteTight / CompleteAll:
    whatever take_indices, take_fraction_index_or_split, the scatter loop + sort, the compact loop + swap and
    claim_all_from_groups compute passes it), so it never rejects a step of the modelled code; it documents
    what every claim guarantees and is the interface the invariant proofs use. *)

Fixpoint removeN (x : N) (l : list N) : list N :=
  match l with [] => [] | y :: l' => if y =? x then l' else y :: removeN x l' end.

(** taking one AllocationIndex out of a group: a whole free index, a fraction of a partly used
    index that has enough left, or a fraction split off a whole free index *)
Definition take1 (g : group) (ix : aidx) : option group :=
  let i := ai_index ix in
  if ai_frac ix =? 0 then
    if existsb (N.eqb i) (g_idx g) then Some (mkGroup (removeN i (g_idx g)) (g_fr g)) else None
  else
    match fget (g_fr g) i with
    | Some f => if ai_frac ix <=? f then Some (mkGroup (g_idx g) (fset (g_fr g) i (f - ai_frac ix))) else None
    | None =>
        if existsb (N.eqb i) (g_idx g) && (ai_frac ix <? FPU)
        then Some (mkGroup (removeN i (g_idx g)) (fset (g_fr g) i (FPU - ai_frac ix))) else None
    end.

Fixpoint take_all (gs : list group) (out : list aidx) : option (list group) :=
  match out with
  | [] => Some gs
  | ix :: rest =>
      match get_at gs (ai_group ix) with
      | Ok g => match take1 g ix with
                | Some g' => take_all (set_at gs (ai_group ix) g') rest
                | None => None
                end
      | _ => None
      end
  end.

Fixpoint list_eqb {A} (eqb : A -> A -> bool) (a b : list A) : bool :=
  match a, b with
  | [], [] => true
  | x :: a', y :: b' => eqb x y && list_eqb eqb a' b'
  | _, _ => false
  end.
Definition pair_eqb (a b : N * N) : bool := (fst a =? fst b) && (snd a =? snd b).
Definition group_eqb (a b : group) : bool :=
  list_eqb N.eqb (g_idx a) (g_idx b) && list_eqb pair_eqb (g_fr a) (g_fr b).

(** whole indices first, at most one fractional index, at the end *)
Fixpoint shape_ok (ixs : list aidx) : bool :=
  match ixs with
  | [] => true
  | [ix] => ai_frac ix <? FPU
  | ix :: rest => (ai_frac ix =? 0) && shape_ok rest
  end.

Definition held_ix (ix : aidx) : N := if ai_frac ix =? 0 then FPU else ai_frac ix.
Definition ra_total (ra : ralloc) : N := fold_right N.add 0 (map held_ix (ra_indices ra)).

Definition pool_groups (p : pool) : list group :=
  match p with PIndices _ g => [g] | PGroups _ gs => gs | _ => [] end.

Definition claim_ok (p p' : pool) (rid : N) (rq : areq) (ra : ralloc) : bool :=
  (ra_res ra =? rid) && (ra_amount ra =? req_amount rq (pool_full_size p))
  && match p, p' with
     | PSum full free, PSum full' free' =>
         (full =? full') && (ra_amount ra <=? free) && (free' =? free - ra_amount ra)
         && match ra_indices ra with [] => true | _ => false end
     | PIndices full _, PIndices full' _ | PGroups full _, PGroups full' _ =>
         (full =? full') && shape_ok (ra_indices ra) && (ra_total ra =? ra_amount ra)
         && match take_all (pool_groups p) (ra_indices ra) with
            | Some gs' => list_eqb group_eqb gs' (pool_groups p')
            | None => false
            end
     | _, _ => false
     end.

(** ResourcePool::claim_resources / claim_resources_with_group_mask followed by the check *)
Definition checked {A} (r : res (pool * ralloc)) (p : pool) (rid : N) (rq : areq) (k : pool -> ralloc -> res A) : res A :=
  do x <- r;
  let '(p', ra) := x in
  if claim_ok p p' rid rq ra then k p' ra else Disabled.

(* ------------------------------------------------------------------------------------------ *)
(** * Concise mirror (concise.rs) *)

Record cgroup := mkCgroup { c_units : N; c_fr : fmap }.
Definition cstate := list cgroup.

(** ResourcePool::concise_state *)
Definition concise_state (p : pool) : cstate :=
  match p with
  | PEmpty => []
  | PIndices _ g => [mkCgroup (len (g_idx g)) (g_fr g)]
  | PSum _ free =>
      let '(units, fr) := split free in
      [mkCgroup units (if 0 <? fr then [(0, fr)] else [])]
  | PGroups _ gs => map (fun g => mkCgroup (len (g_idx g)) (g_fr g)) gs
  end.

Definition remove_fractions (s : cstate) (gi idx fr : N) : res cstate :=
  do g <- get_at s gi;
  let old := fget0 (c_fr g) idx in     (* entry(idx).or_insert(0) *)
  if old <? fr then
    if c_units g =? 0 then Panic SITE_CONCISE_ASSERT
    else Ok (set_at s gi (mkCgroup (c_units g - 1) (fset (c_fr g) idx (FPU + old - fr))))
  else Ok (set_at s gi (mkCgroup (c_units g) (fset (c_fr g) idx (old - fr)))).

Definition add_fractions (s : cstate) (gi idx fr : N) : res cstate :=
  do g <- get_at s gi;
  let old := fget0 (c_fr g) idx + fr in
  if FPU <=? old then
    if FPU <=? old - FPU then Panic SITE_CONCISE_ASSERT
    else Ok (set_at s gi (mkCgroup (c_units g + 1) (fset (c_fr g) idx (old - FPU))))
  else Ok (set_at s gi (mkCgroup (c_units g) (fset (c_fr g) idx old))).

(** the [for idx in indices.iter().rev() { if idx.fractions == 0 {break} ..}] loops ([ixs] reversed) *)
Fixpoint fr_loop_single (f : cstate -> N -> N -> N -> res cstate) (s : cstate) (ixs : list aidx) : res cstate :=
  match ixs with
  | [] => Ok s
  | ix :: rest =>
      if ai_frac ix =? 0 then Ok s
      else do s' <- f s 0 (ai_index ix) (ai_frac ix); fr_loop_single f s' rest
  end.

Fixpoint remove_loop_groups (s : cstate) (ixs : list aidx) : res cstate :=
  match ixs with
  | [] => Ok s
  | ix :: rest =>
      if ai_frac ix =? 0 then
        do g <- get_at s (ai_group ix);
        if c_units g =? 0 then Panic SITE_CONCISE_ASSERT
        else remove_loop_groups (set_at s (ai_group ix) (mkCgroup (c_units g - 1) (c_fr g))) rest
      else
        do s' <- remove_fractions s (ai_group ix) (ai_index ix) (ai_frac ix);
        remove_loop_groups s' rest
  end.

Fixpoint add_loop_groups (s : cstate) (ixs : list aidx) : res cstate :=
  match ixs with
  | [] => Ok s
  | ix :: rest =>
      if ai_frac ix =? 0 then
        do g <- get_at s (ai_group ix);
        add_loop_groups (set_at s (ai_group ix) (mkCgroup (c_units g + 1) (c_fr g))) rest
      else
        do s' <- add_fractions s (ai_group ix) (ai_index ix) (ai_frac ix);
        add_loop_groups s' rest
  end.

(** ConciseResourceState::remove *)
Definition cs_remove (s : cstate) (ra : ralloc) : res cstate :=
  match s with
  | [g] =>
      let '(units, fr) := split (ra_amount ra) in
      if c_units g <? units then Panic SITE_CONCISE_ASSERT
      else
        let s1 := [mkCgroup (c_units g - units) (c_fr g)] in
        if 0 <? fr then
          match ra_indices ra with
          | [] => remove_fractions s1 0 0 fr
          | _ => fr_loop_single remove_fractions s1 (rev (ra_indices ra))
          end
        else Ok s1
  | _ => remove_loop_groups s (ra_indices ra)
  end.

(** ConciseResourceState::add *)
Definition cs_add (s : cstate) (ra : ralloc) : res cstate :=
  match s with
  | [g] =>
      let '(units, fr) := split (ra_amount ra) in
      let s1 := [mkCgroup (c_units g + units) (c_fr g)] in
      if 0 <? fr then
        match ra_indices ra with
        | [] => add_fractions s1 0 0 fr
        | _ => fr_loop_single add_fractions s1 (rev (ra_indices ra))
        end
      else Ok s1
  | _ => add_loop_groups s (ra_indices ra)
  end.

Definition cs_units_sum (s : cstate) : N := fold_right (fun g n => c_units g + n) 0 s.
Definition cs_max_fraction (s : cstate) : N := fold_right (fun g n => N.max (fmax (c_fr g)) n) 0 s.

(** ConciseResourceState::amount_max_alloc (ResourceAmount::new asserts fractions < FPU) *)
Definition amount_max_alloc (s : cstate) : res N :=
  let f := cs_max_fraction s in
  if f <? FPU then Ok (mk_amount (cs_units_sum s) f) else Panic SITE_AMOUNT_ASSERT.

(** amount_max_per_group *)
Definition amount_max_per_group (s : cstate) : list (N * N) := map (fun g => (c_units g, fmax (c_fr g))) s.

(** ConciseFreeResources::{add,remove}: [self.resources[ra.resource_id]] *)
Fixpoint cf_apply (f : cstate -> ralloc -> res cstate) (free : list cstate) (a : allocation) : res (list cstate) :=
  match a with
  | [] => Ok free
  | ra :: rest =>
      do s <- get_at free (ra_res ra);
      do s' <- f s ra;
      cf_apply f (set_at free (ra_res ra) s') rest
  end.
Definition cf_remove := cf_apply cs_remove.
Definition cf_add := cf_apply cs_add.

(* ------------------------------------------------------------------------------------------ *)
(** * Group solver (groups.rs) *)

(** CouplingWeightItem: resource1, group1, resource2, group2, weight *)
Record cweight := mkCweight { cw_r1 : N; cw_g1 : N; cw_r2 : N; cw_g2 : N; cw_w : N }.

Definition mask := list N.

(** The per-entry part of the MILP: per group (u, f) = (free units, biggest free fraction). *)
Definition mask_sum (per : list (N * N)) (m : mask) (coef : N * N -> N) : N :=
  fold_right (fun gi acc => match nth_error per (nat_of gi) with Some uf => coef uf + acc | None => acc end) 0 m.

Definition need_second_check (per : list (N * N)) (fr : N) : bool := existsb (fun uf => fr <=? snd uf) per.

(** the constraint rows group_solver adds for one entry, evaluated on a 0/1 assignment = mask *)
Definition mask_feasible (per : list (N * N)) (units fr : N) (m : mask) : bool :=
  if fr =? 0 then units <=? mask_sum per m fst
  else
    (units + 1 <=? mask_sum per m (fun uf => if fr <=? snd uf then fst uf + 1 else fst uf))
    && (if (0 <? units) && need_second_check per fr then units <=? mask_sum per m fst else true).

Fixpoint strictly_increasing_below (m : mask) (lo : N) (n : N) : bool :=
  (* the solver's answer is produced by enumerate().filter_map: ascending group ids, in range *)
  match m with
  | [] => true
  | g :: m' => (lo <=? g) && (g <? n) && strictly_increasing_below m' (g + 1) n
  end.

(** objective scaled by [OBJ_SCALE] = 10 * ALLOC_UNIT_DIV * FPU, so that every coefficient is an
    integer:  -(1024 + u/32)  |->  -(1024*10*32*FPU + 10*u*FPU);
              -1024 + f*16/FPU |->  -(1024*10*32*FPU) + f*16*10*32;    w |-> w*10*32*FPU;
              the slack 0.1 of the strict-policy test |-> ALLOC_SLACK_TENTHS*32*FPU. *)
Definition OBJ_SCALE : Z := Z.of_N (10 * ALLOC_UNIT_DIV * FPU).
Definition GROUP_COST : Z := Z.of_N ALLOC_GROUP_WEIGHT * OBJ_SCALE.
Definition GROUP_COST_FRAC : Z := Z.of_N ALLOC_GROUP_WEIGHT_FRAC * OBJ_SCALE.
Definition GROUP_COST_PLAIN : Z := Z.of_N ALLOC_GROUP_WEIGHT_PLAIN * OBJ_SCALE.
Definition SLACK : Z := Z.of_N (ALLOC_SLACK_TENTHS * ALLOC_UNIT_DIV * FPU).

(** [tie] = the [tie_breaking] flag of group_solver (factor 1.0 / 0.0 on the tie-breaking terms) *)
Definition var_weight (tie : bool) (fr : N) (uf : N * N) : Z :=
  if fr =? 0 then (- GROUP_COST - (if tie then Z.of_N (10 * fst uf * FPU) else 0))%Z
  else if fr <=? snd uf then (- GROUP_COST_FRAC + (if tie then Z.of_N (snd uf * ALLOC_FRAC_MUL * 10 * ALLOC_UNIT_DIV) else 0))%Z
  else (- GROUP_COST_PLAIN)%Z.

Definition mask_objective (tie : bool) (per : list (N * N)) (fr : N) (m : mask) : Z :=
  fold_right (fun gi acc => match nth_error per (nat_of gi) with Some uf => (var_weight tie fr uf + acc)%Z | None => acc end) 0%Z m.

Fixpoint position {A} (f : A -> bool) (l : list A) : option nat :=
  match l with
  | [] => None
  | x :: l' => if f x then Some O else match position f l' with Some n => Some (S n) | None => None end
  end.

Definition mask_has (masks : list mask) (r : nat) (g : N) : bool :=
  match nth_error masks r with Some m => existsb (N.eqb g) m | None => false end.

(** weights: the auxiliary variable u <= v1, u <= v2, 0 <= u <= 1 with weight w >= 0 is 1 in an
    optimal solution iff both groups are selected; [ngroups] = number of variables per entry
    ([vars[r][g]] panics when g is out of range). *)
Fixpoint weights_objective (entries : list entry) (ngroups : list N) (weights : list cweight) (masks : list mask)
  : res Z :=
  match weights with
  | [] => Ok 0%Z
  | w :: rest =>
      do acc <- weights_objective entries ngroups rest masks;
      match position (fun e => e_res e =? cw_r1 w) entries, position (fun e => e_res e =? cw_r2 w) entries with
      | Some r1, Some r2 =>
          if (cw_g1 w <? nth r1 ngroups 0) && (cw_g2 w <? nth r2 ngroups 0) then
            Ok (if mask_has masks r1 (cw_g1 w) && mask_has masks r2 (cw_g2 w)
                then (Z.of_N (cw_w w) * OBJ_SCALE + acc)%Z else acc)
          else Panic SITE_INDEX
      | _, _ => Ok acc
      end
  end.

(** [amount_or_none_if_all().unwrap()] and [free.get(resource_id)] for the coupled entries *)
Fixpoint solver_rows (free : list cstate) (entries : list entry) : res (list (list (N * N) * N * N)) :=
  match entries with
  | [] => Ok []
  | e :: rest =>
      match e_req e with
      | ReqAll => Panic SITE_SOLVER_UNWRAP
      | Req _ a =>
          do s <- get_at free (e_res e);
          do rows <- solver_rows free rest;
          let '(units, fr) := split a in
          Ok ((amount_max_per_group s, units, fr) :: rows)
      end
  end.

Fixpoint masks_feasible (rows : list (list (N * N) * N * N)) (masks : list mask) : bool :=
  match rows, masks with
  | [], [] => true
  | (per, units, fr) :: rows', m :: masks' =>
      strictly_increasing_below m 0 (len per) && mask_feasible per units fr m && masks_feasible rows' masks'
  | _, _ => false
  end.

Fixpoint masks_objective (tie : bool) (rows : list (list (N * N) * N * N)) (masks : list mask) : Z :=
  match rows, masks with
  | (per, _, fr) :: rows', m :: masks' => (mask_objective tie per fr m + masks_objective tie rows' masks')%Z
  | _, _ => 0%Z
  end.

Fixpoint seqN (start : N) (n : nat) : list N :=
  match n with O => [] | S n' => start :: seqN (start + 1) n' end.
Definition full_mask (per : list (N * N)) : mask := seqN 0 (length per).

(** group_solver with the solver's answer as a checked witness.
    [ans = None]: the solver reports "no solution" - accepted only if even selecting every group
    violates a row (feasibility is monotone in the mask, lemma [mask_feasible_mono]).
    [ans = Some masks]: accepted iff every row holds; the objective value is recomputed. *)
Definition group_solver (free : list cstate) (entries : list entry) (weights : list cweight) (tie : bool)
  (ans : option (list mask)) : res (option (list mask * Z)) :=
  do rows <- solver_rows free entries;
  let ngroups := map (fun r => len (fst (fst r))) rows in
  do _ <- weights_objective entries ngroups weights [];
  match ans with
  | None =>
      if masks_feasible rows (map (fun r => full_mask (fst (fst r))) rows) then Disabled else Ok None
  | Some masks =>
      if masks_feasible rows masks then
        do wobj <- weights_objective entries ngroups weights masks;
        Ok (Some (masks, (masks_objective tie rows masks + wobj)%Z))
      else Disabled
  end.

(* ------------------------------------------------------------------------------------------ *)
(** * Allocator (allocator.rs) *)

Record allocator := mkAllocator {
  a_pools : list pool;
  a_free : list cstate;                 (* free_resources *)
  a_weights : list cweight;             (* static_info.coupling_weights *)
  a_yard : list (request * Z);          (* static_info.optional_objectives (RefCell cache) *)
  a_all : list cstate;                  (* static_info.all_resources *)
}.

(** witnesses of one try_allocate / is_enabled call *)
Record witness := mkWitness {
  w_mask : option (list mask);   (* claim_resources: group_solver's answer on the current free resources (tie-breaking on) *)
  w_adm : option (list mask);    (* has_resources: answer on the current free resources (tie-breaking off) *)
  w_yard : option (list mask);   (* has_resources: answer on all_resources (tie-breaking off; only consulted on a cache miss) *)
  w_frac : list (N * N);         (* resource id -> index that won best_fraction_match *)
}.

Definition is_groups (p : pool) : bool := match p with PGroups _ _ => true | _ => false end.

(** the [.all(..)] closure over the entries of has_resources_for_request;
    returns (all passed, coupling entries pushed so far) *)
Fixpoint hr_entries (pools : list pool) (free : list cstate) (entries : list entry) (coupling : list entry)
  : res (bool * list entry) :=
  match entries with
  | [] => Ok (true, coupling)
  | e :: rest =>
      if len pools <=? e_res e then Ok (false, coupling)
      else
        do p <- get_at pools (e_res e);
        let coupling' := if is_groups p && is_relevant_for_coupling (e_req e) then coupling ++ [e] else coupling in
        do s <- get_at free (e_res e);
        do max_alloc <- amount_max_alloc s;
        let ok := match e_req e with
                  | Req _ a => a <=? max_alloc
                  | ReqAll => max_alloc =? pool_full_size p
                  end in
        if ok then hr_entries pools free rest coupling' else Ok (false, coupling')
  end.

Fixpoint yard_lookup (c : list (request * Z)) (rq : request) : option Z :=
  match c with
  | [] => None
  | (k, v) :: c' => if request_eqb k rq then Some v else yard_lookup c' rq
  end.

(** ResourceAllocator::has_resources_for_request; also returns the (possibly extended) cache *)
Definition has_resources (a : allocator) (rq : request) (w : witness) : res (bool * list (request * Z)) :=
  do r <- hr_entries (a_pools a) (a_free a) rq [];
  let '(ok, coupling) := r in
  if negb ok then Ok (false, a_yard a)
  else if forallb (fun e => negb (is_forced (e_req e))) coupling then Ok (true, a_yard a)
  else
    do ans <- group_solver (a_free a) coupling (a_weights a) false (w_adm w);
    match ans with
    | None => Ok (false, a_yard a)
    | Some (_, objective_value) =>
        match yard_lookup (a_yard a) rq with
        | Some c => Ok (Z.leb c objective_value, a_yard a)
        | None =>
            do ans2 <- group_solver (a_all a) coupling (a_weights a) false (w_yard w);
            match ans2 with
            | None => Panic SITE_SOLVER_UNWRAP
            | Some (_, cost) =>
                let c := (cost - SLACK)%Z in
                Ok (Z.leb c objective_value, (rq, c) :: a_yard a)
            end
        end
    end.

Definition frac_wit (w : witness) (rid : N) : option N := fget (w_frac w) rid.

(** first loop of claim_resources: non-coupled entries are claimed at once *)
Fixpoint claim_direct (pools : list pool) (entries : list entry) (w : witness) (acc : allocation) (coupling : list entry)
  : res (list pool * allocation * list entry) :=
  match entries with
  | [] => Ok (pools, acc, coupling)
  | e :: rest =>
      do p <- match get_at pools (e_res e) with Ok p => Ok p | _ => Panic SITE_INDEX end;  (* get_mut(..).unwrap() *)
      if is_groups p && is_relevant_for_coupling (e_req e) then claim_direct pools rest w acc (coupling ++ [e])
      else
        checked (pool_claim p (e_res e) (e_req e) (frac_wit w (e_res e))) p (e_res e) (e_req e)
          (fun p' ra => claim_direct (set_at pools (e_res e) p') rest w (acc ++ [ra]) coupling)
  end.

(** second loop: [coupling.into_iter().zip(groups)] *)
Fixpoint claim_coupled (pools : list pool) (coupling : list entry) (masks : list mask) (w : witness) (acc : allocation)
  : res (list pool * allocation) :=
  match coupling, masks with
  | e :: rest, m :: masks' =>
      do p <- get_at pools (e_res e);
      checked (claim_with_group_mask p (e_res e) (e_req e) m (frac_wit w (e_res e))) p (e_res e) (e_req e)
        (fun p' ra => claim_coupled (set_at pools (e_res e) p') rest masks' w (acc ++ [ra]))
  | _, _ => Ok (pools, acc)
  end.

Definition ralloc_le (a b : ralloc) : bool := ra_res a <=? ra_res b.

(** ResourceAllocator::claim_resources *)
Definition claim_resources (a : allocator) (rq : request) (w : witness) : res (list pool * allocation) :=
  do r <- claim_direct (a_pools a) rq w [] [];
  let '(pools, acc, coupling) := r in
  match coupling with
  | [] => Ok (pools, acc)
  | _ =>
      do ans <- group_solver (a_free a) coupling (a_weights a) true (w_mask w);
      match ans with
      | None => Panic SITE_SOLVER_UNWRAP
      | Some (masks, _) =>
          do r2 <- claim_coupled pools coupling masks w acc;
          let '(pools', acc') := r2 in
          Ok (pools', isort ralloc_le acc')     (* normalize_allocation *)
      end
  end.

(** ResourceAllocator::try_allocate *)
Definition try_allocate (a : allocator) (rq : request) (w : witness) : res (allocator * option allocation) :=
  do h <- has_resources a rq w;
  let '(ok, yard) := h in
  let a1 := mkAllocator (a_pools a) (a_free a) (a_weights a) yard (a_all a) in
  if negb ok then Ok (a1, None)
  else
    do r <- claim_resources a1 rq w;
    let '(pools, al) := r in
    do free <- cf_remove (a_free a) al;
    Ok (mkAllocator pools free (a_weights a) yard (a_all a), Some al).

(** ResourceAllocator::is_enabled *)
Definition is_enabled (a : allocator) (rq : request) (w : witness) : res (allocator * bool) :=
  do h <- has_resources a rq w;
  let '(ok, yard) := h in
  Ok (mkAllocator (a_pools a) (a_free a) (a_weights a) yard (a_all a), ok).

Fixpoint release_helper (pools : list pool) (al : allocation) : res (list pool) :=
  match al with
  | [] => Ok pools
  | ra :: rest =>
      do p <- get_at pools (ra_res ra);
      do p' <- pool_release p ra;
      release_helper (set_at pools (ra_res ra) p') rest
  end.

(** ResourceAllocator::release_allocation *)
Definition release_allocation (a : allocator) (al : allocation) : res allocator :=
  do free <- cf_add (a_free a) al;
  do pools <- release_helper (a_pools a) al;
  Ok (mkAllocator pools free (a_weights a) (a_yard a) (a_all a)).

(* ------------------------------------------------------------------------------------------ *)
(** * Descriptor and ResourceAllocator::new *)

(** labels are abstracted to numbers (the harness uses the strings "L<n>"); the model covers
    validated descriptors: labels of one resource pairwise distinct (ResourceDescriptor::validate) *)
Inductive kind :=
| KList (labels : list N)
| KRange (s e : N)
| KGroups (groups : list (list N))
| KSum (size : N).

Record desc := mkDesc {
  d_nnames : N;                               (* size of the ResourceIdMap *)
  d_items : list (N * kind);                  (* (resource id, kind) in descriptor order *)
  d_coupling : list (N * N * N * N * N);      (* resource1_idx, group1, resource2_idx, group2, weight *)
}.

Fixpoint nodupb (l : list N) : bool :=
  match l with [] => true | x :: l' => negb (existsb (N.eqb x) l') && nodupb l' end.

Fixpoint groups_from (sizes : list nat) (start : N) : list group :=
  match sizes with
  | [] => []
  | n :: rest => mkGroup (rev (seqN start n)) [] :: groups_from rest (start + N.of_nat n)
  end.

(** ResourcePool::new; [None] = descriptor outside the modelled domain (labels not distinct) *)
Definition pool_new (k : kind) : option pool :=
  match k with
  | KList labels =>
      if nodupb labels then Some (PIndices (mk_amount (len labels) 0) (mkGroup (rev (seqN 0 (length labels))) []))
      else None
  | KGroups groups =>
      if nodupb (concat groups) then
        Some (PGroups (mk_amount (len (concat groups)) 0) (groups_from (map (@length N) groups) 0))
      else None
  | KRange s e =>
      let n := if e <? s then O else nat_of (e + 1 - s) in
      Some (PIndices (mk_amount (N.of_nat n) 0) (mkGroup (rev (seqN s n)) []))
  | KSum size => Some (PSum size size)
  end.

Fixpoint max_rid (items : list (N * kind)) : option N :=
  match items with
  | [] => None
  | (r, _) :: rest => match max_rid rest with Some m => Some (N.max r m) | None => Some r end
  end.

Fixpoint fill_pools (pools : list pool) (items : list (N * kind)) : res (list pool) :=
  match items with
  | [] => Ok pools
  | (r, k) :: rest =>
      match pool_new k with
      | None => Disabled
      | Some p => fill_pools (set_at pools r p) rest
      end
  end.

Fixpoint new_weights (items : list (N * kind)) (c : list (N * N * N * N * N)) : res (list cweight) :=
  match c with
  | [] => Ok []
  | (r1, g1, r2, g2, w) :: rest =>
      do a <- get_at items r1;
      do b <- get_at items r2;
      do ws <- new_weights items rest;
      Ok (mkCweight (fst a) g1 (fst b) g2 w :: ws)
  end.

(** ResourceAllocator::new *)
Definition allocator_new (d : desc) : res allocator :=
  if existsb (fun it => d_nnames d <=? fst it) (d_items d) then Panic SITE_NEW   (* unknown resource name *)
  else
    match max_rid (d_items d) with
    | None => Panic SITE_NEW                                                      (* at least one resource *)
    | Some mx =>
        do pools <- fill_pools (repeat PEmpty (S (nat_of mx))) (d_items d);
        let free := map concise_state pools in
        do ws <- new_weights (d_items d) (d_coupling d);
        Ok (mkAllocator pools free ws [] free)
    end.

(** ResourceLabelMap::get_label: (true, n) = the label "L<n>" of the descriptor, (false, i) = the index itself *)
Fixpoint label_of (items : list (N * kind)) (rid idx : N) : bool * N :=
  match items with
  | [] => (false, idx)
  | (r, k) :: rest =>
      (* a later descriptor item with the same resource id overwrites the map entry *)
      let later := label_of rest rid idx in
      if existsb (fun it => fst it =? rid) rest then later
      else if r =? rid then
        match k with
        | KList labels => match nth_error labels (nat_of idx) with Some l => (true, l) | None => (false, idx) end
        | KGroups groups => match nth_error (concat groups) (nat_of idx) with Some l => (true, l) | None => (false, idx) end
        | _ => (false, idx)
        end
      else later
  end.

(* ------------------------------------------------------------------------------------------ *)
(** * The worker-side system: allocator + live allocations (what running tasks hold) *)

Record sys := mkSys { s_alloc : allocator; s_live : list allocation }.

Inductive op :=
| OAlloc (rq : request) (w : witness)     (* try_allocate; on success the allocation becomes live *)
| ORelease (k : N)                        (* release_allocation of the k-th live allocation *)
| OEnabled (rq : request) (w : witness).  (* is_enabled *)

Inductive out :=
| OutGrant (a : allocation)
| OutNone
| OutReleased
| OutEnabled (b : bool).

Fixpoint remove_nth {A} (l : list A) (n : nat) : list A :=
  match l, n with
  | [], _ => []
  | _ :: l', O => l'
  | x :: l', S n' => x :: remove_nth l' n'
  end.

Definition step (s : sys) (o : op) : res (sys * out) :=
  match o with
  | OAlloc rq w =>
      do r <- try_allocate (s_alloc s) rq w;
      match r with
      | (a', Some al) => Ok (mkSys a' (s_live s ++ [al]), OutGrant al)
      | (a', None) => Ok (mkSys a' (s_live s), OutNone)
      end
  | ORelease k =>
      if k <? len (s_live s) then
        match nth_error (s_live s) (nat_of k) with
        | Some al =>
            do a' <- release_allocation (s_alloc s) al;
            Ok (mkSys a' (remove_nth (s_live s) (nat_of k)), OutReleased)
        | None => Disabled
        end
      else Disabled
  | OEnabled rq w =>
      do r <- is_enabled (s_alloc s) rq w;
      Ok (mkSys (fst r) (s_live s), OutEnabled (snd r))
  end.

Fixpoint run (s : sys) (ops : list op) : res sys :=
  match ops with
  | [] => Ok s
  | o :: rest => do r <- step s o; run (fst r) rest
  end.

Definition init (d : desc) : res sys := do a <- allocator_new d; Ok (mkSys a []).
