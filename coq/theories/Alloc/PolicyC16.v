(** C16 - the statements proved in Alloc/Policy*.v, collected (only [exact]); candidates for properties/C16.v.

    Open items of tools/props/C16.json addressed:
    - C16_claim_follows_policy_full: CLOSED (C16_claim_follows_policy and the four per-claim theorems; they hold for
      every pool state, no invariant is needed; the only hypotheses are pairwise distinct resource ids in the
      request and - from the solver's acceptance check - duplicate-free group selections).
    - C16_admission_all_and_strict: `all` CLOSED (C16_admission_all, C16_grant_has_room, C16_unfit_refused,
      C16_enabled_agrees); strict policies closed for workers WITHOUT coupling weights and answers of the solver that
      are minimal per entry / optimal in the monitor's sense (C16_strict_admission, C16_strict_enabled_and_allocate,
      C16_optimal_answer_minimal).  Still open: strict admission with coupling weights. *)
From HQ Require Import Base.Prelude Gen.Consts Alloc.Model Alloc.Spec Alloc.Lemmas Alloc.MirrorSystem
  Alloc.PolicyBase Alloc.PolicyFrac Alloc.PolicyScatter Alloc.PolicyTight Alloc.PolicyGrant
  Alloc.PolicyAdmission Alloc.PolicyStrict Alloc.PolicyStrictReach Alloc.PolicyStrictYard Alloc.PolicyOptimal.
Open Scope N_scope.

(* ------------------------------------------------------------------------------------------ *)
(** * claim follows policy *)

(** whole grants *)
Theorem C16_claim_follows_policy : forall s rq w s' al,
  NoDup (map e_res rq) ->
  step s (OAlloc rq w) = Ok (s', OutGrant al) ->
  Forall (fun ra => exists e, In e rq /\ e_res e = ra_res ra
                              /\ scatter_ok (a_pools (s_alloc s)) e ra = true
                              /\ compact_even_ok (a_pools (s_alloc s)) e ra = true
                              /\ tight_ok (a_pools (s_alloc s)) e ra = true
                              /\ min_fraction_ok (a_pools (s_alloc s)) e ra = true) al.
Proof. exact PolicyGrant.C16_claim_follows_policy. Qed.

(** the claim functions, one by one *)
Theorem C16_scatter_shape : forall before e a wit full gs p' ra,
  e_req e = Req Scatter a ->
  nth_error before (nat_of (e_res e)) = Some (PGroups full gs) ->
  pool_claim (PGroups full gs) (e_res e) (e_req e) wit = Ok (p', ra) ->
  scatter_ok before e ra = true.
Proof. exact PolicyScatter.C16_scatter_shape. Qed.

Theorem C16_compact_shape : forall before e a mask wit full gs p' ra,
  e_req e = Req Compact a \/ e_req e = Req ForceCompact a ->
  NoDup mask ->
  nth_error before (nat_of (e_res e)) = Some (PGroups full gs) ->
  claim_with_group_mask (PGroups full gs) (e_res e) (e_req e) mask wit = Ok (p', ra) ->
  compact_even_ok before e ra = true.
Proof. exact PolicyScatter.C16_compact_shape. Qed.

(** the exact rule behind scatter / compact: the whole indices are handed out in rounds over the groups cycled
    through ([mask], or all groups for scatter), one per non-empty group and round: after [c] complete rounds and
    [pos] groups of the next one, the group at position j has given min(c+1, free_j) (j < pos) resp. min(c, free_j)
    whole indices; every index comes from one of these groups; the whole indices are the requested units *)
Theorem C16_round_robin : forall a gs sel wit gs' out,
  sinj (slist (length gs) sel) ->
  claim_scatter_from_groups a gs sel wit = Ok (gs', out) ->
  (exists c pos, forall j g, get_at (slist (length gs) sel) j = Ok g ->
                             wc out g = N.min (if j <? pos then c + 1 else c) (lenidx gs g))
  /\ Forall (okix (length gs) (slist (length gs) sel)) out
  /\ nwhole out = fst (split a).
Proof. exact claim_scatter_even. Qed.

Theorem C16_tight_shape : forall before e a mask wit full gs p' ra,
  e_req e = Req Tight a \/ e_req e = Req ForceTight a ->
  nth_error before (nat_of (e_res e)) = Some (PGroups full gs) ->
  claim_with_group_mask (PGroups full gs) (e_res e) (e_req e) mask wit = Ok (p', ra) ->
  tight_ok before e ra = true.
Proof. exact PolicyTight.C16_tight_shape. Qed.

Theorem C16_min_fraction_direct : forall before e wit p p' ra,
  nth_error before (nat_of (e_res e)) = Some p ->
  pool_claim p (e_res e) (e_req e) wit = Ok (p', ra) ->
  min_fraction_ok before e ra = true.
Proof. exact PolicyFrac.C16_min_fraction_direct. Qed.

Theorem C16_min_fraction_coupled : forall before e mask wit p p' ra,
  nth_error before (nat_of (e_res e)) = Some p ->
  claim_with_group_mask p (e_res e) (e_req e) mask wit = Ok (p', ra) ->
  min_fraction_ok before e ra = true.
Proof. exact PolicyFrac.C16_min_fraction_coupled. Qed.

(* ------------------------------------------------------------------------------------------ *)
(** * admission = reference: `all`, and what holds for every request *)

Theorem C16_admission_iff_feasible_all : forall d s0 ops s rq w,
  init d = Ok s0 -> Forall valid_op ops -> run s0 ops = Ok s -> unforced rq = true ->
  has_resources (s_alloc s) rq w = Ok (request_fits (a_pools (s_alloc s)) rq, a_yard (s_alloc s)).
Proof. intros d s0 ops s rq w Hi Hv Hr Hu. exact (admission_iff_feasible_all d s0 ops s Hi Hv Hr rq w Hu). Qed.

Theorem C16_admission_all : forall d s0 ops s rq w,
  init d = Ok s0 -> Forall valid_op ops -> run s0 ops = Ok s -> unforced rq = true ->
  (forall s' o, step s (OAlloc rq w) = Ok (s', o) ->
                if request_fits (a_pools (s_alloc s)) rq then exists al, o = OutGrant al else o = OutNone)
  /\ (forall s' o, step s (OEnabled rq w) = Ok (s', o) ->
                   o = OutEnabled (request_fits (a_pools (s_alloc s)) rq)
                   /\ a_pools (s_alloc s') = a_pools (s_alloc s))
  /\ (forall s1 b w2 s2 o, step s (OEnabled rq w) = Ok (s1, OutEnabled b) -> step s1 (OAlloc rq w2) = Ok (s2, o) ->
                           if b then exists al, o = OutGrant al else o = OutNone).
Proof. exact PolicyAdmission.C16_admission_all. Qed.

Theorem C16_grant_has_room : forall d s0 ops s rq w s' al,
  init d = Ok s0 -> Forall valid_op ops -> run s0 ops = Ok s ->
  step s (OAlloc rq w) = Ok (s', OutGrant al) -> request_fits (a_pools (s_alloc s)) rq = true.
Proof. exact PolicyAdmission.C16_grant_has_room. Qed.

Theorem C16_unfit_refused : forall d s0 ops s rq w,
  init d = Ok s0 -> Forall valid_op ops -> run s0 ops = Ok s ->
  request_fits (a_pools (s_alloc s)) rq = false ->
  exists s', step s (OAlloc rq w) = Ok (s', OutNone) /\ step s (OEnabled rq w) = Ok (s', OutEnabled false).
Proof. exact PolicyAdmission.C16_unfit_refused. Qed.

Theorem C16_enabled_agrees : forall a rq w a1 b a2 r,
  is_enabled a rq w = Ok (a1, b) -> try_allocate a rq w = Ok (a2, r) ->
  b = match r with Some _ => true | None => false end.
Proof. exact enabled_agrees_with_allocate. Qed.

(* ------------------------------------------------------------------------------------------ *)
(** * strict policies (no coupling weights) *)

Theorem C16_strict_admission : forall d s0 ops s rq w ok yard,
  init d = Ok s0 -> Forall valid_op ops -> run s0 ops = Ok s ->
  d_coupling d = [] ->
  Forall (yard_op_ok (a_pools (s_alloc s0))) ops -> yard_witness_ok (a_pools (s_alloc s0)) rq w ->
  (forall ms, w_adm w = Some ms ->
              minimal_answer (map (ref_row (a_pools (s_alloc s))) (coupled_entries (a_pools (s_alloc s)) rq)) ms) ->
  existsb (fun e => is_forced (e_req e)) (coupled_entries (a_pools (s_alloc s)) rq) = true ->
  has_resources (s_alloc s) rq w = Ok (ok, yard) ->
  ok = request_fits (a_pools (s_alloc s)) rq
       && forallb (at_min (a_pools (s_alloc s0)) (a_pools (s_alloc s))) (coupled_entries (a_pools (s_alloc s)) rq).
Proof. exact PolicyStrictYard.C16_strict_admission. Qed.

Theorem C16_optimal_answer_minimal : forall rows entries ms o b,
  solver_objective false rows entries [] ms = Some o ->
  best_objective false rows entries [] = Some b -> o = b ->
  minimal_answer rows ms.
Proof. exact optimal_answer_minimal. Qed.

Print Assumptions C16_claim_follows_policy.
Print Assumptions C16_scatter_shape.
Print Assumptions C16_compact_shape.
Print Assumptions C16_round_robin.
Print Assumptions C16_tight_shape.
Print Assumptions C16_min_fraction_direct.
Print Assumptions C16_min_fraction_coupled.
Print Assumptions C16_admission_iff_feasible_all.
Print Assumptions C16_admission_all.
Print Assumptions C16_grant_has_room.
Print Assumptions C16_unfit_refused.
Print Assumptions C16_enabled_agrees.
Print Assumptions C16_strict_admission.
Print Assumptions C16_optimal_answer_minimal.
