(** C16 - strict policies in ALL reachable states, cached yardsticks included: when every answer of the solver for
    the EMPTY worker selects the minimum number of groups per entry, every cached yardstick is the reference one,
    and has_resources_for_request admits a request with a strict entry exactly when it fits and every coupled entry
    is at its empty-worker minimum - on a cache miss and on a cache hit.  So the answer is a function of the pools:
    is_enabled and try_allocate agree for strict requests as well. *)
From Coq Require Import Permutation.
From HQ Require Import Base.Prelude Gen.Consts Alloc.Model Alloc.Spec Alloc.Lemmas Alloc.Group Alloc.Pool Alloc.Inv Alloc.System Alloc.Mirror Alloc.Theorems Alloc.MirrorSystem Alloc.GroupsProofs Alloc.Admission Alloc.AllFree Alloc.Objective Alloc.Strict Alloc.Examples
  Alloc.PolicyAdmission Alloc.PolicyStrict Alloc.PolicyStrictReach.
Require Import ZifyBool ZifyN ZifyNat.
Open Scope N_scope.
Arguments N.add : simpl never.
Arguments N.sub : simpl never.
Arguments N.mul : simpl never.
Arguments N.div : simpl never.
Arguments N.modulo : simpl never.
Arguments N.eqb : simpl never.
Arguments N.ltb : simpl never.
Arguments N.leb : simpl never.
Arguments N.of_nat : simpl never.
Arguments N.to_nat : simpl never.
Arguments sumN : simpl never.

Definition min_or0 (o : option N) : N := match o with Some k => k | None => 0 end.
Definition mins_total (rows : list (list (N * N) * N * N)) : N := sumN (map min_or0 (row_mins rows)).

Lemma minimal_total rows : forall ms, minimal_answer rows ms -> total_groups ms = mins_total rows.
Proof.
  induction rows as [|[[per u] f] rows IH]; intros [|m ms] H; cbn [minimal_answer] in H; try contradiction; [reflexivity|].
  destruct H as [H1 H2]. unfold total_groups, mins_total in *. cbn [map row_mins]. rewrite !sumN_cons, H1, (IH _ H2). reflexivity.
Qed.

(** has_resources_for_request on the strict path, cache hit or miss *)
Theorem strict_admission_shape a rq w ok yard cp :
  a_weights a = [] ->
  hr_entries (a_pools a) (a_free a) rq [] = Ok (true, cp) ->
  forallb (fun e => negb (is_forced (e_req e))) cp = false ->
  has_resources a rq w = Ok (ok, yard) ->
  exists rows_now, solver_rows (a_free a) cp = Ok rows_now
    /\ ((w_adm w = None /\ masks_feasible rows_now (full_masks rows_now) = false /\ ok = false /\ yard = a_yard a)
        \/ exists ms_now, w_adm w = Some ms_now /\ masks_feasible rows_now ms_now = true
             /\ match yard_lookup (a_yard a) rq with
                | Some c => ok = Z.leb c (- GROUP_COST * Z.of_N (total_groups ms_now) + 0) /\ yard = a_yard a
                | None => exists ms_all rows_all,
                            w_yard w = Some ms_all /\ solver_rows (a_all a) cp = Ok rows_all
                            /\ masks_feasible rows_all ms_all = true
                            /\ ok = (total_groups ms_now <=? total_groups ms_all)
                            /\ yard = (rq, (- GROUP_COST * Z.of_N (total_groups ms_all) + 0 - SLACK)%Z) :: a_yard a
                end).
Proof.
  intros Hws Hhr Hforced Hh. unfold has_resources in Hh. rewrite Hhr in Hh. cbn [bind negb] in Hh.
  rewrite Hforced, Hws in Hh.
  destruct (w_adm w) as [ms_now|].
  - destruct (group_solver (a_free a) cp [] false (Some ms_now)) as [r| |] eqn:Eg; cbn [bind] in Hh; try discriminate.
    destruct (group_solver_nw_some _ _ _ _ _ Eg) as (rows_now & Hrows & Hfeas & ->).
    exists rows_now. split; auto. right. exists ms_now. split; auto. split; auto.
    destruct (yard_lookup (a_yard a) rq) as [c|].
    + inversion Hh; subst. rewrite masks_objective_count by auto. auto.
    + destruct (w_yard w) as [ms_all|].
      * destruct (group_solver (a_all a) cp [] false (Some ms_all)) as [r| |] eqn:Eg2; cbn [bind] in Hh; try discriminate.
        destruct (group_solver_nw_some _ _ _ _ _ Eg2) as (rows_all & Hrows2 & Hfeas2 & ->).
        exists ms_all, rows_all. inversion Hh; subst. rewrite !masks_objective_count by auto.
        repeat split; auto. apply strict_compare.
      * destruct (group_solver (a_all a) cp [] false None) as [r| |] eqn:Eg2; cbn [bind] in Hh; try discriminate.
        destruct (group_solver_nw_none _ _ _ _ Eg2) as (rows_all & _ & _ & ->). discriminate.
  - destruct (group_solver (a_free a) cp [] false None) as [r| |] eqn:Eg; cbn [bind] in Hh; try discriminate.
    destruct (group_solver_nw_none _ _ _ _ Eg) as (rows_now & Hrows & Hinf & ->).
    exists rows_now. split; auto. left. inversion Hh; subst. auto.
Qed.

(** minimal answer now against the reference minima of the empty worker *)
Lemma counts_iff_at_minimum_ref rows_now : forall rows_all ms_now,
  rows_dominated rows_now rows_all -> minimal_answer rows_now ms_now ->
  (total_groups ms_now <=? mins_total rows_all) = list_eqb opt_eqb (row_mins rows_now) (row_mins rows_all).
Proof.
  assert (Hall : forall pn pa u f kn, len pn = len pa ->
            (forall m, sufficient pn u f m = true -> sufficient pa u f m = true) ->
            min_groups pn u f = Some kn -> exists ka, min_groups pa u f = Some ka /\ ka <= kn).
  { intros pn pa u f kn Hlen Hdom Hn.
    destruct (min_groups pa u f) as [ka|] eqn:Ea.
    - exists ka. split; auto. eapply min_groups_le; eauto.
    - exfalso. pose proof (min_groups_correct pn u f) as Cn. rewrite Hn in Cn. destruct Cn as [(m & Hm & Hs & _) _].
      pose proof (min_groups_correct pa u f) as Ca. rewrite Ea in Ca.
      assert (Hfm : full_mask pn = full_mask pa) by (unfold full_mask; f_equal; unfold len in Hlen; lia).
      rewrite Hfm in Hm. specialize (Hdom m Hs). rewrite (Ca m Hm) in Hdom. discriminate. }
  assert (Hrest : forall rn ra msn, rows_dominated rn ra -> minimal_answer rn msn -> mins_total ra <= total_groups msn).
  { induction rn as [|[[pn un] fn] rn IH]; intros [|[[pa ua] fa] ra] [|mn msn] Hd Hn; cbn [rows_dominated minimal_answer] in *; try contradiction.
    - unfold mins_total, total_groups. cbn [map row_mins]. lia.
    - destruct Hd as (-> & -> & Hlen & Hdom & Hd'). destruct Hn as [Hn1 Hn2].
      destruct (Hall _ _ _ _ _ Hlen Hdom Hn1) as (ka & Ha & Hle). specialize (IH _ _ Hd' Hn2).
      unfold mins_total, total_groups in *. cbn [map row_mins]. rewrite Ha, !sumN_cons. cbn [min_or0]. lia. }
  induction rows_now as [|[[pn un] fn] rn IH]; intros [|[[pa ua] fa] ra] [|mn msn] Hd Hn;
    cbn [rows_dominated minimal_answer] in *; try contradiction.
  - reflexivity.
  - destruct Hd as (-> & -> & Hlen & Hdom & Hd'). destruct Hn as [Hn1 Hn2].
    destruct (Hall _ _ _ _ _ Hlen Hdom Hn1) as (ka & Ha & Hle).
    pose proof (Hrest _ _ _ Hd' Hn2) as Hr.
    cbn [row_mins list_eqb]. rewrite Hn1, Ha. cbn [opt_eqb]. rewrite <- (IH _ _ Hd' Hn2).
    unfold mins_total, total_groups in *. cbn [map row_mins]. rewrite Ha, !sumN_cons. cbn [min_or0].
    destruct (N.eqb_spec (len mn) ka) as [E|E]; cbn [andb].
    + rewrite E. destruct (N.leb_spec (sumN (map (fun m : mask => len m) msn)) (sumN (map min_or0 (row_mins ra)))),
                          (N.leb_spec (ka + sumN (map (fun m : mask => len m) msn)) (ka + sumN (map min_or0 (row_mins ra)))); auto; lia.
    + destruct (N.leb_spec (len mn + sumN (map (fun m : mask => len m) msn)) (ka + sumN (map min_or0 (row_mins ra)))); auto; lia.
Qed.

(* ---------- the reference yardstick ---------- *)
Definition yard_value (pools0 : list pool) (rq : request) : Z :=
  (- GROUP_COST * Z.of_N (mins_total (map (ref_row pools0) (coupled_entries pools0 rq))) + 0 - SLACK)%Z.

Definition yard_ok (pools0 : list pool) (yard : list (request * Z)) : Prop :=
  forall rq c, yard_lookup yard rq = Some c -> c = yard_value pools0 rq.

(** the answers for the empty worker are minimal per entry (state independent) *)
Definition yard_witness_ok (pools0 : list pool) (rq : request) (w : witness) : Prop :=
  forall ms, w_yard w = Some ms -> minimal_answer (map (ref_row pools0) (coupled_entries pools0 rq)) ms.
Definition yard_op_ok (pools0 : list pool) (o : op) : Prop :=
  match o with OAlloc rq w | OEnabled rq w => yard_witness_ok pools0 rq w | ORelease _ => True end.

Lemma policy_eqb_eq p q : policy_eqb p q = true -> p = q.
Proof. destruct p, q; simpl; intros H; try discriminate; reflexivity. Qed.

Lemma request_eqb_eq a : forall b, request_eqb a b = true -> a = b.
Proof.
  induction a as [|x a IH]; intros [|y b] H; cbn [request_eqb] in H; try discriminate; [reflexivity|].
  apply andb_true_iff in H. destruct H as [H1 H2]. f_equal; auto.
  unfold entry_eqb in H1. apply andb_true_iff in H1. destruct H1 as [Hr Hq]. apply N.eqb_eq in Hr.
  destruct x as [rx qx], y as [ry qy]. cbn [e_res e_req] in *. subst. f_equal.
  destruct qx as [p a1|], qy as [q a2|]; cbn [areq_eqb] in Hq; try discriminate; auto.
  apply andb_true_iff in Hq. destruct Hq as [Hp Ha]. apply policy_eqb_eq in Hp. apply N.eqb_eq in Ha. subst. reflexivity.
Qed.

(** the kinds of the pools never change: the same entries are coupled *)
Lemma is_coupled_same pools0 pools free Hf Tf e :
  PoolsInv pools0 pools free Hf Tf -> is_coupled pools e = is_coupled pools0 e.
Proof.
  intros (L1 & L2 & HP). unfold is_coupled.
  destruct (nth_error pools (nat_of (e_res e))) as [p|] eqn:Ep.
  - assert (Hlt : e_res e < len pools0) by (apply nth_error_some_lt in Ep; unfold len, nat_of in *; lia).
    destruct (nth_error pools0 (nat_of (e_res e))) as [p0|] eqn:E0; [|apply nth_error_None in E0; unfold len, nat_of in *; lia].
    destruct (nth_error free (nat_of (e_res e))) as [c|] eqn:Ec; [|apply nth_error_None in Ec; unfold len, nat_of in *; lia].
    destruct (HP _ _ _ _ Hlt E0 Ep Ec) as (K & _). destruct p0, p; try discriminate K; reflexivity.
  - assert (E0 : nth_error pools0 (nat_of (e_res e)) = None) by (apply nth_error_None; apply nth_error_None in Ep; lia).
    rewrite E0. reflexivity.
Qed.

Lemma coupled_entries_same pools0 pools free Hf Tf rq :
  PoolsInv pools0 pools free Hf Tf -> coupled_entries pools rq = coupled_entries pools0 rq.
Proof.
  intros HP. unfold coupled_entries. apply filter_ext. intros e. eapply is_coupled_same; eauto.
Qed.

Lemma run_snoc_inv ops : forall s0 o s, run s0 (ops ++ [o]) = Ok s ->
  exists s1 out, run s0 ops = Ok s1 /\ step s1 o = Ok (s, out).
Proof.
  induction ops as [|x ops IH]; intros s0 o s Hr; cbn [app run] in Hr.
  - destruct (step s0 o) as [[s1 out]| |] eqn:Es; cbn [bind fst run] in Hr; try discriminate. inversion Hr; subst.
    exists s0, out. split; [reflexivity|exact Es].
  - destruct (step s0 x) as [[s1 out]| |] eqn:Es; cbn [bind fst] in Hr; try discriminate.
    destruct (IH _ _ _ Hr) as (s2 & out2 & A & B). exists s2, out2. split; auto. cbn [run]. rewrite Es. exact A.
Qed.

Lemma init_yard_nil d s0 : init d = Ok s0 -> a_yard (s_alloc s0) = [].
Proof.
  unfold init, allocator_new. intros H.
  destruct (existsb _ (d_items d)); cbn [bind] in H; try discriminate.
  destruct (max_rid (d_items d)); cbn [bind] in H; try discriminate.
  destruct (fill_pools _ (d_items d)); cbn [bind] in H; try discriminate.
  destruct (new_weights (d_items d) (d_coupling d)); cbn [bind] in H; try discriminate.
  inversion H; subst. reflexivity.
Qed.

Section Reach.
  Variables (d : desc) (s0 : sys).
  Hypothesis Hi : init d = Ok s0.
  Hypothesis Hnc : d_coupling d = [].
  Let pools0 := a_pools (s_alloc s0).

  (** one admission test in a reachable state *)
  Lemma has_resources_strict ops s rq w ok yard :
    Forall valid_op ops -> run s0 ops = Ok s ->
    yard_ok pools0 (a_yard (s_alloc s)) -> yard_witness_ok pools0 rq w ->
    has_resources (s_alloc s) rq w = Ok (ok, yard) ->
    yard_ok pools0 yard
    /\ (existsb (fun e => is_forced (e_req e)) (coupled_entries (a_pools (s_alloc s)) rq) = true ->
        (forall ms, w_adm w = Some ms ->
                    minimal_answer (map (ref_row (a_pools (s_alloc s))) (coupled_entries (a_pools (s_alloc s)) rq)) ms) ->
        ok = request_fits (a_pools (s_alloc s)) rq
             && forallb (at_min pools0 (a_pools (s_alloc s))) (coupled_entries (a_pools (s_alloc s)) rq)).
  Proof.
    intros Hv Hr Hyard Hwy Hh.
    destruct (request_fits (a_pools (s_alloc s)) rq) eqn:Hfit.
    2:{ rewrite (admission_refuses_unfit d s0 ops s Hi Hv Hr rq w Hfit) in Hh. inversion Hh; subst. split; auto. }
    cbn [andb].
    assert (HF : FullInv (a_pools (s_alloc s0)) s) by (eapply run_full; [apply (init_full d); auto | eauto | eauto]).
    destruct HF as [HI _]. pose proof (reachable_nodup _ _ _ _ Hi Hr) as Hn.
    destruct (init_static _ _ Hi) as (Hfr & Hall0 & Hw0). destruct (run_static _ _ _ Hr) as [Hall Hws].
    destruct (hr_entries_reachable d s0 ops s Hi Hv Hr rq) as (cp & Hhr & _). rewrite Hfit in Hhr.
    pose proof (hr_entries_coupling _ _ _ _ _ Hhr) as Hcp. cbn [app] in Hcp. fold (coupled_entries (a_pools (s_alloc s)) rq) in Hcp.
    pose proof (coupled_entries_same _ _ _ _ _ rq HI) as Hsame. fold pools0 in Hsame, Hall0, HI, Hfr.
    set (pools := a_pools (s_alloc s)) in *. subst cp.
    set (cp := coupled_entries pools rq) in *.
    assert (Hcpl : Forall (fun e => is_coupled pools e = true) cp).
    { apply Forall_forall. intros e He. unfold cp, coupled_entries in He. apply filter_In in He. tauto. }
    destruct (rows_dominated_ref _ _ _ _ _ _ HI Hfr Hcpl) as [Hdom Hcpl0].
    assert (Hws0 : a_weights (s_alloc s) = []) by (rewrite Hws; auto).
    destruct (forallb (fun e => negb (is_forced (e_req e))) cp) eqn:Hnf.
    { (* the solver is not consulted *)
      unfold has_resources in Hh. fold pools in Hh. rewrite Hhr in Hh. cbn [bind negb] in Hh. rewrite Hnf in Hh. inversion Hh; subst.
      split; auto. intros Hforced _. exfalso.
      apply existsb_exists in Hforced. destruct Hforced as (e & He & Hfe).
      rewrite forallb_forall in Hnf. specialize (Hnf e He). rewrite Hfe in Hnf. discriminate. }
    destruct (strict_admission_shape _ _ _ _ _ _ Hws0 Hhr Hnf Hh) as (rows_now & Hrows & Hcase).
    rewrite (solver_rows_now _ _ _ _ _ _ HI Hn Hcpl) in Hrows. inversion Hrows; subst rows_now. clear Hrows.
    destruct Hcase as [(_ & Hinf & _ & _)|(ms_now & Ha & Hfn & Hcase)].
    { exfalso. rewrite full_masks_feasible in Hinf; [discriminate|auto|].
      unfold request_fits in Hfit. rewrite forallb_forall in Hfit. apply forallb_forall. intros e He.
      apply Hfit. unfold cp, coupled_entries in He. apply filter_In in He. tauto. }
    assert (Hfin : forall k, k = mins_total (map (ref_row pools0) cp) -> minimal_answer (map (ref_row pools) cp) ms_now ->
                     (total_groups ms_now <=? k) = forallb (at_min pools0 pools) cp).
    { intros k -> Hmin. rewrite (counts_iff_at_minimum_ref _ _ _ Hdom Hmin). apply row_mins_at_min; auto. }
    destruct (yard_lookup (a_yard (s_alloc s)) rq) as [c|] eqn:Ey.
    - destruct Hcase as [-> ->]. split; auto. intros _ Hmin.
      rewrite (Hyard _ _ Ey). unfold yard_value. rewrite <- Hsame. fold cp. rewrite strict_compare.
      apply Hfin; auto.
    - destruct Hcase as (ms_all & rows_all & Hy & Hrows_all & Hfa & -> & ->).
      rewrite Hall, Hall0 in Hrows_all. rewrite (solver_rows_all _ _ Hcpl0) in Hrows_all. inversion Hrows_all; subst rows_all. clear Hrows_all.
      pose proof (Hwy _ Hy) as Hmin_all. rewrite <- Hsame in Hmin_all. fold cp in Hmin_all.
      split.
      + intros rq' c Hl. cbn [yard_lookup] in Hl. destruct (request_eqb rq rq') eqn:Eq.
        * apply request_eqb_eq in Eq. subst rq'. inversion Hl; subst c. unfold yard_value. rewrite <- Hsame. fold cp.
          rewrite (minimal_total _ _ Hmin_all). reflexivity.
        * apply Hyard; auto.
      + intros _ Hmin. apply Hfin; auto. apply minimal_total; auto.
  Qed.

  (** every cached yardstick of a reachable state is the reference one *)
  Lemma yard_ok_reachable ops : forall s,
    Forall valid_op ops -> Forall (yard_op_ok pools0) ops -> run s0 ops = Ok s -> yard_ok pools0 (a_yard (s_alloc s)).
  Proof.
    induction ops as [|o ops IH] using rev_ind; intros s Hv Hy Hr.
    - cbn [run] in Hr. inversion Hr; subst s.
      intros rq c Hl. rewrite (init_yard_nil _ _ Hi) in Hl. discriminate Hl.
    - apply Forall_app in Hv. destruct Hv as [Hv1 Hv2]. apply Forall_app in Hy. destruct Hy as [Hy1 Hy2].
      inversion Hy2 as [|? ? Hyo _]; subst.
      destruct (run_snoc_inv _ _ _ _ Hr) as (s1 & out & Hr1 & Hs).
      pose proof (IH s1 Hv1 Hy1 Hr1) as Hy1'.
      destruct o as [rq w|k|rq w]; cbn [step] in Hs.
      + unfold try_allocate in Hs.
        destruct (has_resources (s_alloc s1) rq w) as [[ok yard]| |] eqn:Eh; cbn [bind] in Hs; try discriminate.
        destruct (has_resources_strict ops s1 rq w ok yard Hv1 Hr1 Hy1' Hyo Eh) as [Hy' _].
        destruct ok; cbn [negb bind] in Hs.
        * destruct (claim_resources _ rq w) as [[pools al]| |]; cbn [bind] in Hs; try discriminate.
          destruct (cf_remove (a_free (s_alloc s1)) al); cbn [bind] in Hs; try discriminate. inversion Hs; subst. exact Hy'.
        * inversion Hs; subst. exact Hy'.
      + destruct (k <? len (s_live s1)); try discriminate. destruct (nth_error (s_live s1) (nat_of k)); try discriminate.
        unfold release_allocation in Hs. destruct (cf_add (a_free (s_alloc s1)) a); cbn [bind] in Hs; try discriminate.
        destruct (release_helper (a_pools (s_alloc s1)) a); cbn [bind] in Hs; try discriminate. inversion Hs; subst. exact Hy1'.
      + unfold is_enabled in Hs.
        destruct (has_resources (s_alloc s1) rq w) as [[ok yard]| |] eqn:Eh; cbn [bind] in Hs; try discriminate.
        destruct (has_resources_strict ops s1 rq w ok yard Hv1 Hr1 Hy1' Hyo Eh) as [Hy' _].
        inversion Hs; subst. exact Hy'.
  Qed.
End Reach.

(** C16, strict policies, every reachable state (cache hits included).  Worker without coupling weights; every
    answer of the solver for the EMPTY worker - in the history and now - and the answer for the current free
    resources select the minimum number of groups per coupled entry (what the monitor solver-suboptimal checks).
    Then has_resources_for_request - hence is_enabled, and try_allocate's decision to grant - is true EXACTLY when
    the pools contain enough for every entry and every coupled entry can be served now with the minimum number
    of groups of the empty worker (the reference of the monitors strict-refused-at-minimum / admission-disagrees):
    the answer depends on the pools only, not on the cache and not on the witnesses. *)
Theorem C16_strict_admission : forall d s0 ops s rq w ok yard,
  init d = Ok s0 -> Forall valid_op ops -> run s0 ops = Ok s ->
  d_coupling d = [] ->
  Forall (yard_op_ok (a_pools (s_alloc s0))) ops -> yard_witness_ok (a_pools (s_alloc s0)) rq w ->
  (forall ms, w_adm w = Some ms ->
              minimal_answer (map (ref_row (a_pools (s_alloc s))) (coupled_entries (a_pools (s_alloc s)) rq)) ms) ->
  existsb (fun e => is_forced (e_req e)) (coupled_entries (a_pools (s_alloc s)) rq) = true ->
  has_resources (s_alloc s) rq w = Ok (ok, yard) ->
  ok = request_fits (a_pools (s_alloc s)) rq
       && forallb (at_min (a_pools (s_alloc s0)) (a_pools (s_alloc s))) (coupled_entries (a_pools (s_alloc s)) rq).
Proof.
  intros d s0 ops s rq w ok yard Hi Hv Hr Hnc Hyops Hyw Hmin Hforced Hh.
  pose proof (yard_ok_reachable d s0 Hi Hnc ops s Hv Hyops Hr) as Hyard.
  destruct (has_resources_strict d s0 Hi Hnc ops s rq w ok yard Hv Hr Hyard Hyw Hh) as [_ H]. auto.
Qed.

(** the same for the two entry points *)
Corollary C16_strict_enabled_and_allocate : forall d s0 ops s rq w,
  init d = Ok s0 -> Forall valid_op ops -> run s0 ops = Ok s ->
  d_coupling d = [] ->
  Forall (yard_op_ok (a_pools (s_alloc s0))) ops -> yard_witness_ok (a_pools (s_alloc s0)) rq w ->
  (forall ms, w_adm w = Some ms ->
              minimal_answer (map (ref_row (a_pools (s_alloc s))) (coupled_entries (a_pools (s_alloc s)) rq)) ms) ->
  existsb (fun e => is_forced (e_req e)) (coupled_entries (a_pools (s_alloc s)) rq) = true ->
  let ref := request_fits (a_pools (s_alloc s)) rq
             && forallb (at_min (a_pools (s_alloc s0)) (a_pools (s_alloc s))) (coupled_entries (a_pools (s_alloc s)) rq) in
  (forall s' b, step s (OEnabled rq w) = Ok (s', OutEnabled b) -> b = ref)
  /\ (forall s' o, step s (OAlloc rq w) = Ok (s', o) -> if ref then exists al, o = OutGrant al else o = OutNone).
Proof.
  intros d s0 ops s rq w Hi Hv Hr Hnc Hyops Hyw Hmin Hforced ref. split.
  - intros s' b Hs. cbn [step] in Hs. unfold is_enabled in Hs.
    destruct (has_resources (s_alloc s) rq w) as [[ok yard]| |] eqn:Eh; cbn [bind fst snd] in Hs; try discriminate.
    inversion Hs; subst. eapply C16_strict_admission; eauto.
  - intros s' o Hs. cbn [step] in Hs. unfold try_allocate in Hs.
    destruct (has_resources (s_alloc s) rq w) as [[ok yard]| |] eqn:Eh; cbn [bind] in Hs; try discriminate.
    assert (Hok : ok = ref) by (eapply C16_strict_admission; eauto). rewrite <- Hok.
    destruct ok; cbn [negb bind] in Hs.
    + destruct (claim_resources _ rq w) as [[pools al]| |]; cbn [bind] in Hs; try discriminate.
      destruct (cf_remove (a_free (s_alloc s)) al); cbn [bind] in Hs; try discriminate. inversion Hs; subst. eauto.
    + inversion Hs; subst. reflexivity.
Qed.

(** non-vacuity: the state of PolicyStrictReach.strict_admission_example reached through an is_enabled that
    fills the cache: `tight! 6` is then refused on a cache HIT, and the history satisfies the hypotheses *)
Example strict_admission_cached_example :
  let rq := [mkEntry 0 (Req ForceTight 60000)] in
  let w := mkWitness None (Some [[0; 1]]) (Some [[1]]) [] in
  let ops := [OAlloc [mkEntry 0 (Req Scatter 20000)] no_wit; OEnabled rq w] in
  exists s0 s,
    init ex_strict_desc = Ok s0 /\ run s0 ops = Ok s
    /\ Forall (yard_op_ok (a_pools (s_alloc s0))) ops
    /\ yard_lookup (a_yard (s_alloc s)) rq = Some (yard_value (a_pools (s_alloc s0)) rq)
    /\ has_resources (s_alloc s) rq w = Ok (false, a_yard (s_alloc s))
    /\ forallb (at_min (a_pools (s_alloc s0)) (a_pools (s_alloc s))) (coupled_entries (a_pools (s_alloc s)) rq) = false.
Proof.
  cbv zeta. eexists. eexists.
  split; [vm_compute; reflexivity|]. split; [vm_compute; reflexivity|].
  split.
  - constructor; [|constructor; [|constructor]].
    + intros ms Hms. discriminate Hms.
    + intros ms Hms. inversion Hms; subst. vm_compute. auto.
  - repeat split; vm_compute; reflexivity.
Qed.

Print Assumptions C16_strict_admission.
Print Assumptions C16_strict_enabled_and_allocate.
