(** Elementary steps on one group of a pool (and on its concise mirror): taking / returning one
    AllocationIndex.  Everything the pool functions do is a sequence of these steps. *)
From Coq Require Import Permutation.
From HQ Require Import Base.Prelude Gen.Consts Alloc.Model Alloc.Spec Alloc.Lemmas.
Require Import ZifyBool ZifyN ZifyNat.
Open Scope N_scope.
Arguments N.add : simpl never.
Arguments N.sub : simpl never.
Arguments N.mul : simpl never.
Arguments N.eqb : simpl never.
Arguments N.ltb : simpl never.
Arguments N.leb : simpl never.
Arguments N.of_nat : simpl never.
Arguments N.to_nat : simpl never.

(** well-formed group: what the debug-only ResourcePool::validate() asserts *)
Definition gwf (g : group) : Prop :=
  NoDup (g_idx g) /\ NoDup (keys (g_fr g))
  /\ (forall i, In i (g_idx g) -> fget (g_fr g) i = None)
  /\ (forall i f, fget (g_fr g) i = Some f -> f < FPU).

Lemma take1_memN g ix :
  take1 g ix =
  let i := ai_index ix in
  if ai_frac ix =? 0 then
    if memN i (g_idx g) then Some (mkGroup (removeN i (g_idx g)) (g_fr g)) else None
  else
    match fget (g_fr g) i with
    | Some f => if ai_frac ix <=? f then Some (mkGroup (g_idx g) (fset (g_fr g) i (f - ai_frac ix))) else None
    | None =>
        if memN i (g_idx g) && (ai_frac ix <? FPU)
        then Some (mkGroup (removeN i (g_idx g)) (fset (g_fr g) i (FPU - ai_frac ix))) else None
    end.
Proof. reflexivity. Qed.

(** holdings of a group, abstractly: [h i] = amount of index i held by live allocations,
    [hf i] = some live allocation holds a fraction of i *)
Definition add_h (h : N -> N) (ix : aidx) : N -> N :=
  fun i => h i + (if i =? ai_index ix then held_ix ix else 0).
Definition add_hf (hf : N -> bool) (ix : aidx) : N -> bool :=
  fun i => hf i || ((i =? ai_index ix) && negb (ai_frac ix =? 0)).

(** the holdings are made of whole indices and positive fractions *)
Definition compat (h : N -> N) (hf : N -> bool) : Prop :=
  forall i, (hf i = true -> 0 < h i) /\ (hf i = false -> h i = 0 \/ FPU <= h i).

(** group invariant relative to the indices [u] the group owns *)
Definition GI (u : list N) (g : group) (h : N -> N) (hf : N -> bool) : Prop :=
  gwf g
  /\ (forall i, In i u -> group_free g i + h i = FPU)
  /\ (forall i, ~ In i u -> ~ In i (g_idx g) /\ fget (g_fr g) i = None /\ h i = 0)
  /\ (forall i, hf i = true <-> fget (g_fr g) i <> None).

Lemma group_free_in g i : In i (g_idx g) -> group_free g i = FPU.
Proof. intros H. unfold group_free. apply memN_in in H. rewrite H. auto. Qed.
Lemma group_free_notin g i : ~ In i (g_idx g) -> group_free g i = fget0 (g_fr g) i.
Proof. intros H. unfold group_free. apply memN_false in H. rewrite H. auto. Qed.

Lemma held_ix_pos ix : 0 < held_ix ix.
Proof. unfold held_ix. destruct (N.eqb_spec (ai_frac ix) 0); [apply FPU_pos | lia]. Qed.

Lemma take1_index_in u g h hf ix g' : GI u g h hf -> take1 g ix = Some g' -> In (ai_index ix) u.
Proof.
  intros (Hwf & Hc & Hout & Hhf) Ht.
  destruct (in_dec N.eq_dec (ai_index ix) u) as [|Hn]; auto. exfalso.
  destruct (Hout _ Hn) as (H1 & H2 & _). rewrite take1_memN in Ht; cbv zeta in Ht.
  destruct (ai_frac ix =? 0).
  - destruct (memN (ai_index ix) (g_idx g)) eqn:E; [|discriminate]. apply memN_in in E. auto.
  - rewrite H2 in Ht. destruct (memN (ai_index ix) (g_idx g)) eqn:E; simpl in Ht; [|discriminate].
    apply memN_in in E. auto.
Qed.

Lemma take1_GI u g h hf ix g' :
  GI u g h hf -> take1 g ix = Some g' -> GI u g' (add_h h ix) (add_hf hf ix).
Proof.
  intros HGI Ht. pose proof (take1_index_in _ _ _ _ _ _ HGI Ht) as Hiu.
  destruct HGI as ((Hnd & Hndk & Hsf & Hlt) & Hc & Hout & Hhf).
  rewrite take1_memN in Ht; cbv zeta in Ht. set (i := ai_index ix) in *.
  unfold GI, gwf, add_h, add_hf, held_ix. fold i.
  destruct (N.eqb_spec (ai_frac ix) 0) as [Hz|Hz].
  - (* whole index *)
    destruct (memN i (g_idx g)) eqn:E; [|discriminate]. inversion Ht; subst g'; clear Ht. simpl.
    apply memN_in in E.
    assert (Hfi : fget (g_fr g) i = None) by auto.
    pose proof (Hc i Hiu) as Hci. rewrite group_free_in in Hci by auto.
    repeat split.
    + apply nodup_removeN; auto.
    + auto.
    + intros j Hj. apply in_removeN in Hj. auto.
    + auto.
    + intros j Hj. destruct (N.eqb_spec j i).
      * subst j. rewrite group_free_notin.
        -- simpl. unfold fget0. rewrite Hfi. lia.
        -- simpl. rewrite in_removeN_iff by auto. tauto.
      * specialize (Hc j Hj). unfold group_free in *. simpl.
        destruct (memN j (g_idx g)) eqn:E1.
        -- apply memN_in in E1. assert (In j (removeN i (g_idx g))) by (apply in_removeN_iff; auto).
           apply memN_in in H. rewrite H. lia.
        -- apply memN_false in E1. assert (~ In j (removeN i (g_idx g))) by (intros Hc'; apply in_removeN in Hc'; auto).
           apply memN_false in H. rewrite H. lia.
    + simpl. intros Hj. apply in_removeN in Hj. apply (Hout i0); auto.
    + simpl. apply (Hout i0); auto.
    + destruct (Hout i0 H) as (_ & _ & Hh). destruct (N.eqb_spec i0 i); [subst; tauto | lia].
    + simpl. intros H. apply orb_true_iff in H. destruct H as [H|H]; [apply Hhf; auto|].
      rewrite andb_true_iff in H. destruct H as [_ H]. rewrite ?Hz in H. simpl in H. discriminate.
    + simpl. intros H. apply Hhf in H. rewrite H. auto.
  - destruct (fget (g_fr g) i) as [f|] eqn:Hfi.
    + (* fraction from a partly used index *)
      destruct (N.leb_spec (ai_frac ix) f) as [Hle|]; [|discriminate]. inversion Ht; subst g'; clear Ht. simpl.
      assert (Hni : ~ In i (g_idx g)) by (intros Hc'; apply Hsf in Hc'; congruence).
      repeat split.
      * auto.
      * apply nodup_keys_fset; auto.
      * intros j Hj. rewrite fget_fset. destruct (N.eqb_spec i j); [subst; tauto | auto].
      * intros j v. rewrite fget_fset. destruct (N.eqb_spec i j).
        -- intros H; inversion H; subst. apply Hlt in Hfi. lia.
        -- apply Hlt.
      * intros j Hj. specialize (Hc j Hj). unfold group_free in *. simpl.
        destruct (memN j (g_idx g)) eqn:E1.
        -- apply memN_in in E1. destruct (N.eqb_spec j i); [subst; tauto | lia].
        -- rewrite fget0_fset. destruct (N.eqb_spec i j).
           ++ subst j. rewrite N.eqb_refl. unfold fget0 in Hc. rewrite Hfi in Hc. lia.
           ++ destruct (N.eqb_spec j i); [congruence | lia].
      * simpl. apply (Hout i0); auto.
      * simpl. rewrite fget_fset. destruct (N.eqb_spec i i0); [subst; tauto | apply (Hout i0); auto].
      * destruct (Hout i0 H) as (_ & _ & Hh). destruct (N.eqb_spec i0 i); [subst; tauto | lia].
      * simpl. rewrite fget_fset. destruct (N.eqb_spec i i0); [discriminate|].
        intros H. apply orb_true_iff in H. destruct H as [H|H]; [apply Hhf; auto|].
        rewrite andb_true_iff in H. destruct H as [H _]. apply N.eqb_eq in H. congruence.
      * simpl. rewrite fget_fset. destruct (N.eqb_spec i i0).
        -- subst. intros _. rewrite N.eqb_refl. simpl. destruct (N.eqb_spec (ai_frac ix) 0); [congruence|]. apply orb_true_r.
        -- intros H. apply Hhf in H. rewrite H. auto.
    + (* fraction split off a whole index *)
      destruct (memN i (g_idx g)) eqn:E; simpl in Ht; [|discriminate].
      destruct (N.ltb_spec (ai_frac ix) FPU) as [Hlf|]; [|discriminate]. inversion Ht; subst g'; clear Ht. simpl.
      apply memN_in in E.
      pose proof (Hc i Hiu) as Hci. rewrite group_free_in in Hci by auto.
      repeat split.
      * apply nodup_removeN; auto.
      * apply nodup_keys_fset; auto.
      * intros j Hj. apply in_removeN_iff in Hj; auto. destruct Hj as [Hj Hne].
        rewrite fget_fset. destruct (N.eqb_spec i j); [congruence | auto].
      * intros j v. rewrite fget_fset. destruct (N.eqb_spec i j).
        -- intros H; inversion H; subst. lia.
        -- apply Hlt.
      * intros j Hj. destruct (N.eqb_spec j i).
        -- subst j. rewrite group_free_notin.
           ++ simpl. rewrite fget0_fset, N.eqb_refl. lia.
           ++ simpl. rewrite in_removeN_iff by auto. tauto.
        -- specialize (Hc j Hj). unfold group_free in *. simpl.
           destruct (memN j (g_idx g)) eqn:E1.
           ++ apply memN_in in E1. assert (In j (removeN i (g_idx g))) by (apply in_removeN_iff; auto).
              apply memN_in in H. rewrite H. lia.
           ++ apply memN_false in E1. assert (~ In j (removeN i (g_idx g))) by (intros Hc'; apply in_removeN in Hc'; auto).
              apply memN_false in H. rewrite H. rewrite fget0_fset. destruct (N.eqb_spec i j); [congruence | lia].
      * simpl. intros Hj. apply in_removeN in Hj. apply (Hout i0); auto.
      * simpl. rewrite fget_fset. destruct (N.eqb_spec i i0); [subst; tauto | apply (Hout i0); auto].
      * destruct (Hout i0 H) as (_ & _ & Hh). destruct (N.eqb_spec i0 i); [subst; tauto | lia].
      * simpl. rewrite fget_fset. destruct (N.eqb_spec i i0); [discriminate|].
        intros H. apply orb_true_iff in H. destruct H as [H|H]; [apply Hhf; auto|].
        rewrite andb_true_iff in H. destruct H as [H _]. apply N.eqb_eq in H. congruence.
      * simpl. rewrite fget_fset. destruct (N.eqb_spec i i0).
        -- subst. intros _. rewrite N.eqb_refl. simpl. destruct (N.eqb_spec (ai_frac ix) 0); [congruence|]. apply orb_true_r.
        -- intros H. apply Hhf in H. rewrite H. auto.
Qed.

(** returning one AllocationIndex: [release_index] of the model never panics for something that is held *)
Lemma release_index_GI u g h hf ix :
  GI u g (add_h h ix) (add_hf hf ix) -> compat h hf -> ai_frac ix < FPU ->
  exists g', release_index g ix = Ok g' /\ GI u g' h hf.
Proof.
  intros ((Hnd & Hndk & Hsf & Hlt) & Hc & Hout & Hhf) Hcompat Hfl.
  set (i := ai_index ix) in *.
  assert (Hiu : In i u).
  { destruct (in_dec N.eq_dec i u) as [|Hn]; auto. exfalso.
    destruct (Hout _ Hn) as (_ & _ & Hh). unfold add_h in Hh. fold i in Hh. rewrite N.eqb_refl in Hh.
    pose proof (held_ix_pos ix). lia. }
  pose proof (Hc i Hiu) as Hci. unfold add_h in Hci. fold i in Hci. rewrite N.eqb_refl in Hci.
  destruct (Hcompat i) as [Hc1 Hc2].
  unfold release_index. fold i. unfold held_ix in *.
  destruct (N.eqb_spec (ai_frac ix) 0) as [Hz|Hz].
  - (* whole *)
    assert (Hgf : group_free g i = 0 /\ h i = 0) by lia. destruct Hgf as [Hgf Hhi].
    assert (Hni : ~ In i (g_idx g)).
    { intros Hin. rewrite group_free_in in Hgf by auto. pose proof FPU_pos. lia. }
    assert (Hfi : fget (g_fr g) i = None).
    { destruct (fget (g_fr g) i) eqn:E; auto. exfalso.
      assert (Hx : add_hf hf ix i = true) by (apply Hhf; congruence).
      unfold add_hf in Hx. fold i in Hx. rewrite Hz in Hx. simpl in Hx. rewrite andb_false_r, orb_false_r in Hx.
      apply Hc1 in Hx. lia. }
    eexists; split; [reflexivity|].
    unfold GI, gwf; simpl. repeat split.
    + constructor; auto.
    + auto.
    + intros j [Hj|Hj]; [subst; auto | auto].
    + auto.
    + intros j Hj. specialize (Hc j Hj). unfold add_h in Hc. fold i in Hc. unfold group_free in *. simpl.
      destruct (N.eqb_spec j i).
      * subst j. unfold memN. simpl. rewrite ?N.eqb_refl. simpl. lia.
      * unfold memN in *. simpl. destruct (N.eqb_spec j i); [congruence|]. simpl. lia.
    + simpl. intros [Hj|Hj]; [subst; tauto | apply (Hout i0); auto].
    + apply (Hout i0); auto.
    + destruct (Hout i0 H) as (_ & _ & Hh). unfold add_h in Hh. lia.
    + intros H. apply Hhf. unfold add_hf. rewrite H. auto.
    + intros H. apply Hhf in H. unfold add_hf in H. fold i in H. rewrite Hz in H. simpl in H.
      rewrite andb_false_r, orb_false_r in H. auto.
  - (* fraction *)
    assert (Hx : add_hf hf ix i = true).
    { unfold add_hf. fold i. rewrite N.eqb_refl. destruct (N.eqb_spec (ai_frac ix) 0); [congruence|]. apply orb_true_r. }
    apply Hhf in Hx. destruct (fget (g_fr g) i) as [f|] eqn:Hfi; [|congruence]. clear Hx.
    assert (Hni : ~ In i (g_idx g)) by (intros Hc'; apply Hsf in Hc'; congruence).
    rewrite group_free_notin in Hci by auto. unfold fget0 in Hci. rewrite Hfi in Hci.
    destruct (N.eqb_spec (f + ai_frac ix) FPU) as [Hfull|Hnf].
    + (* the index becomes whole again *)
      assert (Hhi : h i = 0) by lia.
      assert (Hhfi : hf i = false). { destruct (hf i) eqn:E; auto. specialize (Hc1 eq_refl). lia. }
      eexists; split; [reflexivity|].
      unfold GI, gwf; simpl. repeat split.
      * constructor; auto.
      * apply nodup_keys_fremove; auto.
      * intros j [Hj|Hj].
        -- subst. apply fget_fremove_same; auto.
        -- destruct (N.eqb_spec i j); [subst; tauto|]. rewrite fget_fremove_other; auto.
      * intros j v. destruct (N.eqb_spec i j).
        -- subst. rewrite fget_fremove_same; auto. discriminate.
        -- rewrite fget_fremove_other; auto. apply Hlt.
      * intros j Hj. specialize (Hc j Hj). unfold add_h in Hc. fold i in Hc. unfold group_free in *. simpl.
        destruct (N.eqb_spec j i).
        -- subst j. unfold memN. simpl. rewrite ?N.eqb_refl. simpl. lia.
        -- unfold memN in *. simpl. destruct (N.eqb_spec j i); [congruence|]. simpl.
           destruct (existsb (N.eqb j) (g_idx g)); [lia|].
           unfold fget0 in *. rewrite fget_fremove_other; auto. lia.
      * simpl. intros [Hj|Hj]; [subst; tauto | apply (Hout i0); auto].
      * destruct (N.eqb_spec i i0); [subst; tauto|]. rewrite fget_fremove_other; auto. apply (Hout i0); auto.
      * destruct (Hout i0 H) as (_ & _ & Hh). unfold add_h in Hh. lia.
      * intros H. destruct (N.eqb_spec i i0); [subst; congruence|]. rewrite fget_fremove_other; auto.
        apply Hhf. unfold add_hf. rewrite H. auto.
      * destruct (N.eqb_spec i i0).
        -- subst. rewrite fget_fremove_same; auto; try congruence.
        -- rewrite fget_fremove_other; auto. intros H. apply Hhf in H. unfold add_hf in H. fold i in H.
           destruct (N.eqb_spec i0 i); [congruence|]. simpl in H. rewrite orb_false_r in H. auto.
    + assert (Hhi : 0 < h i) by lia.
      assert (Hhfi : hf i = true).
      { destruct (hf i) eqn:E; auto. destruct (Hc2 eq_refl); lia. }
      eexists; split; [reflexivity|].
      unfold GI, gwf; simpl. repeat split.
      * auto.
      * apply nodup_keys_fset; auto.
      * intros j Hj. rewrite fget_fset. destruct (N.eqb_spec i j); [subst; tauto | auto].
      * intros j v. rewrite fget_fset. destruct (N.eqb_spec i j).
        -- intros H; inversion H; subst. lia.
        -- apply Hlt.
      * intros j Hj. specialize (Hc j Hj). unfold add_h in Hc. fold i in Hc. unfold group_free in *. simpl.
        destruct (memN j (g_idx g)) eqn:E1.
        -- apply memN_in in E1. destruct (N.eqb_spec j i); [subst; tauto | lia].
        -- rewrite fget0_fset. destruct (N.eqb_spec i j).
           ++ subst j. rewrite N.eqb_refl in Hc. unfold fget0 in Hc. rewrite Hfi in Hc. lia.
           ++ destruct (N.eqb_spec j i); [congruence | lia].
      * apply (Hout i0); auto.
      * simpl. rewrite fget_fset. destruct (N.eqb_spec i i0); [subst; tauto | apply (Hout i0); auto].
      * destruct (Hout i0 H) as (_ & _ & Hh). unfold add_h in Hh. lia.
      * rewrite fget_fset. destruct (N.eqb_spec i i0); [discriminate|].
        intros H. apply Hhf. unfold add_hf. rewrite H. auto.
      * rewrite fget_fset. destruct (N.eqb_spec i i0).
        -- subst. auto.
        -- intros H. apply Hhf in H. unfold add_hf in H. fold i in H.
           destruct (N.eqb_spec i0 i); [congruence|]. simpl in H. rewrite orb_false_r in H. auto.
Qed.

(* ------------------------------------------------------------------------------------------ *)
(** * The concise mirror of one group *)

Definition cmirror (g : group) (c : cgroup) : Prop :=
  c_units c = len (g_idx g) /\ forall i, fget0 (c_fr c) i = fget0 (g_fr g) i.

(** one iteration of the remove loops of concise.rs on one group *)
Definition ctake1 (c : cgroup) (ix : aidx) : res cgroup :=
  if ai_frac ix =? 0 then
    if c_units c =? 0 then Panic SITE_CONCISE_ASSERT else Ok (mkCgroup (c_units c - 1) (c_fr c))
  else
    let old := fget0 (c_fr c) (ai_index ix) in
    if old <? ai_frac ix then
      if c_units c =? 0 then Panic SITE_CONCISE_ASSERT
      else Ok (mkCgroup (c_units c - 1) (fset (c_fr c) (ai_index ix) (FPU + old - ai_frac ix)))
    else Ok (mkCgroup (c_units c) (fset (c_fr c) (ai_index ix) (old - ai_frac ix))).

Definition cgive1 (c : cgroup) (ix : aidx) : res cgroup :=
  if ai_frac ix =? 0 then Ok (mkCgroup (c_units c + 1) (c_fr c))
  else
    let old := fget0 (c_fr c) (ai_index ix) + ai_frac ix in
    if FPU <=? old then
      if FPU <=? old - FPU then Panic SITE_CONCISE_ASSERT
      else Ok (mkCgroup (c_units c + 1) (fset (c_fr c) (ai_index ix) (old - FPU)))
    else Ok (mkCgroup (c_units c) (fset (c_fr c) (ai_index ix) old)).

Lemma len_removeN x l : In x l -> len (removeN x l) + 1 = len l.
Proof. intros H. unfold len. rewrite <- (length_removeN x l H). lia. Qed.

Lemma len_pos_in {A} (x : A) l : In x l -> 0 < len l.
Proof. destruct l; simpl; [tauto|]. unfold len. simpl. lia. Qed.

Lemma ctake1_mirror g c ix g' :
  gwf g -> cmirror g c -> take1 g ix = Some g' ->
  exists c', ctake1 c ix = Ok c' /\ cmirror g' c'.
Proof.
  intros (Hnd & Hndk & Hsf & Hlt) [Hu Hf] Ht. rewrite take1_memN in Ht; cbv zeta in Ht. unfold ctake1.
  set (i := ai_index ix) in *.
  destruct (N.eqb_spec (ai_frac ix) 0) as [Hz|Hz].
  - destruct (memN i (g_idx g)) eqn:E; [|discriminate]. inversion Ht; subst g'; clear Ht.
    apply memN_in in E. pose proof (len_pos_in _ _ E). pose proof (len_removeN _ _ E).
    destruct (N.eqb_spec (c_units c) 0); [lia|].
    eexists; split; [reflexivity|]. split; simpl; [lia | auto].
  - destruct (fget (g_fr g) i) as [f|] eqn:Hfi.
    + destruct (N.leb_spec (ai_frac ix) f) as [Hle|]; [|discriminate]. inversion Ht; subst g'; clear Ht.
      assert (Hold : fget0 (c_fr c) i = f) by (rewrite Hf; unfold fget0; rewrite Hfi; auto).
      rewrite Hold. destruct (N.ltb_spec f (ai_frac ix)); [lia|].
      eexists; split; [reflexivity|]. split; simpl; [auto|].
      intros j. rewrite !fget0_fset. destruct (i =? j); auto.
    + destruct (memN i (g_idx g)) eqn:E; simpl in Ht; [|discriminate].
      destruct (N.ltb_spec (ai_frac ix) FPU) as [Hlf|]; [|discriminate]. inversion Ht; subst g'; clear Ht.
      apply memN_in in E. pose proof (len_pos_in _ _ E). pose proof (len_removeN _ _ E).
      assert (Hold : fget0 (c_fr c) i = 0) by (rewrite Hf; unfold fget0; rewrite Hfi; auto).
      rewrite Hold. destruct (N.ltb_spec 0 (ai_frac ix)); [|lia].
      destruct (N.eqb_spec (c_units c) 0); [lia|].
      eexists; split; [reflexivity|]. split; simpl; [lia|].
      intros j. rewrite !fget0_fset. destruct (i =? j); auto; lia.
Qed.

Lemma cgive1_mirror u g h hf c ix g' :
  GI u g (add_h h ix) (add_hf hf ix) -> cmirror g c -> release_index g ix = Ok g' -> ai_frac ix < FPU ->
  exists c', cgive1 c ix = Ok c' /\ cmirror g' c'.
Proof.
  intros ((Hnd & Hndk & Hsf & Hlt) & Hc & Hout & Hhf) [Hu Hf] Hr Hfl. unfold release_index in Hr. unfold cgive1.
  set (i := ai_index ix) in *.
  destruct (N.eqb_spec (ai_frac ix) 0) as [Hz|Hz].
  - inversion Hr; subst g'; clear Hr. eexists; split; [reflexivity|]. split; simpl; auto.
    unfold len in *. simpl. lia.
  - destruct (fget (g_fr g) i) as [f|] eqn:Hfi; [|discriminate].
    assert (Hold : fget0 (c_fr c) i = f) by (rewrite Hf; unfold fget0; rewrite Hfi; auto).
    rewrite Hold. pose proof (Hlt _ _ Hfi).
    assert (Hiu : In i u).
    { destruct (in_dec N.eq_dec i u) as [|Hn]; auto. exfalso.
      destruct (Hout _ Hn) as (_ & Hx & _). congruence. }
    assert (Hsum : f + ai_frac ix <= FPU).
    { pose proof (Hc i Hiu) as Hci. unfold add_h in Hci. fold i in Hci. rewrite N.eqb_refl in Hci.
      assert (Hni : ~ In i (g_idx g)) by (intros Hc'; apply Hsf in Hc'; congruence).
      rewrite group_free_notin in Hci by auto. unfold fget0 in Hci. rewrite Hfi in Hci.
      unfold held_ix in Hci. destruct (N.eqb_spec (ai_frac ix) 0); [congruence|]. lia. }
    destruct (N.eqb_spec (f + ai_frac ix) FPU) as [Hfull|Hnf]; inversion Hr; subst g'; clear Hr.
    + destruct (N.leb_spec FPU (f + ai_frac ix)); [|lia].
      destruct (N.leb_spec FPU (f + ai_frac ix - FPU)); [lia|].
      eexists; split; [reflexivity|]. split; simpl; [unfold len in *; simpl; lia|].
      intros j. rewrite fget0_fset. destruct (N.eqb_spec i j).
      * subst j. unfold fget0. rewrite fget_fremove_same; auto. lia.
      * unfold fget0 at 2. rewrite fget_fremove_other; auto. apply Hf.
    + destruct (N.leb_spec FPU (f + ai_frac ix)); [lia|].
      eexists; split; [reflexivity|]. split; simpl; auto.
      intros j. rewrite !fget0_fset. destruct (i =? j); auto.
Qed.
