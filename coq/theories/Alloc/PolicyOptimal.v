(** C16 - what the monitor solver-suboptimal checks ([answer_optimal]: the objective of the solver's answer equals
    the brute-force optimum) implies, without coupling weights and without the tie-breaking terms, the hypothesis
    of the strict-admission theorems: the answer selects the minimum number of groups for every entry. *)
From Coq Require Import Permutation.
From HQ Require Import Base.Prelude Gen.Consts Alloc.Model Alloc.Spec Alloc.Lemmas Alloc.Group Alloc.Pool Alloc.Inv Alloc.System Alloc.Mirror Alloc.Theorems Alloc.MirrorSystem Alloc.GroupsProofs Alloc.Admission Alloc.AllFree Alloc.Objective Alloc.Strict Alloc.Examples
  Alloc.PolicyAdmission Alloc.PolicyStrict Alloc.PolicyStrictReach Alloc.PolicyStrictYard.
Require Import ZifyBool ZifyN ZifyNat.
Open Scope N_scope.
Arguments N.add : simpl never.
Arguments N.sub : simpl never.
Arguments N.mul : simpl never.
Arguments N.div : simpl never.
Arguments N.modulo : simpl never.
Arguments N.eqb : simpl never.
Arguments N.ltb : simpl never.
Arguments N.leb : simpl never.
Arguments N.of_nat : simpl never.
Arguments N.to_nat : simpl never.
Arguments sumN : simpl never.

(** sub-selections of all groups are strictly increasing lists of group ids in range *)
Lemma increasing_weaken m : forall lo lo' n, lo <= lo' -> strictly_increasing_below m lo' n = true -> strictly_increasing_below m lo n = true.
Proof.
  destruct m as [|g m]; intros lo lo' n Hle H; [reflexivity|].
  cbn [strictly_increasing_below] in *. apply andb_true_iff in H. destruct H as [H H3]. apply andb_true_iff in H. destruct H as [H1 H2].
  rewrite H2, H3. destruct (N.leb_spec lo g); [reflexivity|lia].
Qed.

Lemma sublists_increasing n : forall lo m, In m (sublists (seqN lo n)) -> strictly_increasing_below m lo (lo + N.of_nat n) = true.
Proof.
  induction n as [|n IH]; intros lo m Hm; cbn [seqN sublists] in Hm.
  - destruct Hm as [<-|[]]. reflexivity.
  - apply in_app_or in Hm. destruct Hm as [Hm|Hm].
    + apply in_map_iff in Hm. destruct Hm as (m' & <- & Hm'). apply IH in Hm'.
      replace (lo + 1 + N.of_nat n) with (lo + N.of_nat (S n)) in Hm' by lia.
      cbn [strictly_increasing_below]. rewrite Hm'.
      destruct (N.leb_spec lo lo), (N.ltb_spec lo (lo + N.of_nat (S n))); first [lia | reflexivity].
    + apply IH in Hm. replace (lo + 1 + N.of_nat n) with (lo + N.of_nat (S n)) in Hm by lia.
      eapply increasing_weaken; [|exact Hm]. lia.
Qed.

Lemma sublists_answer per m : In m (sublists (full_mask per)) -> strictly_increasing_below m 0 (len per) = true.
Proof. intros H. unfold full_mask in H. apply sublists_increasing in H. rewrite N.add_0_l in H. exact H. Qed.

(** an answer that is minimal for every row: feasible and among the tuples the brute force enumerates *)
Lemma minimal_tuple_exists rows :
  Forall (fun r => min_groups (fst (fst r)) (snd (fst r)) (snd r) <> None) rows ->
  exists ms, masks_feasible rows ms = true /\ minimal_answer rows ms /\ In ms (all_mask_tuples rows).
Proof.
  induction 1 as [|[[per u] f] rows Hr _ IH].
  - exists []. repeat split. left. reflexivity.
  - destruct IH as (ms & Hf & Hmin & Hin). cbn [fst snd] in Hr.
    pose proof (min_groups_correct per u f) as MC. destruct (min_groups per u f) as [k|] eqn:Ek; [|congruence].
    destruct MC as [(m & Hm & Hs & Hl) _].
    exists (m :: ms). split; [|split].
    + cbn [masks_feasible]. rewrite (sublists_answer _ _ Hm), rows_mean_sufficient, Hs, Hf. reflexivity.
    + cbn [minimal_answer]. rewrite Ek, Hl. auto.
    + cbn [all_mask_tuples]. apply in_flat_map. exists m. split; auto. apply in_map. auto.
Qed.

Lemma best_objective_ge tie rows entries ws : forall (l : list (list mask)) ms o,
  In ms l -> solver_objective tie rows entries ws ms = Some o ->
  exists b, fold_right (fun ms acc => match solver_objective tie rows entries ws ms, acc with
                                      | Some o, Some b => Some (Z.max o b)
                                      | Some o, None => Some o
                                      | None, _ => acc
                                      end) None l = Some b /\ (o <= b)%Z.
Proof.
  induction l as [|x l IH]; intros ms o Hin Ho; [destruct Hin|]. cbn [fold_right].
  destruct Hin as [->|Hin].
  - rewrite Ho. destruct (fold_right _ None l) as [b|]; eexists; split; try reflexivity; lia.
  - destruct (IH _ _ Hin Ho) as (b & Hb & Hle). rewrite Hb.
    destruct (solver_objective tie rows entries ws x) as [ox|]; eexists; split; try reflexivity; lia.
Qed.

(** feasible answers select at least the minimum per row *)
Lemma feasible_ge_min rows : forall ms, masks_feasible rows ms = true ->
  Forall (fun r => min_groups (fst (fst r)) (snd (fst r)) (snd r) <> None) rows /\ mins_total rows <= total_groups ms.
Proof.
  induction rows as [|[[per u] f] rows IH]; intros [|m ms] H; cbn [masks_feasible] in H; try discriminate.
  - split; [constructor|]. unfold mins_total, total_groups. cbn [map row_mins]. lia.
  - apply andb_true_iff in H. destruct H as [H H3]. apply andb_true_iff in H. destruct H as [H1 H2].
    destruct (IH _ H3) as [IH1 IH2]. rewrite rows_mean_sufficient in H2.
    pose proof (min_groups_correct per u f) as MC.
    destruct (min_groups per u f) as [k|] eqn:Ek.
    + destruct MC as [_ Hmin]. specialize (Hmin m (answer_in_sublists _ _ H1) H2). split.
      * constructor; auto. cbn [fst snd]. congruence.
      * unfold mins_total, total_groups in *. cbn [map row_mins]. rewrite Ek, !sumN_cons. cbn [min_or0]. lia.
    + rewrite (MC m (answer_in_sublists _ _ H1)) in H2. discriminate.
Qed.

Lemma feasible_total_minimal rows : forall ms, masks_feasible rows ms = true ->
  total_groups ms <= mins_total rows -> minimal_answer rows ms.
Proof.
  induction rows as [|[[per u] f] rows IH]; intros [|m ms] H Hle; cbn [masks_feasible] in H; try discriminate; [exact I|].
  apply andb_true_iff in H. destruct H as [H H3]. apply andb_true_iff in H. destruct H as [H1 H2].
  destruct (feasible_ge_min _ _ H3) as [_ Hge]. rewrite rows_mean_sufficient in H2.
  pose proof (min_groups_correct per u f) as MC.
  destruct (min_groups per u f) as [k|] eqn:Ek.
  - destruct MC as [_ Hmin]. specialize (Hmin m (answer_in_sublists _ _ H1) H2).
    unfold mins_total, total_groups in *. cbn [map row_mins] in Hle. rewrite Ek, !sumN_cons in Hle. cbn [min_or0] in Hle.
    cbn [minimal_answer]. rewrite Ek. split; [f_equal; lia|]. apply IH; auto. lia.
  - rewrite (MC m (answer_in_sublists _ _ H1)) in H2. discriminate.
Qed.

(** optimal (as checked by the monitor) => minimal per entry *)
Theorem optimal_answer_minimal rows entries ms o b :
  solver_objective false rows entries [] ms = Some o ->
  best_objective false rows entries [] = Some b -> o = b ->
  minimal_answer rows ms.
Proof.
  intros Ho Hb ->. unfold solver_objective in Ho. destruct (masks_feasible rows ms) eqn:Hf; [|discriminate].
  cbn [weights_objective] in Ho. inversion Ho as [Hob]. clear Ho.
  destruct (feasible_ge_min _ _ Hf) as [Hsome Hge].
  destruct (minimal_tuple_exists _ Hsome) as (ms' & Hf' & Hmin' & Hin').
  assert (Ho' : solver_objective false rows entries [] ms' = Some (masks_objective false rows ms' + 0)%Z).
  { unfold solver_objective. rewrite Hf'. reflexivity. }
  destruct (best_objective_ge false rows entries [] _ _ _ Hin' Ho') as (b' & Hb' & Hle).
  unfold best_objective in Hb. rewrite Hb in Hb'. inversion Hb'; subst b'.
  rewrite !masks_objective_count in * by auto. rewrite (minimal_total _ _ Hmin') in Hle.
  apply feasible_total_minimal; auto.
  unfold GROUP_COST, OBJ_SCALE, ALLOC_GROUP_WEIGHT, ALLOC_UNIT_DIV, FPU, FRACTIONS_PER_UNIT in *. lia.
Qed.

(** in the terms of the monitor: [answer_optimal false] for the current free resources / for the empty worker gives
    the hypotheses of C16_strict_admission *)
Theorem answer_optimal_now d s0 ops s rq ms :
  init d = Ok s0 -> Forall valid_op ops -> run s0 ops = Ok s -> d_coupling d = [] ->
  answer_optimal false (a_free (s_alloc s)) (a_pools (s_alloc s)) (a_weights (s_alloc s)) rq ms = true ->
  minimal_answer (map (ref_row (a_pools (s_alloc s))) (coupled_entries (a_pools (s_alloc s)) rq)) ms.
Proof.
  intros Hi Hv Hr Hnc Hopt.
  assert (HF : FullInv (a_pools (s_alloc s0)) s) by (eapply run_full; [apply (init_full d); auto | eauto | eauto]).
  destruct HF as [HI _]. pose proof (reachable_nodup _ _ _ _ Hi Hr) as Hn.
  destruct (init_static _ _ Hi) as (_ & _ & Hw0). destruct (run_static _ _ _ Hr) as [_ Hws].
  rewrite Hws, (Hw0 Hnc) in Hopt. unfold answer_optimal in Hopt.
  assert (Hcpl : Forall (fun e => is_coupled (a_pools (s_alloc s)) e = true) (coupled_entries (a_pools (s_alloc s)) rq)).
  { apply Forall_forall. intros e He. unfold coupled_entries in He. apply filter_In in He. tauto. }
  rewrite (solver_rows_now _ _ _ _ _ _ HI Hn Hcpl) in Hopt.
  destruct (solver_objective false _ _ [] ms) as [o|] eqn:Eo; [|discriminate].
  destruct (best_objective false _ _ []) as [b|] eqn:Eb; [|discriminate].
  apply Z.eqb_eq in Hopt. eapply optimal_answer_minimal; eauto.
Qed.

Theorem answer_optimal_yard d s0 rq w :
  init d = Ok s0 -> d_coupling d = [] ->
  (forall ms, w_yard w = Some ms ->
              answer_optimal false (map concise_state (a_pools (s_alloc s0))) (a_pools (s_alloc s0)) [] rq ms = true) ->
  yard_witness_ok (a_pools (s_alloc s0)) rq w.
Proof.
  intros Hi Hnc Hopt ms Hms. specialize (Hopt ms Hms). unfold answer_optimal in Hopt.
  assert (Hcpl : Forall (fun e => is_coupled (a_pools (s_alloc s0)) e = true) (coupled_entries (a_pools (s_alloc s0)) rq)).
  { apply Forall_forall. intros e He. unfold coupled_entries in He. apply filter_In in He. tauto. }
  rewrite (solver_rows_all _ _ Hcpl) in Hopt.
  destruct (solver_objective false _ _ [] ms) as [o|] eqn:Eo; [|discriminate].
  destruct (best_objective false _ _ []) as [b|] eqn:Eb; [|discriminate].
  apply Z.eqb_eq in Hopt. eapply optimal_answer_minimal; eauto.
Qed.

(** non-vacuity: the answers of PolicyStrictReach.strict_admission_example are optimal in the monitor's sense *)
Example answer_optimal_example :
  exists s0 s,
    init ex_strict_desc = Ok s0 /\ run s0 [OAlloc [mkEntry 0 (Req Scatter 20000)] no_wit] = Ok s
    /\ answer_optimal false (a_free (s_alloc s)) (a_pools (s_alloc s)) (a_weights (s_alloc s)) [mkEntry 0 (Req ForceTight 60000)] [[0; 1]] = true
    /\ answer_optimal false (map concise_state (a_pools (s_alloc s0))) (a_pools (s_alloc s0)) [] [mkEntry 0 (Req ForceTight 60000)] [[1]] = true.
Proof.
  eexists. eexists. split; [vm_compute; reflexivity|]. split; [vm_compute; reflexivity|]. split; vm_compute; reflexivity.
Qed.

Print Assumptions optimal_answer_minimal.
Print Assumptions answer_optimal_now.
Print Assumptions answer_optimal_yard.
