(** C16_admission_iff_feasible: for non-strict policies the admission test (computed from the concise
    summary) is true exactly when the pools contain enough (reference [request_fits], computed from the
    pools), in every reachable state; and the test itself cannot panic. *)
From Coq Require Import Permutation.
From HQ Require Import Base.Prelude Gen.Consts Alloc.Model Alloc.Spec Alloc.Lemmas Alloc.Group Alloc.Pool Alloc.Inv Alloc.System Alloc.Mirror Alloc.Theorems Alloc.MirrorSystem Alloc.GroupsProofs.
Require Import ZifyBool ZifyN ZifyNat.
Open Scope N_scope.
Arguments N.add : simpl never.
Arguments N.sub : simpl never.
Arguments N.mul : simpl never.
Arguments N.div : simpl never.
Arguments N.modulo : simpl never.
Arguments N.eqb : simpl never.
Arguments N.ltb : simpl never.
Arguments N.leb : simpl never.
Arguments N.of_nat : simpl never.
Arguments N.to_nat : simpl never.
Arguments sumN : simpl never.

(* ---------- the fraction maps of the concise summary are maps (unique keys) ---------- *)
Definition cs_nodup (c : cstate) : Prop := Forall (fun cg => NoDup (keys (c_fr cg))) c.
Definition free_nodup (free : list cstate) : Prop := Forall cs_nodup free.

Lemma cs_nodup_set_at c gi cg : cs_nodup c -> NoDup (keys (c_fr cg)) -> cs_nodup (set_at c gi cg).
Proof. intros. apply Forall_set_at; auto. Qed.

Lemma get_at_forall {A} (P : A -> Prop) l i x : Forall P l -> get_at l i = Ok x -> P x.
Proof. intros H E. apply get_at_ok in E. destruct E as [_ E]. eapply Forall_nth; eauto. Qed.

Lemma remove_fractions_nodup s gi idx fr s' : cs_nodup s -> remove_fractions s gi idx fr = Ok s' -> cs_nodup s'.
Proof.
  unfold remove_fractions. intros Hn H. destruct (get_at s gi) as [g| |] eqn:E; simpl in H; try discriminate.
  pose proof (get_at_forall _ _ _ _ Hn E) as Hg.
  destruct (fget0 (c_fr g) idx <? fr).
  - destruct (c_units g =? 0); try discriminate. inversion H; subst. apply cs_nodup_set_at; auto. simpl. apply nodup_keys_fset; auto.
  - inversion H; subst. apply cs_nodup_set_at; auto. simpl. apply nodup_keys_fset; auto.
Qed.

Lemma add_fractions_nodup s gi idx fr s' : cs_nodup s -> add_fractions s gi idx fr = Ok s' -> cs_nodup s'.
Proof.
  unfold add_fractions. intros Hn H. destruct (get_at s gi) as [g| |] eqn:E; simpl in H; try discriminate.
  pose proof (get_at_forall _ _ _ _ Hn E) as Hg.
  destruct (FPU <=? fget0 (c_fr g) idx + fr).
  - destruct (FPU <=? fget0 (c_fr g) idx + fr - FPU); try discriminate. inversion H; subst. apply cs_nodup_set_at; auto. simpl. apply nodup_keys_fset; auto.
  - inversion H; subst. apply cs_nodup_set_at; auto. simpl. apply nodup_keys_fset; auto.
Qed.

Lemma fr_loop_single_nodup f (Hf : forall s gi idx fr s', cs_nodup s -> f s gi idx fr = Ok s' -> cs_nodup s') l :
  forall s s', cs_nodup s -> fr_loop_single f s l = Ok s' -> cs_nodup s'.
Proof.
  induction l as [|ix l IH]; intros s s' Hn H; simpl in H.
  - inversion H; subst; auto.
  - destruct (ai_frac ix =? 0); [inversion H; subst; auto|].
    destruct (f s 0 (ai_index ix) (ai_frac ix)) as [s1| |] eqn:E; simpl in H; try discriminate. eauto.
Qed.

Lemma remove_loop_nodup l : forall s s', cs_nodup s -> remove_loop_groups s l = Ok s' -> cs_nodup s'.
Proof.
  induction l as [|ix l IH]; intros s s' Hn H; simpl in H.
  - inversion H; subst; auto.
  - destruct (ai_frac ix =? 0).
    + destruct (get_at s (ai_group ix)) as [g| |] eqn:E; simpl in H; try discriminate.
      destruct (c_units g =? 0); try discriminate.
      eapply IH; [|eauto]. apply cs_nodup_set_at; auto. simpl. eapply (get_at_forall _ _ _ _ Hn E).
    + destruct (remove_fractions s (ai_group ix) (ai_index ix) (ai_frac ix)) as [s1| |] eqn:E; simpl in H; try discriminate.
      eapply IH; [|eauto]. eapply remove_fractions_nodup; eauto.
Qed.

Lemma add_loop_nodup l : forall s s', cs_nodup s -> add_loop_groups s l = Ok s' -> cs_nodup s'.
Proof.
  induction l as [|ix l IH]; intros s s' Hn H; simpl in H.
  - inversion H; subst; auto.
  - destruct (ai_frac ix =? 0).
    + destruct (get_at s (ai_group ix)) as [g| |] eqn:E; simpl in H; try discriminate.
      eapply IH; [|eauto]. apply cs_nodup_set_at; auto. simpl. eapply (get_at_forall _ _ _ _ Hn E).
    + destruct (add_fractions s (ai_group ix) (ai_index ix) (ai_frac ix)) as [s1| |] eqn:E; simpl in H; try discriminate.
      eapply IH; [|eauto]. eapply add_fractions_nodup; eauto.
Qed.

Lemma cs_remove_nodup s ra s' : cs_nodup s -> cs_remove s ra = Ok s' -> cs_nodup s'.
Proof.
  unfold cs_remove. intros Hn H. destruct s as [|g [|g2 s2]]; try (eapply remove_loop_nodup; eauto; fail).
  destruct (split (ra_amount ra)) as [units fr]. destruct (c_units g <? units); try discriminate.
  assert (Hn1 : cs_nodup [mkCgroup (c_units g - units) (c_fr g)]) by (inversion Hn; subst; constructor; auto).
  destruct (0 <? fr); [|inversion H; subst; auto].
  destruct (ra_indices ra).
  - eapply remove_fractions_nodup; eauto.
  - eapply (fr_loop_single_nodup remove_fractions remove_fractions_nodup); eauto.
Qed.

Lemma cs_add_nodup s ra s' : cs_nodup s -> cs_add s ra = Ok s' -> cs_nodup s'.
Proof.
  unfold cs_add. intros Hn H. destruct s as [|g [|g2 s2]]; try (eapply add_loop_nodup; eauto; fail).
  destruct (split (ra_amount ra)) as [units fr].
  assert (Hn1 : cs_nodup [mkCgroup (c_units g + units) (c_fr g)]) by (inversion Hn; subst; constructor; auto).
  destruct (0 <? fr); [|inversion H; subst; auto].
  destruct (ra_indices ra).
  - eapply add_fractions_nodup; eauto.
  - eapply (fr_loop_single_nodup add_fractions add_fractions_nodup); eauto.
Qed.

Lemma cf_apply_nodup f (Hf : forall s ra s', cs_nodup s -> f s ra = Ok s' -> cs_nodup s') al :
  forall free free', free_nodup free -> cf_apply f free al = Ok free' -> free_nodup free'.
Proof.
  induction al as [|ra al IH]; intros free free' Hn H; simpl in H.
  - inversion H; subst; auto.
  - destruct (get_at free (ra_res ra)) as [s| |] eqn:E; simpl in H; try discriminate.
    destruct (f s ra) as [s1| |] eqn:E1; simpl in H; try discriminate.
    eapply IH; [|eauto]. apply Forall_set_at; auto. eapply Hf; eauto. eapply (get_at_forall _ _ _ _ Hn E).
Qed.

Lemma step_nodup s o s' out : free_nodup (a_free (s_alloc s)) -> step s o = Ok (s', out) -> free_nodup (a_free (s_alloc s')).
Proof.
  intros Hn Hs. destruct o as [rq w|k|rq w]; simpl in Hs.
  - unfold try_allocate in Hs.
    destruct (has_resources (s_alloc s) rq w) as [[ok yard]| |]; simpl in Hs; try discriminate.
    destruct ok; simpl in Hs.
    + destruct (claim_resources _ rq w) as [[pools al]| |]; simpl in Hs; try discriminate.
      destruct (cf_remove (a_free (s_alloc s)) al) as [free'| |] eqn:Ef; simpl in Hs; try discriminate.
      inversion Hs; subst; simpl. eapply (cf_apply_nodup cs_remove cs_remove_nodup); eauto.
    + inversion Hs; subst; simpl. auto.
  - destruct (k <? len (s_live s)); try discriminate.
    destruct (nth_error (s_live s) (nat_of k)) as [al|]; try discriminate.
    unfold release_allocation in Hs.
    destruct (cf_add (a_free (s_alloc s)) al) as [free1| |] eqn:Ea; simpl in Hs; try discriminate.
    destruct (release_helper (a_pools (s_alloc s)) al); simpl in Hs; try discriminate.
    inversion Hs; subst; simpl. eapply (cf_apply_nodup cs_add cs_add_nodup); eauto.
  - unfold is_enabled in Hs.
    destruct (has_resources (s_alloc s) rq w) as [[ok yard]| |]; simpl in Hs; try discriminate.
    inversion Hs; subst; simpl. auto.
Qed.

Lemma concise_state_nodup p : fresh p -> cs_nodup (concise_state p).
Proof.
  destruct p; simpl; intros Hf.
  - constructor.
  - inversion Hf as [|? ? [Hfr _] _]; subst. constructor; [simpl; rewrite Hfr; constructor | constructor].
  - induction Hf as [|g gs [Hfr _] _ IH]; simpl; constructor; auto. simpl. rewrite Hfr. constructor.
  - constructor; [|constructor]. simpl. destruct (0 <? free mod FPU); simpl; [constructor; [intros []|constructor] | constructor].
Qed.

Lemma reachable_nodup d s0 ops s : init d = Ok s0 -> run s0 ops = Ok s -> free_nodup (a_free (s_alloc s)).
Proof.
  intros Hi Hr.
  assert (H0 : free_nodup (a_free (s_alloc s0))).
  { unfold init, allocator_new in Hi.
    destruct (existsb _ (d_items d)); simpl in Hi; try discriminate.
    destruct (max_rid (d_items d)); simpl in Hi; try discriminate.
    destruct (fill_pools _ (d_items d)) as [pools| |] eqn:Ef; simpl in Hi; try discriminate.
    destruct (new_weights (d_items d) (d_coupling d)); simpl in Hi; try discriminate.
    inversion Hi; subst; simpl.
    assert (Hfr : Forall fresh pools).
    { eapply fill_pools_fresh; [|eauto]. apply Forall_forall. intros x Hx.
      change (PEmpty :: repeat PEmpty (nat_of n)) with (repeat PEmpty (S (nat_of n))) in Hx. apply repeat_spec in Hx. subst. simpl. constructor. }
    unfold free_nodup. apply Forall_map. eapply Forall_impl; [|exact Hfr]. apply concise_state_nodup. }
  clear Hi. revert s0 s H0 Hr. induction ops as [|o ops IH]; intros s0 s H0 Hr; simpl in Hr.
  - inversion Hr; subst; auto.
  - destruct (step s0 o) as [[s1 out]| |] eqn:Es; simpl in Hr; try discriminate.
    eapply IH; [|eauto]. eapply step_nodup; eauto.
Qed.

(* ---------- maxima of fraction maps ---------- *)
Lemma in_keys_fget m k v : NoDup (keys m) -> In (k, v) m -> fget m k = Some v.
Proof.
  induction m as [|[k' v'] m IH]; simpl; intros Hn Hin; [tauto|].
  inversion Hn as [|? ? Hni Hn']; subst. destruct Hin as [E|Hin].
  - inversion E; subst. rewrite N.eqb_refl. auto.
  - destruct (N.eqb_spec k' k).
    + subst. exfalso. apply Hni. change k with (fst (k, v)). apply in_map. auto.
    + auto.
Qed.

Lemma fmax_le m B : (forall k v, In (k, v) m -> v <= B) -> fmax m <= B.
Proof.
  induction m as [|[k v] m IH]; simpl; intros H; [lia|].
  assert (v <= B) by (apply (H k); auto). assert (fmax m <= B) by (apply IH; intros; eapply H; eauto). lia.
Qed.

Lemma fmax_ext a b : NoDup (keys a) -> NoDup (keys b) -> (forall i, fget0 a i = fget0 b i) -> fmax a = fmax b.
Proof.
  assert (Hle : forall a b, NoDup (keys a) -> (forall i, fget0 a i = fget0 b i) -> fmax a <= fmax b).
  { intros x y Hn He. apply fmax_le. intros k v Hin. pose proof (in_keys_fget _ _ _ Hn Hin) as Hg.
    specialize (He k). unfold fget0 in He. rewrite Hg in He.
    destruct (fget y k) eqn:E; [subst; eapply fmax_ge; eauto | lia]. }
  intros Ha Hb He. apply N.le_antisymm; [apply Hle; auto | apply Hle; auto; intros; symmetry; auto].
Qed.

Lemma fmax_single m : NoDup (keys m) -> (forall i, i <> 0 -> fget0 m i = 0) -> fmax m = fget0 m 0.
Proof.
  intros Hn Ho. apply N.le_antisymm.
  - apply fmax_le. intros k v Hin. pose proof (in_keys_fget _ _ _ Hn Hin) as Hg.
    destruct (N.eq_dec k 0); [subst; unfold fget0; rewrite Hg; lia|].
    specialize (Ho k n). unfold fget0 in Ho. rewrite Hg in Ho. lia.
  - unfold fget0. destruct (fget m 0) eqn:E; [eapply fmax_ge; eauto | lia].
Qed.

(* ---------- sums / maxima over the full mask ---------- *)
Lemma mask_sum_seq pre per coef :
  mask_sum (pre ++ per) (seqN (len pre) (length per)) coef = sumN (map coef per).
Proof.
  revert pre; induction per as [|uf per IH]; intros pre; [reflexivity|].
  cbn [length seqN map]. rewrite mask_sum_cons. replace (nat_of (len pre)) with (length pre) by (unfold nat_of, len; lia).
  rewrite nth_error_app2 by lia. rewrite Nat.sub_diag. cbn [nth_error]. rewrite sumN_cons. f_equal.
  specialize (IH (pre ++ [uf])). rewrite <- app_assoc in IH. simpl in IH.
  rewrite len_app in IH. replace (len pre + len [uf]) with (len pre + 1) in IH by (unfold len; simpl; lia). auto.
Qed.

Lemma mask_sum_full per coef : mask_sum per (full_mask per) coef = sumN (map coef per).
Proof. apply (mask_sum_seq [] per coef). Qed.

Lemma existsb_seq (pre per : list (N * N)) (P : N * N -> bool) :
  existsb (fun gi => match nth_error (pre ++ per) (nat_of gi) with Some uf => P uf | None => false end) (seqN (len pre) (length per))
  = existsb P per.
Proof.
  revert pre; induction per as [|uf per IH]; intros pre; [reflexivity|].
  cbn [length seqN existsb]. replace (nat_of (len pre)) with (length pre) by (unfold nat_of, len; lia).
  rewrite nth_error_app2 by lia. rewrite Nat.sub_diag. cbn [nth_error]. f_equal.
  specialize (IH (pre ++ [uf])). rewrite <- app_assoc in IH. simpl in IH.
  rewrite len_app in IH. replace (len pre + len [uf]) with (len pre + 1) in IH by (unfold len; simpl; lia). auto.
Qed.

Definition maxsnd (per : list (N * N)) : N := fold_right (fun uf n => N.max (snd uf) n) 0 per.

Lemma existsb_maxsnd per f : 0 < f -> existsb (fun uf => f <=? snd uf) per = (f <=? maxsnd per).
Proof.
  intros Hf. induction per as [|uf per IH]; simpl.
  - destruct (N.leb_spec f 0); auto; lia.
  - rewrite IH. destruct (N.leb_spec f (snd uf)), (N.leb_spec f (maxsnd per)), (N.leb_spec f (N.max (snd uf) (maxsnd per))); simpl; auto; lia.
Qed.

(** sufficiency of ALL groups together, in closed form *)
Lemma sufficient_full per u f :
  sufficient per u f (full_mask per) =
  (u <=? sumN (map fst per)) && ((f =? 0) || (u + 1 <=? sumN (map fst per)) || (f <=? maxsnd per)).
Proof.
  unfold sufficient. rewrite mask_sum_full.
  pose proof (existsb_seq [] per (fun uf => f <=? snd uf)) as E. cbn [app] in E.
  change (len (@nil (N * N))) with 0 in E. unfold full_mask. rewrite E.
  destruct (N.eqb_spec f 0); simpl; auto.
  rewrite existsb_maxsnd by lia. auto.
Qed.

(* ---------- admission = feasibility ---------- *)
Lemma group_like_max gs c :
  gs_mirror gs c -> gs_wf gs -> cs_nodup c ->
  cs_units_sum c = sumN (map fst (map (fun g => (len (g_idx g), fmax (g_fr g))) gs))
  /\ cs_max_fraction c = maxsnd (map (fun g => (len (g_idx g), fmax (g_fr g))) gs)
  /\ maxsnd (map (fun g => (len (g_idx g), fmax (g_fr g))) gs) < FPU.
Proof.
  induction 1 as [|g cg gs c [Hu Hf] _ IH]; intros Hwf Hn; simpl.
  - split; [reflexivity|]. split; [reflexivity|]. apply FPU_pos.
  - inversion Hwf as [|? ? (Hnd & Hndk & Hsf & Hlt) Hwf']; subst. inversion Hn as [|? ? Hnk Hn']; subst.
    destruct (IH Hwf' Hn') as (A & B & C). cbn [map]. rewrite sumN_cons. simpl fst. simpl snd.
    assert (Hfm : fmax (c_fr cg) = fmax (g_fr g)) by (apply fmax_ext; auto).
    assert (Hb : fmax (g_fr g) < FPU) by (apply fmax_bound; auto; apply FPU_pos).
    unfold cs_units_sum, cs_max_fraction in *. simpl. rewrite A, B, Hu, Hfm. repeat split; auto. lia.
Qed.

Lemma adm_arith U F a :
  F < FPU ->
  (a <=? mk_amount U F) =
  (let '(u, f) := split a in (u <=? U) && ((f =? 0) || (u + 1 <=? U) || (f <=? F))).
Proof.
  intros HF. unfold split, mk_amount.
  assert (Hm : a mod FPU < FPU) by (apply N.mod_lt; discriminate).
  destruct (N.leb_spec a (U * FPU + F)); destruct (N.leb_spec (a / FPU) U); destruct (N.eqb_spec (a mod FPU) 0);
    destruct (N.leb_spec (a / FPU + 1) U); destruct (N.leb_spec (a mod FPU) F); simpl; auto;
    exfalso; unfold FPU, FRACTIONS_PER_UNIT in *; lia.
Qed.

Definition fits_amount (pl : pool) (a : N) : bool :=
  match pl with
  | PEmpty => a =? 0
  | PSum _ free => a <=? free
  | _ => let '(u, f) := split a in sufficient (pool_per_group pl) u f (full_mask (pool_per_group pl))
  end.

Lemma entry_adm p0 pl c H taken a :
  PoolInv p0 pl c H taken -> cs_nodup c ->
  exists m, amount_max_alloc c = Ok m /\ (a <=? m) = fits_amount pl a.
Proof.
  intros (K & F & C) Hn. destruct pl as [|fl g|fl gs|fl free].
  - destruct C as (_ & Hm & _). inversion Hm; subst. exists 0. split; [reflexivity|]. simpl.
    destruct (N.leb_spec a 0), (N.eqb_spec a 0); auto; lia.
  - destruct C as (_ & Hm & Hw & _). simpl pool_groups in *.
    destruct (group_like_max _ _ Hm Hw Hn) as (A & B & Cb).
    unfold amount_max_alloc. rewrite B. destruct (N.ltb_spec (maxsnd (map (fun g0 => (len (g_idx g0), fmax (g_fr g0))) [g])) FPU); [|lia].
    eexists; split; [reflexivity|]. rewrite A. rewrite adm_arith by auto. unfold fits_amount, pool_per_group. simpl pool_groups.
    destruct (split a) as [u f]. rewrite sufficient_full. auto.
  - destruct C as (_ & Hm & Hw & _). simpl pool_groups in *.
    destruct (group_like_max _ _ Hm Hw Hn) as (A & B & Cb).
    unfold amount_max_alloc. rewrite B. destruct (N.ltb_spec (maxsnd (map (fun g0 => (len (g_idx g0), fmax (g_fr g0))) gs)) FPU); [|lia].
    eexists; split; [reflexivity|]. rewrite A. rewrite adm_arith by auto. unfold fits_amount, pool_per_group. simpl pool_groups.
    destruct (split a) as [u f]. rewrite sufficient_full. auto.
  - destruct C as (_ & (cg & -> & Hs & Hl & Ho) & _). pose proof (Forall_inv Hn) as Hnk. cbv beta in Hnk.
    unfold amount_max_alloc, cs_max_fraction, cs_units_sum. simpl.
    rewrite (fmax_single _ Hnk Ho). rewrite N.max_0_r.
    destruct (N.ltb_spec (fget0 (c_fr cg) 0) FPU); [|lia].
    eexists; split; [reflexivity|]. unfold mk_amount. rewrite N.add_0_r, Hs. auto.
Qed.

Definition plain_entry (e : entry) : bool :=
  match e_req e with Req Compact _ | Req Tight _ | Req Scatter _ => true | _ => false end.

Lemma entry_fits_plain pools e pl :
  plain_entry e = true -> nth_error pools (nat_of (e_res e)) = Some pl ->
  entry_fits pools e = fits_amount pl (match e_req e with Req _ a => a | ReqAll => 0 end).
Proof.
  intros Hp Hn. unfold entry_fits, plain_entry in *. rewrite Hn.
  destruct (e_req e) as [pol a|]; [|discriminate]. destruct pl; auto.
Qed.

Lemma hr_entries_fits pools0 pools free Hf Tf entries : forall coupling,
  PoolsInv pools0 pools free Hf Tf -> free_nodup free -> forallb plain_entry entries = true ->
  exists coupling', hr_entries pools free entries coupling = Ok (forallb (entry_fits pools) entries, coupling')
                    /\ (forall e, In e coupling' -> In e coupling \/ In e entries).
Proof.
  induction entries as [|e rest IH]; intros coupling HP Hn Hpl; simpl.
  - exists coupling. split; auto.
  - simpl in Hpl. apply andb_true_iff in Hpl. destruct Hpl as [Hpe Hpr].
    destruct HP as (L1 & L2 & HP').
    destruct (N.leb_spec (len pools) (e_res e)) as [Hout|Hin].
    + assert (nth_error pools (nat_of (e_res e)) = None) by (apply nth_error_None; unfold len, nat_of in *; lia).
      unfold entry_fits at 1. rewrite H. simpl. exists coupling. split; auto.
    + destruct (get_at_lt pools (e_res e) Hin) as [pl Hpl]. rewrite Hpl. cbn [bind].
      destruct (get_at_lt free (e_res e)) as [c Hc]; [unfold len in *; lia|]. rewrite Hc. cbn [bind].
      pose proof Hpl as Hpl'. apply get_at_ok in Hpl'. destruct Hpl' as [_ Hnp].
      pose proof Hc as Hc'. apply get_at_ok in Hc'. destruct Hc' as [_ Hnc].
      assert (Hr0 : e_res e < len pools0) by (unfold len in *; lia).
      destruct (nth_error pools0 (nat_of (e_res e))) as [p0|] eqn:E0; [|apply nth_error_None in E0; unfold len, nat_of in *; lia].
      pose proof (HP' _ _ _ _ Hr0 E0 Hnp Hnc) as HI.
      assert (Hcn : cs_nodup c) by (eapply Forall_nth; eauto).
      rewrite (entry_fits_plain pools e pl Hpe Hnp).
      unfold plain_entry in Hpe. destruct (e_req e) as [pol a|] eqn:Er; [|discriminate].
      destruct (entry_adm _ _ _ _ _ a HI Hcn) as (m & Hm & Hle). rewrite Hm. cbn [bind]. rewrite Hle.
      destruct (fits_amount pl a).
      * destruct (IH (if is_groups pl && is_relevant_for_coupling (Req pol a) then coupling ++ [e] else coupling)) as (cp & A & B); auto.
        { split; auto. }
        exists cp. split; auto. intros x Hx. destruct (B x Hx) as [Hy|Hy]; auto.
        destruct (is_groups pl && is_relevant_for_coupling (Req pol a)); auto.
        apply in_app_or in Hy. destruct Hy as [Hy|[Hy|[]]]; auto; try (subst; right; left; auto).
      * destruct (is_groups pl && is_relevant_for_coupling (Req pol a)); cbn [bind]; eexists; (split; [reflexivity|]); intros x Hx; auto.
        apply in_app_or in Hx. destruct Hx as [Hx|[Hx|[]]]; auto; try (subst; right; left; auto).
Qed.

(** C16_admission_iff_feasible (non-strict policies, amounts): in every reachable state the admission test
    does not panic and is true exactly when the free resources of the POOLS contain enough for every entry
    (enough whole indices, the fractional remainder from one index; enough of a sum resource). *)
Theorem admission_iff_feasible_thm d s0 ops s rq w :
  init d = Ok s0 -> Forall valid_op ops -> run s0 ops = Ok s ->
  forallb plain_entry rq = true ->
  has_resources (s_alloc s) rq w = Ok (request_fits (a_pools (s_alloc s)) rq, a_yard (s_alloc s)).
Proof.
  intros Hi Hv Hr Hpl.
  assert (HF : FullInv (a_pools (s_alloc s0)) s) by (eapply run_full; [apply (init_full d); auto | eauto | eauto]).
  destruct HF as [HI _]. pose proof (reachable_nodup _ _ _ _ Hi Hr) as Hn.
  destruct (hr_entries_fits _ _ _ _ _ rq [] HI Hn Hpl) as (cp & A & B).
  unfold has_resources. rewrite A. cbn [bind]. fold (request_fits (a_pools (s_alloc s)) rq).
  destruct (request_fits (a_pools (s_alloc s)) rq); simpl; auto.
  assert (Hnf : forallb (fun e => negb (is_forced (e_req e))) cp = true).
  { apply forallb_forall. intros e He. destruct (B e He) as [[]|Hin].
    rewrite forallb_forall in Hpl. specialize (Hpl e Hin). unfold plain_entry in Hpl.
    destruct (e_req e) as [[] ?|]; simpl; auto; discriminate. }
  rewrite Hnf. auto.
Qed.
