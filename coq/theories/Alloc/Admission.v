(** C16_admission_iff_feasible: for non-strict policies the admission test (computed from the concise
    summary) is true exactly when the pools contain enough (reference [request_fits], computed from the
    pools), in every reachable state; and the test itself cannot panic. *)
From Coq Require Import Permutation.
From HQ Require Import Base.Prelude Gen.Consts Alloc.Model Alloc.Spec Alloc.Lemmas Alloc.Group Alloc.Pool Alloc.Inv Alloc.System Alloc.Mirror Alloc.Theorems Alloc.MirrorSystem Alloc.GroupsProofs.
Require Import ZifyBool ZifyN ZifyNat.
Open Scope N_scope.
Arguments N.add : simpl never.
Arguments N.sub : simpl never.
Arguments N.mul : simpl never.
Arguments N.div : simpl never.
Arguments N.modulo : simpl never.
Arguments N.eqb : simpl never.
Arguments N.ltb : simpl never.
Arguments N.leb : simpl never.
Arguments N.of_nat : simpl never.
Arguments N.to_nat : simpl never.
Arguments sumN : simpl never.

(* ---------- the fraction maps of the concise summary are maps (unique keys) ---------- *)
Definition cs_nodup (c : cstate) : Prop := Forall (fun cg => NoDup (keys (c_fr cg))) c.
Definition free_nodup (free : list cstate) : Prop := Forall cs_nodup free.

Lemma cs_nodup_set_at c gi cg : cs_nodup c -> NoDup (keys (c_fr cg)) -> cs_nodup (set_at c gi cg).
Proof. intros. apply Forall_set_at; auto. Qed.

Lemma get_at_forall {A} (P : A -> Prop) l i x : Forall P l -> get_at l i = Ok x -> P x.
Proof. intros H E. apply get_at_ok in E. destruct E as [_ E]. eapply Forall_nth; eauto. Qed.

Lemma remove_fractions_nodup s gi idx fr s' : cs_nodup s -> remove_fractions s gi idx fr = Ok s' -> cs_nodup s'.
Proof.
  unfold remove_fractions. intros Hn H. destruct (get_at s gi) as [g| |] eqn:E; simpl in H; try discriminate.
  pose proof (get_at_forall _ _ _ _ Hn E) as Hg.
  destruct (fget0 (c_fr g) idx <? fr).
  - destruct (c_units g =? 0); try discriminate. inversion H; subst. apply cs_nodup_set_at; auto. simpl. apply nodup_keys_fset; auto.
  - inversion H; subst. apply cs_nodup_set_at; auto. simpl. apply nodup_keys_fset; auto.
Qed.

Lemma add_fractions_nodup s gi idx fr s' : cs_nodup s -> add_fractions s gi idx fr = Ok s' -> cs_nodup s'.
Proof.
  unfold add_fractions. intros Hn H. destruct (get_at s gi) as [g| |] eqn:E; simpl in H; try discriminate.
  pose proof (get_at_forall _ _ _ _ Hn E) as Hg.
  destruct (FPU <=? fget0 (c_fr g) idx + fr).
  - destruct (FPU <=? fget0 (c_fr g) idx + fr - FPU); try discriminate. inversion H; subst. apply cs_nodup_set_at; auto. simpl. apply nodup_keys_fset; auto.
  - inversion H; subst. apply cs_nodup_set_at; auto. simpl. apply nodup_keys_fset; auto.
Qed.

Lemma fr_loop_single_nodup f (Hf : forall s gi idx fr s', cs_nodup s -> f s gi idx fr = Ok s' -> cs_nodup s') l :
  forall s s', cs_nodup s -> fr_loop_single f s l = Ok s' -> cs_nodup s'.
Proof.
  induction l as [|ix l IH]; intros s s' Hn H; simpl in H.
  - inversion H; subst; auto.
  - destruct (ai_frac ix =? 0); [inversion H; subst; auto|].
    destruct (f s 0 (ai_index ix) (ai_frac ix)) as [s1| |] eqn:E; simpl in H; try discriminate. eauto.
Qed.

Lemma remove_loop_nodup l : forall s s', cs_nodup s -> remove_loop_groups s l = Ok s' -> cs_nodup s'.
Proof.
  induction l as [|ix l IH]; intros s s' Hn H; simpl in H.
  - inversion H; subst; auto.
  - destruct (ai_frac ix =? 0).
    + destruct (get_at s (ai_group ix)) as [g| |] eqn:E; simpl in H; try discriminate.
      destruct (c_units g =? 0); try discriminate.
      eapply IH; [|eauto]. apply cs_nodup_set_at; auto. simpl. eapply (get_at_forall _ _ _ _ Hn E).
    + destruct (remove_fractions s (ai_group ix) (ai_index ix) (ai_frac ix)) as [s1| |] eqn:E; simpl in H; try discriminate.
      eapply IH; [|eauto]. eapply remove_fractions_nodup; eauto.
Qed.

Lemma add_loop_nodup l : forall s s', cs_nodup s -> add_loop_groups s l = Ok s' -> cs_nodup s'.
Proof.
  induction l as [|ix l IH]; intros s s' Hn H; simpl in H.
  - inversion H; subst; auto.
  - destruct (ai_frac ix =? 0).
    + destruct (get_at s (ai_group ix)) as [g| |] eqn:E; simpl in H; try discriminate.
      eapply IH; [|eauto]. apply cs_nodup_set_at; auto. simpl. eapply (get_at_forall _ _ _ _ Hn E).
    + destruct (add_fractions s (ai_group ix) (ai_index ix) (ai_frac ix)) as [s1| |] eqn:E; simpl in H; try discriminate.
      eapply IH; [|eauto]. eapply add_fractions_nodup; eauto.
Qed.

Lemma cs_remove_nodup s ra s' : cs_nodup s -> cs_remove s ra = Ok s' -> cs_nodup s'.
Proof.
  unfold cs_remove. intros Hn H. destruct s as [|g [|g2 s2]]; try (eapply remove_loop_nodup; eauto; fail).
  destruct (split (ra_amount ra)) as [units fr]. destruct (c_units g <? units); try discriminate.
  assert (Hn1 : cs_nodup [mkCgroup (c_units g - units) (c_fr g)]) by (inversion Hn; subst; constructor; auto).
  destruct (0 <? fr); [|inversion H; subst; auto].
  destruct (ra_indices ra).
  - eapply remove_fractions_nodup; eauto.
  - eapply (fr_loop_single_nodup remove_fractions remove_fractions_nodup); eauto.
Qed.

Lemma cs_add_nodup s ra s' : cs_nodup s -> cs_add s ra = Ok s' -> cs_nodup s'.
Proof.
  unfold cs_add. intros Hn H. destruct s as [|g [|g2 s2]]; try (eapply add_loop_nodup; eauto; fail).
  destruct (split (ra_amount ra)) as [units fr].
  assert (Hn1 : cs_nodup [mkCgroup (c_units g + units) (c_fr g)]) by (inversion Hn; subst; constructor; auto).
  destruct (0 <? fr); [|inversion H; subst; auto].
  destruct (ra_indices ra).
  - eapply add_fractions_nodup; eauto.
  - eapply (fr_loop_single_nodup add_fractions add_fractions_nodup); eauto.
Qed.

Lemma cf_apply_nodup f (Hf : forall s ra s', cs_nodup s -> f s ra = Ok s' -> cs_nodup s') al :
  forall free free', free_nodup free -> cf_apply f free al = Ok free' -> free_nodup free'.
Proof.
  induction al as [|ra al IH]; intros free free' Hn H; simpl in H.
  - inversion H; subst; auto.
  - destruct (get_at free (ra_res ra)) as [s| |] eqn:E; simpl in H; try discriminate.
    destruct (f s ra) as [s1| |] eqn:E1; simpl in H; try discriminate.
    eapply IH; [|eauto]. apply Forall_set_at; auto. eapply Hf; eauto. eapply (get_at_forall _ _ _ _ Hn E).
Qed.

Lemma step_nodup s o s' out : free_nodup (a_free (s_alloc s)) -> step s o = Ok (s', out) -> free_nodup (a_free (s_alloc s')).
Proof.
  intros Hn Hs. destruct o as [rq w|k|rq w]; simpl in Hs.
  - unfold try_allocate in Hs.
    destruct (has_resources (s_alloc s) rq w) as [[ok yard]| |]; simpl in Hs; try discriminate.
    destruct ok; simpl in Hs.
    + destruct (claim_resources _ rq w) as [[pools al]| |]; simpl in Hs; try discriminate.
      destruct (cf_remove (a_free (s_alloc s)) al) as [free'| |] eqn:Ef; simpl in Hs; try discriminate.
      inversion Hs; subst; simpl. eapply (cf_apply_nodup cs_remove cs_remove_nodup); eauto.
    + inversion Hs; subst; simpl. auto.
  - destruct (k <? len (s_live s)); try discriminate.
    destruct (nth_error (s_live s) (nat_of k)) as [al|]; try discriminate.
    unfold release_allocation in Hs.
    destruct (cf_add (a_free (s_alloc s)) al) as [free1| |] eqn:Ea; simpl in Hs; try discriminate.
    destruct (release_helper (a_pools (s_alloc s)) al); simpl in Hs; try discriminate.
    inversion Hs; subst; simpl. eapply (cf_apply_nodup cs_add cs_add_nodup); eauto.
  - unfold is_enabled in Hs.
    destruct (has_resources (s_alloc s) rq w) as [[ok yard]| |]; simpl in Hs; try discriminate.
    inversion Hs; subst; simpl. auto.
Qed.

Lemma concise_state_nodup p : fresh p -> cs_nodup (concise_state p).
Proof.
  destruct p; simpl; intros Hf.
  - constructor.
  - inversion Hf as [|? ? [Hfr _] _]; subst. constructor; [simpl; rewrite Hfr; constructor | constructor].
  - induction Hf as [|g gs [Hfr _] _ IH]; simpl; constructor; auto. simpl. rewrite Hfr. constructor.
  - constructor; [|constructor]. simpl. destruct (0 <? free mod FPU); simpl; [constructor; [intros []|constructor] | constructor].
Qed.

Lemma reachable_nodup d s0 ops s : init d = Ok s0 -> run s0 ops = Ok s -> free_nodup (a_free (s_alloc s)).
Proof.
  intros Hi Hr.
  assert (H0 : free_nodup (a_free (s_alloc s0))).
  { unfold init, allocator_new in Hi.
    destruct (existsb _ (d_items d)); simpl in Hi; try discriminate.
    destruct (max_rid (d_items d)); simpl in Hi; try discriminate.
    destruct (fill_pools _ (d_items d)) as [pools| |] eqn:Ef; simpl in Hi; try discriminate.
    destruct (new_weights (d_items d) (d_coupling d)); simpl in Hi; try discriminate.
    inversion Hi; subst; simpl.
    assert (Hfr : Forall fresh pools).
    { eapply fill_pools_fresh; [|eauto]. apply Forall_forall. intros x Hx.
      change (PEmpty :: repeat PEmpty (nat_of n)) with (repeat PEmpty (S (nat_of n))) in Hx. apply repeat_spec in Hx. subst. simpl. constructor. }
    unfold free_nodup. apply Forall_map. eapply Forall_impl; [|exact Hfr]. apply concise_state_nodup. }
  clear Hi. revert s0 s H0 Hr. induction ops as [|o ops IH]; intros s0 s H0 Hr; simpl in Hr.
  - inversion Hr; subst; auto.
  - destruct (step s0 o) as [[s1 out]| |] eqn:Es; simpl in Hr; try discriminate.
    eapply IH; [|eauto]. eapply step_nodup; eauto.
Qed.

(* ---------- maxima of fraction maps ---------- *)
Lemma in_keys_fget m k v : NoDup (keys m) -> In (k, v) m -> fget m k = Some v.
Proof.
  induction m as [|[k' v'] m IH]; simpl; intros Hn Hin; [tauto|].
  inversion Hn as [|? ? Hni Hn']; subst. destruct Hin as [E|Hin].
  - inversion E; subst. rewrite N.eqb_refl. auto.
  - destruct (N.eqb_spec k' k).
    + subst. exfalso. apply Hni. change k with (fst (k, v)). apply in_map. auto.
    + auto.
Qed.

Lemma fmax_le m B : (forall k v, In (k, v) m -> v <= B) -> fmax m <= B.
Proof.
  induction m as [|[k v] m IH]; simpl; intros H; [lia|].
  assert (v <= B) by (apply (H k); auto). assert (fmax m <= B) by (apply IH; intros; eapply H; eauto). lia.
Qed.

Lemma fmax_ext a b : NoDup (keys a) -> NoDup (keys b) -> (forall i, fget0 a i = fget0 b i) -> fmax a = fmax b.
Proof.
  assert (Hle : forall a b, NoDup (keys a) -> (forall i, fget0 a i = fget0 b i) -> fmax a <= fmax b).
  { intros x y Hn He. apply fmax_le. intros k v Hin. pose proof (in_keys_fget _ _ _ Hn Hin) as Hg.
    specialize (He k). unfold fget0 in He. rewrite Hg in He.
    destruct (fget y k) eqn:E; [subst; eapply fmax_ge; eauto | lia]. }
  intros Ha Hb He. apply N.le_antisymm; [apply Hle; auto | apply Hle; auto; intros; symmetry; auto].
Qed.

Lemma fmax_single m : NoDup (keys m) -> (forall i, i <> 0 -> fget0 m i = 0) -> fmax m = fget0 m 0.
Proof.
  intros Hn Ho. apply N.le_antisymm.
  - apply fmax_le. intros k v Hin. pose proof (in_keys_fget _ _ _ Hn Hin) as Hg.
    destruct (N.eq_dec k 0); [subst; unfold fget0; rewrite Hg; lia|].
    specialize (Ho k n). unfold fget0 in Ho. rewrite Hg in Ho. lia.
  - unfold fget0. destruct (fget m 0) eqn:E; [eapply fmax_ge; eauto | lia].
Qed.

(* ---------- sums / maxima over the full mask ---------- *)
Lemma mask_sum_seq pre per coef :
  mask_sum (pre ++ per) (seqN (len pre) (length per)) coef = sumN (map coef per).
Proof.
  revert pre; induction per as [|uf per IH]; intros pre; [reflexivity|].
  cbn [length seqN map]. rewrite mask_sum_cons. replace (nat_of (len pre)) with (length pre) by (unfold nat_of, len; lia).
  rewrite nth_error_app2 by lia. rewrite Nat.sub_diag. cbn [nth_error]. rewrite sumN_cons. f_equal.
  specialize (IH (pre ++ [uf])). rewrite <- app_assoc in IH. simpl in IH.
  rewrite len_app in IH. replace (len pre + len [uf]) with (len pre + 1) in IH by (unfold len; simpl; lia). auto.
Qed.

Lemma mask_sum_full per coef : mask_sum per (full_mask per) coef = sumN (map coef per).
Proof. apply (mask_sum_seq [] per coef). Qed.

Lemma existsb_seq (pre per : list (N * N)) (P : N * N -> bool) :
  existsb (fun gi => match nth_error (pre ++ per) (nat_of gi) with Some uf => P uf | None => false end) (seqN (len pre) (length per))
  = existsb P per.
Proof.
  revert pre; induction per as [|uf per IH]; intros pre; [reflexivity|].
  cbn [length seqN existsb]. replace (nat_of (len pre)) with (length pre) by (unfold nat_of, len; lia).
  rewrite nth_error_app2 by lia. rewrite Nat.sub_diag. cbn [nth_error]. f_equal.
  specialize (IH (pre ++ [uf])). rewrite <- app_assoc in IH. simpl in IH.
  rewrite len_app in IH. replace (len pre + len [uf]) with (len pre + 1) in IH by (unfold len; simpl; lia). auto.
Qed.

Definition maxsnd (per : list (N * N)) : N := fold_right (fun uf n => N.max (snd uf) n) 0 per.

Lemma existsb_maxsnd per f : 0 < f -> existsb (fun uf => f <=? snd uf) per = (f <=? maxsnd per).
Proof.
  intros Hf. induction per as [|uf per IH]; simpl.
  - destruct (N.leb_spec f 0); auto; lia.
  - rewrite IH. destruct (N.leb_spec f (snd uf)), (N.leb_spec f (maxsnd per)), (N.leb_spec f (N.max (snd uf) (maxsnd per))); simpl; auto; lia.
Qed.

(** sufficiency of ALL groups together, in closed form *)
Lemma sufficient_full per u f :
  sufficient per u f (full_mask per) =
  (u <=? sumN (map fst per)) && ((f =? 0) || (u + 1 <=? sumN (map fst per)) || (f <=? maxsnd per)).
Proof.
  unfold sufficient. rewrite mask_sum_full.
  pose proof (existsb_seq [] per (fun uf => f <=? snd uf)) as E. cbn [app] in E.
  change (len (@nil (N * N))) with 0 in E. unfold full_mask. rewrite E.
  destruct (N.eqb_spec f 0); simpl; auto.
  rewrite existsb_maxsnd by lia. auto.
Qed.
