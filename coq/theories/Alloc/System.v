(** The invariant over all alloc / release / is_enabled sequences (C04). *)
From Coq Require Import Permutation.
From HQ Require Import Base.Prelude Gen.Consts Alloc.Model Alloc.Spec Alloc.Lemmas Alloc.Group Alloc.Pool Alloc.Inv.
Require Import ZifyBool ZifyN ZifyNat.
Open Scope N_scope.
Arguments N.add : simpl never.
Arguments N.sub : simpl never.
Arguments N.mul : simpl never.
Arguments N.eqb : simpl never.
Arguments N.ltb : simpl never.
Arguments N.leb : simpl never.
Arguments N.of_nat : simpl never.
Arguments N.to_nat : simpl never.
Arguments sumN : simpl never.

Lemma GsI_perm us gs H H' : Permutation H H' -> GsI us gs (hsum H) (hfany H) -> GsI us gs (hsum H') (hfany H').
Proof. intros P. apply GsI_ext; intros; [apply hsum_perm | apply hfany_perm]; auto. Qed.

Lemma PoolCore_perm p0 p H H' taken : Permutation H H' -> PoolCore p0 p H taken -> PoolCore p0 p H' taken.
Proof.
  intros P (A & B & C). split; auto. split; auto. destruct p.
  - destruct C as [C1 C2]. split; [eapply GsI_perm; eauto | eapply Permutation_Forall; eauto].
  - destruct C as [C1 C2]. split; [eapply GsI_perm; eauto | eapply Permutation_Forall; eauto].
  - destruct C as [C1 C2]. split; [eapply GsI_perm; eauto | eapply Permutation_Forall; eauto].
  - destruct C as [C1 C2]. subst. apply Permutation_nil in P. subst. auto.
Qed.

(** the pools at every resource id satisfy the core invariant for holdings [Hf r] / taken [Tf r] *)
Definition PoolsCore (pools0 pools : list pool) (Hf : N -> list aidx) (Tf : N -> N) : Prop :=
  length pools = length pools0
  /\ forall r p0 p, r < len pools0 -> nth_error pools0 (nat_of r) = Some p0 -> nth_error pools (nat_of r) = Some p ->
                    PoolCore p0 p (Hf r) (Tf r).

Lemma PoolsCore_ext pools0 pools Hf Tf Hf' Tf' :
  (forall r, Permutation (Hf r) (Hf' r)) -> (forall r, Tf r = Tf' r) ->
  PoolsCore pools0 pools Hf Tf -> PoolsCore pools0 pools Hf' Tf'.
Proof.
  intros E1 E2 [L H]. split; auto. intros r p0 p Hr H0 H1. rewrite <- E2. eapply PoolCore_perm; eauto.
Qed.

Definition one_ra (ra : ralloc) (r : N) : list aidx := if ra_res ra =? r then ra_indices ra else [].
Definition one_sum (p : pool) (ra : ralloc) (r : N) : N := if ra_res ra =? r then (if pool_is_sum p then ra_amount ra else 0) else 0.

(** a validated claim on the pool of resource [rid] *)
Lemma PoolsCore_claim pools0 pools Hf Tf rid p p' rq ra :
  PoolsCore pools0 pools Hf Tf -> get_at pools rid = Ok p -> claim_ok p p' rid rq ra = true ->
  PoolsCore pools0 (set_at pools rid p') (fun r => Hf r ++ one_ra ra r) (fun r => Tf r + one_sum p ra r).
Proof.
  intros [L H] Hg Hok. pose proof (claim_ok_inv _ _ _ _ _ Hok) as (Hres & _).
  apply get_at_ok in Hg. destruct Hg as [Hlt Hnth].
  split; [rewrite set_at_length; auto|].
  intros r p0 q Hr H0 H1. rewrite nth_error_set_at in H1.
  destruct (N.ltb_spec rid (len pools)); [|lia]. simpl in H1. unfold one_ra, one_sum. rewrite Hres.
  destruct (Nat.eqb_spec (nat_of rid) (nat_of r)) as [E|E].
  - apply nat_of_inj in E. subst r. inversion H1; subst q. rewrite N.eqb_refl.
    eapply claim_PoolCore; eauto.
  - destruct (N.eqb_spec rid r); [subst; congruence|]. rewrite app_nil_r, N.add_0_r. eauto.
Qed.

Lemma flat_al_app a b r : flat_al (a ++ b) r = flat_al a r ++ flat_al b r.
Proof. unfold flat_al. apply flat_map_app'. Qed.
Lemma flat_al_one ra r : flat_al [ra] r = one_ra ra r.
Proof. unfold flat_al, one_ra. simpl. rewrite app_nil_r. auto. Qed.
Lemma alloc_sum_app a b r : alloc_sum_amount (a ++ b) r = alloc_sum_amount a r + alloc_sum_amount b r.
Proof. unfold alloc_sum_amount. rewrite map_app, sumN_app. auto. Qed.

(** bookkeeping of what the allocation under construction takes from sum pools *)
Definition sum_taken (pools0 : list pool) (al : allocation) (r : N) : N :=
  match nth_error pools0 (nat_of r) with
  | Some p0 => if pool_is_sum p0 then alloc_sum_amount al r else 0
  | None => 0
  end.

Lemma same_kind_sum p0 p : same_kind p0 p = true -> pool_is_sum p = pool_is_sum p0.
Proof. destruct p0, p; simpl; auto; discriminate. Qed.

Lemma one_sum_taken pools0 pools Hf Tf rid p ra r :
  PoolsCore pools0 pools Hf Tf -> get_at pools rid = Ok p -> ra_res ra = rid -> r < len pools0 ->
  one_sum p ra r = sum_taken pools0 [ra] r.
Proof.
  intros [L H] Hg Hres Hr. apply get_at_ok in Hg. destruct Hg as [Hlt Hnth].
  unfold one_sum, sum_taken, alloc_sum_amount. cbn [map]. rewrite sumN_cons, sumN_nil, Hres.
  destruct (N.eqb_spec rid r).
  - subst r. destruct (nth_error pools0 (nat_of rid)) as [p0|] eqn:E0.
    + destruct (H rid p0 p Hr E0 Hnth) as (K & _). rewrite (same_kind_sum _ _ K). destruct (pool_is_sum p0); lia.
    + apply nth_error_None in E0. unfold len, nat_of in *. lia.
  - destruct (nth_error pools0 (nat_of r)); auto. destruct (pool_is_sum p0); auto.
Qed.

Lemma sum_taken_app pools0 a b r : sum_taken pools0 (a ++ b) r = sum_taken pools0 a r + sum_taken pools0 b r.
Proof.
  unfold sum_taken. destruct (nth_error pools0 (nat_of r)); auto. destruct (pool_is_sum p); auto. apply alloc_sum_app.
Qed.

Section Claims.
  Variable pools0 : list pool.
  Variables (Hl : N -> list aidx) (Tl : N -> N).   (* holdings of the live allocations *)

  Definition Acc (pools : list pool) (acc : allocation) : Prop :=
    PoolsCore pools0 pools (fun r => Hl r ++ flat_al acc r) (fun r => Tl r + sum_taken pools0 acc r)
    /\ Forall (fun ra => ra_res ra < len pools0) acc.

  Lemma Acc_step pools acc rid p p' rq ra :
    Acc pools acc -> get_at pools rid = Ok p -> claim_ok p p' rid rq ra = true ->
    Acc (set_at pools rid p') (acc ++ [ra]).
  Proof.
    intros [HA HB] Hg Hok. pose proof (claim_ok_inv _ _ _ _ _ Hok) as (Hres & _).
    pose proof Hg as Hg'. apply get_at_ok in Hg'. destruct Hg' as [Hlt _].
    assert (Hlen : len pools = len pools0) by (destruct HA as [L _]; unfold len; rewrite L; auto).
    split.
    - pose proof (PoolsCore_claim _ _ _ _ _ _ _ _ _ HA Hg Hok) as X.
      destruct X as [L X]. split; auto. intros r p0 q Hr H0 H1.
      specialize (X r p0 q Hr H0 H1). cbv beta in X.
      rewrite flat_al_app, flat_al_one, sum_taken_app, app_assoc.
      rewrite <- (one_sum_taken pools0 pools _ _ rid p ra r HA Hg Hres Hr).
      replace (Tl r + (sum_taken pools0 acc r + one_sum p ra r)) with (Tl r + sum_taken pools0 acc r + one_sum p ra r) by lia.
      auto.
    - apply Forall_app. split; auto. constructor; auto. rewrite Hres. lia.
  Qed.

  Lemma claim_direct_Acc entries : forall pools w acc coupling pools' acc' coupling',
    Acc pools acc -> claim_direct pools entries w acc coupling = Ok (pools', acc', coupling') -> Acc pools' acc'.
  Proof.
    induction entries as [|e rest IH]; intros pools w acc coupling pools' acc' coupling' HA Hc; simpl in Hc.
    - inversion Hc; subst; auto.
    - destruct (get_at pools (e_res e)) as [p| |] eqn:Eg; simpl in Hc; try discriminate.
      destruct (is_groups p && is_relevant_for_coupling (e_req e)).
      + eapply IH; eauto.
      + unfold checked in Hc. destruct (pool_claim p (e_res e) (e_req e) (frac_wit w (e_res e))) as [[p' ra]| |]; simpl in Hc; try discriminate.
        destruct (claim_ok p p' (e_res e) (e_req e) ra) eqn:Eok; try discriminate.
        eapply IH; [|eauto]. eapply Acc_step; eauto.
  Qed.

  Lemma claim_coupled_Acc coupling : forall pools masks w acc pools' acc',
    Acc pools acc -> claim_coupled pools coupling masks w acc = Ok (pools', acc') -> Acc pools' acc'.
  Proof.
    induction coupling as [|e rest IH]; intros pools masks w acc pools' acc' HA Hc; simpl in Hc.
    - inversion Hc; subst; auto.
    - destruct masks as [|m masks]; [inversion Hc; subst; auto|].
      destruct (get_at pools (e_res e)) as [p| |] eqn:Eg; simpl in Hc; try discriminate.
      unfold checked in Hc. destruct (claim_with_group_mask p (e_res e) (e_req e) m (frac_wit w (e_res e))) as [[p' ra]| |]; simpl in Hc; try discriminate.
      destruct (claim_ok p p' (e_res e) (e_req e) ra) eqn:Eok; try discriminate.
      eapply IH; [|eauto]. eapply Acc_step; eauto.
  Qed.

  Lemma Acc_perm pools acc acc' : Permutation acc acc' -> Acc pools acc -> Acc pools acc'.
  Proof.
    intros P [HA HB]. split; [|eapply Permutation_Forall; eauto].
    eapply PoolsCore_ext; [| |exact HA]; intros r; cbv beta.
    - apply Permutation_app_head. unfold flat_al. apply Permutation_flat_map. auto.
    - f_equal. unfold sum_taken. destruct (nth_error pools0 (nat_of r)); auto. destruct (pool_is_sum p); auto.
      unfold alloc_sum_amount. apply sumN_map_perm; auto.
  Qed.
End Claims.
