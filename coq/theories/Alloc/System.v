(** The invariant over all alloc / release / is_enabled sequences (C04). *)
From Coq Require Import Permutation.
From HQ Require Import Base.Prelude Gen.Consts Alloc.Model Alloc.Spec Alloc.Lemmas Alloc.Group Alloc.Pool Alloc.Inv.
Require Import ZifyBool ZifyN ZifyNat.
Open Scope N_scope.
Arguments N.add : simpl never.
Arguments N.sub : simpl never.
Arguments N.mul : simpl never.
Arguments N.eqb : simpl never.
Arguments N.ltb : simpl never.
Arguments N.leb : simpl never.
Arguments N.of_nat : simpl never.
Arguments N.to_nat : simpl never.
Arguments sumN : simpl never.

Lemma GsI_perm us gs H H' : Permutation H H' -> GsI us gs (hsum H) (hfany H) -> GsI us gs (hsum H') (hfany H').
Proof. intros P. apply GsI_ext; intros; [apply hsum_perm | apply hfany_perm]; auto. Qed.

Lemma PoolCore_perm p0 p H H' taken : Permutation H H' -> PoolCore p0 p H taken -> PoolCore p0 p H' taken.
Proof.
  intros P (A & B & C). split; auto. split; auto. destruct p.
  - destruct C as [C1 C2]. split; [eapply GsI_perm; eauto | eapply Permutation_Forall; eauto].
  - destruct C as [C1 C2]. split; [eapply GsI_perm; eauto | eapply Permutation_Forall; eauto].
  - destruct C as [C1 C2]. split; [eapply GsI_perm; eauto | eapply Permutation_Forall; eauto].
  - destruct C as [C1 C2]. subst. apply Permutation_nil in P. subst. auto.
Qed.

(** the pools at every resource id satisfy the core invariant for holdings [Hf r] / taken [Tf r] *)
Definition PoolsCore (pools0 pools : list pool) (Hf : N -> list aidx) (Tf : N -> N) : Prop :=
  length pools = length pools0
  /\ forall r p0 p, r < len pools0 -> nth_error pools0 (nat_of r) = Some p0 -> nth_error pools (nat_of r) = Some p ->
                    PoolCore p0 p (Hf r) (Tf r).

Lemma PoolsCore_ext pools0 pools Hf Tf Hf' Tf' :
  (forall r, Permutation (Hf r) (Hf' r)) -> (forall r, Tf r = Tf' r) ->
  PoolsCore pools0 pools Hf Tf -> PoolsCore pools0 pools Hf' Tf'.
Proof.
  intros E1 E2 [L H]. split; auto. intros r p0 p Hr H0 H1. rewrite <- E2. eapply PoolCore_perm; eauto.
Qed.

Definition one_ra (ra : ralloc) (r : N) : list aidx := if ra_res ra =? r then ra_indices ra else [].
Definition one_sum (p : pool) (ra : ralloc) (r : N) : N := if ra_res ra =? r then (if pool_is_sum p then ra_amount ra else 0) else 0.

(** a validated claim on the pool of resource [rid] *)
Lemma PoolsCore_claim pools0 pools Hf Tf rid p p' rq ra :
  PoolsCore pools0 pools Hf Tf -> get_at pools rid = Ok p -> claim_ok p p' rid rq ra = true ->
  PoolsCore pools0 (set_at pools rid p') (fun r => Hf r ++ one_ra ra r) (fun r => Tf r + one_sum p ra r).
Proof.
  intros [L H] Hg Hok. pose proof (claim_ok_inv _ _ _ _ _ Hok) as (Hres & _).
  apply get_at_ok in Hg. destruct Hg as [Hlt Hnth].
  split; [rewrite set_at_length; auto|].
  intros r p0 q Hr H0 H1. rewrite nth_error_set_at in H1.
  destruct (N.ltb_spec rid (len pools)); [|lia]. simpl in H1. unfold one_ra, one_sum. rewrite Hres.
  destruct (Nat.eqb_spec (nat_of rid) (nat_of r)) as [E|E].
  - apply nat_of_inj in E. subst r. inversion H1; subst q. rewrite N.eqb_refl.
    eapply claim_PoolCore; eauto.
  - destruct (N.eqb_spec rid r); [subst; congruence|]. rewrite app_nil_r, N.add_0_r. eauto.
Qed.

Lemma flat_al_app a b r : flat_al (a ++ b) r = flat_al a r ++ flat_al b r.
Proof. unfold flat_al. apply flat_map_app'. Qed.
Lemma flat_al_one ra r : flat_al [ra] r = one_ra ra r.
Proof. unfold flat_al, one_ra. simpl. rewrite app_nil_r. auto. Qed.
Lemma alloc_sum_app a b r : alloc_sum_amount (a ++ b) r = alloc_sum_amount a r + alloc_sum_amount b r.
Proof. unfold alloc_sum_amount. rewrite map_app, sumN_app. auto. Qed.

(** bookkeeping of what the allocation under construction takes from sum pools *)
Definition sum_taken (pools0 : list pool) (al : allocation) (r : N) : N :=
  match nth_error pools0 (nat_of r) with
  | Some p0 => if pool_is_sum p0 then alloc_sum_amount al r else 0
  | None => 0
  end.

Lemma same_kind_sum p0 p : same_kind p0 p = true -> pool_is_sum p = pool_is_sum p0.
Proof. destruct p0, p; simpl; auto; discriminate. Qed.

Lemma one_sum_taken pools0 pools Hf Tf rid p ra r :
  PoolsCore pools0 pools Hf Tf -> get_at pools rid = Ok p -> ra_res ra = rid -> r < len pools0 ->
  one_sum p ra r = sum_taken pools0 [ra] r.
Proof.
  intros [L H] Hg Hres Hr. apply get_at_ok in Hg. destruct Hg as [Hlt Hnth].
  unfold one_sum, sum_taken, alloc_sum_amount. cbn [map]. rewrite sumN_cons, sumN_nil, Hres.
  destruct (N.eqb_spec rid r).
  - subst r. destruct (nth_error pools0 (nat_of rid)) as [p0|] eqn:E0.
    + destruct (H rid p0 p Hr E0 Hnth) as (K & _). rewrite (same_kind_sum _ _ K). destruct (pool_is_sum p0); lia.
    + apply nth_error_None in E0. unfold len, nat_of in *. lia.
  - destruct (nth_error pools0 (nat_of r)); auto. destruct (pool_is_sum p0); auto.
Qed.

Lemma sum_taken_app pools0 a b r : sum_taken pools0 (a ++ b) r = sum_taken pools0 a r + sum_taken pools0 b r.
Proof.
  unfold sum_taken. destruct (nth_error pools0 (nat_of r)); auto. destruct (pool_is_sum p); auto. apply alloc_sum_app.
Qed.

Section Claims.
  Variable pools0 : list pool.
  Variables (Hl : N -> list aidx) (Tl : N -> N).   (* holdings of the live allocations *)

  Definition Acc (pools : list pool) (acc : allocation) : Prop :=
    PoolsCore pools0 pools (fun r => Hl r ++ flat_al acc r) (fun r => Tl r + sum_taken pools0 acc r)
    /\ Forall (fun ra => ra_res ra < len pools0) acc.

  Lemma Acc_step pools acc rid p p' rq ra :
    Acc pools acc -> get_at pools rid = Ok p -> claim_ok p p' rid rq ra = true ->
    Acc (set_at pools rid p') (acc ++ [ra]).
  Proof.
    intros [HA HB] Hg Hok. pose proof (claim_ok_inv _ _ _ _ _ Hok) as (Hres & _).
    pose proof Hg as Hg'. apply get_at_ok in Hg'. destruct Hg' as [Hlt _].
    assert (Hlen : len pools = len pools0) by (destruct HA as [L _]; unfold len; rewrite L; auto).
    split.
    - pose proof (PoolsCore_claim _ _ _ _ _ _ _ _ _ HA Hg Hok) as X.
      destruct X as [L X]. split; auto. intros r p0 q Hr H0 H1.
      specialize (X r p0 q Hr H0 H1). cbv beta in X.
      rewrite flat_al_app, flat_al_one, sum_taken_app, app_assoc.
      rewrite <- (one_sum_taken pools0 pools _ _ rid p ra r HA Hg Hres Hr).
      replace (Tl r + (sum_taken pools0 acc r + one_sum p ra r)) with (Tl r + sum_taken pools0 acc r + one_sum p ra r) by lia.
      auto.
    - apply Forall_app. split; auto. constructor; auto. rewrite Hres. lia.
  Qed.

  Lemma claim_direct_Acc entries : forall pools w acc coupling pools' acc' coupling',
    Acc pools acc -> claim_direct pools entries w acc coupling = Ok (pools', acc', coupling') -> Acc pools' acc'.
  Proof.
    induction entries as [|e rest IH]; intros pools w acc coupling pools' acc' coupling' HA Hc; simpl in Hc.
    - inversion Hc; subst; auto.
    - destruct (get_at pools (e_res e)) as [p| |] eqn:Eg; simpl in Hc; try discriminate.
      destruct (is_groups p && is_relevant_for_coupling (e_req e)).
      + eapply IH; eauto.
      + unfold checked in Hc. destruct (pool_claim p (e_res e) (e_req e) (frac_wit w (e_res e))) as [[p' ra]| |]; simpl in Hc; try discriminate.
        destruct (claim_ok p p' (e_res e) (e_req e) ra) eqn:Eok; try discriminate.
        eapply IH; [|eauto]. eapply Acc_step; eauto.
  Qed.

  Lemma claim_coupled_Acc coupling : forall pools masks w acc pools' acc',
    Acc pools acc -> claim_coupled pools coupling masks w acc = Ok (pools', acc') -> Acc pools' acc'.
  Proof.
    induction coupling as [|e rest IH]; intros pools masks w acc pools' acc' HA Hc; simpl in Hc.
    - inversion Hc; subst; auto.
    - destruct masks as [|m masks]; [inversion Hc; subst; auto|].
      destruct (get_at pools (e_res e)) as [p| |] eqn:Eg; simpl in Hc; try discriminate.
      unfold checked in Hc. destruct (claim_with_group_mask p (e_res e) (e_req e) m (frac_wit w (e_res e))) as [[p' ra]| |]; simpl in Hc; try discriminate.
      destruct (claim_ok p p' (e_res e) (e_req e) ra) eqn:Eok; try discriminate.
      eapply IH; [|eauto]. eapply Acc_step; eauto.
  Qed.

  Lemma Acc_perm pools acc acc' : Permutation acc acc' -> Acc pools acc -> Acc pools acc'.
  Proof.
    intros P [HA HB]. split; [|eapply Permutation_Forall; eauto].
    eapply PoolsCore_ext; [| |exact HA]; intros r; cbv beta.
    - apply Permutation_app_head. unfold flat_al. apply Permutation_flat_map. auto.
    - f_equal. unfold sum_taken. destruct (nth_error pools0 (nat_of r)); auto. destruct (pool_is_sum p); auto.
      unfold alloc_sum_amount. apply sumN_map_perm; auto.
  Qed.
End Claims.

(* ---------- release ---------- *)
Lemma release_single_groups l : forall g,
  Forall (fun ix => ai_group ix = 0) l ->
  release_indices_groups [g] l = match release_indices_single g l with Ok g' => Ok [g'] | Panic s => Panic s | Disabled => Disabled end.
Proof.
  induction l as [|ix l IH]; intros g Hf; [reflexivity|].
  inversion Hf as [|? ? Hg Hf']; subst. cbn [release_indices_groups release_indices_single].
  rewrite Hg, get_at_single, N.eqb_refl. cbn [negb bind].
  destruct (release_index g ix); cbn [bind]; auto.
  change (set_at [g] 0 a) with [a]. apply IH; auto.
Qed.

Lemma release_PoolCore p0 p H' taken ra p' :
  PoolCore p0 p (H' ++ ra_indices ra) (taken + (if pool_is_sum p then ra_amount ra else 0)) ->
  pool_release p ra = Ok p' -> PoolCore p0 p' H' taken.
Proof.
  intros (K & F & C) Hr. destruct p as [|f g|f gs|f free]; simpl in Hr; try discriminate.
  - destruct C as [HG Hb]. apply Forall_app in Hb. destruct Hb as [Hb1 Hb2]. simpl pool_groups in *.
    assert (HG' : GsI (pool_us p0) [g] (hsum (H' ++ rev (ra_indices ra))) (hfany (H' ++ rev (ra_indices ra)))).
    { eapply GsI_perm; [|eauto]. apply Permutation_app_head. apply Permutation_rev. }
    destruct (release_list _ _ _ _ HG') as (gs' & A & B & L).
    { apply Forall_rev. auto. }
    rewrite release_single_groups in A.
    2:{ apply Forall_rev. rewrite Forall_forall in *. intros ix Hin. destruct (Hb2 ix Hin) as [_ X]. unfold len in X; simpl in X. lia. }
    destruct (release_indices_single g (rev (ra_indices ra))) as [g'| |]; simpl in Hr; try discriminate.
    inversion Hr; subst p'. inversion A; subst gs'. split; [auto|]. split; [auto|]. simpl. split; [auto|].
    rewrite Forall_forall in *; intros ix Hin; destruct (Hb1 ix Hin); unfold len in *; simpl in *; auto.
  - destruct C as [HG Hb]. apply Forall_app in Hb. destruct Hb as [Hb1 Hb2]. simpl pool_groups in *.
    assert (HG' : GsI (pool_us p0) gs (hsum (H' ++ rev (ra_indices ra))) (hfany (H' ++ rev (ra_indices ra)))).
    { eapply GsI_perm; [|eauto]. apply Permutation_app_head. apply Permutation_rev. }
    destruct (release_list _ _ _ _ HG') as (gs' & A & B & L).
    { apply Forall_rev. auto. }
    rewrite A in Hr. simpl in Hr. inversion Hr; subst p'. split; [auto|]. split; [auto|]. simpl. split; [auto|].
    assert (len gs' = len gs) by (unfold len; rewrite L; auto).
    rewrite Forall_forall in *. intros ix Hin. destruct (Hb1 ix Hin). split; auto. lia.
  - destruct C as [C1 C2]. apply app_eq_nil in C2. destruct C2 as [C2 C3].
    destruct (N.ltb_spec f (free + ra_amount ra)); try discriminate.
    destruct (len (ra_indices ra) =? 0); simpl in Hr; try discriminate. inversion Hr; subst p'.
    split; [auto|]. split; [auto|]. simpl in *. split; [lia|auto].
Qed.

Lemma release_helper_core pools0 al : forall pools Hb Tb pools',
  PoolsCore pools0 pools (fun r => Hb r ++ flat_al al r) (fun r => Tb r + sum_taken pools0 al r) ->
  release_helper pools al = Ok pools' -> PoolsCore pools0 pools' Hb Tb.
Proof.
  induction al as [|ra al IH]; intros pools Hb Tb pools' HP Hr; simpl in Hr.
  - inversion Hr; subst. eapply PoolsCore_ext; [| |exact HP]; intros r; cbv beta.
    + unfold flat_al. simpl. rewrite app_nil_r. auto.
    + unfold sum_taken, alloc_sum_amount. simpl. destruct (nth_error pools0 (nat_of r)); [destruct (pool_is_sum p)|]; rewrite ?sumN_nil; lia.
  - destruct (get_at pools (ra_res ra)) as [p| |] eqn:Eg; simpl in Hr; try discriminate.
    destruct (pool_release p ra) as [p'| |] eqn:Er; simpl in Hr; try discriminate.
    eapply IH; [|eauto].
    pose proof Eg as Eg'. apply get_at_ok in Eg'. destruct Eg' as [Hlt Hnth].
    destruct HP as [L HP]. split; [rewrite set_at_length; auto|].
    intros r p0 q Hr0 H0 H1. rewrite nth_error_set_at in H1.
    destruct (N.ltb_spec (ra_res ra) (len pools)); [|lia]. simpl in H1.
    destruct (Nat.eqb_spec (nat_of (ra_res ra)) (nat_of r)) as [E|E].
    + apply nat_of_inj in E. subst r. inversion H1; subst q.
      specialize (HP _ _ _ Hr0 H0 Hnth). cbv beta in HP.
      eapply release_PoolCore; [|eauto].
      eapply PoolCore_perm with (H := Hb (ra_res ra) ++ flat_al (ra :: al) (ra_res ra)).
      * change (ra :: al) with ([ra] ++ al). rewrite flat_al_app, flat_al_one. unfold one_ra. rewrite N.eqb_refl.
        rewrite <- app_assoc. apply Permutation_app_head. apply Permutation_app_comm.
      * destruct HP as (K & F & C). split; auto. split; auto.
        change (ra :: al) with ([ra] ++ al) in C. rewrite sum_taken_app in C.
        replace (Tb (ra_res ra) + sum_taken pools0 al (ra_res ra) + (if pool_is_sum p then ra_amount ra else 0))
          with (Tb (ra_res ra) + (sum_taken pools0 [ra] (ra_res ra) + sum_taken pools0 al (ra_res ra))); auto.
        unfold sum_taken at 1. rewrite H0. rewrite <- (same_kind_sum _ _ K).
        unfold alloc_sum_amount. cbn [map]. rewrite sumN_cons, sumN_nil, N.eqb_refl. destruct (pool_is_sum p); lia.
    + specialize (HP _ _ _ Hr0 H0 H1). cbv beta in HP.
      change (ra :: al) with ([ra] ++ al) in HP. rewrite flat_al_app, flat_al_one, sum_taken_app in HP.
      unfold one_ra in HP. destruct (N.eqb_spec (ra_res ra) r); [subst; congruence|]. simpl in HP.
      replace (sum_taken pools0 [ra] r) with 0 in HP; [rewrite N.add_0_l in HP; auto|].
      unfold sum_taken, alloc_sum_amount. cbn [map]. rewrite sumN_cons, sumN_nil.
      destruct (nth_error pools0 (nat_of r)); auto. destruct (pool_is_sum p1); auto.
      destruct (N.eqb_spec (ra_res ra) r); [congruence|lia].
Qed.

(* ---------- the system ---------- *)
Definition HL (live : list allocation) (r : N) : list aidx := flat_live live r.
Definition TL (pools0 : list pool) (live : list allocation) (r : N) : N := sumN (map (fun al => sum_taken pools0 al r) live).

Definition CoreInv (pools0 : list pool) (s : sys) : Prop :=
  PoolsCore pools0 (a_pools (s_alloc s)) (HL (s_live s)) (TL pools0 (s_live s)).

Lemma HL_app live al r : HL (live ++ [al]) r = HL live r ++ flat_al al r.
Proof. unfold HL, flat_live. rewrite flat_map_app'. simpl. rewrite app_nil_r. auto. Qed.
Lemma TL_app pools0 live al r : TL pools0 (live ++ [al]) r = TL pools0 live r + sum_taken pools0 al r.
Proof. unfold TL. rewrite map_app, sumN_app. cbn [map]. rewrite sumN_cons, sumN_nil. lia. Qed.

Lemma claim_resources_core pools0 a live rq w pools' al :
  PoolsCore pools0 (a_pools a) (HL live) (TL pools0 live) ->
  claim_resources a rq w = Ok (pools', al) ->
  PoolsCore pools0 pools' (HL (live ++ [al])) (TL pools0 (live ++ [al])).
Proof.
  intros HP Hc. unfold claim_resources in Hc.
  destruct (claim_direct (a_pools a) rq w [] []) as [[[pools acc] coupling]| |] eqn:Ed; simpl in Hc; try discriminate.
  assert (HA0 : Acc pools0 (HL live) (TL pools0 live) (a_pools a) []).
  { split; [|constructor]. eapply PoolsCore_ext; [| |exact HP]; intros r; cbv beta.
    - unfold flat_al. simpl. rewrite app_nil_r. auto.
    - unfold sum_taken, alloc_sum_amount. simpl. destruct (nth_error pools0 (nat_of r)); [destruct (pool_is_sum p)|]; rewrite ?sumN_nil; lia. }
  pose proof (claim_direct_Acc _ _ _ _ _ _ _ _ _ _ _ HA0 Ed) as HA1.
  assert (Fin : forall pools' al, Acc pools0 (HL live) (TL pools0 live) pools' al ->
                                  PoolsCore pools0 pools' (HL (live ++ [al])) (TL pools0 (live ++ [al]))).
  { intros ps x [HX _]. eapply PoolsCore_ext; [| |exact HX]; intros r; cbv beta; rewrite ?HL_app, ?TL_app; auto. }
  destruct coupling as [|e coupling].
  - inversion Hc; subst. auto.
  - destruct (group_solver (a_free a) (e :: coupling) (a_weights a) true (w_mask w)) as [[[masks obj]|]| |]; cbn [bind] in Hc; try discriminate.
    destruct (claim_coupled pools (e :: coupling) masks w acc) as [[pools2 acc2]| |] eqn:Ec; cbn [bind] in Hc; try discriminate.
    inversion Hc; subst. apply Fin. eapply Acc_perm; [apply Permutation_sym, isort_perm|].
    eapply claim_coupled_Acc; eauto.
Qed.

Lemma flat_live_remove live k al r :
  nth_error live k = Some al -> Permutation (flat_live live r) (flat_live (remove_nth live k) r ++ flat_al al r).
Proof.
  revert k; induction live as [|x live IH]; intros [|k] H; simpl in *; try discriminate.
  - inversion H; subst. apply Permutation_app_comm.
  - rewrite <- app_assoc. apply Permutation_app_head. auto.
Qed.

Lemma TL_remove pools0 live k al r :
  nth_error live k = Some al -> TL pools0 live r = TL pools0 (remove_nth live k) r + sum_taken pools0 al r.
Proof.
  unfold TL. revert k; induction live as [|x live IH]; intros [|k] H; simpl in *; try discriminate.
  - inversion H; subst. rewrite sumN_cons. lia.
  - rewrite !sumN_cons. rewrite (IH k H). lia.
Qed.

Lemma step_core pools0 s o s' out : CoreInv pools0 s -> step s o = Ok (s', out) -> CoreInv pools0 s'.
Proof.
  unfold CoreInv. intros HI Hs. destruct o as [rq w|k|rq w]; simpl in Hs.
  - unfold try_allocate in Hs.
    destruct (has_resources (s_alloc s) rq w) as [[ok yard]| |]; simpl in Hs; try discriminate.
    destruct ok; simpl in Hs.
    + destruct (claim_resources _ rq w) as [[pools al]| |] eqn:Ec; simpl in Hs; try discriminate.
      destruct (cf_remove (a_free (s_alloc s)) al); simpl in Hs; try discriminate.
      inversion Hs; subst; simpl. eapply claim_resources_core; [|exact Ec]. simpl. auto.
    + inversion Hs; subst; simpl. auto.
  - destruct (k <? len (s_live s)); try discriminate.
    destruct (nth_error (s_live s) (nat_of k)) as [al|] eqn:En; try discriminate.
    unfold release_allocation in Hs.
    destruct (cf_add (a_free (s_alloc s)) al); simpl in Hs; try discriminate.
    destruct (release_helper (a_pools (s_alloc s)) al) as [pools'| |] eqn:Er; simpl in Hs; try discriminate.
    inversion Hs; subst; simpl. eapply release_helper_core; [|exact Er].
    eapply PoolsCore_ext; [| |exact HI]; intros r; cbv beta.
    + unfold HL. apply flat_live_remove; auto.
    + apply TL_remove; auto.
  - unfold is_enabled in Hs.
    destruct (has_resources (s_alloc s) rq w) as [[ok yard]| |]; simpl in Hs; try discriminate.
    inversion Hs; subst; simpl. auto.
Qed.

Lemma run_core pools0 ops : forall s s', CoreInv pools0 s -> run s ops = Ok s' -> CoreInv pools0 s'.
Proof.
  induction ops as [|o ops IH]; intros s s' HI Hr; simpl in Hr.
  - inversion Hr; subst; auto.
  - destruct (step s o) as [[s1 out]| |] eqn:Es; simpl in Hr; try discriminate.
    eapply IH; [|eauto]. eapply step_core; eauto.
Qed.
