(** C16 group count - the statements proved in Alloc/PolicyGC*.v, collected (only [exact] / short glue);
    candidates for properties/C16.v.  Open item of tools/props/C16.json addressed: C16_strict_grant_group_count_full
    (the Definition in properties/C16.v quantifies over arbitrary (e, ra) and is not meant literally; the theorems
    below are its conditional form for the resource allocations of grants). *)
From HQ Require Import Base.Prelude Gen.Consts Alloc.Model Alloc.Spec Alloc.Lemmas Alloc.MirrorSystem Alloc.GroupsProofs
  Alloc.PolicyAdmission Alloc.PolicyStrict Alloc.PolicyStrictReach Alloc.PolicyStrictYard Alloc.PolicyOptimal
  Alloc.PolicyGCBase Alloc.PolicyGCClaim Alloc.PolicyGCGrant.
Open Scope N_scope.

(* ------------------------------------------------------------------------------------------ *)
(** * independent of the objective (any coupling weights, any accepted answer) *)

(** one claim: the groups claimed are among the groups selected *)
Theorem C16_claimed_subset_selected : forall p rid rq mask wit p' ra,
  claim_with_group_mask p rid rq mask wit = Ok (p', ra) ->
  forall g, In g (used (ra_indices ra)) -> In g mask.
Proof. exact claimed_subset_selected. Qed.

(** every accepted claim on a group pool (scatter included) uses a set of groups that can hold the amount, hence at
    least min_groups of the pool before *)
Theorem C16_accepted_ge_min : forall full gs p' rid pol a ra,
  claim_ok (PGroups full gs) p' rid (Req pol a) ra = true ->
  sufficient (per_of gs) (fst (split a)) (snd (split a)) (used (ra_indices ra)) = true
  /\ exists k, min_groups (per_of gs) (fst (split a)) (snd (split a)) = Some k /\ k <= groups_used ra.
Proof. exact accepted_ge_min. Qed.

(** whole grants: for every coupled entry, claimed within selected and min_groups(before) <= used <= selected *)
Theorem C16_grant_claimed_within_selected : forall s rq w s' al,
  NoDup (map e_res rq) ->
  step s (OAlloc rq w) = Ok (s', OutGrant al) ->
  forall ms, (w_mask w = Some ms \/ (coupled_entries (a_pools (s_alloc s)) rq = [] /\ ms = [])) ->
  Forall (fun ra => exists e, In e rq /\ e_res e = ra_res ra
                              /\ within_selected (a_pools (s_alloc s)) (coupled_entries (a_pools (s_alloc s)) rq) ms e ra) al.
Proof. exact grant_claimed_within_selected. Qed.

(* ------------------------------------------------------------------------------------------ *)
(** * answers with the minimum number of groups *)

(** one claim: a selection with the minimum number of groups is claimed entirely *)
Theorem C16_claimed_eq_selected : forall full gs rid pol a mask wit p' ra,
  claim_with_group_mask (PGroups full gs) rid (Req pol a) mask wit = Ok (p', ra) ->
  claim_ok (PGroups full gs) p' rid (Req pol a) ra = true ->
  min_groups (per_of gs) (fst (split a)) (snd (split a)) = Some (len mask) ->
  groups_used ra = len mask
  /\ (NoDup mask -> forall g, In g mask <-> In g (used (ra_indices ra))).
Proof. exact claimed_eq_selected. Qed.

(** whole grants, no strict entry (every allocator state, any coupling weights): the monitor group-count *)
Theorem C16_grant_group_count_nonstrict : forall pools0 s rq w s' al,
  NoDup (map e_res rq) -> unforced rq = true ->
  (forall ms, w_mask w = Some ms ->
              minimal_answer (map (ref_row (a_pools (s_alloc s))) (coupled_entries (a_pools (s_alloc s)) rq)) ms) ->
  step s (OAlloc rq w) = Ok (s', OutGrant al) ->
  Forall (fun ra => exists e, In e rq /\ e_res e = ra_res ra /\ group_count_ok pools0 (a_pools (s_alloc s)) e ra = true) al.
Proof. exact PolicyGCGrant.C16_grant_group_count_nonstrict. Qed.

(** whole grants with strict entries, worker without coupling weights: the monitor group-count *)
Theorem C16_strict_grant_group_count : forall d s0 ops s rq w s' al,
  init d = Ok s0 -> Forall valid_op ops -> run s0 ops = Ok s ->
  NoDup (map e_res rq) -> d_coupling d = [] ->
  Forall (yard_op_ok (a_pools (s_alloc s0))) ops -> yard_witness_ok (a_pools (s_alloc s0)) rq w ->
  (forall ms, w_adm w = Some ms ->
              minimal_answer (map (ref_row (a_pools (s_alloc s))) (coupled_entries (a_pools (s_alloc s)) rq)) ms) ->
  (forall ms, w_mask w = Some ms ->
              minimal_answer (map (ref_row (a_pools (s_alloc s))) (coupled_entries (a_pools (s_alloc s)) rq)) ms) ->
  step s (OAlloc rq w) = Ok (s', OutGrant al) ->
  Forall (fun ra => exists e, In e rq /\ e_res e = ra_res ra
                              /\ group_count_ok (a_pools (s_alloc s0)) (a_pools (s_alloc s)) e ra = true) al.
Proof. exact PolicyGCGrant.C16_strict_grant_group_count. Qed.

(** the same with the hypotheses in the terms of the monitor solver-suboptimal: every answer of the solver is optimal
    for the objective without tie-breaking terms ([answer_optimal false], what the driver requires of every answer) *)
Definition yard_op_optimal (pools0 : list pool) (o : op) : Prop :=
  match o with
  | OAlloc rq w | OEnabled rq w =>
      forall ms, w_yard w = Some ms -> answer_optimal false (map concise_state pools0) pools0 [] rq ms = true
  | ORelease _ => True
  end.

Theorem C16_strict_grant_group_count_optimal : forall d s0 ops s rq w s' al,
  init d = Ok s0 -> Forall valid_op ops -> run s0 ops = Ok s ->
  NoDup (map e_res rq) -> d_coupling d = [] ->
  Forall (yard_op_optimal (a_pools (s_alloc s0))) ops -> yard_op_optimal (a_pools (s_alloc s0)) (OAlloc rq w) ->
  (forall ms, w_adm w = Some ms ->
              answer_optimal false (a_free (s_alloc s)) (a_pools (s_alloc s)) (a_weights (s_alloc s)) rq ms = true) ->
  (forall ms, w_mask w = Some ms ->
              answer_optimal false (a_free (s_alloc s)) (a_pools (s_alloc s)) (a_weights (s_alloc s)) rq ms = true) ->
  step s (OAlloc rq w) = Ok (s', OutGrant al) ->
  Forall (fun ra => exists e, In e rq /\ e_res e = ra_res ra
                              /\ group_count_ok (a_pools (s_alloc s0)) (a_pools (s_alloc s)) e ra = true) al.
Proof.
  intros d s0 ops s rq w s' al Hi Hv Hr Hnd Hnc Hyops Hyw Hadm Hmask Hs.
  eapply PolicyGCGrant.C16_strict_grant_group_count; eauto.
  - eapply Forall_impl; [|exact Hyops]. intros o Ho. destruct o as [rq' w'|k|rq' w']; cbn [yard_op_ok yard_op_optimal] in *; auto;
      eapply answer_optimal_yard; eauto.
  - eapply answer_optimal_yard; eauto.
  - intros ms Hms. eapply answer_optimal_now; eauto.
  - intros ms Hms. eapply answer_optimal_now; eauto.
Qed.

Print Assumptions C16_claimed_subset_selected.
Print Assumptions C16_accepted_ge_min.
Print Assumptions C16_grant_claimed_within_selected.
Print Assumptions C16_claimed_eq_selected.
Print Assumptions C16_grant_group_count_nonstrict.
Print Assumptions C16_strict_grant_group_count.
Print Assumptions C16_strict_grant_group_count_optimal.
