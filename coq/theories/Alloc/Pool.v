(** Sequences of elementary steps over the groups of a pool, their effect on the invariant and on
    the concise mirror. *)
From Coq Require Import Permutation.
From HQ Require Import Base.Prelude Gen.Consts Alloc.Model Alloc.Spec Alloc.Lemmas Alloc.Group.
Require Import ZifyBool ZifyN ZifyNat.
Open Scope N_scope.
Arguments N.add : simpl never.
Arguments N.sub : simpl never.
Arguments N.mul : simpl never.
Arguments N.eqb : simpl never.
Arguments N.ltb : simpl never.
Arguments N.leb : simpl never.
Arguments N.of_nat : simpl never.
Arguments N.to_nat : simpl never.
Arguments sumN : simpl never.

Lemma take_all_app gs a b : take_all gs (a ++ b) = match take_all gs a with Some gs1 => take_all gs1 b | None => None end.
Proof.
  revert gs; induction a as [|ix a IH]; intros gs; simpl; auto.
  destruct (get_at gs (ai_group ix)); auto. destruct (take1 a0 ix); auto.
Qed.

Lemma take_all_length gs out gs' : take_all gs out = Some gs' -> length gs' = length gs.
Proof.
  revert gs; induction out as [|ix out IH]; intros gs; simpl.
  - intros H; inversion H; auto.
  - destruct (get_at gs (ai_group ix)); try discriminate. destruct (take1 a ix); try discriminate.
    intros H. apply IH in H. rewrite H. apply set_at_length.
Qed.

(** what a list of AllocationIndex holds of index i of group g *)
Definition hsum (out : list aidx) (g i : N) : N :=
  sumN (map (fun ix => if (ai_group ix =? g) && (ai_index ix =? i) then held_ix ix else 0) out).
Definition hfany (out : list aidx) (g i : N) : bool :=
  existsb (fun ix => (ai_group ix =? g) && (ai_index ix =? i) && negb (ai_frac ix =? 0)) out.

Lemma hsum_nil g i : hsum [] g i = 0.
Proof. reflexivity. Qed.
Lemma hsum_cons ix out g i :
  hsum (ix :: out) g i = (if (ai_group ix =? g) && (ai_index ix =? i) then held_ix ix else 0) + hsum out g i.
Proof. unfold hsum. cbn [map]. rewrite sumN_cons. auto. Qed.
Lemma hsum_app a b g i : hsum (a ++ b) g i = hsum a g i + hsum b g i.
Proof. unfold hsum. rewrite map_app, sumN_app. auto. Qed.
Lemma hsum_perm a b g i : Permutation a b -> hsum a g i = hsum b g i.
Proof. intros H. unfold hsum. apply sumN_map_perm; auto. Qed.
Lemma hfany_cons ix out g i :
  hfany (ix :: out) g i = ((ai_group ix =? g) && (ai_index ix =? i) && negb (ai_frac ix =? 0)) || hfany out g i.
Proof. reflexivity. Qed.
Lemma hfany_app a b g i : hfany (a ++ b) g i = hfany a g i || hfany b g i.
Proof. unfold hfany. apply existsb_app. Qed.
Lemma hfany_perm a b g i : Permutation a b -> hfany a g i = hfany b g i.
Proof.
  intros H. unfold hfany.
  destruct (existsb _ a) eqn:Ea, (existsb _ b) eqn:Eb; auto.
  - apply existsb_exists in Ea. destruct Ea as [x [Hx1 Hx2]].
    assert (existsb (fun ix => (ai_group ix =? g) && (ai_index ix =? i) && negb (ai_frac ix =? 0)) b = true).
    { apply existsb_exists. exists x. split; auto. eapply Permutation_in; eauto. }
    congruence.
  - apply existsb_exists in Eb. destruct Eb as [x [Hx1 Hx2]].
    assert (existsb (fun ix => (ai_group ix =? g) && (ai_index ix =? i) && negb (ai_frac ix =? 0)) a = true).
    { apply existsb_exists. exists x. split; auto. eapply Permutation_in; [apply Permutation_sym; eauto | auto]. }
    congruence.
Qed.

Lemma GI_ext u g h hf h' hf' :
  (forall i, h i = h' i) -> (forall i, hf i = hf' i) -> GI u g h hf -> GI u g h' hf'.
Proof.
  intros E1 E2 (Hwf & Hc & Hout & Hhf). split; [auto|]. split; [|split].
  - intros i Hi. rewrite <- E1. auto.
  - intros i Hi. destruct (Hout i Hi) as (A & B & C). rewrite <- E1. auto.
  - intros i. rewrite <- E2. apply Hhf.
Qed.

Lemma compat_ext h hf h' hf' :
  (forall i, h i = h' i) -> (forall i, hf i = hf' i) -> compat h hf -> compat h' hf'.
Proof. intros E1 E2 Hc i. rewrite <- E1, <- E2. apply Hc. Qed.

(** invariant of the groups of one pool: [us] = the indices each group owns,
    [h g i] / [hf g i] = the holdings of live allocations *)
Definition GsI (us : list (list N)) (gs : list group) (h : N -> N -> N) (hf : N -> N -> bool) : Prop :=
  length gs = length us
  /\ forall gi u g, nth_error us (nat_of gi) = Some u -> nth_error gs (nat_of gi) = Some g -> gi < len gs ->
                    GI u g (h gi) (hf gi).

Lemma GsI_ext us gs h hf h' hf' :
  (forall g i, h g i = h' g i) -> (forall g i, hf g i = hf' g i) -> GsI us gs h hf -> GsI us gs h' hf'.
Proof.
  intros E1 E2 [Hl H]. split; auto. intros gi u g Hu Hg Hlt.
  eapply GI_ext; [apply E1 | apply E2 | eauto].
Qed.

Lemma GsI_set_at us gs h hf gi g' h1 hf1 :
  GsI us gs h hf -> gi < len gs ->
  (forall u, nth_error us (nat_of gi) = Some u -> GI u g' h1 hf1) ->
  GsI us (set_at gs gi g') (fun g => if g =? gi then h1 else h g) (fun g => if g =? gi then hf1 else hf g).
Proof.
  intros [Hl H] Hlt Hg. split; [rewrite set_at_length; auto|].
  intros gj u g Hu Hnth Hltj. rewrite len_set_at in Hltj.
  rewrite nth_error_set_at in Hnth.
  destruct (N.ltb_spec gi (len gs)); [|lia]. simpl in Hnth.
  destruct (Nat.eqb_spec (nat_of gi) (nat_of gj)) as [E|E].
  - apply nat_of_inj in E. subst gj. inversion Hnth; subst g. rewrite N.eqb_refl. auto.
  - destruct (N.eqb_spec gj gi); [subst; congruence|]. eauto.
Qed.

Lemma take_all_GsI us out : forall gs h hf gs',
  GsI us gs h hf -> take_all gs out = Some gs' ->
  GsI us gs' (fun g i => h g i + hsum out g i) (fun g i => hf g i || hfany out g i)
  /\ Forall (fun ix => ai_group ix < len gs) out.
Proof.
  induction out as [|ix out IH]; intros gs h hf gs' HI Ht; simpl in Ht.
  - inversion Ht; subst. split; [|constructor].
    eapply GsI_ext; [| |eauto]; intros; simpl; rewrite ?hsum_nil, ?orb_false_r; auto; lia.
  - destruct (get_at gs (ai_group ix)) as [g| |] eqn:Eg; try discriminate.
    destruct (take1 g ix) as [g'|] eqn:Et; try discriminate.
    apply get_at_ok in Eg. destruct Eg as [Hlt Hnth].
    assert (HI' : GsI us (set_at gs (ai_group ix) g')
                    (fun g0 => if g0 =? ai_group ix then add_h (h (ai_group ix)) ix else h g0)
                    (fun g0 => if g0 =? ai_group ix then add_hf (hf (ai_group ix)) ix else hf g0)).
    { apply GsI_set_at; auto. intros u Hu. eapply take1_GI; eauto. destruct HI as [_ HI]. eapply HI; eauto. }
    destruct (IH _ _ _ _ HI' Ht) as [H1 H2]. split.
    + eapply GsI_ext; [| |exact H1]; intros g0 i; cbv beta; unfold add_h, add_hf.
      * rewrite hsum_cons. destruct (N.eqb_spec g0 (ai_group ix)).
        -- subst. rewrite N.eqb_refl. simpl. destruct (N.eqb_spec i (ai_index ix)); destruct (N.eqb_spec (ai_index ix) i); try congruence; lia.
        -- destruct (N.eqb_spec (ai_group ix) g0); [congruence|]. simpl. lia.
      * rewrite hfany_cons. destruct (N.eqb_spec g0 (ai_group ix)).
        -- subst. rewrite N.eqb_refl. simpl. destruct (N.eqb_spec i (ai_index ix)); destruct (N.eqb_spec (ai_index ix) i); try congruence; simpl; destruct (hf (ai_group ix) i); destruct (ai_frac ix =? 0); destruct (hfany out (ai_group ix) i); reflexivity.
        -- destruct (N.eqb_spec (ai_group ix) g0); [congruence|]. simpl. auto.
    + constructor; auto. rewrite len_set_at in H2. auto.
Qed.

(* ------------------------------------------------------------------------------------------ *)
(** * the concise mirror follows the pool, step by step *)

Definition gs_mirror (gs : list group) (cs : cstate) : Prop := Forall2 cmirror gs cs.
Definition gs_wf (gs : list group) : Prop := Forall gwf gs.

Lemma Forall2_nth {A B} (R : A -> B -> Prop) l l' n x :
  Forall2 R l l' -> nth_error l n = Some x -> exists y, nth_error l' n = Some y /\ R x y.
Proof.
  intros H; revert n; induction H; intros [|n]; simpl; try discriminate.
  - intros E; inversion E; subst; eauto.
  - auto.
Qed.

Lemma Forall2_set_nth {A B} (R : A -> B -> Prop) l l' n x y :
  Forall2 R l l' -> R x y -> Forall2 R (set_nth l n x) (set_nth l' n y).
Proof. intros H; revert n; induction H; intros [|n] Hr; simpl; constructor; auto. Qed.

Lemma Forall2_len {A B} (R : A -> B -> Prop) l l' : Forall2 R l l' -> len l = len l'.
Proof. intros H. unfold len. f_equal. induction H; simpl; auto. Qed.

Lemma Forall2_set_at {A B} (R : A -> B -> Prop) l l' i x y :
  Forall2 R l l' -> R x y -> Forall2 R (set_at l i x) (set_at l' i y).
Proof.
  intros H Hr. unfold set_at. rewrite <- (Forall2_len _ _ _ H).
  destruct (i <? len l); auto using Forall2_set_nth.
Qed.

Lemma Forall_set_at {A} (P : A -> Prop) l i x : Forall P l -> P x -> Forall P (set_at l i x).
Proof.
  intros H Hx. unfold set_at. destruct (i <? len l); auto.
  generalize (nat_of i). induction H; intros [|n]; simpl; constructor; auto.
Qed.

Lemma Forall_nth {A} (P : A -> Prop) l n x : Forall P l -> nth_error l n = Some x -> P x.
Proof. intros H E. apply nth_error_In in E. rewrite Forall_forall in H. auto. Qed.

Lemma take1_wf g ix g' : gwf g -> take1 g ix = Some g' -> gwf g'.
Proof.
  (* a group is well formed relative to the universe of its own contents *)
  intros Hwf Ht.
  set (u := g_idx g ++ keys (g_fr g)).
  assert (HGI : GI u g (fun i => if memN i u then FPU - group_free g i else 0)
                       (fun i => match fget (g_fr g) i with Some _ => true | None => false end)).
  { destruct Hwf as (Hnd & Hndk & Hsf & Hlt). split; [repeat split; auto|]. split; [|split].
    - intros i Hi. apply memN_in in Hi. rewrite Hi. unfold group_free, fget0. destruct (memN i (g_idx g)); [lia|].
      destruct (fget (g_fr g) i) eqn:E; [apply Hlt in E|]; pose proof FPU_pos; lia.
    - intros i Hi. split; [|split].
      + intros Hc. apply Hi. apply in_or_app; auto.
      + apply fget_none_notin. intros Hc. apply Hi. apply in_or_app; auto.
      + apply memN_false in Hi. rewrite Hi. auto.
    - intros i. destruct (fget (g_fr g) i); split; congruence. }
  eapply take1_GI in HGI; eauto. apply HGI.
Qed.

(** remove_fractions of the model = ctake1 on the group *)
Lemma remove_fractions_ctake1 s gi ix :
  ai_frac ix <> 0 ->
  remove_fractions s gi (ai_index ix) (ai_frac ix) =
  match get_at s gi with
  | Ok c => match ctake1 c ix with Ok c' => Ok (set_at s gi c') | Panic p => Panic p | Disabled => Disabled end
  | Panic p => Panic p | Disabled => Disabled
  end.
Proof.
  intros Hz. unfold remove_fractions, ctake1. destruct (get_at s gi); simpl; auto.
  destruct (N.eqb_spec (ai_frac ix) 0); [congruence|].
  destruct (fget0 (c_fr a) (ai_index ix) <? ai_frac ix); auto. destruct (c_units a =? 0); auto.
Qed.

Lemma remove_loop_groups_mirror out : forall gs cs gs',
  gs_wf gs -> gs_mirror gs cs -> take_all gs out = Some gs' ->
  exists cs', remove_loop_groups cs out = Ok cs' /\ gs_mirror gs' cs' /\ gs_wf gs'.
Proof.
  induction out as [|ix out IH]; intros gs cs gs' Hwf Hm Ht; simpl in *.
  - inversion Ht; subst. eauto.
  - destruct (get_at gs (ai_group ix)) as [g| |] eqn:Eg; try discriminate.
    destruct (take1 g ix) as [g'|] eqn:Et; try discriminate.
    apply get_at_ok in Eg. destruct Eg as [Hlt Hnth].
    destruct (Forall2_nth _ _ _ _ _ Hm Hnth) as [c [Hc Hmc]].
    assert (Hgwf : gwf g) by (eapply Forall_nth; eauto).
    destruct (ctake1_mirror _ _ _ _ Hgwf Hmc Et) as [c' [Hct Hmc']].
    assert (Hgc : get_at cs (ai_group ix) = Ok c).
    { apply get_at_ok. rewrite <- (Forall2_len _ _ _ Hm). auto. }
    assert (Hwf' : gs_wf (set_at gs (ai_group ix) g')).
    { apply Forall_set_at; auto. eapply take1_wf; eauto. }
    assert (Hm' : gs_mirror (set_at gs (ai_group ix) g') (set_at cs (ai_group ix) c')).
    { apply Forall2_set_at; auto. }
    destruct (IH _ _ _ Hwf' Hm' Ht) as [cs' [H1 H2]].
    exists cs'. split; auto.
    destruct (N.eqb_spec (ai_frac ix) 0) as [Hz|Hz].
    + rewrite Hgc. simpl. unfold ctake1 in Hct. rewrite Hz in Hct. simpl in Hct.
      destruct (c_units c =? 0); [discriminate|]. inversion Hct; subst c'. auto.
    + rewrite remove_fractions_ctake1 by auto. rewrite Hgc, Hct. simpl. auto.
Qed.
