(** Basic lemmas: fraction maps, indexed access, sums, sorting. *)
From Coq Require Import Permutation.
From HQ Require Import Base.Prelude Gen.Consts Alloc.Model Alloc.Spec.
Require Import ZifyBool ZifyN ZifyNat.
Open Scope N_scope.
Arguments N.add : simpl never.
Arguments N.sub : simpl never.
Arguments N.mul : simpl never.
Arguments N.div : simpl never.
Arguments N.modulo : simpl never.
Arguments N.eqb : simpl never.
Arguments N.ltb : simpl never.
Arguments N.leb : simpl never.
Arguments N.of_nat : simpl never.
Arguments N.to_nat : simpl never.

Lemma FPU_pos : 0 < FPU.
Proof. reflexivity. Qed.

(* ---------- fmap ---------- *)
Definition keys (m : fmap) : list N := map fst m.

Lemma fget_none_notin m i : fget m i = None <-> ~ In i (keys m).
Proof.
  induction m as [|[k v] m IH]; simpl; [tauto|].
  destruct (N.eqb_spec k i); subst.
  - split; [discriminate|]. intros H; exfalso; apply H; auto.
  - rewrite IH. split; intros H; [intros [H1|H1]; [congruence|auto] | intros H1; apply H; auto].
Qed.

Lemma fget_fset_same m i v : fget (fset m i v) i = Some v.
Proof.
  induction m as [|[k w] m IH]; simpl.
  - rewrite N.eqb_refl; auto.
  - destruct (N.eqb_spec k i); simpl.
    + subst. rewrite N.eqb_refl; auto.
    + destruct (N.eqb_spec k i); [congruence|auto].
Qed.

Lemma fget_fset_other m i j v : i <> j -> fget (fset m i v) j = fget m j.
Proof.
  intros Hij. induction m as [|[k w] m IH]; simpl.
  - destruct (N.eqb_spec i j); [congruence|auto].
  - destruct (N.eqb_spec k i); simpl.
    + subst. destruct (N.eqb_spec i j); [congruence|auto].
    + destruct (N.eqb_spec k j); auto.
Qed.

Lemma fget_fset m i j v : fget (fset m i v) j = if i =? j then Some v else fget m j.
Proof.
  destruct (N.eqb_spec i j); [subst; apply fget_fset_same | apply fget_fset_other; auto].
Qed.

Lemma keys_fset_in m i v j : In j (keys (fset m i v)) <-> j = i \/ In j (keys m).
Proof.
  induction m as [|[k w] m IH]; simpl.
  - split; [intros [H|[]]; auto | intros [H|[]]; auto].
  - destruct (N.eqb_spec k i); simpl.
    + subst. intuition congruence.
    + rewrite IH. intuition congruence.
Qed.

Lemma nodup_keys_fset m i v : NoDup (keys m) -> NoDup (keys (fset m i v)).
Proof.
  induction m as [|[k w] m IH]; simpl; intros H.
  - constructor; [intros []|constructor].
  - inversion H as [|? ? Hn Hd]; subst.
    destruct (N.eqb_spec k i); simpl.
    + subst. constructor; auto.
    + constructor; [|auto]. intros Hin. apply keys_fset_in in Hin. destruct Hin; [congruence|auto].
Qed.

Lemma fget_fremove_same m i : NoDup (keys m) -> fget (fremove m i) i = None.
Proof.
  induction m as [|[k w] m IH]; simpl; intros H; auto.
  inversion H as [|? ? Hn Hd]; subst.
  destruct (N.eqb_spec k i); simpl.
  - subst. apply fget_none_notin; auto.
  - destruct (N.eqb_spec k i); [congruence|auto].
Qed.

Lemma fget_fremove_other m i j : i <> j -> fget (fremove m i) j = fget m j.
Proof.
  intros Hij. induction m as [|[k w] m IH]; simpl; auto.
  destruct (N.eqb_spec k i); simpl.
  - subst. destruct (N.eqb_spec i j); [congruence|auto].
  - destruct (N.eqb_spec k j); auto.
Qed.

Lemma keys_fremove_in m i j : In j (keys (fremove m i)) -> In j (keys m).
Proof.
  induction m as [|[k w] m IH]; simpl; auto.
  destruct (N.eqb_spec k i); simpl; [auto|]. intros [H|H]; auto.
Qed.

Lemma nodup_keys_fremove m i : NoDup (keys m) -> NoDup (keys (fremove m i)).
Proof.
  induction m as [|[k w] m IH]; simpl; intros H; auto.
  inversion H as [|? ? Hn Hd]; subst.
  destruct (N.eqb_spec k i); simpl; auto.
  constructor; auto. intros Hin. apply keys_fremove_in in Hin. auto.
Qed.

Lemma fget0_fset m i j v : fget0 (fset m i v) j = if i =? j then v else fget0 m j.
Proof. unfold fget0. rewrite fget_fset. destruct (i =? j); auto. Qed.

Lemma fmax_ge m i v : fget m i = Some v -> v <= fmax m.
Proof.
  induction m as [|[k w] m IH]; simpl; [discriminate|].
  destruct (N.eqb_spec k i); intros H.
  - inversion H; subst. lia.
  - apply IH in H. lia.
Qed.

Lemma fmax_bound m b : (forall i v, fget m i = Some v -> v < b) -> NoDup (keys m) -> 0 < b -> fmax m < b.
Proof.
  induction m as [|[k w] m IH]; simpl; intros H Hnd Hb; [lia|].
  inversion Hnd as [|? ? Hn Hd]; subst.
  assert (w < b) by (apply (H k); rewrite N.eqb_refl; auto).
  assert (fmax m < b).
  { apply IH; auto. intros i v Hi. apply (H i). destruct (N.eqb_spec k i); auto.
    subst. exfalso. apply fget_none_notin in Hn. congruence. }
  lia.
Qed.

(* ---------- lists with N indices ---------- *)
Lemma len_app {A} (a b : list A) : len (a ++ b) = len a + len b.
Proof. unfold len. rewrite app_length. lia. Qed.

Lemma nth_res_ok {A} (l : list A) n x : nth_res l n = Ok x <-> nth_error l n = Some x.
Proof.
  revert n; induction l as [|y l IH]; intros [|n]; simpl; try (split; discriminate).
  - split; intros H; inversion H; auto.
  - apply IH.
Qed.

Lemma nth_res_lt {A} (l : list A) n : (n < length l)%nat -> exists x, nth_res l n = Ok x.
Proof.
  revert n; induction l as [|y l IH]; intros [|n]; simpl; intros H; try lia; eauto.
  apply IH. lia.
Qed.

Lemma get_at_ok {A} (l : list A) i x : get_at l i = Ok x <-> (i < len l /\ nth_error l (nat_of i) = Some x).
Proof.
  unfold get_at. destruct (N.ltb_spec i (len l)).
  - rewrite nth_res_ok. tauto.
  - split; [discriminate|]. intros [H1 _]. lia.
Qed.

Lemma get_at_not_disabled {A} (l : list A) i : get_at l i <> Disabled.
Proof.
  unfold get_at. destruct (i <? len l); [|discriminate].
  generalize (nat_of i). induction l as [|y l IH]; intros [|n]; simpl; try discriminate. apply IH.
Qed.

Lemma get_at_lt {A} (l : list A) i : i < len l -> exists x, get_at l i = Ok x.
Proof.
  intros H. unfold get_at. destruct (N.ltb_spec i (len l)); [|lia].
  apply nth_res_lt. unfold len, nat_of in *. lia.
Qed.

Lemma set_nth_length {A} (l : list A) n x : length (set_nth l n x) = length l.
Proof. revert n; induction l; intros [|n]; simpl; auto. Qed.

Lemma set_at_length {A} (l : list A) i x : length (set_at l i x) = length l.
Proof. unfold set_at. destruct (i <? len l); auto using set_nth_length. Qed.

Lemma len_set_at {A} (l : list A) i x : len (set_at l i x) = len l.
Proof. unfold len. rewrite set_at_length. auto. Qed.

Lemma nth_error_set_nth {A} (l : list A) n m x :
  nth_error (set_nth l n x) m = if Nat.eqb n m then (if Nat.ltb n (length l) then Some x else None) else nth_error l m.
Proof.
  revert n m; induction l as [|y l IH]; intros n m.
  - destruct (Nat.eqb n m); destruct n; destruct m; reflexivity.
  - destruct n, m; simpl; auto. rewrite IH. reflexivity.
Qed.

Lemma nth_error_set_at {A} (l : list A) i m x :
  nth_error (set_at l i x) m = if (i <? len l) && Nat.eqb (nat_of i) m then Some x else nth_error l m.
Proof.
  unfold set_at. destruct (N.ltb_spec i (len l)); simpl; auto.
  rewrite nth_error_set_nth. destruct (Nat.eqb (nat_of i) m); auto.
  destruct (Nat.ltb_spec (nat_of i) (length l)); auto. unfold len, nat_of in *. lia.
Qed.

Lemma nat_of_inj i j : nat_of i = nat_of j -> i = j.
Proof. unfold nat_of. lia. Qed.

(* ---------- sums ---------- *)
Lemma sumN_cons a l : sumN (a :: l) = a + sumN l.
Proof. reflexivity. Qed.
Lemma sumN_nil : sumN [] = 0.
Proof. reflexivity. Qed.
Arguments sumN : simpl never.

Lemma sumN_app a b : sumN (a ++ b) = sumN a + sumN b.
Proof. induction a as [|x a IH]; cbn [app]; rewrite ?sumN_cons, ?sumN_nil; lia. Qed.

Lemma sumN_map_perm {A} (f : A -> N) l l' : Permutation l l' -> sumN (map f l) = sumN (map f l').
Proof. induction 1; cbn [map]; rewrite ?sumN_cons; lia. Qed.

Lemma sumN_map_zero {A} (f : A -> N) l : (forall x, In x l -> f x = 0) -> sumN (map f l) = 0.
Proof.
  induction l as [|a l IH]; cbn [map]; intros H; auto.
  rewrite sumN_cons, H, IH; auto; [intros; apply H; right; auto | left; auto].
Qed.

Lemma sumN_zero_inv {A} (f : A -> N) l : sumN (map f l) = 0 -> forall x, In x l -> f x = 0.
Proof.
  induction l as [|a l IH]; cbn [map]; intros H x Hin; [destruct Hin|].
  rewrite sumN_cons in H. destruct Hin as [->|Hin]; [lia|]. apply IH; auto. lia.
Qed.

(* ---------- sorting ---------- *)
Lemma insert_sorted_perm {A} (le : A -> A -> bool) x l : Permutation (insert_sorted le x l) (x :: l).
Proof.
  induction l as [|y l IH]; simpl; auto.
  destruct (le x y); auto.
  eapply perm_trans; [apply perm_skip, IH | apply perm_swap].
Qed.

Lemma isort_perm {A} (le : A -> A -> bool) l : Permutation (isort le l) l.
Proof.
  induction l as [|x l IH]; simpl; auto.
  eapply perm_trans; [apply insert_sorted_perm | apply perm_skip, IH].
Qed.

(* ---------- removeN ---------- *)

Lemma in_removeN x y l : In y (removeN x l) -> In y l.
Proof.
  induction l as [|z l IH]; simpl; auto. destruct (N.eqb_spec z x); simpl; auto. intros [H|H]; auto.
Qed.

Lemma in_removeN_iff x y l : NoDup l -> (In y (removeN x l) <-> In y l /\ y <> x).
Proof.
  induction l as [|z l IH]; simpl; intros Hnd; [tauto|].
  inversion Hnd as [|? ? Hn Hd]; subst.
  destruct (N.eqb_spec z x); simpl.
  - subst. split.
    + intros H. split; auto. intros ->. auto.
    + intros [[H|H] Hne]; [congruence|auto].
  - rewrite IH; auto. split.
    + intros [H|[H Hne]]; [subst; auto | auto].
    + intros [[H|H] Hne]; auto.
Qed.

Lemma nodup_removeN x l : NoDup l -> NoDup (removeN x l).
Proof.
  induction l as [|z l IH]; simpl; intros Hnd; auto.
  inversion Hnd as [|? ? Hn Hd]; subst.
  destruct (N.eqb_spec z x); auto.
  constructor; auto. intros H. apply in_removeN in H. auto.
Qed.

Lemma length_removeN x l : In x l -> S (length (removeN x l)) = length l.
Proof.
  induction l as [|z l IH]; simpl; [tauto|].
  destruct (N.eqb_spec z x); auto. intros [H|H]; [congruence|]. simpl. rewrite IH; auto.
Qed.

Lemma removeN_comm x y l : removeN x (removeN y l) = removeN y (removeN x l).
Proof.
  induction l as [|z l IH]; simpl; auto.
  destruct (N.eqb_spec z y) as [Hy|Hy], (N.eqb_spec z x) as [Hx|Hx]; simpl.
  - subst. auto.
  - destruct (N.eqb_spec z y); [auto|congruence].
  - destruct (N.eqb_spec z x); [auto|congruence].
  - destruct (N.eqb_spec z y), (N.eqb_spec z x); congruence.
Qed.

Lemma memN_in x l : memN x l = true <-> In x l.
Proof.
  unfold memN. rewrite existsb_exists. split.
  - intros [y [H1 H2]]. apply N.eqb_eq in H2. subst; auto.
  - intros H. exists x. split; auto. apply N.eqb_refl.
Qed.

Lemma memN_false x l : memN x l = false <-> ~ In x l.
Proof. rewrite <- memN_in. destruct (memN x l); split; congruence. Qed.
