(** Executable model of [hyperqueue::server::event::journal::prune::prune_journal]. *)
From HQ Require Import Base.Prelude Journal.Event.
Open Scope N_scope.

Definition prune_event (lj lw : list N) (e : Event) : option Event :=
  match e with
  | EWorkerConnected w _ | EWorkerLost w _ | EWorkerOverview w =>
      if memN w lw then Some e else None
  | ESubmit j _ _ | EJobCompleted j | EJobOpen j | EJobClose j | EJobCancel j =>
      if memN j lj then Some e else None
  | ETaskStarted j _ _ _ | ETaskFinished j _ | ETaskFailed j _ =>
      if memN j lj then Some e else None
  | ETasksAborted ids =>
      match filter (fun id => memN (fst id) lj) ids with
      | [] => None
      | ids' => Some (ETasksAborted ids')
      end
  | ETasksCanceled ids =>
      match filter (fun id => memN (fst id) lj) ids with
      | [] => None
      | ids' => Some (ETasksCanceled ids')
      end
  | EQueueCreated _ | EQueueRemoved _ | EAllocQueued _ _ | EAllocStarted _ _ | EAllocFinished _ _
  | EServerStart _ | EServerStop => Some e
  end.

Definition prune (lj lw : list N) (evs : list Event) : list Event :=
  flat_map (fun e => match prune_event lj lw e with Some e' => [e'] | None => [] end) evs.
