(** C12: pruning commutes with restoring.  A simulation between the restorer fold over a journal
    and over the pruned journal: the pruned run is the projection of the full run onto the live
    jobs ([PR]).  It holds for ANY journal and ANY live sets, provided every failure-WorkerLost
    record is kept ([keeps_loss]); without that hypothesis crash counters are lost (known finding
    F8-prune-crash-counter, witness below). *)
From HQ Require Import Base.Prelude Journal.Event Journal.Maps Journal.Restore Journal.Prune Journal.IdProofs Journal.Gen Journal.RestoreProofs.
Require Import ZifyBool ZifyN.
Open Scope N_scope.
Arguments N.add : simpl never.
Arguments N.max : simpl never.

Section Proj.
  Variable L : list N.
  Definition keep {V} (kv : N * V) : bool := memN (fst kv) L.
  Definition proj {V} (m : map V) : map V := filter keep m.

  Lemma lookup_proj {V} k (m : map V) : lookup k (proj m) = if memN k L then lookup k m else None.
  Proof.
    unfold proj, keep. induction m as [|[k' v] m IH]; simpl; [now destruct (memN k L)|].
    destruct (memN k' L) eqn:E; simpl.
    - destruct (N.eqb k k') eqn:E2; [apply N.eqb_eq in E2; subst; now rewrite E | exact IH].
    - destruct (N.eqb k k') eqn:E2; [apply N.eqb_eq in E2; subst; rewrite E in *; exact IH | exact IH].
  Qed.

  Lemma proj_insert {V} k (v : V) m : proj (insert k v m) = if memN k L then insert k v (proj m) else proj m.
  Proof.
    unfold proj, keep. induction m as [|[k' v'] m IH]; simpl.
    - destruct (memN k L); reflexivity.
    - destruct (N.eqb k k') eqn:E; simpl.
      + apply N.eqb_eq in E; subst k'. destruct (memN k L) eqn:E2; simpl; [now rewrite N.eqb_refl | reflexivity].
      + rewrite IH. destruct (memN k' L) eqn:E3; destruct (memN k L) eqn:E2; simpl; try rewrite E; reflexivity.
  Qed.

  Lemma proj_remove {V} k (m : map V) : proj (remove k m) = if memN k L then remove k (proj m) else proj m.
  Proof.
    unfold proj, keep. induction m as [|[k' v'] m IH]; simpl.
    - destruct (memN k L); reflexivity.
    - destruct (N.eqb k k') eqn:E; simpl.
      + apply N.eqb_eq in E; subst k'. rewrite IH. destruct (memN k L) eqn:E2; simpl; [now rewrite N.eqb_refl | reflexivity].
      + rewrite IH. destruct (memN k' L) eqn:E3; destruct (memN k L) eqn:E2; simpl; try rewrite E; reflexivity.
  Qed.

  Lemma proj_map {V} (f : V -> V) (m : map V) :
    proj (List.map (fun kv => (fst kv, f (snd kv))) m) = List.map (fun kv => (fst kv, f (snd kv))) (proj m).
  Proof.
    unfold proj, keep. induction m as [|[k v] m IH]; simpl; [reflexivity|].
    destruct (memN k L); simpl; now rewrite IH.
  Qed.
End Proj.

(** The pruned run [p] is the projection of the full run [s] onto the live jobs. *)
Definition PR (L : list N) (s p : RS) : Prop :=
  rs_jobs p = proj L (rs_jobs s) /\ rs_queues p = rs_queues s /\ rs_a2q p = rs_a2q s
  /\ rs_uid p = rs_uid s /\ rs_max_queue p = rs_max_queue s
  /\ rs_max_job p <= rs_max_job s /\ rs_max_worker p <= rs_max_worker s.

Definition keeps_loss (lw : list N) (e : Event) : Prop :=
  match e with EWorkerLost w r => is_failure r = true -> memN w lw = true | _ => True end.

Lemma PR_upd L s p j rj :
  PR L s p -> memN j L = true -> PR L (upd_job s j rj) (upd_job p j rj).
Proof.
  intros (A & B) H. unfold PR, upd_job, set_jobs; simpl. split; [|exact B].
  rewrite proj_insert, H, A. reflexivity.
Qed.

Lemma PR_upd_out L s p j rj : PR L s p -> memN j L = false -> PR L (upd_job s j rj) p.
Proof.
  intros (A & B) H. unfold PR, upd_job, set_jobs; simpl. split; [|exact B].
  rewrite proj_insert, H. exact A.
Qed.

Lemma term_one_PR L term s p id :
  PR L s p ->
  if memN (fst id) L then PR L (term_one term s id) (term_one term p id)
  else PR L (term_one term s id) p.
Proof.
  intros HP. destruct id as [j t]. simpl. unfold term_one.
  destruct (memN j L) eqn:E.
  - destruct HP as (A & B). rewrite A, lookup_proj, E.
    destruct (lookup j (rs_jobs s)) as [rj|]; [|split; assumption].
    destruct (lookup t (rj_tasks rj)); apply PR_upd; try assumption; split; assumption.
  - destruct (lookup j (rs_jobs s)) as [rj|]; [|assumption].
    destruct (lookup t (rj_tasks rj)); now apply PR_upd_out.
Qed.

Lemma term_fold_PR L term ids : forall s p,
  PR L s p ->
  PR L (fold_left (term_one term) ids s)
       (fold_left (term_one term) (filter (fun id => memN (fst id) L) ids) p).
Proof.
  induction ids as [|id ids IH]; intros s p HP; simpl; [assumption|].
  pose proof (term_one_PR L term s p id HP) as H.
  destruct (memN (fst id) L); simpl; apply IH; exact H.
Qed.

Lemma update_max_PR L s p e e' :
  PR L s p -> (e' = e \/ (ev_queue_ids e' = ev_queue_ids e /\
                          (forall x, In x (ev_job_ids e') -> In x (ev_job_ids e)) /\
                          (forall x, In x (ev_worker_ids e') -> In x (ev_worker_ids e)))) ->
  PR L (update_max_ids s e) (update_max_ids p e').
Proof.
  intros (A & B & C & D & E & F & G) H. unfold PR, update_max_ids; simpl.
  repeat (split; [assumption|]).
  assert (Hq : list_max (ev_queue_ids e') = list_max (ev_queue_ids e)) by (destruct H as [->|[-> _]]; reflexivity).
  assert (Hj : list_max (ev_job_ids e') <= list_max (ev_job_ids e)).
  { destruct H as [->|[_ [Hj _]]]; [lia|]. apply IdProofs.list_max_ge_all. intros x Hx. apply list_max_ge. now apply Hj. }
  assert (Hw : list_max (ev_worker_ids e') <= list_max (ev_worker_ids e)).
  { destruct H as [->|[_ [_ Hw]]]; [lia|]. apply IdProofs.list_max_ge_all. intros x Hx. apply list_max_ge. now apply Hw. }
  rewrite Hq, E. repeat split; lia.
Qed.

Lemma PR_set_jobs_map L s p (f : RJob -> RJob) :
  PR L s p ->
  PR L (set_jobs s (List.map (fun kv => (fst kv, f (snd kv))) (rs_jobs s)))
       (set_jobs p (List.map (fun kv => (fst kv, f (snd kv))) (rs_jobs p))).
Proof.
  intros (A & B). unfold PR, set_jobs; simpl. split; [|exact B]. now rewrite proj_map, A.
Qed.

Lemma PR_lookup L s p j : PR L s p -> lookup j (rs_jobs p) = if memN j L then lookup j (rs_jobs s) else None.
Proof. intros (A & _). rewrite A. apply lookup_proj. Qed.

(** The arms, for a record that prune keeps unchanged ([j] live / not keyed by a job). *)
Lemma arm_PR_kept L s p e s' :
  PR L s p -> rstep_arm s e = Ok s' ->
  match e with
  | ESubmit j _ _ | EJobOpen j | EJobClose j | EJobCompleted j | EJobCancel j
  | ETaskStarted j _ _ _ | ETaskFinished j _ | ETaskFailed j _ => memN j L = true
  | ETasksCanceled _ | ETasksAborted _ => False
  | _ => True
  end ->
  exists p', rstep_arm p e = Ok p' /\ PR L s' p'.
Proof.
  intros HP Hs He. pose proof (fun j => PR_lookup L s p j HP) as HL.
  destruct e; simpl in *; try contradiction.
  - (* Submit *)
    destruct closed.
    + inversion Hs; subst. eexists. split; [reflexivity|]. destruct HP as (A & B & C & D & E & F & G).
      unfold PR, add_job; simpl. rewrite proj_insert, He, A. repeat split; try assumption; lia.
    + rewrite HL, He. destruct (lookup j (rs_jobs s)) as [rj|]; inversion Hs; subst.
      * eexists. split; [reflexivity|]. now apply PR_upd.
      * eexists. split; [reflexivity | assumption].
  - inversion Hs; subst. eexists. split; [reflexivity|]. destruct HP as (A & B & C & D & E & F & G).
    unfold PR, add_job; simpl. rewrite proj_insert, He, A. repeat split; try assumption; lia.
  - rewrite HL, He. destruct (lookup j (rs_jobs s)) as [rj|]; inversion Hs; subst.
    eexists. split; [reflexivity|]. now apply PR_upd.
  - inversion Hs; subst. eexists. split; [reflexivity|]. destruct HP as (A & B).
    unfold PR, set_jobs; simpl. rewrite proj_remove, He, A. split; [reflexivity | exact B].
  - rewrite HL, He. destruct (lookup j (rs_jobs s)) as [rj|]; inversion Hs; subst.
    eexists. split; [reflexivity | assumption].
  - rewrite HL, He. destruct (lookup j (rs_jobs s)) as [rj|]; inversion Hs; subst.
    + eexists. split; [reflexivity|]. now apply PR_upd.
    + eexists. split; [reflexivity | assumption].
  - rewrite HL, He. destruct (lookup j (rs_jobs s)) as [rj|]; [|inversion Hs; subst; eauto].
    destruct (lookup t (rj_tasks rj)) as [rt|]; [|discriminate].
    destruct (rt_state rt); try discriminate. inversion Hs; subst.
    eexists. split; [reflexivity|]. now apply PR_upd.
  - rewrite HL, He. destruct (lookup j (rs_jobs s)) as [rj|]; [|inversion Hs; subst; eauto].
    destruct (lookup t (rj_tasks rj)) as [rt|].
    + destruct (rt_state rt); try discriminate; inversion Hs; subst; (eexists; split; [reflexivity|]; now apply PR_upd).
    + inversion Hs; subst. eexists. split; [reflexivity|]. now apply PR_upd.
  - (* WorkerConnected *)
    inversion Hs; subst. eexists. split; [reflexivity|]. destruct HP as (A & B & C & D & E & F & G).
    unfold PR; simpl. repeat split; assumption.
  - (* WorkerLost *)
    destruct (is_failure r); inversion Hs; subst.
    + eexists. split; [reflexivity|]. now apply PR_set_jobs_map.
    + eexists. split; [reflexivity | assumption].
  - inversion Hs; subst. eauto.
  - (* QueueCreated *)
    destruct HP as (A & B & C & D & E & F & G). rewrite B.
    destruct (mem q (rs_queues s)); [discriminate|]. inversion Hs; subst.
    eexists. split; [reflexivity|]. unfold PR; simpl. rewrite ?B. repeat split; assumption.
  - inversion Hs; subst. destruct HP as (A & B & C & D & E & F & G).
    eexists. split; [reflexivity|]. unfold PR; simpl. rewrite ?B. repeat split; assumption.
  - inversion Hs; subst. destruct HP as (A & B & C & D & E & F & G).
    eexists. split; [reflexivity|]. unfold PR; simpl. rewrite ?C. repeat split; assumption.
  - inversion Hs; subst. eauto.
  - inversion Hs; subst. eauto.
  - inversion Hs; subst. destruct HP as (A & B & C & D & E & F & G).
    eexists. split; [reflexivity|]. unfold PR; simpl. repeat split; assumption.
  - inversion Hs; subst. eauto.
Qed.

(** The arms, for a record that prune drops: the projection does not move. *)
Lemma arm_PR_dropped L s p e s' :
  PR L s p -> rstep_arm s e = Ok s' ->
  match e with
  | ESubmit j _ _ | EJobOpen j | EJobClose j | EJobCompleted j | EJobCancel j
  | ETaskStarted j _ _ _ | ETaskFinished j _ | ETaskFailed j _ => memN j L = false
  | EWorkerConnected _ _ | EWorkerOverview _ => True
  | EWorkerLost _ r => is_failure r = false
  | _ => False
  end ->
  PR L s' p.
Proof.
  intros HP Hs He. destruct e; simpl in *; try contradiction.
  - destruct closed.
    + inversion Hs; subst. destruct HP as (A & B & C & D & E & F & G).
      unfold PR, add_job; simpl. rewrite proj_insert, He. repeat split; try assumption; lia.
    + destruct (lookup j (rs_jobs s)) as [rj|]; inversion Hs; subst; [now apply PR_upd_out | assumption].
  - inversion Hs; subst. destruct HP as (A & B & C & D & E & F & G).
    unfold PR, add_job; simpl. rewrite proj_insert, He. repeat split; try assumption; lia.
  - destruct (lookup j (rs_jobs s)) as [rj|]; inversion Hs; subst. now apply PR_upd_out.
  - inversion Hs; subst. destruct HP as (A & B). unfold PR, set_jobs; simpl. rewrite proj_remove, He. split; assumption.
  - destruct (lookup j (rs_jobs s)) as [rj|]; inversion Hs; subst. assumption.
  - destruct (lookup j (rs_jobs s)) as [rj|]; inversion Hs; subst; [now apply PR_upd_out | assumption].
  - destruct (lookup j (rs_jobs s)) as [rj|]; [|inversion Hs; subst; assumption].
    destruct (lookup t (rj_tasks rj)) as [rt|]; [|discriminate].
    destruct (rt_state rt); try discriminate. inversion Hs; subst. now apply PR_upd_out.
  - destruct (lookup j (rs_jobs s)) as [rj|]; [|inversion Hs; subst; assumption].
    destruct (lookup t (rj_tasks rj)) as [rt|].
    + destruct (rt_state rt); try discriminate; inversion Hs; subst; now apply PR_upd_out.
    + inversion Hs; subst. now apply PR_upd_out.
  - inversion Hs; subst. destruct HP as (A & B & C & D & E & F & G). unfold PR; simpl. repeat split; assumption.
  - rewrite He in Hs. inversion Hs; subst. assumption.
  - inversion Hs; subst. assumption.
Qed.

Lemma update_max_PR_dropped L s p e :
  PR L s p -> ev_queue_ids e = [] -> PR L (update_max_ids s e) p.
Proof.
  intros (A & B & C & D & E & F & G) Hq. unfold PR, update_max_ids; simpl. rewrite Hq. simpl.
  repeat (split; [assumption|]). repeat split; lia.
Qed.

Lemma kept_step lj s p e s' :
  PR lj s p -> rstep_arm (update_max_ids s e) e = Ok s' ->
  match e with
  | ESubmit j _ _ | EJobOpen j | EJobClose j | EJobCompleted j | EJobCancel j
  | ETaskStarted j _ _ _ | ETaskFinished j _ | ETaskFailed j _ => memN j lj = true
  | ETasksCanceled _ | ETasksAborted _ => False
  | _ => True
  end ->
  exists p', rstep_arm (update_max_ids p e) e = Ok p' /\ PR lj s' p'.
Proof. intros HP Hs He. exact (arm_PR_kept lj _ _ e s' (update_max_PR lj s p e e HP (or_introl eq_refl)) Hs He). Qed.

Lemma dropped_step lj s p e s' :
  PR lj s p -> rstep_arm (update_max_ids s e) e = Ok s' -> ev_queue_ids e = [] ->
  match e with
  | ESubmit j _ _ | EJobOpen j | EJobClose j | EJobCompleted j | EJobCancel j
  | ETaskStarted j _ _ _ | ETaskFinished j _ | ETaskFailed j _ => memN j lj = false
  | EWorkerConnected _ _ | EWorkerOverview _ => True
  | EWorkerLost _ r => is_failure r = false
  | _ => False
  end ->
  PR lj s' p.
Proof. intros HP Hs Hq He. exact (arm_PR_dropped lj _ p e s' (update_max_PR_dropped lj s p e HP Hq) Hs He). Qed.

(** One record of the journal against what prune makes of it. *)
Lemma step_PR lj lw s p e s' :
  PR lj s p -> keeps_loss lw e -> rstep s e = Ok s' ->
  match prune_event lj lw e with
  | Some e' => exists p', rstep p e' = Ok p' /\ PR lj s' p'
  | None => PR lj s' p
  end.
Proof.
  intros HP Hk Hs. unfold rstep in *.
  destruct e; simpl prune_event; simpl in Hk.
  (* job-keyed records *)
  1-8: match goal with |- context [if memN ?j ?l then _ else _] => destruct (memN j l) eqn:E end;
       [ eapply kept_step; [exact HP | exact Hs | exact E]
       | eapply dropped_step; [exact HP | exact Hs | reflexivity | exact E] ].
  - (* TasksCanceled *)
    simpl in Hs. inversion Hs; subst s'. clear Hs.
    pose proof (term_fold_PR lj TCanceled ids (update_max_ids s (ETasksCanceled ids))) as F.
    destruct (filter (fun id : N * N => memN (fst id) lj) ids) as [|i0 l0] eqn:Ef.
    + specialize (F p (update_max_PR_dropped lj s p (ETasksCanceled ids) HP eq_refl)). simpl in F. exact F.
    + eexists. split; [reflexivity|]. rewrite <- Ef. apply term_fold_PR.
      apply update_max_PR; [assumption|]. right. simpl.
      split; [reflexivity|]. split; [|tauto]. intros x Hx.
      apply in_map_iff in Hx. destruct Hx as [id [<- Hin]]. apply filter_In in Hin. apply in_map. tauto.
  - (* TasksAborted *)
    simpl in Hs. inversion Hs; subst s'. clear Hs.
    pose proof (term_fold_PR lj TAborted ids (update_max_ids s (ETasksAborted ids))) as F.
    destruct (filter (fun id : N * N => memN (fst id) lj) ids) as [|i0 l0] eqn:Ef.
    + specialize (F p (update_max_PR_dropped lj s p (ETasksAborted ids) HP eq_refl)). simpl in F. exact F.
    + eexists. split; [reflexivity|]. rewrite <- Ef. apply term_fold_PR.
      apply update_max_PR; [assumption|]. right. simpl.
      split; [reflexivity|]. split; [|tauto]. intros x Hx.
      apply in_map_iff in Hx. destruct Hx as [id [<- Hin]]. apply filter_In in Hin. apply in_map. tauto.
  - (* WorkerConnected *)
    destruct (memN w lw).
    + eapply kept_step; [exact HP | exact Hs | exact I].
    + eapply dropped_step; [exact HP | exact Hs | reflexivity | exact I].
  - (* WorkerLost *)
    destruct (memN w lw) eqn:E.
    + eapply kept_step; [exact HP | exact Hs | exact I].
    + eapply dropped_step; [exact HP | exact Hs | reflexivity |].
      simpl. destruct (is_failure r); [specialize (Hk eq_refl); discriminate | reflexivity].
  - (* WorkerOverview *)
    destruct (memN w lw).
    + eapply kept_step; [exact HP | exact Hs | exact I].
    + eapply dropped_step; [exact HP | exact Hs | reflexivity | exact I].
  - eapply kept_step; [exact HP | exact Hs | exact I].
  - eapply kept_step; [exact HP | exact Hs | exact I].
  - eapply kept_step; [exact HP | exact Hs | exact I].
  - eapply kept_step; [exact HP | exact Hs | exact I].
  - eapply kept_step; [exact HP | exact Hs | exact I].
  - eapply kept_step; [exact HP | exact Hs | exact I].
  - eapply kept_step; [exact HP | exact Hs | exact I].
Qed.

Lemma load_PR lj lw evs : forall s p s',
  PR lj s p -> Forall (keeps_loss lw) evs -> load s evs = Ok s' ->
  exists p', load p (prune lj lw evs) = Ok p' /\ PR lj s' p'.
Proof.
  induction evs as [|e evs IH]; intros s p s' HP Hk Hs; simpl in *.
  - inversion Hs; subst. eauto.
  - inversion Hk as [|? ? Hk1 Hk2]; subst.
    destruct (rstep s e) as [s1| |] eqn:E; try discriminate.
    pose proof (step_PR lj lw s p e s1 HP Hk1 E) as H.
    destruct (prune_event lj lw e) as [e'|]; simpl.
    + destruct H as (p1 & Hp1 & HP1). rewrite Hp1. eapply IH; eassumption.
    + eapply IH; eassumption.
Qed.

(** * Restoring the jobs of the projection *)

Lemma batches_of_job jid rt subs : Forall (fun b => b_job b = jid) (batches_of jid rt subs).
Proof.
  unfold batches_of. induction subs as [|sub subs IH]; simpl; [constructor|].
  apply Forall_app. split; [|exact IH]. destruct (retain_tasks rt sub); constructor; [reflexivity | constructor].
Qed.

Lemma restore_job_ids jid rj job bs :
  restore_job jid rj = Ok (job, bs) -> sj_id job = jid /\ Forall (fun b => b_job b = jid) bs.
Proof.
  unfold restore_job. rewrite restore_submits_spec.
  destruct (attach_subs [] (rj_submits rj)); [|discriminate]. intros H; inversion H; subst; simpl.
  split; [reflexivity | apply batches_of_job].
Qed.

Lemma filter_all {A} (f : A -> bool) l : Forall (fun x => f x = true) l -> filter f l = l.
Proof. induction 1 as [|x l Hx _ IH]; simpl; [reflexivity | now rewrite Hx, IH]. Qed.
Lemma filter_none {A} (f : A -> bool) l : Forall (fun x => f x = false) l -> filter f l = [].
Proof. induction 1 as [|x l Hx _ IH]; simpl; [reflexivity | now rewrite Hx, IH]. Qed.

Lemma restore_jobs_proj L js : forall jobs bs,
  restore_jobs js = Ok (jobs, bs) ->
  restore_jobs (proj L js) = Ok (filter (fun j => memN (sj_id j) L) jobs, filter (fun b => memN (b_job b) L) bs).
Proof.
  induction js as [|[jid rj] js IH]; intros jobs bs H; simpl in *.
  - inversion H; subst. reflexivity.
  - destruct (restore_job jid rj) as [[job b1]| |] eqn:E; try discriminate.
    destruct (restore_jobs js) as [[jobs' bss]| |] eqn:E2; try discriminate.
    inversion H; subst. clear H. specialize (IH _ _ eq_refl).
    destruct (restore_job_ids _ _ _ _ E) as [Hid Hb]. unfold keep; simpl. rewrite filter_app, Hid.
    destruct (memN jid L) eqn:Em; simpl.
    + rewrite E, IH. rewrite (filter_all _ b1); [reflexivity|].
      eapply Forall_impl; [|exact Hb]. intros b Hbj. simpl in Hbj. now rewrite Hbj.
    + rewrite IH. rewrite (filter_none _ b1); [reflexivity|].
      eapply Forall_impl; [|exact Hb]. intros b Hbj. simpl in Hbj. now rewrite Hbj.
Qed.

(** ** C12_prune_equiv / C12_prune_wellformed *)

Lemma PR0 L : PR L rs0 rs0.
Proof. unfold PR, rs0; simpl. repeat split; lia. Qed.

Theorem prune_equiv : forall lj lw evs r,
  restore evs = Ok r -> Forall (keeps_loss lw) evs ->
  exists r', restore (prune lj lw evs) = Ok r'
    /\ r_jobs r' = filter (fun j => memN (sj_id j) lj) (r_jobs r)
    /\ r_batches r' = filter (fun b => memN (b_job b) lj) (r_batches r)
    /\ r_uid r' = r_uid r
    /\ List.map fst (r_queues r') = List.map fst (r_queues r)
    /\ r_queue_counter r' = r_queue_counter r
    /\ r_job_counter r' <= r_job_counter r /\ r_worker_counter r' <= r_worker_counter r.
Proof.
  intros lj lw evs r Hr Hk. unfold restore in *.
  destruct (load rs0 evs) as [s| |] eqn:El; try discriminate.
  destruct (load_PR lj lw evs rs0 rs0 s (PR0 lj) Hk El) as (p & Hp & (A & B & C & D & E & F & G)).
  rewrite Hp. unfold finish in *.
  destruct (restore_jobs (rs_jobs s)) as [[jobs bs]| |] eqn:Ej; try discriminate.
  inversion Hr; subst r. clear Hr. rewrite A, (restore_jobs_proj lj _ _ _ Ej).
  eexists. split; [reflexivity|]. simpl. rewrite B, D, E.
  repeat split; try reflexivity; try lia.
  rewrite !map_map. simpl. reflexivity.
Qed.

(** The sub-sequence half of well-formedness. *)
Inductive subevent : Event -> Event -> Prop :=
| se_same e : subevent e e
| se_canceled ids ids' : (forall x, In x ids' -> In x ids) -> subevent (ETasksCanceled ids') (ETasksCanceled ids)
| se_aborted ids ids' : (forall x, In x ids' -> In x ids) -> subevent (ETasksAborted ids') (ETasksAborted ids).

Lemma prune_event_sub lj lw e e' : prune_event lj lw e = Some e' -> subevent e' e.
Proof.
  destruct e; simpl; intros H;
    repeat match type of H with context [if ?b then _ else _] => destruct b end;
    try discriminate; try (inversion H; subst; constructor).
  - destruct (filter _ ids) eqn:E; [discriminate|]. inversion H; subst. constructor. intros x Hx. rewrite <- E in Hx. apply filter_In in Hx. tauto.
  - destruct (filter _ ids) eqn:E; [discriminate|]. inversion H; subst. constructor. intros x Hx. rewrite <- E in Hx. apply filter_In in Hx. tauto.
Qed.

(** ** C12_prune_idempotent_append (as an equation between journals) *)

Lemma prune_app lj lw evs evs' : prune lj lw (evs ++ evs') = prune lj lw evs ++ prune lj lw evs'.
Proof. unfold prune. apply flat_map_app. Qed.

Lemma filter_filter_imp {A} (f g : A -> bool) l :
  (forall x, In x l -> g x = true -> f x = true) -> filter g (filter f l) = filter g l.
Proof.
  induction l as [|a l IH]; intros H; simpl; [reflexivity|].
  destruct (f a) eqn:Ef; simpl.
  - destruct (g a); [f_equal|]; apply IH; intros x Hx; apply H; now right.
  - destruct (g a) eqn:Eg; [rewrite (H a (or_introl eq_refl) Eg) in Ef; discriminate|].
    apply IH; intros x Hx; apply H; now right.
Qed.

(** Live sets only shrink on the ids a journal mentions (a completed job stays completed, a lost
    worker never reconnects): pruning an already pruned journal again is pruning the original. *)
Lemma prune_event_twice lj lw lj' lw' e :
  (forall j, In j (ev_job_ids e) -> memN j lj' = true -> memN j lj = true) ->
  (forall w, memN w lw' = true -> memN w lw = true) ->
  match prune_event lj lw e with
  | Some e1 => prune_event lj' lw' e1 = prune_event lj' lw' e
  | None => prune_event lj' lw' e = None
  end.
Proof.
  intros Hj Hw. destruct e; simpl in *;
    try (destruct (memN j lj) eqn:E; [reflexivity|];
         destruct (memN j lj') eqn:E'; [rewrite (Hj j (or_introl eq_refl) E') in E; discriminate | reflexivity]);
    try (destruct (memN w lw) eqn:E; [reflexivity|];
         destruct (memN w lw') eqn:E'; [rewrite (Hw w E') in E; discriminate | reflexivity]);
    try reflexivity.
  - assert (F : filter (fun id : N * N => memN (fst id) lj') (filter (fun id : N * N => memN (fst id) lj) ids)
                = filter (fun id : N * N => memN (fst id) lj') ids).
    { apply filter_filter_imp. intros x Hx Hg. apply Hj; [now apply in_map | exact Hg]. }
    destruct (filter (fun id : N * N => memN (fst id) lj) ids) eqn:E1; simpl in *.
    + now rewrite <- F.
    + now rewrite F.
  - assert (F : filter (fun id : N * N => memN (fst id) lj') (filter (fun id : N * N => memN (fst id) lj) ids)
                = filter (fun id : N * N => memN (fst id) lj') ids).
    { apply filter_filter_imp. intros x Hx Hg. apply Hj; [now apply in_map | exact Hg]. }
    destruct (filter (fun id : N * N => memN (fst id) lj) ids) eqn:E1; simpl in *.
    + now rewrite <- F.
    + now rewrite F.
Qed.

Theorem prune_twice : forall lj lw lj' lw' evs,
  (forall e j, In e evs -> In j (ev_job_ids e) -> memN j lj' = true -> memN j lj = true) ->
  (forall w, memN w lw' = true -> memN w lw = true) ->
  prune lj' lw' (prune lj lw evs) = prune lj' lw' evs.
Proof.
  intros lj lw lj' lw' evs Hj Hw. induction evs as [|e evs IH]; [reflexivity|].
  change (e :: evs) with ([e] ++ evs). rewrite !prune_app, IH by (intros e0 j H; apply Hj; now right).
  f_equal. unfold prune; simpl. rewrite !app_nil_r.
  pose proof (prune_event_twice lj lw lj' lw' e (fun j => Hj e j (or_introl eq_refl)) Hw) as H.
  destruct (prune_event lj lw e) as [e1|]; simpl.
  - rewrite app_nil_r. now rewrite H.
  - now rewrite H.
Qed.

Theorem prune_idempotent_append : forall lj lw lj' lw' evs evs',
  (forall e j, In e evs -> In j (ev_job_ids e) -> memN j lj' = true -> memN j lj = true) ->
  (forall w, memN w lw' = true -> memN w lw = true) ->
  prune lj' lw' (prune lj lw evs ++ evs') = prune lj' lw' (evs ++ evs').
Proof. intros. rewrite !prune_app, prune_twice by assumption. reflexivity. Qed.

(** * Known findings: what prune does lose (witnesses) *)

Definition f8_crash_journal : list Event :=
  [ESubmit 1 true [mkTS 0 (CMax 5) []]; EWorkerConnected 1 None; ETaskStarted 1 0 0 [1]; EWorkerLost 1 RHbLost].

Lemma prune_equiv_refuted :
  exists evs lj lw r r', restore evs = Ok r /\ restore (prune lj lw evs) = Ok r'
    /\ List.map batch_view (r_batches r) <> List.map batch_view (r_batches r').
Proof.
  exists f8_crash_journal, [1], [].
  eexists. eexists. split; [vm_compute; reflexivity|]. split; [vm_compute; reflexivity|]. vm_compute. discriminate.
Qed.

Definition f8_ids_journal : list Event :=
  [ESubmit 1 true [mkTS 0 (CMax 5) []]; EWorkerConnected 1 None; ETaskStarted 1 0 0 [1]; ETaskFinished 1 0;
   EJobCompleted 1; EWorkerLost 1 RStopped].

Lemma prune_keeps_ids_refuted :
  exists evs lj lw r r', restore evs = Ok r /\ restore (prune lj lw evs) = Ok r'
    /\ r_job_counter r' < r_job_counter r /\ r_worker_counter r' < r_worker_counter r.
Proof.
  exists f8_ids_journal, [], [].
  eexists. eexists. split; [vm_compute; reflexivity|]. split; [vm_compute; reflexivity|]. vm_compute. split; reflexivity.
Qed.

Definition f8_queue_journal : list Event :=
  [EQueueCreated 1; EAllocQueued 1 5; EWorkerConnected 1 (Some 5); EWorkerLost 1 RStopped].

Lemma prune_queue_resources_refuted :
  exists evs lj lw r r', restore evs = Ok r /\ restore (prune lj lw evs) = Ok r' /\ r_queues r <> r_queues r'.
Proof.
  exists f8_queue_journal, [], [].
  eexists. eexists. split; [vm_compute; reflexivity|]. split; [vm_compute; reflexivity|]. vm_compute. discriminate.
Qed.

(** Non-vacuity of [prune_equiv]: a journal with a completed and a live job, whose only failure
    loss concerns a still connected ... (no failure loss at all), pruned with the server's sets. *)
Example prune_equiv_example :
  let evs := [EServerStart 1; ESubmit 1 true [mkTS 0 (CMax 5) []]; ESubmit 2 true [mkTS 0 (CMax 5) []; mkTS 1 (CMax 5) [0]];
              EWorkerConnected 1 None; ETaskStarted 1 0 0 [1]; ETaskFinished 1 0; EJobCompleted 1;
              ETaskStarted 2 0 0 [1]; EWorkerLost 1 RStopped] in
  Forall (keeps_loss []) evs
  /\ (exists g, grun g0 evs = Some g /\ live_jobs g = [2] /\ live_workers g = [])
  /\ List.length (prune [2] [] evs) = 3%nat.
Proof. split; [repeat constructor; simpl; discriminate|]. split; [eexists; split; [vm_compute; reflexivity | split; reflexivity]|]. reflexivity. Qed.
