(** Lemmas about the association-list maps of [Journal.Event]. *)
From HQ Require Import Base.Prelude Journal.Event.
Open Scope N_scope.

Section MapLemmas.
  Context {V : Type}.
  Implicit Types m : map V.

  Lemma lookup_insert_eq k v m : lookup k (insert k v m) = Some v.
  Proof.
    induction m as [|[k' v'] m IH]; simpl.
    - now rewrite N.eqb_refl.
    - destruct (N.eqb k k') eqn:E; simpl.
      + now rewrite N.eqb_refl.
      + now rewrite E.
  Qed.

  Lemma lookup_insert_neq k k' v m : k <> k' -> lookup k (insert k' v m) = lookup k m.
  Proof.
    intros Hne. induction m as [|[k2 v2] m IH]; simpl.
    - destruct (N.eqb k k') eqn:E; [apply N.eqb_eq in E; contradiction | reflexivity].
    - destruct (N.eqb k' k2) eqn:E; simpl.
      + apply N.eqb_eq in E; subst k2.
        destruct (N.eqb k k') eqn:E2; [apply N.eqb_eq in E2; contradiction | reflexivity].
      + destruct (N.eqb k k2); [reflexivity | exact IH].
  Qed.

  Lemma lookup_insert k k' v m :
    lookup k (insert k' v m) = if N.eqb k k' then Some v else lookup k m.
  Proof.
    destruct (N.eqb k k') eqn:E.
    - apply N.eqb_eq in E; subst. apply lookup_insert_eq.
    - apply N.eqb_neq in E. now apply lookup_insert_neq.
  Qed.

  Lemma lookup_remove k k' m :
    lookup k (remove k' m) = if N.eqb k k' then None else lookup k m.
  Proof.
    induction m as [|[k2 v2] m IH]; simpl.
    - now destruct (N.eqb k k').
    - destruct (N.eqb k' k2) eqn:E; simpl.
      + apply N.eqb_eq in E; subst k2. rewrite IH. now destruct (N.eqb k k').
      + destruct (N.eqb k k2) eqn:E2.
        * apply N.eqb_eq in E2; subst k2.
          destruct (N.eqb k k') eqn:E3; [|reflexivity].
          apply N.eqb_eq in E3; subst. rewrite N.eqb_refl in E. discriminate.
        * exact IH.
  Qed.

  Lemma keys_insert_mem k v m : mem k m = true -> keys (insert k v m) = keys m.
  Proof.
    unfold mem. induction m as [|[k' v'] m IH]; simpl; [discriminate|].
    destruct (N.eqb k k') eqn:E; simpl.
    - apply N.eqb_eq in E. now subst.
    - intros H. now rewrite IH.
  Qed.

  Lemma keys_insert_new k v m : mem k m = false -> keys (insert k v m) = keys m ++ [k].
  Proof.
    unfold mem. induction m as [|[k' v'] m IH]; simpl; [reflexivity|].
    destruct (N.eqb k k') eqn:E; simpl; [discriminate|].
    intros H. now rewrite IH.
  Qed.

  Lemma mem_memN_keys k m : mem k m = memN k (keys m).
  Proof.
    unfold mem, memN. induction m as [|[k' v'] m IH]; simpl; [reflexivity|].
    destruct (N.eqb k k'); [reflexivity | exact IH].
  Qed.

  Lemma lookup_none_keys k m : lookup k m = None <-> ~ In k (keys m).
  Proof.
    induction m as [|[k' v'] m IH]; simpl.
    - tauto.
    - destruct (N.eqb k k') eqn:E.
      + apply N.eqb_eq in E; subst. split; [discriminate | intros H; exfalso; apply H; now left].
      + apply N.eqb_neq in E. rewrite IH. split; intros H; [intros [H1|H1]; [congruence | tauto] | tauto].
  Qed.

  Lemma lookup_in k v m : lookup k m = Some v -> In (k, v) m.
  Proof.
    induction m as [|[k' v'] m IH]; simpl; [discriminate|].
    destruct (N.eqb k k') eqn:E.
    - apply N.eqb_eq in E; subst. intros H; inversion H; subst. now left.
    - intros H. right. now apply IH.
  Qed.

  Lemma in_lookup k v m : NoDup (keys m) -> In (k, v) m -> lookup k m = Some v.
  Proof.
    induction m as [|[k' v'] m IH]; simpl; [tauto|].
    intros Hnd [H|H].
    - inversion H; subst. now rewrite N.eqb_refl.
    - inversion Hnd as [|? ? Hn Hnd']; subst.
      destruct (N.eqb k k') eqn:E.
      + apply N.eqb_eq in E; subst. exfalso. apply Hn. change k' with (fst (k', v)). now apply in_map.
      + now apply IH.
  Qed.

  Lemma nodup_snoc (k : N) (l : list N) : NoDup l -> ~ In k l -> NoDup (l ++ [k]).
  Proof.
    induction l as [|a l IH]; simpl; intros Hnd Hn.
    - constructor; [tauto | constructor].
    - inversion Hnd as [|? ? Ha Hl]; subst. constructor.
      + rewrite in_app_iff. simpl. intros [Hx|[Hx|[]]]; [tauto | subst; apply Hn; now left].
      + apply IH; [assumption | intros Hin; apply Hn; now right].
  Qed.

  Lemma nodup_insert k v m : NoDup (keys m) -> NoDup (keys (insert k v m)).
  Proof.
    intros H. destruct (mem k m) eqn:E.
    - now rewrite keys_insert_mem.
    - rewrite keys_insert_new by assumption.
      apply nodup_snoc; [assumption|].
      rewrite mem_memN_keys in E.
      intros Hin. unfold memN in E. rewrite <- Bool.not_true_iff_false in E. apply E.
      apply existsb_exists. exists k. split; [assumption | apply N.eqb_refl].
  Qed.

  Lemma keys_remove k m : keys (remove k m) = filter (fun x => negb (N.eqb k x)) (keys m).
  Proof.
    induction m as [|[k' v'] m IH]; simpl; [reflexivity|].
    destruct (N.eqb k k'); simpl; now rewrite IH.
  Qed.

  Lemma nodup_remove k m : NoDup (keys m) -> NoDup (keys (remove k m)).
  Proof. intros H. rewrite keys_remove. now apply NoDup_filter. Qed.

  Lemma keys_map_values (f : N * V -> V) m : keys (List.map (fun kv => (fst kv, f kv)) m) = keys m.
  Proof. unfold keys. rewrite map_map. now apply map_ext. Qed.

  Lemma lookup_map_values (f : V -> V) k m :
    lookup k (List.map (fun kv => (fst kv, f (snd kv))) m) = option_map f (lookup k m).
  Proof.
    induction m as [|[k' v'] m IH]; simpl; [reflexivity|].
    destruct (N.eqb k k'); [reflexivity | exact IH].
  Qed.
End MapLemmas.

Lemma memN_in x l : memN x l = true <-> In x l.
Proof.
  unfold memN. rewrite existsb_exists. split.
  - intros [y [H1 H2]]. apply N.eqb_eq in H2. now subst.
  - intros H. exists x. split; [assumption | apply N.eqb_refl].
Qed.

Lemma memN_false x l : memN x l = false <-> ~ In x l.
Proof. rewrite <- memN_in. now destruct (memN x l). Qed.

Lemma list_max_ge x l : In x l -> x <= list_max l.
Proof.
  induction l as [|a l IH]; simpl; [tauto|].
  intros [H|H]; [subst; lia | specialize (IH H); lia].
Qed.

(** * Two maps with the same keys in the same order and related values *)
Definition map_rel {A B} (P : A -> B -> Prop) (m1 : map A) (m2 : map B) : Prop :=
  Forall2 (fun x y => fst x = fst y /\ P (snd x) (snd y)) m1 m2.

Section MapRel.
  Context {A B : Type} (P : A -> B -> Prop).

  Lemma map_rel_keys m1 m2 : map_rel P m1 m2 -> keys m1 = keys m2.
  Proof. induction 1 as [|[k1 a] [k2 b] l1 l2 [Hk _] _ IH]; simpl in *; congruence. Qed.

  Lemma map_rel_lookup k m1 m2 :
    map_rel P m1 m2 ->
    match lookup k m1, lookup k m2 with
    | Some a, Some b => P a b
    | None, None => True
    | _, _ => False
    end.
  Proof.
    induction 1 as [|[k1 a] [k2 b] l1 l2 [Hk HP] _ IH]; simpl in *; [exact I|].
    subst k2. destruct (N.eqb k k1); [exact HP | exact IH].
  Qed.

  Lemma map_rel_insert k a b m1 m2 :
    map_rel P m1 m2 -> P a b -> map_rel P (insert k a m1) (insert k b m2).
  Proof.
    induction 1 as [|[k1 a1] [k2 b1] l1 l2 [Hk HP] H IH]; simpl in *; intros Hab.
    - constructor; [split; [reflexivity | exact Hab] | constructor].
    - subst k2. destruct (N.eqb k k1).
      + constructor; [split; [reflexivity | exact Hab] | exact H].
      + constructor; [split; [reflexivity | exact HP] | now apply IH].
  Qed.

  Lemma map_rel_remove k m1 m2 : map_rel P m1 m2 -> map_rel P (remove k m1) (remove k m2).
  Proof.
    induction 1 as [|[k1 a1] [k2 b1] l1 l2 [Hk HP] H IH]; simpl in *; [constructor|].
    subst k2. destruct (N.eqb k k1); [exact IH|].
    constructor; [split; [reflexivity | exact HP] | exact IH].
  Qed.

  Lemma map_rel_map (Q : A -> B -> Prop) (f : A -> A) (g : B -> B) m1 m2 :
    map_rel P m1 m2 -> (forall a b, P a b -> Q (f a) (g b)) ->
    map_rel Q (List.map (fun kv => (fst kv, f (snd kv))) m1) (List.map (fun kv => (fst kv, g (snd kv))) m2).
  Proof.
    intros H Hfg. induction H as [|[k1 a1] [k2 b1] l1 l2 [Hk HP] H IH]; simpl in *; [constructor|].
    constructor; [split; [exact Hk | now apply Hfg] | exact IH].
  Qed.

  Lemma map_rel_impl (Q : A -> B -> Prop) m1 m2 :
    map_rel P m1 m2 -> (forall a b, P a b -> Q a b) -> map_rel Q m1 m2.
  Proof.
    intros H Himp. induction H as [|x y l1 l2 [Hk HP] H IH]; [constructor|].
    constructor; [split; [exact Hk | now apply Himp] | exact IH].
  Qed.
End MapRel.
