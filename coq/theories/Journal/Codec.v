(** Codec layer of the journal (C10_torn_tail): prefix-deterministic parser combinators.

    A [Codec A] is an encoder / decoder pair with two laws:
      [c_rt]  : decoding [enc a ++ rest] yields [a] and leaves exactly [rest]   (self-delimiting),
      [c_eof] : decoding a STRICT prefix of [enc a] reports end-of-input ([DEof]),
    i.e. what bincode over a [BufReader] does (every read either succeeds or fails with
    UnexpectedEof).  The laws are preserved by every combinator below (bytes, fixed-width and
    length-prefixed integers, pairs = struct fields, tagged sums = enum variants, options,
    length-prefixed sequences and byte strings), so every record format built from them - in
    particular any layout of [Event] / [SubmitRequest] / [WorkerConfiguration] - satisfies them.
    [read_all] is [JournalReader]'s loop; [torn_tail] is the property of [load_event_file] +
    [create_or_append(truncate)] on a journal whose last record is cut. *)
From HQ Require Import Base.Prelude.
Require Import ZifyBool ZifyNat.

Inductive dres (A : Type) := DOk (a : A) | DEof | DErr.
Arguments DOk {A} a. Arguments DEof {A}. Arguments DErr {A}.

Definition byte := N.

Definition strict_prefix (p l : list byte) : Prop := exists s, s <> [] /\ l = p ++ s.

Record Codec (A : Type) := mkCodec {
  enc : A -> list byte;
  dec : list byte -> dres (A * list byte);
  c_rt : forall a rest, dec (enc a ++ rest) = DOk (a, rest);
  c_eof : forall a p, strict_prefix p (enc a) -> dec p = DEof }.
Arguments enc {A} _ _. Arguments dec {A} _ _. Arguments c_rt {A} _ _ _. Arguments c_eof {A} _ _ _ _.

(** A strict prefix of [x ++ y] is a strict prefix of [x], or [x] followed by a strict prefix of [y]. *)
Lemma strict_prefix_app p x y :
  strict_prefix p (x ++ y) ->
  strict_prefix p x \/ exists p', p = x ++ p' /\ strict_prefix p' y.
Proof.
  revert p. induction x as [|a x IH]; intros p [s [Hs E]]; simpl in *.
  - right. exists p. split; [reflexivity | exists s; auto].
  - destruct p as [|b p]; simpl in E.
    + left. exists (a :: x). split; [discriminate | reflexivity].
    + inversion E; subst b. destruct (IH p) as [[s' [Hs' E']]|[p' [E' Hp']]].
      * exists s. auto.
      * left. exists s'. split; [assumption | simpl; now rewrite E'].
      * right. exists p'. split; [simpl; now rewrite E' | assumption].
Qed.

(** ** Primitive codecs *)

Program Definition c_byte : Codec byte :=
  mkCodec _ (fun b => [b]) (fun l => match l with [] => DEof | b :: r => DOk (b, r) end) _ _.
Next Obligation. destruct H as [s [Hs E]]. destruct p as [|b p]; [reflexivity|]. inversion E. destruct p; [|discriminate]. simpl in *. subst. contradiction. Qed.

Program Definition c_unit : Codec unit :=
  mkCodec _ (fun _ => []) (fun l => DOk (tt, l)) _ _.
Next Obligation. now destruct a. Qed.
Next Obligation. destruct H as [s [Hs E]]. destruct p, s; try discriminate. contradiction. Qed.

(** Struct: fields one after the other. *)
Program Definition c_pair {A B} (ca : Codec A) (cb : Codec B) : Codec (A * B) :=
  mkCodec _ (fun ab => enc ca (fst ab) ++ enc cb (snd ab))
    (fun l => match dec ca l with
              | DOk (a, r) => match dec cb r with DOk (b, r') => DOk ((a, b), r') | DEof => DEof | DErr => DErr end
              | DEof => DEof | DErr => DErr end) _ _.
Next Obligation. rewrite <- app_assoc, c_rt, c_rt. reflexivity. Qed.
Next Obligation.
  apply strict_prefix_app in H. destruct H as [H|[p' [-> H]]].
  - now rewrite (c_eof ca _ p H).
  - rewrite c_rt. now rewrite (c_eof cb _ p' H).
Qed.

(** Enum with two variants: a tag byte, then the payload (n-ary enums are nested sums). *)
Program Definition c_sum {A B} (ca : Codec A) (cb : Codec B) : Codec (A + B) :=
  mkCodec _ (fun x => match x with inl a => 0%N :: enc ca a | inr b => 1%N :: enc cb b end)
    (fun l => match l with
              | [] => DEof
              | t :: r =>
                  if N.eqb t 0 then match dec ca r with DOk (a, r') => DOk (inl a, r') | DEof => DEof | DErr => DErr end
                  else if N.eqb t 1 then match dec cb r with DOk (b, r') => DOk (inr b, r') | DEof => DEof | DErr => DErr end
                  else DErr
              end) _ _.
Next Obligation. destruct a; simpl; now rewrite c_rt. Qed.
Next Obligation.
  destruct H as [s [Hs E]]. destruct p as [|t p]; [reflexivity|].
  destruct a as [a|b]; simpl in E; inversion E as [[Ht Hp]]; subst t; simpl.
  - rewrite (c_eof ca a p); [reflexivity | exists s; split; [exact Hs | exact Hp]].
  - rewrite (c_eof cb b p); [reflexivity | exists s; split; [exact Hs | exact Hp]].
Qed.

Definition c_opt {A} (ca : Codec A) : Codec (unit + A) := c_sum c_unit ca.

(** A length: unary (any self-delimiting integer format obeys the same two laws). *)
Fixpoint enc_nat (n : nat) : list byte := match n with O => [0%N] | S k => 1%N :: enc_nat k end.
Fixpoint dec_nat (fuel : nat) (l : list byte) : dres (nat * list byte) :=
  match l with
  | [] => DEof
  | b :: r => if N.eqb b 0 then DOk (O, r)
              else match fuel with
                   | O => DErr
                   | S f => match dec_nat f r with DOk (k, r') => DOk (S k, r') | DEof => DEof | DErr => DErr end
                   end
  end.

Lemma dec_nat_rt n : forall fuel rest, (n <= fuel)%nat -> dec_nat fuel (enc_nat n ++ rest) = DOk (n, rest).
Proof.
  induction n as [|n IH]; intros fuel rest H; simpl.
  - destruct fuel; reflexivity.
  - destruct fuel as [|f]; [lia|]. simpl. rewrite IH by lia. reflexivity.
Qed.

Lemma dec_nat_eof n : forall fuel p, (n <= fuel)%nat -> strict_prefix p (enc_nat n) -> dec_nat fuel p = DEof.
Proof.
  induction n as [|n IH]; intros fuel p Hf [s [Hs E]]; simpl in E.
  - destruct p as [|b p]; [destruct fuel; reflexivity|]. inversion E. destruct p; [|discriminate]. simpl in *. subst. contradiction.
  - destruct p as [|b p]; [destruct fuel; reflexivity|]. inversion E; subst b.
    destruct fuel as [|f]; [lia|]. simpl. rewrite (IH f p); [reflexivity | lia | exists s; auto].
Qed.

Program Definition c_nat : Codec nat :=
  mkCodec _ enc_nat (fun l => dec_nat (length l) l) _ _.
Next Obligation.
  apply dec_nat_rt. rewrite app_length. clear. induction a; simpl; lia.
Qed.
Next Obligation.
  (* a strict prefix of [enc_nat a] consists of 1-bytes only: it is shorter than [a] allows *)
  destruct H as [s [Hs E]]. revert a s Hs E. induction p as [|b p IH]; intros a s Hs E; [reflexivity|].
  destruct a as [|a]; simpl in E; inversion E; subst.
  - destruct p; [|discriminate]. simpl in *. subst. contradiction.
  - simpl. rewrite (IH a s Hs H1). reflexivity.
Qed.

(** Length-prefixed sequence (Vec<T>, byte strings = sequences of bytes). *)
Fixpoint enc_items {A} (ca : Codec A) (l : list A) : list byte :=
  match l with [] => [] | a :: r => enc ca a ++ enc_items ca r end.
Fixpoint dec_items {A} (ca : Codec A) (n : nat) (l : list byte) : dres (list A * list byte) :=
  match n with
  | O => DOk ([], l)
  | S k => match dec ca l with
           | DOk (a, r) => match dec_items ca k r with DOk (xs, r') => DOk (a :: xs, r') | DEof => DEof | DErr => DErr end
           | DEof => DEof | DErr => DErr
           end
  end.

Lemma dec_items_rt {A} (ca : Codec A) l rest : dec_items ca (length l) (enc_items ca l ++ rest) = DOk (l, rest).
Proof. induction l as [|a l IH]; simpl; [reflexivity|]. now rewrite <- app_assoc, c_rt, IH. Qed.

Lemma dec_items_eof {A} (ca : Codec A) l : forall p, strict_prefix p (enc_items ca l) -> dec_items ca (length l) p = DEof.
Proof.
  induction l as [|a l IH]; intros p H; simpl in *.
  - destruct H as [s [Hs E]]. destruct p, s; try discriminate. contradiction.
  - apply strict_prefix_app in H. destruct H as [H|[p' [-> H]]].
    + now rewrite (c_eof ca a p H).
    + rewrite c_rt. now rewrite (IH p' H).
Qed.

Definition list_enc {A} (ca : Codec A) (l : list A) : list byte := enc c_nat (length l) ++ enc_items ca l.
Definition list_dec {A} (ca : Codec A) (inp : list byte) : dres (list A * list byte) :=
  match dec c_nat inp with
  | DOk (n, r) => dec_items ca n r
  | DEof => DEof
  | DErr => DErr
  end.

Lemma list_rt {A} (ca : Codec A) l rest : list_dec ca (list_enc ca l ++ rest) = DOk (l, rest).
Proof. unfold list_dec, list_enc. rewrite <- app_assoc. rewrite (c_rt c_nat). apply dec_items_rt. Qed.

Lemma list_eof {A} (ca : Codec A) l p : strict_prefix p (list_enc ca l) -> list_dec ca p = DEof.
Proof.
  unfold list_dec, list_enc. intros H. apply strict_prefix_app in H. destruct H as [H|[p' [-> H]]].
  - now rewrite (c_eof c_nat _ p H).
  - rewrite (c_rt c_nat). now apply dec_items_eof.
Qed.

Definition c_list {A} (ca : Codec A) : Codec (list A) :=
  mkCodec _ (list_enc ca) (list_dec ca) (list_rt ca) (list_eof ca).

(** ** The reader loop and the torn tail *)

Section Reader.
  Context {A : Type} (c : Codec A).
  (** Every record occupies at least one byte (true of [Event]: timestamp + variant tag). *)
  Hypothesis enc_nonempty : forall a, enc c a <> [].

  Definition journal (vs : list A) : list byte := concat (List.map (enc c) vs).

  (** [JournalReader::next] in a loop: the records read, [contains_partial_data], [position]
      (= number of bytes consumed by complete records), and whether a corrupted record was hit. *)
  Fixpoint read_all (fuel : nat) (inp : list byte) (pos : nat) : list A * bool * nat * bool :=
    match fuel with
    | O => ([], false, pos, false)
    | S f =>
        match inp with
        | [] => ([], false, pos, false)
        | _ => match dec c inp with
               | DOk (a, rest) =>
                   let '(l, part, q, bad) := read_all f rest (pos + (length inp - length rest)) in
                   (a :: l, part, q, bad)
               | DEof => ([], true, pos, false)
               | DErr => ([], false, pos, true)
               end
        end
    end.

  Lemma read_all_journal vs : forall fuel tail pos,
    (length vs < fuel)%nat ->
    (tail = [] \/ exists v, strict_prefix tail (enc c v)) ->
    read_all fuel (journal vs ++ tail) pos =
    (vs, match tail with [] => false | _ => true end, pos + length (journal vs), false).
  Proof.
    induction vs as [|v vs IH]; intros fuel tail pos Hf Ht; simpl in *.
    - destruct fuel as [|f]; [lia|]. simpl. destruct tail as [|b tail]; [f_equal; f_equal; lia|].
      destruct Ht as [Ht|[v Hv]]; [discriminate|]. rewrite (c_eof c v _ Hv). f_equal. f_equal. lia.
    - destruct fuel as [|f]; [lia|]. cbn [read_all].
      unfold journal in *. simpl. rewrite <- app_assoc.
      destruct (enc c v ++ concat (List.map (enc c) vs) ++ tail) as [|b0 l0] eqn:E.
      + exfalso. destruct (enc c v) eqn:Ev; [now apply (enc_nonempty v) | discriminate].
      + rewrite <- E. rewrite c_rt. rewrite IH by (try lia; assumption).
        f_equal. f_equal. rewrite !app_length. lia.
  Qed.

  (** C10_torn_tail: a journal followed by a strict prefix of one more record is read back
      completely, the torn record is reported as partial data (not as corruption), and
      [position] is the end of the last complete record ... *)
  Theorem torn_tail : forall vs v p,
    strict_prefix p (enc c v) ->
    read_all (S (length vs)) (journal vs ++ p) 0 =
    (vs, match p with [] => false | _ => true end, length (journal vs), false).
  Proof. intros vs v p H. rewrite read_all_journal; [reflexivity | lia | right; eauto]. Qed.

  (** ... so that truncating the file at [position] (what [create_or_append(path, Some(size))]
      does) and appending further records yields a well-formed journal. *)
  Theorem truncate_then_append : forall vs v p vs',
    strict_prefix p (enc c v) ->
    firstn (length (journal vs)) (journal vs ++ p) = journal vs
    /\ read_all (S (length (vs ++ vs'))) (journal vs ++ journal vs') 0
       = (vs ++ vs', false, length (journal (vs ++ vs')), false).
  Proof.
    intros vs v p vs' H. split.
    - rewrite firstn_app, Nat.sub_diag, firstn_all. simpl. now rewrite app_nil_r.
    - assert (E : journal vs ++ journal vs' = journal (vs ++ vs') ++ [])
        by (unfold journal; now rewrite map_app, concat_app, app_nil_r).
      rewrite E. rewrite read_all_journal; [reflexivity | lia | now left].
  Qed.
End Reader.

(** Non-vacuity: a record format in the shape of the journal's (a timestamp, then an enum whose
    variants carry ids, an optional field and a length-prefixed id list) is an instance. *)
Definition example_record : Codec (nat * (nat + (unit + nat) * list nat)) :=
  c_pair c_nat (c_sum c_nat (c_pair (c_opt c_nat) (c_list c_nat))).

Lemma example_record_nonempty : forall a, enc example_record a <> [].
Proof. intros [t x]. simpl. destruct t; discriminate. Qed.

Example torn_tail_example :
  read_all example_record 3
    (journal example_record [(5, inl 2); (6, inr (inr 1, [3; 4]))] ++ [1%N; 0%N; 1%N]) 0
  = ([(5, inl 2); (6, inr (inr 1, [3; 4]))], true, 33, false)%nat.
Proof. vm_compute. reflexivity. Qed.
