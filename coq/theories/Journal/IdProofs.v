(** C11: the restored id counters exceed every id of their kind mentioned anywhere in the journal
    (for ANY event list), and the server uid is the one of the last ServerStart record. *)
From HQ Require Import Base.Prelude Journal.Event Journal.Maps Journal.Restore.
Require Import ZifyBool ZifyN.
Open Scope N_scope.
Arguments N.add : simpl never.
Arguments N.max : simpl never.

Definition last_uid_from (u : option N) (evs : list Event) : option N :=
  fold_left (fun acc e => match e with EServerStart x => Some x | _ => acc end) evs u.
Definition last_uid (evs : list Event) : option N := last_uid_from None evs.

Lemma term_one_frame term s id :
  rs_max_job (term_one term s id) = rs_max_job s /\ rs_max_worker (term_one term s id) = rs_max_worker s
  /\ rs_max_queue (term_one term s id) = rs_max_queue s /\ rs_uid (term_one term s id) = rs_uid s
  /\ rs_queues (term_one term s id) = rs_queues s /\ rs_a2q (term_one term s id) = rs_a2q s
  /\ rs_q2w (term_one term s id) = rs_q2w s.
Proof.
  unfold term_one. destruct id as [j t].
  destruct (lookup j (rs_jobs s)) as [rj|]; [|tauto].
  destruct (lookup t (rj_tasks rj)); simpl; tauto.
Qed.

Lemma fold_term_one_frame term ids s :
  let s' := fold_left (term_one term) ids s in
  rs_max_job s' = rs_max_job s /\ rs_max_worker s' = rs_max_worker s
  /\ rs_max_queue s' = rs_max_queue s /\ rs_uid s' = rs_uid s
  /\ rs_queues s' = rs_queues s /\ rs_a2q s' = rs_a2q s /\ rs_q2w s' = rs_q2w s.
Proof.
  revert s. induction ids as [|id ids IH]; intros s; simpl; [tauto|].
  specialize (IH (term_one term s id)). simpl in IH.
  pose proof (term_one_frame term s id) as F.
  destruct IH as (?&?&?&?&?&?&?), F as (?&?&?&?&?&?&?). repeat split; congruence.
Qed.

(** The arms never lower a high-water mark, and only ServerStart changes the uid. *)
Lemma rstep_arm_frame s e s' :
  rstep_arm s e = Ok s' ->
  rs_max_job s <= rs_max_job s' /\ rs_max_worker s <= rs_max_worker s' /\ rs_max_queue s <= rs_max_queue s'
  /\ rs_uid s' = match e with EServerStart u => Some u | _ => rs_uid s end.
Proof.
  destruct e; simpl; intros H;
    try (pose proof (fold_term_one_frame TCanceled ids s) as F; simpl in F);
    try (pose proof (fold_term_one_frame TAborted ids s) as F2; simpl in F2);
    repeat match type of H with
           | context [match ?x with _ => _ end] => destruct x eqn:?
           | context [if ?x then _ else _] => destruct x eqn:?
           end;
    try discriminate; inversion H; subst; simpl; unfold add_job, upd_job, set_jobs; simpl;
    try (destruct F as (?&?&?&?&?&?&?)); try (destruct F2 as (?&?&?&?&?&?&?)); repeat split; try lia; try congruence.
Qed.

Lemma rstep_frame s e s' :
  rstep s e = Ok s' ->
  N.max (rs_max_job s) (list_max (ev_job_ids e)) <= rs_max_job s'
  /\ N.max (rs_max_worker s) (list_max (ev_worker_ids e)) <= rs_max_worker s'
  /\ N.max (rs_max_queue s) (list_max (ev_queue_ids e)) <= rs_max_queue s'
  /\ rs_uid s' = match e with EServerStart u => Some u | _ => rs_uid s end.
Proof.
  unfold rstep. intros H. apply rstep_arm_frame in H. simpl in H. exact H.
Qed.

Lemma load_ids s evs s' :
  load s evs = Ok s' ->
  rs_max_job s <= rs_max_job s' /\ rs_max_worker s <= rs_max_worker s' /\ rs_max_queue s <= rs_max_queue s'
  /\ rs_uid s' = last_uid_from (rs_uid s) evs
  /\ forall e, In e evs ->
       (forall j, In j (ev_job_ids e) -> j <= rs_max_job s')
       /\ (forall w, In w (ev_worker_ids e) -> w <= rs_max_worker s')
       /\ (forall q, In q (ev_queue_ids e) -> q <= rs_max_queue s').
Proof.
  revert s. induction evs as [|e evs IH]; intros s H; simpl in H.
  - inversion H; subst. unfold last_uid_from; simpl. repeat split; try lia; contradiction.
  - destruct (rstep s e) as [s1| |] eqn:E; try discriminate.
    apply rstep_frame in E. destruct E as (Ej & Ew & Eq & Eu).
    apply IH in H. destruct H as (Hj & Hw & Hq & Hu & Hall).
    repeat split; try lia.
    + rewrite Hu, Eu. unfold last_uid_from. simpl. now destruct e.
    + destruct H as [<-|Hin]; [|now apply Hall].
      intros j Hin. apply list_max_ge in Hin. lia.
    + destruct H as [<-|Hin]; [|now apply Hall].
      intros w Hin. apply list_max_ge in Hin. lia.
    + destruct H as [<-|Hin]; [|now apply Hall].
      intros q Hin. apply list_max_ge in Hin. lia.
Qed.

Lemma restore_inv evs r :
  restore evs = Ok r ->
  exists s, load rs0 evs = Ok s /\ r_job_counter r = rs_max_job s + 1 /\ r_worker_counter r = rs_max_worker s + 1
            /\ r_queue_counter r = rs_max_queue s + 1 /\ r_uid r = rs_uid s.
Proof.
  unfold restore. destruct (load rs0 evs) as [s| |]; try discriminate.
  unfold finish. destruct (restore_jobs (rs_jobs s)) as [[jobs bs]| |]; try discriminate.
  intros H; inversion H; subst; simpl. exists s. repeat split.
Qed.

(** The next job id is [r_job_counter], the next worker id [r_worker_counter + 1] (tako increments
    before use), the next queue id [r_queue_counter]. *)
Theorem ids_fresh : forall evs r,
  restore evs = Ok r ->
  forall e, In e evs ->
    (forall j, In j (ev_job_ids e) -> j < r_job_counter r)
    /\ (forall w, In w (ev_worker_ids e) -> w < r_worker_counter r + 1)
    /\ (forall q, In q (ev_queue_ids e) -> q < r_queue_counter r).
Proof.
  intros evs r H e Hin. apply restore_inv in H. destruct H as (s & Hl & Hj & Hw & Hq & _).
  apply load_ids in Hl. destruct Hl as (_ & _ & _ & _ & Hall).
  destruct (Hall e Hin) as (A & B & C).
  repeat split; intros x Hx; [apply A in Hx | apply B in Hx | apply C in Hx]; lia.
Qed.

Theorem uid_kept : forall evs r, restore evs = Ok r -> r_uid r = last_uid evs.
Proof.
  intros evs r H. apply restore_inv in H. destruct H as (s & Hl & _ & _ & _ & Hu).
  apply load_ids in Hl. destruct Hl as (_ & _ & _ & Hu' & _). rewrite Hu, Hu'. reflexivity.
Qed.

(** Over repeated restarts: a journal extended after a restart keeps all bounds (the counters only grow). *)
Theorem ids_monotone_append : forall evs evs' r r',
  restore evs = Ok r -> restore (evs ++ evs') = Ok r' ->
  r_job_counter r <= r_job_counter r' /\ r_worker_counter r <= r_worker_counter r'
  /\ r_queue_counter r <= r_queue_counter r'.
Proof.
  intros evs evs' r r' H H'.
  apply restore_inv in H. destruct H as (s & Hl & Hj & Hw & Hq & _).
  apply restore_inv in H'. destruct H' as (s' & Hl' & Hj' & Hw' & Hq' & _).
  assert (Hs : load s evs' = Ok s').
  { clear - Hl Hl'. revert Hl Hl'. generalize rs0. induction evs as [|e evs IH]; intros s0 Hl Hl'; simpl in *.
    - inversion Hl; subst. exact Hl'.
    - destruct (rstep s0 e); try discriminate. eapply IH; eassumption. }
  apply load_ids in Hs. destruct Hs as (A & B & C & _). lia.
Qed.

Example ids_fresh_example :
  exists r, restore [EServerStart 3; ETaskStarted 5 0 0 [9]; EWorkerLost 7 RStopped; EQueueRemoved 4; EJobCompleted 6] = Ok r
            /\ r_job_counter r = 7 /\ r_worker_counter r = 10 /\ r_queue_counter r = 5 /\ r_uid r = Some 3.
Proof. eexists. split; [vm_compute; reflexivity | repeat split]. Qed.

Lemma list_max_ge_all l m : (forall x, In x l -> x <= m) -> list_max l <= m.
Proof. induction l as [|a l IH]; simpl; intros H; [lia|]. specialize (IH (fun x Hx => H x (or_intror Hx))). specialize (H a (or_introl eq_refl)). lia. Qed.
