(** C10: restore of every producible journal succeeds and yields exactly the abstraction of the
    history's state ([restore evs = Ok r /\ view r = abs g]).  Proof: a simulation between the
    restorer fold ([rstep]) and the journal-producing state machine ([gstep]). *)
From HQ Require Import Base.Prelude Journal.Event Journal.Maps Journal.Restore Journal.Gen.
Require Import ZifyBool ZifyN.
Open Scope N_scope.
Arguments N.add : simpl never.
Arguments N.max : simpl never.
Arguments N.ltb : simpl never.
Arguments N.leb : simpl never.

(** * The simulation relation *)

Definition rstate_of (x : GTask) : tstate :=
  match gt_state x with GWaiting | GRunning => TRunning (gt_ws x) | s => gclass s end.

(** The restorer's record of a task, given the task's abstract state. *)
Definition task_rel (o : option RTask) (x : GTask) : Prop :=
  match gt_last x with
  | Some i => o = Some (mkRT (rstate_of x) (Some i) (gt_crash x))
  | None => gt_crash x = 0 /\
            match gt_state x with
            | GWaiting => o = None
            | GRunning => False
            | s => o = Some (mkRT (gclass s) None 0)
            end
  end.

Definition tasks_rel (rt : map RTask) (gt : map GTask) : Prop :=
  forall t, match lookup t gt with Some x => task_rel (lookup t rt) x | None => lookup t rt = None end.

(** Worker facts about a task: its workers have been issued; a task that waits after a start
    (worker lost / restart) has a root worker that is not connected any more. *)
Definition task_winv (ws : list N) (mw : N) (x : GTask) : Prop :=
  (forall w, In w (gt_ws x) -> w <= mw) /\
  (gt_state x = GWaiting -> match gt_ws x with r :: _ => ~ In r ws | [] => True end).

(** [attach_submit] of all submits of a job, with [validate_submit] before each. *)
Fixpoint attach_subs (tasks : map tstate) (subs : list (list TaskSpec)) : option (map tstate) :=
  match subs with
  | [] => Some tasks
  | s :: r => if validate tasks s then attach_subs (attach tasks s) r else None
  end.

Definition waiting_map (ks : list N) : map tstate := List.map (fun k => (k, TWaiting)) ks.

Definition job_wf (gj : GJob) : Prop :=
  NoDup (keys (gj_tasks gj)) /\ attach_subs [] (gj_submits gj) = Some (waiting_map (keys (gj_tasks gj))).

Definition job_rel (ws : list N) (mw : N) (rj : RJob) (gj : GJob) : Prop :=
  rj_open rj = gj_open gj /\ rj_submits rj = gj_submits gj /\ tasks_rel (rj_tasks rj) (gj_tasks gj)
  /\ job_wf gj /\ (forall t x, lookup t (gj_tasks gj) = Some x -> task_winv ws mw x).

Definition Rel (rs : RS) (g : G) : Prop :=
  map_rel (job_rel (g_workers g) (g_max_worker g)) (rs_jobs rs) (g_jobs g)
  /\ rs_max_job rs = g_max_job g /\ rs_max_worker rs = g_max_worker g /\ rs_max_queue rs = g_max_queue g
  /\ rs_q2w rs = g_q2w g /\ rs_a2q rs = g_a2q g /\ rs_queues rs = g_queues g /\ rs_uid rs = g_uid g
  /\ (forall w, In w (g_workers g) -> w <= g_max_worker g)
  /\ (forall j, In j (keys (g_jobs g)) -> j <= g_max_job g)
  /\ (forall q, In q (keys (g_queues g)) -> q <= g_max_queue g).

Lemma Rel0 : Rel rs0 g0.
Proof. unfold Rel, rs0, g0; simpl. repeat split; try constructor; try tauto. Qed.

(** * Helper lemmas *)

Lemma list_max_le l m : (forall x, In x l -> x <= m) -> list_max l <= m.
Proof. induction l as [|a l IH]; simpl; intros H; [lia|]. specialize (IH (fun x Hx => H x (or_intror Hx))). specialize (H a (or_introl eq_refl)). lia. Qed.

Lemma update_max_ids_noop s e :
  (forall j, In j (ev_job_ids e) -> j <= rs_max_job s) ->
  (forall w, In w (ev_worker_ids e) -> w <= rs_max_worker s) ->
  (forall q, In q (ev_queue_ids e) -> q <= rs_max_queue s) ->
  update_max_ids s e = s.
Proof.
  intros Hj Hw Hq. apply list_max_le in Hj, Hw, Hq. destruct s; unfold update_max_ids; simpl in *.
  f_equal; apply N.max_l; assumption.
Qed.

Lemma in_keys_insert {V} k k' (v : V) m : In k (keys (insert k' v m)) -> k = k' \/ In k (keys m).
Proof.
  destruct (mem k' m) eqn:E.
  - rewrite keys_insert_mem by assumption. tauto.
  - rewrite keys_insert_new by assumption. rewrite in_app_iff. simpl. intros [H|[H|[]]]; [tauto | now left].
Qed.

Lemma in_keys_remove {V} k k' (m : map V) : In k (keys (remove k' m)) -> In k (keys m).
Proof. rewrite keys_remove. intros H. apply filter_In in H. tauto. Qed.

Lemma lookup_some_keys {V} k (v : V) m : lookup k m = Some v -> In k (keys m).
Proof. intros H. apply lookup_in in H. change k with (fst (k, v)). now apply in_map. Qed.

Lemma map_rel_map_r {A B} (P Q : A -> B -> Prop) (g : B -> B) m1 m2 :
  map_rel P m1 m2 -> (forall a b, P a b -> Q a (g b)) ->
  map_rel Q m1 (List.map (fun kv => (fst kv, g (snd kv))) m2).
Proof.
  intros H Hg. induction H as [|[k1 a1] [k2 b1] l1 l2 [Hk HP] H IH]; simpl in *; [constructor|].
  constructor; [split; [exact Hk | now apply Hg] | exact IH].
Qed.

Lemma map_rel_lookup2 {A B} (P : A -> B -> Prop) k m1 m2 b :
  map_rel P m1 m2 -> lookup k m2 = Some b -> exists a, lookup k m1 = Some a /\ P a b.
Proof.
  intros H Hb. pose proof (map_rel_lookup P k m1 m2 H) as L. rewrite Hb in L.
  destruct (lookup k m1) as [a|]; [eauto | contradiction].
Qed.

(** ** tasks *)

Lemma tasks_rel_insert rt gt t r x :
  tasks_rel rt gt -> task_rel (Some r) x -> tasks_rel (insert t r rt) (insert t x gt).
Proof.
  intros H Hx t'. rewrite !lookup_insert. destruct (N.eqb t' t); [exact Hx | apply H].
Qed.

Lemma tasks_rel_insert_r rt gt t x :
  tasks_rel rt gt -> task_rel (lookup t rt) x -> tasks_rel rt (insert t x gt).
Proof.
  intros H Hx t'. rewrite lookup_insert. destruct (N.eqb t' t) eqn:E; [|apply H].
  apply N.eqb_eq in E. subst. exact Hx.
Qed.

Lemma job_wf_set_task gj t x x0 :
  job_wf gj -> lookup t (gj_tasks gj) = Some x0 -> job_wf (gj_set_task gj t x).
Proof.
  intros [Hnd Ha] Hl. unfold job_wf, gj_set_task; simpl.
  assert (Hm : mem t (gj_tasks gj) = true) by (unfold mem; now rewrite Hl).
  rewrite keys_insert_mem by assumption. split; assumption.
Qed.

Lemma winv_set_task ws mw gj t x :
  (forall t' x', lookup t' (gj_tasks gj) = Some x' -> task_winv ws mw x') -> task_winv ws mw x ->
  forall t' x', lookup t' (gj_tasks (gj_set_task gj t x)) = Some x' -> task_winv ws mw x'.
Proof.
  intros H Hx t' x'. unfold gj_set_task; simpl. rewrite lookup_insert.
  destruct (N.eqb t' t); [intros E; inversion E; subst; exact Hx | apply H].
Qed.

(** Updating one task of one job on both sides. *)
Lemma job_rel_set_task ws mw rj gj t r x x0 :
  job_rel ws mw rj gj -> lookup t (gj_tasks gj) = Some x0 ->
  task_rel (Some r) x -> task_winv ws mw x ->
  job_rel ws mw (set_task rj t r) (gj_set_task gj t x).
Proof.
  intros (Ho & Hs & Ht & Hwf & Hw) Hl Hx Hwx. unfold job_rel, set_task; simpl.
  split; [assumption|]. split; [assumption|]. split; [now apply tasks_rel_insert|].
  split; [exact (job_wf_set_task gj t x x0 Hwf Hl)|].
  exact (winv_set_task ws mw gj t x Hw Hwx).
Qed.

(** ** submits *)

Definition ids (sub : list TaskSpec) : list N := List.map ts_id sub.

Lemma forallb_ext {A} (f g : A -> bool) l : (forall x, f x = g x) -> forallb f l = forallb g l.
Proof. intros H. induction l as [|a l IH]; simpl; [reflexivity | now rewrite H, IH]. Qed.

Definition attach_gen {V} (v : V) (m : map V) (sub : list TaskSpec) : map V :=
  fold_left (fun m ts => insert (ts_id ts) v m) sub m.

Lemma attach_is_gen m sub : attach m sub = attach_gen TWaiting m sub.
Proof. reflexivity. Qed.
Lemma g_attach_is_gen m sub : g_attach m sub = attach_gen fresh_task m sub.
Proof. reflexivity. Qed.

Lemma validate_graph_keys {V W} (m1 : map V) (m2 : map W) seen sub :
  keys m1 = keys m2 -> validate_graph m1 seen sub = validate_graph m2 seen sub.
Proof.
  intros Hk. revert seen. induction sub as [|ts sub IH]; intros seen; simpl; [reflexivity|].
  rewrite IH. f_equal. f_equal. apply forallb_ext. intros d. now rewrite !mem_memN_keys, Hk.
Qed.

Lemma validate_keys {V W} (m1 : map V) (m2 : map W) sub :
  keys m1 = keys m2 -> validate m1 sub = validate m2 sub.
Proof.
  intros Hk. unfold validate. rewrite (validate_graph_keys m1 m2 [] sub Hk). f_equal.
  apply forallb_ext. intros ts. now rewrite !mem_memN_keys, Hk.
Qed.

Lemma validate_graph_nodup {V} (m : map V) seen sub :
  validate_graph m seen sub = true -> NoDup (ids sub) /\ forall t, In t (ids sub) -> ~ In t seen.
Proof.
  revert seen. induction sub as [|ts sub IH]; intros seen; simpl; intros H.
  - split; [constructor | tauto].
  - apply andb_prop in H. destruct H as [H H3]. apply andb_prop in H. destruct H as [H1 H2].
    apply IH in H3. destruct H3 as [Hnd Hdis].
    apply Bool.negb_true_iff in H1. apply memN_false in H1.
    split.
    + constructor; [|assumption]. intros Hin. apply (Hdis _ Hin). now left.
    + intros t [<-|Hin]; [assumption|]. intros Hs. apply (Hdis _ Hin). now right.
Qed.

Lemma validate_new {V} (m : map V) sub :
  validate m sub = true -> NoDup (ids sub) /\ forall t, In t (ids sub) -> mem t m = false.
Proof.
  unfold validate. intros H. apply andb_prop in H. destruct H as [H1 H2].
  apply validate_graph_nodup in H2. split; [tauto|].
  intros t Hin. unfold ids in Hin. apply in_map_iff in Hin. destruct Hin as [ts [<- Hts]].
  rewrite forallb_forall in H1. specialize (H1 ts Hts). now apply Bool.negb_true_iff in H1.
Qed.

Lemma keys_attach_gen {V} (v : V) sub : forall m,
  NoDup (ids sub) -> (forall t, In t (ids sub) -> mem t m = false) ->
  keys (attach_gen v m sub) = keys m ++ ids sub.
Proof.
  induction sub as [|ts sub IH]; intros m Hnd Hnew; simpl.
  - now rewrite app_nil_r.
  - inversion Hnd as [|? ? Hn Hnd']; subst.
    unfold attach_gen in *. simpl. rewrite IH; [| assumption |].
    + rewrite keys_insert_new by (apply Hnew; now left). now rewrite <- app_assoc.
    + intros t Hin. unfold mem. rewrite lookup_insert.
      destruct (N.eqb t (ts_id ts)) eqn:E; [apply N.eqb_eq in E; subst; contradiction|].
      specialize (Hnew t (or_intror Hin)). unfold mem in Hnew. exact Hnew.
Qed.

Lemma lookup_attach_gen {V} (v : V) sub : forall m t,
  lookup t (attach_gen v m sub) = if memN t (ids sub) then Some v else lookup t m.
Proof.
  induction sub as [|ts sub IH]; intros m t; simpl; [reflexivity|].
  unfold attach_gen in *. simpl. rewrite IH. rewrite lookup_insert.
  destruct (memN t (ids sub)); [now rewrite Bool.orb_true_r|].
  rewrite Bool.orb_false_r. reflexivity.
Qed.

Lemma keys_waiting_map ks : keys (waiting_map ks) = ks.
Proof. unfold keys, waiting_map. rewrite map_map. simpl. apply map_id. Qed.

Lemma all_waiting_eq (m : map tstate) :
  Forall (fun kv => snd kv = TWaiting) m -> m = waiting_map (keys m).
Proof.
  induction 1 as [|[k v] m Hv _ IH]; simpl in *; [reflexivity|]. subst v. now rewrite <- IH.
Qed.

Lemma all_waiting_insert k (m : map tstate) :
  Forall (fun kv => snd kv = TWaiting) m -> Forall (fun kv => snd kv = TWaiting) (insert k TWaiting m).
Proof.
  induction 1 as [|[k' v] m Hv H IH]; simpl.
  - constructor; [reflexivity | constructor].
  - destruct (N.eqb k k'); constructor; simpl; auto.
Qed.

Lemma all_waiting_attach sub : forall m,
  Forall (fun kv => snd kv = TWaiting) m -> Forall (fun kv => snd kv = TWaiting) (attach m sub).
Proof.
  induction sub as [|ts sub IH]; intros m H; simpl; [assumption|].
  apply IH. now apply all_waiting_insert.
Qed.

Lemma all_waiting_map ks : Forall (fun kv => snd kv = TWaiting) (waiting_map ks).
Proof. unfold waiting_map. apply Forall_forall. intros kv H. apply in_map_iff in H. destruct H as [k [<- _]]. reflexivity. Qed.

Lemma attach_subs_app subs : forall m sub,
  attach_subs m (subs ++ [sub]) =
  match attach_subs m subs with
  | Some m' => if validate m' sub then Some (attach m' sub) else None
  | None => None
  end.
Proof.
  induction subs as [|s subs IH]; intros m sub; simpl; [reflexivity|].
  destruct (validate m s); [apply IH | reflexivity].
Qed.

(** A valid submit attached on both sides. *)
Lemma attach_both (gt : map GTask) sub :
  validate gt sub = true -> NoDup (keys gt) ->
  NoDup (keys (g_attach gt sub))
  /\ validate (waiting_map (keys gt)) sub = true
  /\ attach (waiting_map (keys gt)) sub = waiting_map (keys (g_attach gt sub))
  /\ (forall t, lookup t (g_attach gt sub) = if memN t (ids sub) then Some fresh_task else lookup t gt)
  /\ (forall t, In t (ids sub) -> lookup t gt = None).
Proof.
  intros Hv Hnd. pose proof (validate_new gt sub Hv) as [Hnds Hnew].
  assert (Hk : keys (g_attach gt sub) = keys gt ++ ids sub) by (rewrite g_attach_is_gen; now apply keys_attach_gen).
  assert (Hv' : validate (waiting_map (keys gt)) sub = true)
    by (rewrite (validate_keys (waiting_map (keys gt)) gt sub); [assumption | apply keys_waiting_map]).
  split; [|split; [assumption | split; [|split]]].
  - rewrite Hk. clear - Hnd Hnds Hnew. induction (ids sub) as [|a l IH] using rev_ind; [now rewrite app_nil_r|].
    pose proof (NoDup_remove_1 l [] a Hnds) as X1. pose proof (NoDup_remove_2 l [] a Hnds) as X2.
    rewrite app_nil_r in X1, X2.
    rewrite app_assoc. apply nodup_snoc.
    + apply IH; [assumption | intros t Ht; apply Hnew; rewrite in_app_iff; now left].
    + rewrite in_app_iff. intros [H|H]; [|contradiction].
      assert (Hm : mem a gt = false) by (apply Hnew; rewrite in_app_iff; right; now left).
      rewrite mem_memN_keys in Hm. apply memN_false in Hm. contradiction.
  - rewrite (all_waiting_eq (attach (waiting_map (keys gt)) sub)) by (apply all_waiting_attach, all_waiting_map).
    f_equal. rewrite attach_is_gen, keys_attach_gen; [now rewrite keys_waiting_map, Hk | assumption |].
    intros t Ht. rewrite mem_memN_keys, keys_waiting_map, <- mem_memN_keys. now apply Hnew.
  - intros t. rewrite g_attach_is_gen. apply lookup_attach_gen.
  - intros t Ht. specialize (Hnew t Ht). unfold mem in Hnew. now destruct (lookup t gt).
Qed.

(** * The simulation, event by event *)

Lemma Rel_jobs rs g j gj :
  Rel rs g -> lookup j (g_jobs g) = Some gj ->
  exists rj, lookup j (rs_jobs rs) = Some rj /\ job_rel (g_workers g) (g_max_worker g) rj gj.
Proof. intros (H & _) Hl. exact (map_rel_lookup2 _ j _ _ gj H Hl). Qed.

Lemma Rel_jobs_none rs g j : Rel rs g -> lookup j (g_jobs g) = None -> lookup j (rs_jobs rs) = None.
Proof.
  intros (H & _) Hl. pose proof (map_rel_lookup _ j _ _ H) as L. rewrite Hl in L.
  destruct (lookup j (rs_jobs rs)); [contradiction | reflexivity].
Qed.

Lemma rstep_noop_ids rs g e :
  Rel rs g ->
  (forall j, In j (ev_job_ids e) -> In j (keys (g_jobs g))) ->
  (forall w, In w (ev_worker_ids e) -> In w (g_workers g)) ->
  (forall q, In q (ev_queue_ids e) -> q <= g_max_queue g) ->
  rstep rs e = rstep_arm rs e.
Proof.
  intros (_ & Hj & Hw & Hq & _ & _ & _ & _ & Kw & Kj & Kq) Ij Iw Iq. unfold rstep.
  rewrite update_max_ids_noop; [reflexivity | | |].
  - intros j H. rewrite Hj. apply Kj, Ij, H.
  - intros w H. rewrite Hw. apply Kw, Iw, H.
  - intros q H. rewrite Hq. apply Iq, H.
Qed.

(** Replacing the job [j] on both sides by related jobs. *)
Lemma Rel_upd_job rs g j rj' gj' gj0 :
  Rel rs g -> lookup j (g_jobs g) = Some gj0 ->
  job_rel (g_workers g) (g_max_worker g) rj' gj' ->
  Rel (upd_job rs j rj') (g_set_jobs g (insert j gj' (g_jobs g))).
Proof.
  intros (H & Hrest) Hl Hj. unfold Rel, upd_job, set_jobs, g_set_jobs; simpl.
  split; [now apply map_rel_insert|].
  destruct Hrest as (A1 & A2 & A3 & A4 & A5 & A6 & A7 & A8 & A9 & A10).
  repeat (split; [assumption|]). split; [|assumption].
  intros k Hk. apply in_keys_insert in Hk. destruct Hk as [->|Hk]; [|now apply A9].
  apply A9. now apply lookup_some_keys in Hl.
Qed.

Lemma sim_task_update rs g j gj t x0 r x rj :
  Rel rs g -> lookup j (g_jobs g) = Some gj -> lookup t (gj_tasks gj) = Some x0 ->
  lookup j (rs_jobs rs) = Some rj ->
  task_rel (Some r) x -> task_winv (g_workers g) (g_max_worker g) x ->
  Rel (upd_job rs j (set_task rj t r)) (g_upd_task g j gj t x).
Proof.
  intros HR Hj Ht Hrj Hx Hw. unfold g_upd_task.
  destruct (Rel_jobs rs g j gj HR Hj) as (rj' & E & Hrel). rewrite Hrj in E. inversion E; subst rj'.
  eapply Rel_upd_job; try eassumption.
  eapply job_rel_set_task; eassumption.
Qed.

Lemma Rel_task rs g j gj t x rj :
  Rel rs g -> lookup j (g_jobs g) = Some gj -> lookup t (gj_tasks gj) = Some x ->
  lookup j (rs_jobs rs) = Some rj ->
  task_rel (lookup t (rj_tasks rj)) x /\ task_winv (g_workers g) (g_max_worker g) x.
Proof.
  intros HR Hj Ht Hrj. destruct (Rel_jobs rs g j gj HR Hj) as (rj' & E & Hrel). rewrite Hrj in E. inversion E; subst rj'.
  destruct Hrel as (_ & _ & Hts & _ & Hw). split; [|now apply (Hw t x)].
  specialize (Hts t). now rewrite Ht in Hts.
Qed.

Lemma sim_started rs g g' j t inst ws :
  Rel rs g -> gstep g (ETaskStarted j t inst ws) = Some g' ->
  exists rs', rstep rs (ETaskStarted j t inst ws) = Ok rs' /\ Rel rs' g'.
Proof.
  intros HR Hg. simpl in Hg.
  destruct (lookup j (g_jobs g)) as [gj|] eqn:Hj; [|discriminate].
  destruct (lookup t (gj_tasks gj)) as [x|] eqn:Ht; [|discriminate].
  destruct (gt_state x) eqn:Hs; try discriminate. destruct ws as [|w0 ws]; [discriminate|].
  destruct (forallb _ _ && inst_ok _ _) eqn:Hc; [|discriminate]. inversion Hg; subst g'. clear Hg.
  apply andb_prop in Hc. destruct Hc as [Hall _]. rewrite forallb_forall in Hall.
  destruct (Rel_jobs rs g j gj HR Hj) as (rj & Hrj & _).
  destruct (Rel_task rs g j gj t x rj HR Hj Ht Hrj) as [Htr Hwi].
  rewrite (rstep_noop_ids rs g).
  - simpl. rewrite Hrj. eexists. split; [reflexivity|].
    eapply sim_task_update; try eassumption.
    + unfold task_rel; simpl. unfold rstate_of; simpl. f_equal. f_equal.
      unfold task_rel in Htr. destruct (gt_last x).
      * rewrite Htr. reflexivity.
      * destruct Htr as [Hc0 Ho]. rewrite Hs in Ho. rewrite Ho. now rewrite Hc0.
    + split; simpl; [|discriminate]. intros w Hw. destruct HR as (_ & _ & _ & _ & _ & _ & _ & _ & Kw & _).
      apply Kw. apply memN_in. now apply Hall.
  - assumption.
  - simpl. intros k [<-|[]]. now apply lookup_some_keys in Hj.
  - simpl. intros w Hw. apply memN_in. now apply Hall.
  - simpl. tauto.
Qed.

Lemma sim_finished rs g g' j t :
  Rel rs g -> gstep g (ETaskFinished j t) = Some g' ->
  exists rs', rstep rs (ETaskFinished j t) = Ok rs' /\ Rel rs' g'.
Proof.
  intros HR Hg. simpl in Hg.
  destruct (lookup j (g_jobs g)) as [gj|] eqn:Hj; [|discriminate].
  destruct (lookup t (gj_tasks gj)) as [x|] eqn:Ht; [|discriminate].
  destruct (gt_state x) eqn:Hs; try discriminate. inversion Hg; subst g'. clear Hg.
  destruct (Rel_jobs rs g j gj HR Hj) as (rj & Hrj & _).
  destruct (Rel_task rs g j gj t x rj HR Hj Ht Hrj) as [Htr Hwi].
  rewrite (rstep_noop_ids rs g); [| assumption | | simpl; tauto | simpl; tauto].
  2:{ simpl. intros k [<-|[]]. now apply lookup_some_keys in Hj. }
  simpl. rewrite Hrj. unfold task_rel in Htr. rewrite Hs in Htr.
  destruct (gt_last x) as [i|] eqn:Hl; [|destruct Htr as [_ []]].
  rewrite Htr. simpl. unfold rstate_of. rewrite Hs. eexists. split; [reflexivity|].
  eapply sim_task_update; try eassumption.
  - unfold task_rel; simpl. try rewrite Hl. reflexivity.
  - destruct Hwi as [A B]. split; simpl; [assumption | discriminate].
Qed.

Lemma sim_failed rs g g' j t :
  Rel rs g -> gstep g (ETaskFailed j t) = Some g' ->
  exists rs', rstep rs (ETaskFailed j t) = Ok rs' /\ Rel rs' g'.
Proof.
  intros HR Hg. simpl in Hg.
  destruct (lookup j (g_jobs g)) as [gj|] eqn:Hj; [|discriminate].
  destruct (lookup t (gj_tasks gj)) as [x|] eqn:Ht; [|discriminate].
  destruct (g_terminal (gt_state x)) eqn:Hs; try discriminate. inversion Hg; subst g'. clear Hg.
  destruct (Rel_jobs rs g j gj HR Hj) as (rj & Hrj & _).
  destruct (Rel_task rs g j gj t x rj HR Hj Ht Hrj) as [Htr Hwi].
  rewrite (rstep_noop_ids rs g); [| assumption | | simpl; tauto | simpl; tauto].
  2:{ simpl. intros k [<-|[]]. now apply lookup_some_keys in Hj. }
  simpl. rewrite Hrj. unfold task_rel in Htr.
  assert (Hw' : task_winv (g_workers g) (g_max_worker g) (mkGT GFailed (gt_last x) (gt_ws x) (gt_crash x)))
    by (destruct Hwi as [A B]; split; simpl; [assumption | discriminate]).
  destruct (gt_last x) as [i|] eqn:Hl.
  - rewrite Htr. simpl. unfold rstate_of.
    destruct (gt_state x) eqn:Hst; try discriminate; simpl;
      (eexists; split; [reflexivity|]; eapply sim_task_update; try eassumption;
       unfold task_rel; simpl; try rewrite Hl; reflexivity).
  - destruct Htr as [Hc0 Ho].
    destruct (gt_state x) eqn:Hst; try discriminate; try contradiction.
    rewrite Ho. eexists. split; [reflexivity|]. eapply sim_task_update; try eassumption.
    unfold task_rel; simpl. try rewrite Hl. split; [assumption | reflexivity].
Qed.

(** ** batched cancel / abort *)

Lemma fold_term_none term ids : fold_left (g_term_one term) ids None = None.
Proof. induction ids; simpl; auto. Qed.

Lemma g_upd_task_keys g j gj t x :
  lookup j (g_jobs g) = Some gj -> keys (g_jobs (g_upd_task g j gj t x)) = keys (g_jobs g).
Proof. intros H. unfold g_upd_task; simpl. apply keys_insert_mem. unfold mem. now rewrite H. Qed.

Lemma sim_term_one rs g g' gterm id :
  Rel rs g -> g_terminal gterm = true ->
  g_term_one gterm (Some g) id = Some g' ->
  Rel (term_one (gclass gterm) rs id) g' /\ In (fst id) (keys (g_jobs g)) /\ keys (g_jobs g') = keys (g_jobs g).
Proof.
  intros HR Hterm Hg. destruct id as [j t]. simpl in Hg.
  destruct (lookup j (g_jobs g)) as [gj|] eqn:Hj; [|discriminate].
  destruct (lookup t (gj_tasks gj)) as [x|] eqn:Ht; [|discriminate].
  destruct (g_terminal (gt_state x)) eqn:Hs; [discriminate|]. inversion Hg; subst g'. clear Hg.
  split; [|split; [simpl; now apply lookup_some_keys in Hj | now apply g_upd_task_keys]].
  destruct (Rel_jobs rs g j gj HR Hj) as (rj & Hrj & _).
  destruct (Rel_task rs g j gj t x rj HR Hj Ht Hrj) as [Htr Hwi].
  unfold term_one. rewrite Hrj.
  assert (Hw' : task_winv (g_workers g) (g_max_worker g) (mkGT gterm (gt_last x) (gt_ws x) (gt_crash x))).
  { destruct Hwi as [A B]. split; simpl; [assumption|]. intros E. rewrite E in Hterm. discriminate. }
  unfold task_rel in Htr. destruct (gt_last x) as [i|] eqn:Hl.
  - rewrite Htr. simpl. eapply sim_task_update; try eassumption.
    unfold task_rel; simpl. try rewrite Hl. unfold rstate_of; simpl.
    destruct gterm; try discriminate; reflexivity.
  - destruct Htr as [Hc0 Ho]. destruct (gt_state x) eqn:Hst; try discriminate; try contradiction.
    rewrite Ho. eapply sim_task_update; try eassumption.
    unfold task_rel; simpl. try rewrite Hl. split; [assumption|].
    destruct gterm; try discriminate; reflexivity.
Qed.

Lemma sim_term_fold gterm ids : forall rs g g',
  Rel rs g -> g_terminal gterm = true ->
  fold_left (g_term_one gterm) ids (Some g) = Some g' ->
  Rel (fold_left (term_one (gclass gterm)) ids rs) g'
  /\ (forall j, In j (List.map fst ids) -> In j (keys (g_jobs g))).
Proof.
  induction ids as [|id ids IH]; intros rs g g' HR Ht Hg; cbn [fold_left List.map In] in *.
  - inversion Hg; subst. split; [assumption | tauto].
  - destruct (g_term_one gterm (Some g) id) as [g1|] eqn:E; [|rewrite fold_term_none in Hg; discriminate].
    destruct (sim_term_one rs g g1 gterm id HR Ht E) as (HR1 & Hin & Hk).
    destruct (IH _ _ _ HR1 Ht Hg) as (HR' & Hall).
    split; [assumption|]. intros j [<-|Hj]; [assumption|]. rewrite <- Hk. now apply Hall.
Qed.

(** ** job-level events *)

Lemma Rel_new_job rs g j rj gj :
  Rel rs g -> g_max_job g < j ->
  job_rel (g_workers g) (g_max_worker g) rj gj ->
  Rel (add_job (update_max_ids rs (EJobOpen j)) j rj)
      (mkG (insert j gj (g_jobs g)) (g_workers g) (g_queues g) (g_a2q g) (g_q2w g) (g_uid g)
           (N.max (g_max_job g) j) (g_max_worker g) (g_max_queue g)).
Proof.
  intros (H & A1 & A2 & A3 & A4 & A5 & A6 & A7 & A8 & A9 & A10) Hlt Hj.
  unfold Rel, add_job, update_max_ids; simpl.
  split; [now apply map_rel_insert|].
  repeat split; try assumption; try (simpl; lia).
  intros k Hk. apply in_keys_insert in Hk. destruct Hk as [->|Hk]; [lia|]. specialize (A9 k Hk). lia.
Qed.

Lemma fresh_tasks_rel sub : tasks_rel [] (g_attach [] sub).
Proof.
  intros t. rewrite g_attach_is_gen, lookup_attach_gen. simpl.
  destruct (memN t (ids sub)); [|reflexivity]. unfold task_rel; simpl. tauto.
Qed.

Lemma sim_job_events rs g g' e :
  Rel rs g ->
  match e with ESubmit _ _ _ | EJobOpen _ | EJobClose _ | EJobCompleted _ | EJobCancel _ => True | _ => False end ->
  gstep g e = Some g' -> exists rs', rstep rs e = Ok rs' /\ Rel rs' g'.
Proof.
  intros HR He Hg. destruct e; try contradiction; simpl in Hg.
  - (* Submit *)
    destruct closed.
    + destruct ((g_max_job g <? j) && validate [] tasks) eqn:Hc; [|discriminate]. inversion Hg; subst g'. clear Hg.
      apply andb_prop in Hc. destruct Hc as [Hlt Hv]. apply N.ltb_lt in Hlt.
      eexists. split; [reflexivity|]. unfold rstep. simpl rstep_arm.
      replace (update_max_ids rs (ESubmit j true tasks)) with (update_max_ids rs (EJobOpen j)) by reflexivity.
      apply Rel_new_job; [assumption | assumption|].
      destruct (attach_both [] tasks Hv (NoDup_nil _)) as (B1 & B2 & B3 & B4 & B5).
      unfold job_rel; simpl. split; [reflexivity|]. split; [reflexivity|]. split; [apply fresh_tasks_rel|].
      split; [split; [assumption|]|].
      * simpl in B2, B3. change (waiting_map []) with (@nil (N * tstate)) in *.
        cbn [gj_submits gj_tasks attach_subs]. rewrite B2, B3. reflexivity.
      * intros t x. rewrite B4. destruct (memN t (ids tasks)); [|discriminate].
        intros E; inversion E; subst. split; simpl; tauto.
    + destruct (lookup j (g_jobs g)) as [gj|] eqn:Hj; [|discriminate].
      destruct (gj_open gj && validate (gj_tasks gj) tasks) eqn:Hc; [|discriminate]. inversion Hg; subst g'. clear Hg.
      apply andb_prop in Hc. destruct Hc as [Hop Hv].
      destruct (Rel_jobs rs g j gj HR Hj) as (rj & Hrj & (Ho & Hs & Ht & (Hnd & Hat) & Hw)).
      rewrite (rstep_noop_ids rs g); [| assumption | | simpl; tauto | simpl; tauto].
      2:{ simpl. intros k [<-|[]]. now apply lookup_some_keys in Hj. }
      simpl. rewrite Hrj. eexists. split; [reflexivity|].
      eapply Rel_upd_job; try eassumption.
      destruct (attach_both (gj_tasks gj) tasks Hv Hnd) as (B1 & B2 & B3 & B4 & B5).
      unfold job_rel; simpl. split; [congruence|]. split; [congruence|]. split; [|split; [split|]].
      * intros t. rewrite B4. destruct (memN t (ids tasks)) eqn:E.
        -- apply memN_in in E. specialize (B5 t E). specialize (Ht t). rewrite B5 in Ht.
           unfold task_rel; simpl. rewrite Ht. tauto.
        -- apply Ht.
      * assumption.
      * cbn [gj_submits gj_tasks]. rewrite attach_subs_app, Hat, B2, B3. reflexivity.
      * intros t x. rewrite B4. destruct (memN t (ids tasks)); [|apply Hw].
        intros E; inversion E; subst. split; simpl; tauto.
  - (* JobOpen *)
    destruct (g_max_job g <? j) eqn:Hlt; [|discriminate]. inversion Hg; subst g'. clear Hg. apply N.ltb_lt in Hlt.
    eexists. split; [reflexivity|]. unfold rstep. simpl rstep_arm. apply Rel_new_job; [assumption | assumption|].
    unfold job_rel; simpl. split; [reflexivity|]. split; [reflexivity|]. split; [intros t; reflexivity|].
    split; [split; [constructor | reflexivity]|]. intros t x; discriminate.
  - (* JobClose *)
    destruct (lookup j (g_jobs g)) as [gj|] eqn:Hj; [|discriminate].
    destruct (gj_open gj) eqn:Hop; [|discriminate]. inversion Hg; subst g'. clear Hg.
    destruct (Rel_jobs rs g j gj HR Hj) as (rj & Hrj & (Ho & Hs & Ht & Hwf & Hw)).
    rewrite (rstep_noop_ids rs g); [| assumption | | simpl; tauto | simpl; tauto].
    2:{ simpl. intros k [<-|[]]. now apply lookup_some_keys in Hj. }
    simpl. rewrite Hrj. eexists. split; [reflexivity|].
    eapply Rel_upd_job; try eassumption. unfold job_rel; simpl. tauto.
  - (* JobCompleted *)
    destruct (lookup j (g_jobs g)) as [gj|] eqn:Hj; [|discriminate].
    destruct (job_terminated gj); [|discriminate]. inversion Hg; subst g'. clear Hg.
    rewrite (rstep_noop_ids rs g); [| assumption | | simpl; tauto | simpl; tauto].
    2:{ simpl. intros k [<-|[]]. now apply lookup_some_keys in Hj. }
    simpl. eexists. split; [reflexivity|].
    destruct HR as (H & A1 & A2 & A3 & A4 & A5 & A6 & A7 & A8 & A9 & A10).
    unfold Rel, set_jobs, g_set_jobs; simpl. split; [now apply map_rel_remove|].
    repeat split; try assumption. intros k Hk. apply in_keys_remove in Hk. now apply A9.
  - (* JobCancel *)
    destruct (lookup j (g_jobs g)) as [gj|] eqn:Hj; [|discriminate].
    destruct (job_active gj); [|discriminate]. inversion Hg; subst g'. clear Hg.
    destruct (Rel_jobs rs g j gj HR Hj) as (rj & Hrj & _).
    rewrite (rstep_noop_ids rs g); [| assumption | | simpl; tauto | simpl; tauto].
    2:{ simpl. intros k [<-|[]]. now apply lookup_some_keys in Hj. }
    simpl. rewrite Hrj. eexists. split; [reflexivity | assumption].
Qed.

(** ** worker events, restart *)

Lemma tasks_rel_map rt gt (f : RTask -> RTask) (h : GTask -> GTask) :
  tasks_rel rt gt ->
  (forall t x, lookup t gt = Some x -> task_rel (lookup t rt) x -> task_rel (option_map f (lookup t rt)) (h x)) ->
  tasks_rel (List.map (fun kv => (fst kv, f (snd kv))) rt) (List.map (fun kv => (fst kv, h (snd kv))) gt).
Proof.
  intros H Hf t. rewrite !lookup_map_values. specialize (H t).
  destruct (lookup t gt) as [x|] eqn:E; simpl.
  - now apply Hf.
  - now rewrite H.
Qed.

Lemma job_wf_map gj (h : GTask -> GTask) :
  job_wf gj -> job_wf (mkGJ (gj_open gj) (gj_submits gj) (List.map (fun kv => (fst kv, h (snd kv))) (gj_tasks gj))).
Proof.
  intros [A B]. unfold job_wf; simpl.
  assert (E : keys (List.map (fun kv : N * GTask => (fst kv, h (snd kv))) (gj_tasks gj)) = keys (gj_tasks gj))
    by (unfold keys; rewrite map_map; now apply map_ext).
  rewrite E. split; assumption.
Qed.

Lemma map_id_values {V} (m : map V) : List.map (fun kv => (fst kv, id (snd kv))) m = m.
Proof. induction m as [|[k v] m IH]; simpl; [reflexivity | now rewrite IH]. Qed.

Lemma g_lose_task_ws w f x : gt_ws (g_lose_task w f x) = gt_ws x.
Proof. unfold g_lose_task. destruct (gt_state x); try reflexivity. destruct (gt_ws x) as [|r0 l] eqn:E; [exact E|]. destruct (N.eqb r0 w); simpl; congruence. Qed.

Lemma g_lose_task_waiting w f x :
  gt_state (g_lose_task w f x) = GWaiting ->
  gt_state x = GWaiting \/ (exists l, gt_ws x = w :: l).
Proof.
  unfold g_lose_task. destruct (gt_state x) eqn:Hs; try (rewrite Hs; intros; discriminate); try tauto.
  destruct (gt_ws x) as [|r0 l]; [rewrite Hs; discriminate|].
  destruct (N.eqb r0 w) eqn:E; [|rewrite Hs; discriminate].
  apply N.eqb_eq in E; subst. intros _. right. eauto.
Qed.

Lemma sim_lost rs g g' w r :
  Rel rs g -> gstep g (EWorkerLost w r) = Some g' ->
  exists rs', rstep rs (EWorkerLost w r) = Ok rs' /\ Rel rs' g'.
Proof.
  intros HR Hg. simpl in Hg. destruct (memN w (g_workers g)) eqn:Hw; [|discriminate].
  inversion Hg; subst g'. clear Hg. apply memN_in in Hw.
  rewrite (rstep_noop_ids rs g); [| assumption | simpl; tauto | | simpl; tauto].
  2:{ simpl. intros k [<-|[]]. assumption. }
  destruct HR as (H & A1 & A2 & A3 & A4 & A5 & A6 & A7 & A8 & A9 & A10).
  set (ws' := filter (fun x => negb (N.eqb x w)) (g_workers g)).
  assert (Hjob : forall rj gj, job_rel (g_workers g) (g_max_worker g) rj gj ->
            job_rel ws' (g_max_worker g) (if is_failure r then bump_job w rj else rj) (g_lose_job w (is_failure r) gj)).
  { intros rj gj (Ho & Hs & Ht & Hwf & Hwi).
    assert (Hts : tasks_rel (rj_tasks (if is_failure r then bump_job w rj else rj))
                            (List.map (fun kv => (fst kv, g_lose_task w (is_failure r) (snd kv))) (gj_tasks gj))).
    { assert (Hcore : forall f, f = is_failure r -> forall t x, lookup t (gj_tasks gj) = Some x ->
                task_rel (lookup t (rj_tasks rj)) x ->
                task_rel (option_map (if f then bump_task w else id) (lookup t (rj_tasks rj))) (g_lose_task w f x)).
      { intros f _ t x Hl Hrel. specialize (Hwi t x Hl). destruct Hwi as [Wa Wb].
        unfold task_rel in Hrel |- *. unfold g_lose_task.
        destruct (gt_last x) as [i|] eqn:Hlast.
        - rewrite Hrel. unfold rstate_of.
          destruct (gt_state x) eqn:Hst; simpl.
          + (* waiting after a start: the root is not connected, hence not [w] *)
            rewrite Hlast. unfold rstate_of. rewrite Hst. destruct f; simpl; [|reflexivity].
            unfold bump_task; simpl. destruct (gt_ws x) as [|r0 l]; [reflexivity|].
            specialize (Wb eq_refl). destruct (N.eqb r0 w) eqn:E; [|reflexivity].
            apply N.eqb_eq in E. subst. contradiction.
          + destruct (gt_ws x) as [|r0 l] eqn:Hws.
            * rewrite Hlast. unfold rstate_of. rewrite Hst, Hws. destruct f; reflexivity.
            * destruct (N.eqb r0 w) eqn:E; simpl.
              -- unfold rstate_of; simpl. destruct f; simpl; unfold bump_task; simpl; try rewrite E; try rewrite Hws; reflexivity.
              -- rewrite Hlast. unfold rstate_of. rewrite Hst, Hws. destruct f; simpl; [|reflexivity].
                 unfold bump_task; simpl. now rewrite E.
          + rewrite Hlast. unfold rstate_of. rewrite Hst. destruct f; reflexivity.
          + rewrite Hlast. unfold rstate_of. rewrite Hst. destruct f; reflexivity.
          + rewrite Hlast. unfold rstate_of. rewrite Hst. destruct f; reflexivity.
          + rewrite Hlast. unfold rstate_of. rewrite Hst. destruct f; reflexivity.
        - destruct Hrel as [Hc0 Hoo]. destruct (gt_state x) eqn:Hst; try contradiction;
            rewrite Hlast; (split; [assumption|]); rewrite Hst; rewrite Hoo; destruct f; reflexivity. }
      destruct (is_failure r) eqn:Hf.
      - apply tasks_rel_map; [assumption|]. exact (Hcore true eq_refl).
      - rewrite <- (map_id_values (rj_tasks rj)). apply tasks_rel_map; [assumption|]. exact (Hcore false eq_refl). }
    unfold job_rel, g_lose_job. cbn [gj_open gj_submits gj_tasks].
    split; [destruct (is_failure r); simpl; assumption|].
    split; [destruct (is_failure r); simpl; assumption|].
    split; [exact Hts|]. split; [now apply job_wf_map|].
    intros t x'. rewrite lookup_map_values. destruct (lookup t (gj_tasks gj)) as [x|] eqn:Hl; simpl; [|discriminate].
    intros E; inversion E; subst x'. clear E. destruct (Hwi t x Hl) as [Wa Wb].
    split; [rewrite g_lose_task_ws; exact Wa|].
    intros Hst. rewrite g_lose_task_ws. apply g_lose_task_waiting in Hst. destruct Hst as [Hst|[l Hl']].
    - specialize (Wb Hst). destruct (gt_ws x); [exact I|]. unfold ws'. rewrite filter_In. tauto.
    - rewrite Hl'. unfold ws'. rewrite filter_In. rewrite N.eqb_refl. simpl. intros [_ F]; discriminate. }
  assert (Hk : keys (List.map (fun kv : N * GJob => (fst kv, g_lose_job w (is_failure r) (snd kv))) (g_jobs g)) = keys (g_jobs g))
    by (unfold keys; rewrite map_map; now apply map_ext).
  assert (Hws' : forall x, In x ws' -> x <= g_max_worker g) by (intros x Hx; apply filter_In in Hx; now apply A8).
  simpl. destruct (is_failure r) eqn:Hf.
  - eexists. split; [reflexivity|]. unfold Rel, set_jobs; simpl.
    split; [apply (map_rel_map _ _ (bump_job w) (g_lose_job w true) _ _ H); intros a b Hab; exact (Hjob a b Hab)|].
    repeat split; try assumption. intros k Hkk. rewrite Hk in Hkk. now apply A9.
  - eexists. split; [reflexivity|]. unfold Rel; simpl.
    split; [apply (map_rel_map_r _ _ (g_lose_job w false) _ _ H); intros a b Hab; exact (Hjob a b Hab)|].
    repeat split; try assumption. intros k Hkk. rewrite Hk in Hkk. now apply A9.
Qed.

Lemma sim_connected rs g g' w alloc :
  Rel rs g -> gstep g (EWorkerConnected w alloc) = Some g' ->
  exists rs', rstep rs (EWorkerConnected w alloc) = Ok rs' /\ Rel rs' g'.
Proof.
  intros HR Hg. simpl in Hg. destruct (g_max_worker g <? w) eqn:Hlt; [|discriminate].
  inversion Hg; subst g'. clear Hg. apply N.ltb_lt in Hlt.
  destruct HR as (H & A1 & A2 & A3 & A4 & A5 & A6 & A7 & A8 & A9 & A10).
  eexists. split; [reflexivity|]. unfold Rel, update_max_ids; simpl.
  split.
  - eapply map_rel_impl; [exact H|]. intros rj gj (Ho & Hs & Ht & Hwf & Hwi).
    unfold job_rel. repeat (split; [assumption|]). intros t x Hl. destruct (Hwi t x Hl) as [Wa Wb].
    split; [intros w0 Hw0; specialize (Wa w0 Hw0); lia|].
    intros Hst. specialize (Wb Hst). destruct (gt_ws x) as [|r0 l] eqn:E; [exact I|].
    simpl. intros [F|F]; [|contradiction]. subst. specialize (Wa r0 (or_introl eq_refl)). lia.
  - rewrite A4, A5. repeat split; try assumption; try (simpl; lia).
    intros w0 [<-|Hw0]; [lia|]. specialize (A8 w0 Hw0). lia.
Qed.

Lemma sim_restart rs g g' u :
  Rel rs g -> gstep g (EServerStart u) = Some g' ->
  exists rs', rstep rs (EServerStart u) = Ok rs' /\ Rel rs' g'.
Proof.
  intros HR Hg. simpl in Hg. destruct (match g_uid g with Some u' => u =? u' | None => true end); [|discriminate].
  inversion Hg; subst g'. clear Hg.
  rewrite (rstep_noop_ids rs g); [| assumption | simpl; tauto | simpl; tauto | simpl; tauto].
  destruct HR as (H & A1 & A2 & A3 & A4 & A5 & A6 & A7 & A8 & A9 & A10).
  eexists. split; [reflexivity|]. unfold Rel; simpl.
  split.
  - apply (map_rel_map_r _ _ g_restart_job _ _ H). intros rj gj (Ho & Hs & Ht & Hwf & Hwi).
    unfold job_rel, g_restart_job. cbn [gj_open gj_submits gj_tasks].
    split; [assumption|]. split; [assumption|]. split; [|split; [now apply job_wf_map|]].
    + rewrite <- (map_id_values (rj_tasks rj)). apply tasks_rel_map; [assumption|].
      intros t x Hl Hrel. replace (option_map id (lookup t (rj_tasks rj))) with (lookup t (rj_tasks rj)) by (now destruct (lookup t (rj_tasks rj))).
      destruct (gt_state x) eqn:Hst;
        try (assert (Hx : g_restart_task x = x) by (unfold g_restart_task; now rewrite Hst); rewrite Hx; exact Hrel).
      unfold g_restart_task. rewrite Hst. unfold task_rel in *. simpl.
      destruct (gt_last x); [|rewrite Hst in Hrel; destruct Hrel as [_ []]].
      rewrite Hrel. unfold rstate_of; simpl. now rewrite Hst.
    + intros t x'. rewrite lookup_map_values. destruct (lookup t (gj_tasks gj)) as [x|] eqn:Hl; simpl; [|discriminate].
      intros E; inversion E; subst x'. destruct (Hwi t x Hl) as [Wa Wb].
      unfold g_restart_task. destruct (gt_state x) eqn:Hst; split; simpl; try assumption; try (rewrite Hst; discriminate);
        try (intros _; destruct (gt_ws x); [exact I | tauto]).
  - assert (Hk : keys (List.map (fun kv : N * GJob => (fst kv, g_restart_job (snd kv))) (g_jobs g)) = keys (g_jobs g))
      by (unfold keys; rewrite map_map; now apply map_ext).
    repeat split; try assumption; try tauto. intros k Hkk. rewrite Hk in Hkk. now apply A9.
Qed.

Lemma sim_simple rs g g' e :
  Rel rs g ->
  match e with
  | EWorkerOverview _ | EQueueCreated _ | EQueueRemoved _ | EAllocQueued _ _ | EAllocStarted _ _
  | EAllocFinished _ _ | EServerStop => True
  | _ => False
  end ->
  gstep g e = Some g' -> exists rs', rstep rs e = Ok rs' /\ Rel rs' g'.
Proof.
  intros HR He Hg. pose proof HR as HR0.
  destruct HR as (H & A1 & A2 & A3 & A4 & A5 & A6 & A7 & A8 & A9 & A10).
  destruct e; try contradiction; simpl in Hg.
  - destruct (memN w (g_workers g)) eqn:Hw; [|discriminate]. inversion Hg; subst g'. apply memN_in in Hw.
    rewrite (rstep_noop_ids rs g); [| assumption | simpl; tauto | | simpl; tauto].
    2:{ simpl. intros k [<-|[]]. assumption. }
    eexists. split; [reflexivity | assumption].
  - destruct (g_max_queue g <? q) eqn:Hlt; [|discriminate]. inversion Hg; subst g'. apply N.ltb_lt in Hlt.
    unfold rstep. simpl.
    assert (Hm : mem q (rs_queues rs) = false).
    { rewrite A6. unfold mem. destruct (lookup q (g_queues g)) eqn:E; [|reflexivity].
      apply lookup_some_keys in E. apply A10 in E. lia. }
    rewrite Hm. eexists. split; [reflexivity|]. unfold Rel; simpl. rewrite A6.
    repeat split; try assumption; try (simpl; lia).
    intros k Hk. apply in_keys_insert in Hk. destruct Hk as [->|Hk]; [lia|]. specialize (A10 k Hk). lia.
  - destruct (mem q (g_queues g)) eqn:Hm; [|discriminate]. inversion Hg; subst g'.
    assert (Hq : q <= g_max_queue g).
    { apply A10. unfold mem in Hm. destruct (lookup q (g_queues g)) eqn:E; [|discriminate]. now apply lookup_some_keys in E. }
    rewrite (rstep_noop_ids rs g); [| assumption | simpl; tauto | simpl; tauto |].
    2:{ simpl. intros k [<-|[]]. assumption. }
    eexists. split; [reflexivity|]. unfold Rel; simpl. rewrite A6.
    repeat split; try assumption. intros k Hk. apply in_keys_remove in Hk. now apply A10.
  - destruct (mem q (g_queues g)) eqn:Hm; [|discriminate]. inversion Hg; subst g'.
    assert (Hq : q <= g_max_queue g).
    { apply A10. unfold mem in Hm. destruct (lookup q (g_queues g)) eqn:E; [|discriminate]. now apply lookup_some_keys in E. }
    rewrite (rstep_noop_ids rs g); [| assumption | simpl; tauto | simpl; tauto |].
    2:{ simpl. intros k [<-|[]]. assumption. }
    eexists. split; [reflexivity|]. unfold Rel; simpl. rewrite A5.
    repeat split; try assumption.
  - destruct (q <=? g_max_queue g) eqn:Hq; [|discriminate]. inversion Hg; subst g'. apply N.leb_le in Hq.
    rewrite (rstep_noop_ids rs g); [| assumption | simpl; tauto | simpl; tauto |].
    2:{ simpl. intros k [<-|[]]. assumption. }
    eexists. split; [reflexivity | assumption].
  - destruct (q <=? g_max_queue g) eqn:Hq; [|discriminate]. inversion Hg; subst g'. apply N.leb_le in Hq.
    rewrite (rstep_noop_ids rs g); [| assumption | simpl; tauto | simpl; tauto |].
    2:{ simpl. intros k [<-|[]]. assumption. }
    eexists. split; [reflexivity | assumption].
  - inversion Hg; subst g'.
    rewrite (rstep_noop_ids rs g); [| assumption | simpl; tauto | simpl; tauto | simpl; tauto].
    eexists. split; [reflexivity | assumption].
Qed.

Lemma sim_batches rs g g' e :
  Rel rs g ->
  match e with ETasksCanceled _ | ETasksAborted _ => True | _ => False end ->
  gstep g e = Some g' -> exists rs', rstep rs e = Ok rs' /\ Rel rs' g'.
Proof.
  intros HR He Hg. destruct e; try contradiction; simpl in Hg.
  - destruct (sim_term_fold GCanceled ids0 rs g g' HR eq_refl Hg) as (HR' & Hall).
    rewrite (rstep_noop_ids rs g); [| assumption | exact Hall | simpl; tauto | simpl; tauto].
    eexists. split; [reflexivity | exact HR'].
  - destruct (sim_term_fold GAborted ids0 rs g g' HR eq_refl Hg) as (HR' & Hall).
    rewrite (rstep_noop_ids rs g); [| assumption | exact Hall | simpl; tauto | simpl; tauto].
    eexists. split; [reflexivity | exact HR'].
Qed.

(** One record. *)
Lemma step_sim rs g g' e :
  Rel rs g -> gstep g e = Some g' -> exists rs', rstep rs e = Ok rs' /\ Rel rs' g'.
Proof.
  intros HR Hg. destruct e eqn:E.
  1-5: (eapply sim_job_events; [eassumption | exact I | eassumption]).
  - eapply sim_started; eassumption.
  - eapply sim_finished; eassumption.
  - eapply sim_failed; eassumption.
  - eapply sim_batches; [eassumption | exact I | eassumption].
  - eapply sim_batches; [eassumption | exact I | eassumption].
  - eapply sim_connected; eassumption.
  - eapply sim_lost; eassumption.
  - eapply sim_simple; [eassumption | exact I | eassumption].
  - eapply sim_simple; [eassumption | exact I | eassumption].
  - eapply sim_simple; [eassumption | exact I | eassumption].
  - eapply sim_simple; [eassumption | exact I | eassumption].
  - eapply sim_simple; [eassumption | exact I | eassumption].
  - eapply sim_simple; [eassumption | exact I | eassumption].
  - eapply sim_restart; eassumption.
  - eapply sim_simple; [eassumption | exact I | eassumption].
Qed.

(** The whole journal. *)
Lemma load_sim evs : forall rs g g',
  Rel rs g -> grun g evs = Some g' -> exists rs', load rs evs = Ok rs' /\ Rel rs' g'.
Proof.
  induction evs as [|e evs IH]; intros rs g g' HR Hg; simpl in *.
  - inversion Hg; subst. eauto.
  - destruct (gstep g e) as [g1|] eqn:E; [|discriminate].
    destruct (step_sim rs g g1 e HR E) as (rs1 & Hs & HR1). rewrite Hs. eapply IH; eassumption.
Qed.

(** * [finish]: restoring the jobs from a related restorer state yields [abs] *)

Definition batches_of (jid : N) (rt : map RTask) (subs : list (list TaskSpec)) : list Batch :=
  flat_map (fun sub => match retain_tasks rt sub with [] => [] | nt => [mkB jid nt (batch_adjust rt nt)] end) subs.

Lemma restore_submits_spec jid rt subs : forall tasks out n,
  restore_submits jid rt (tasks, out, n) subs =
  match attach_subs tasks subs with
  | Some t' => Ok (t', out ++ batches_of jid rt subs, n + N.of_nat (length subs))
  | None => Disabled
  end.
Proof.
  induction subs as [|sub subs IH]; intros tasks out n; simpl.
  - rewrite app_nil_r. f_equal. f_equal. lia.
  - destruct (validate tasks sub); simpl; [|reflexivity]. rewrite IH.
    destruct (attach_subs (attach tasks sub) subs); [|reflexivity].
    f_equal. f_equal; [f_equal|lia].
    destruct (retain_tasks rt sub); simpl; [reflexivity | now rewrite <- app_assoc].
Qed.

Definition adj_of (rt : map RTask) (t : N) : option (N * N) :=
  match lookup t rt with Some r => adjust_of r | None => None end.

Lemma lookup_batch_adjust_gen rt nt : forall acc t,
  lookup t (fold_left (fun a t => match lookup (bt_id t) rt with
                        | Some x => match adjust_of x with Some v => insert (bt_id t) v a | None => a end
                        | None => a
                        end) nt acc) =
  if memN t (List.map bt_id nt)
  then match adj_of rt t with Some v => Some v | None => lookup t acc end
  else lookup t acc.
Proof.
  induction nt as [|a nt IH]; intros acc t; simpl; [reflexivity|].
  rewrite IH. unfold adj_of. destruct (N.eqb t (bt_id a)) eqn:E; simpl.
  - apply N.eqb_eq in E. subst t.
    destruct (lookup (bt_id a) rt) as [x|]; [|now destruct (memN (bt_id a) (List.map bt_id nt))].
    destruct (adjust_of x) as [v|]; [|now destruct (memN (bt_id a) (List.map bt_id nt))].
    rewrite lookup_insert_eq. now destruct (memN (bt_id a) (List.map bt_id nt)).
  - assert (Hl : forall v, lookup t (insert (bt_id a) v acc) = lookup t acc)
      by (intros v; apply lookup_insert_neq; apply N.eqb_neq; exact E).
    destruct (lookup (bt_id a) rt) as [x|]; [|reflexivity].
    destruct (adjust_of x) as [v|]; [|reflexivity]. now rewrite Hl.
Qed.

Lemma batch_view_adjust jid rt nt :
  batch_view (mkB jid nt (batch_adjust rt nt)) = (jid, List.map (fun t => (bt_id t, bt_deps t, adj_of rt (bt_id t))) nt).
Proof.
  unfold batch_view; simpl. f_equal. apply map_ext_in. intros t Hin. f_equal.
  unfold batch_adjust. rewrite lookup_batch_adjust_gen. simpl.
  assert (Hm : memN (bt_id t) (List.map bt_id nt) = true) by (apply memN_in; now apply in_map).
  rewrite Hm. now destruct (adj_of rt (bt_id t)).
Qed.

Section JobFinish.
  Variables (rt : map RTask) (gt : map GTask).
  Hypothesis Hrel : tasks_rel rt gt.

  Lemma completed_terminal t : is_task_completed rt t = g_task_terminal gt t.
  Proof.
    unfold is_task_completed, g_task_terminal. specialize (Hrel t).
    destruct (lookup t gt) as [x|]; [|now rewrite Hrel].
    unfold task_rel in Hrel. destruct (gt_last x).
    - rewrite Hrel. simpl. unfold rstate_of. now destruct (gt_state x).
    - destruct Hrel as [_ H]. destruct (gt_state x); try contradiction; rewrite H; reflexivity.
  Qed.

  Lemma adj_abs t : adj_of rt t = abs_adjust gt t.
  Proof.
    unfold adj_of, abs_adjust. specialize (Hrel t).
    destruct (lookup t gt) as [x|]; [|now rewrite Hrel].
    unfold task_rel in Hrel. destruct (gt_last x).
    - rewrite Hrel. unfold adjust_of; simpl. now rewrite Bool.orb_true_r.
    - destruct Hrel as [Hc H]. rewrite Hc. simpl.
      destruct (gt_state x); try contradiction; rewrite H; reflexivity.
  Qed.

  Lemma retain_abs sub :
    List.map (fun t => (bt_id t, bt_deps t, adj_of rt (bt_id t))) (retain_tasks rt sub) = abs_batch gt sub.
  Proof.
    unfold retain_tasks, abs_batch. induction sub as [|ts sub IH]; simpl; [reflexivity|].
    rewrite completed_terminal. destruct (g_task_terminal gt (ts_id ts)); simpl; [exact IH|].
    rewrite IH, adj_abs. f_equal. f_equal. f_equal. apply filter_ext. intros d. now rewrite completed_terminal.
  Qed.

  Lemma batches_abs jid subs :
    List.map batch_view (batches_of jid rt subs) =
    flat_map (fun sub => match abs_batch gt sub with [] => [] | b => [(jid, b)] end) subs.
  Proof.
    unfold batches_of. induction subs as [|sub subs IH]; simpl; [reflexivity|].
    rewrite map_app, IH. f_equal. rewrite <- retain_abs.
    destruct (retain_tasks rt sub) as [|a l] eqn:E; [reflexivity|].
    cbn [List.map]. rewrite batch_view_adjust. reflexivity.
  Qed.

  Lemma elem_state k x :
    task_rel (lookup k rt) x ->
    match lookup k rt with
    | Some r => if completed (rt_state r) then (k, rt_state r) else (k, TWaiting)
    | None => (k, TWaiting)
    end = (k, gclass (gt_state x))
    /\ forall c, match lookup k rt with Some r => bump_counter c (rt_state r) | None => c end
                 = bump_counter c (gclass (gt_state x)).
  Proof.
    unfold task_rel. destruct (gt_last x).
    - intros ->. simpl. unfold rstate_of. destruct (gt_state x); simpl; split; reflexivity.
    - intros [_ H]. destruct (gt_state x); try contradiction; rewrite H; simpl; split; reflexivity.
  Qed.

  Lemma loops_abs (l : map GTask) :
    Forall (fun kv => task_rel (lookup (fst kv) rt) (snd kv)) l ->
    loop_states rt (waiting_map (keys l)) = List.map (fun tv => (fst tv, gclass (gt_state (snd tv)))) l
    /\ forall c, loop_counters rt (waiting_map (keys l)) c
                 = fold_left (fun c kv => bump_counter c (gclass (gt_state (snd kv)))) l c.
  Proof.
    induction 1 as [|[k x] l Hx _ IH]; simpl; [split; reflexivity|].
    destruct (elem_state k x Hx) as [E1 E2]. destruct IH as [I1 I2]. split.
    - unfold loop_states in *. simpl. rewrite I1. f_equal.
      destruct (lookup k rt) as [r|]; [|exact E1]. destruct (completed (rt_state r)); exact E1.
    - intros c. unfold loop_counters in *. simpl. rewrite E2. apply I2.
  Qed.
End JobFinish.

Lemma restore_job_abs ws mw jid rj gj :
  job_rel ws mw rj gj ->
  exists bs, restore_job jid rj = Ok (abs_job (jid, gj), bs)
             /\ List.map batch_view bs = abs_batches (jid, gj).
Proof.
  intros (Ho & Hs & Ht & (Hnd & Hat) & _). unfold restore_job.
  rewrite restore_submits_spec, Hs, Hat. eexists. split; [|simpl; apply (batches_abs _ _ Ht)].
  assert (HF : Forall (fun kv => task_rel (lookup (fst kv) (rj_tasks rj)) (snd kv)) (gj_tasks gj)).
  { apply Forall_forall. intros [k x] Hin. simpl. pose proof (in_lookup k x _ Hnd Hin) as Hl.
    specialize (Ht k). now rewrite Hl in Ht. }
  destruct (loops_abs _ (gj_tasks gj) HF) as [L1 L2].
  unfold abs_job, abs_counters. rewrite L1, L2, Ho. simpl. reflexivity.
Qed.

Lemma restore_jobs_abs ws mw rjs gjs :
  map_rel (job_rel ws mw) rjs gjs ->
  exists bs, restore_jobs rjs = Ok (List.map abs_job gjs, bs)
             /\ List.map batch_view bs = flat_map abs_batches gjs.
Proof.
  induction 1 as [|[j rj] [j' gj] l1 l2 [Hk Hj] _ IH]; simpl in *.
  - exists []. split; reflexivity.
  - subst j'. destruct (restore_job_abs ws mw j rj gj Hj) as (bs & E & Hb). rewrite E.
    destruct IH as (bss & E' & Hb'). rewrite E'. exists (bs ++ bss). split; [reflexivity|].
    rewrite map_app, Hb, Hb'. reflexivity.
Qed.

(** ** C10: the two theorems *)

Theorem restore_refines : forall evs g,
  grun g0 evs = Some g -> exists r, restore evs = Ok r /\ view r = abs g.
Proof.
  intros evs g Hg. destruct (load_sim evs rs0 g0 g Rel0 Hg) as (rs & Hl & HR).
  unfold restore. rewrite Hl. unfold finish.
  destruct HR as (H & A1 & A2 & A3 & A4 & A5 & A6 & A7 & _).
  destruct (restore_jobs_abs _ _ _ _ H) as (bs & E & Hb). rewrite E.
  eexists. split; [reflexivity|]. unfold view, abs; simpl.
  rewrite Hb, A1, A2, A3, A4, A6, A7. reflexivity.
Qed.

Theorem restore_total : forall evs k g,
  grun g0 evs = Some g -> exists r, restore (firstn k evs) = Ok r.
Proof.
  intros evs k g Hg.
  assert (Hp : exists g', grun g0 (firstn k evs) = Some g').
  { clear - Hg. revert k g Hg. generalize g0. induction evs as [|e evs IH]; intros s k g Hg; destruct k; simpl in *; eauto.
    destruct (gstep s e) as [s1|]; [|discriminate]. eapply IH; eassumption. }
  destruct Hp as [g' Hg']. destruct (restore_refines _ _ Hg') as (r & Hr & _). eauto.
Qed.

(** The counters of a restored job never exceed its task count: [n_waiting_tasks] cannot underflow. *)
Lemma c_sum_bump c s : c_sum (bump_counter c s) <= c_sum c + 1.
Proof. destruct c, s; unfold c_sum; simpl; lia. Qed.

Lemma c_sum_fold (l : map GTask) : forall c,
  c_sum (fold_left (fun c kv => bump_counter c (gclass (gt_state (snd kv)))) l c) <= c_sum c + N.of_nat (length l).
Proof.
  induction l as [|kv l IH]; intros c; simpl length; cbn [fold_left]; [lia|].
  specialize (IH (bump_counter c (gclass (gt_state (snd kv))))).
  pose proof (c_sum_bump c (gclass (gt_state (snd kv)))). lia.
Qed.

Theorem restore_counters_safe : forall evs g r,
  grun g0 evs = Some g -> restore evs = Ok r ->
  forall j, In j (r_jobs r) -> exists n, n_waiting j = Ok n.
Proof.
  intros evs g r Hg Hr j Hin. destruct (restore_refines evs g Hg) as (r' & Hr' & Hv).
  rewrite Hr in Hr'. inversion Hr'; subst r'. clear Hr'.
  assert (Hj : r_jobs r = List.map abs_job (g_jobs g)) by (unfold view, abs in Hv; now inversion Hv).
  rewrite Hj in Hin. apply in_map_iff in Hin. destruct Hin as [[jid gj] [<- _]].
  unfold n_waiting, abs_job, n_tasks; simpl. rewrite map_length.
  pose proof (c_sum_fold (gj_tasks gj) c0) as Hc. unfold abs_counters.
  change (c_sum c0) with 0 in Hc.
  destruct (c_sum _ <=? N.of_nat (length (gj_tasks gj))) eqn:E; [eauto|].
  apply N.leb_gt in E. lia.
Qed.

(** Non-vacuity: a history with two submits into an open job, a failure before start, a crash of a
    running task with its worker, a restart of the task, a cancel and a server restart is
    producible, and [restore] reproduces its abstraction. *)
Definition example_journal : list Event :=
  [ EServerStart 7; EJobOpen 1;
    ESubmit 1 false [mkTS 0 (CMax 5) []; mkTS 1 (CMax 5) []];
    EWorkerConnected 1 None; ETaskStarted 1 0 0 [1]; ETaskFinished 1 0;
    ESubmit 1 false [mkTS 2 CNever [0]; mkTS 3 CUnlimited [2]];
    ETaskFailed 1 1;
    ETaskStarted 1 2 0 [1]; EWorkerLost 1 RConnLost;
    EWorkerConnected 2 None; ETaskStarted 1 2 1 [2];
    ESubmit 2 true [mkTS 0 (CMax 1) []]; EJobCancel 2; ETasksCanceled [(2, 0)]; EJobCompleted 2;
    EServerStart 7 ].

Example example_producible : exists g, grun g0 example_journal = Some g /\ length (g_jobs g) = 1%nat.
Proof. eexists. split; vm_compute; reflexivity. Qed.

Example example_restored :
  exists r, restore example_journal = Ok r
            /\ List.map batch_view (r_batches r) = [(1, [(2, [], Some (2, 1)); (3, [2], None)])]
            /\ List.map sj_counters (r_jobs r) = [mkC 0 1 1 0 0].
Proof. eexists. split; [vm_compute; reflexivity | split; reflexivity]. Qed.
