(** C10: restore of every producible journal succeeds and yields exactly the abstraction of the
    history's state ([restore evs = Ok r /\ view r = abs g]).  Proof: a simulation between the
    restorer fold ([rstep]) and the journal-producing state machine ([gstep]). *)
From HQ Require Import Base.Prelude Journal.Event Journal.Maps Journal.Restore Journal.Gen.
Require Import ZifyBool ZifyN.
Open Scope N_scope.
Arguments N.add : simpl never.
Arguments N.max : simpl never.
Arguments N.ltb : simpl never.
Arguments N.leb : simpl never.

(** * The simulation relation *)

Definition rstate_of (x : GTask) : tstate :=
  match gt_state x with GWaiting | GRunning => TRunning (gt_ws x) | s => gclass s end.

(** The restorer's record of a task, given the task's abstract state. *)
Definition task_rel (o : option RTask) (x : GTask) : Prop :=
  match gt_last x with
  | Some i => o = Some (mkRT (rstate_of x) (Some i) (gt_crash x))
  | None => gt_crash x = 0 /\
            match gt_state x with
            | GWaiting => o = None
            | GRunning => False
            | s => o = Some (mkRT (gclass s) None 0)
            end
  end.

Definition tasks_rel (rt : map RTask) (gt : map GTask) : Prop :=
  forall t, match lookup t gt with Some x => task_rel (lookup t rt) x | None => lookup t rt = None end.

(** Worker facts about a task: its workers have been issued; a task that waits after a start
    (worker lost / restart) has a root worker that is not connected any more. *)
Definition task_winv (ws : list N) (mw : N) (x : GTask) : Prop :=
  (forall w, In w (gt_ws x) -> w <= mw) /\
  (gt_state x = GWaiting -> match gt_ws x with r :: _ => ~ In r ws | [] => True end).

(** [attach_submit] of all submits of a job, with [validate_submit] before each. *)
Fixpoint attach_subs (tasks : map tstate) (subs : list (list TaskSpec)) : option (map tstate) :=
  match subs with
  | [] => Some tasks
  | s :: r => if validate tasks s then attach_subs (attach tasks s) r else None
  end.

Definition waiting_map (ks : list N) : map tstate := List.map (fun k => (k, TWaiting)) ks.

Definition job_wf (gj : GJob) : Prop :=
  NoDup (keys (gj_tasks gj)) /\ attach_subs [] (gj_submits gj) = Some (waiting_map (keys (gj_tasks gj))).

Definition job_rel (ws : list N) (mw : N) (rj : RJob) (gj : GJob) : Prop :=
  rj_open rj = gj_open gj /\ rj_submits rj = gj_submits gj /\ tasks_rel (rj_tasks rj) (gj_tasks gj)
  /\ job_wf gj /\ (forall t x, lookup t (gj_tasks gj) = Some x -> task_winv ws mw x).

Definition Rel (rs : RS) (g : G) : Prop :=
  map_rel (job_rel (g_workers g) (g_max_worker g)) (rs_jobs rs) (g_jobs g)
  /\ rs_max_job rs = g_max_job g /\ rs_max_worker rs = g_max_worker g /\ rs_max_queue rs = g_max_queue g
  /\ rs_q2w rs = g_q2w g /\ rs_a2q rs = g_a2q g /\ rs_queues rs = g_queues g /\ rs_uid rs = g_uid g
  /\ (forall w, In w (g_workers g) -> w <= g_max_worker g)
  /\ (forall j, In j (keys (g_jobs g)) -> j <= g_max_job g)
  /\ (forall q, In q (keys (g_queues g)) -> q <= g_max_queue g).

Lemma Rel0 : Rel rs0 g0.
Proof. unfold Rel, rs0, g0; simpl. repeat split; try constructor; try tauto. Qed.

(** * Helper lemmas *)

Lemma list_max_le l m : (forall x, In x l -> x <= m) -> list_max l <= m.
Proof. induction l as [|a l IH]; simpl; intros H; [lia|]. specialize (IH (fun x Hx => H x (or_intror Hx))). specialize (H a (or_introl eq_refl)). lia. Qed.

Lemma update_max_ids_noop s e :
  (forall j, In j (ev_job_ids e) -> j <= rs_max_job s) ->
  (forall w, In w (ev_worker_ids e) -> w <= rs_max_worker s) ->
  (forall q, In q (ev_queue_ids e) -> q <= rs_max_queue s) ->
  update_max_ids s e = s.
Proof.
  intros Hj Hw Hq. apply list_max_le in Hj, Hw, Hq. destruct s; unfold update_max_ids; simpl in *.
  f_equal; apply N.max_l; assumption.
Qed.

Lemma in_keys_insert {V} k k' (v : V) m : In k (keys (insert k' v m)) -> k = k' \/ In k (keys m).
Proof.
  destruct (mem k' m) eqn:E.
  - rewrite keys_insert_mem by assumption. tauto.
  - rewrite keys_insert_new by assumption. rewrite in_app_iff. simpl. intros [H|[H|[]]]; [tauto | now left].
Qed.

Lemma in_keys_remove {V} k k' (m : map V) : In k (keys (remove k' m)) -> In k (keys m).
Proof. rewrite keys_remove. intros H. apply filter_In in H. tauto. Qed.

Lemma lookup_some_keys {V} k (v : V) m : lookup k m = Some v -> In k (keys m).
Proof. intros H. apply lookup_in in H. change k with (fst (k, v)). now apply in_map. Qed.

Lemma map_rel_map_r {A B} (P Q : A -> B -> Prop) (g : B -> B) m1 m2 :
  map_rel P m1 m2 -> (forall a b, P a b -> Q a (g b)) ->
  map_rel Q m1 (List.map (fun kv => (fst kv, g (snd kv))) m2).
Proof.
  intros H Hg. induction H as [|[k1 a1] [k2 b1] l1 l2 [Hk HP] H IH]; simpl in *; [constructor|].
  constructor; [split; [exact Hk | now apply Hg] | exact IH].
Qed.

Lemma map_rel_lookup2 {A B} (P : A -> B -> Prop) k m1 m2 b :
  map_rel P m1 m2 -> lookup k m2 = Some b -> exists a, lookup k m1 = Some a /\ P a b.
Proof.
  intros H Hb. pose proof (map_rel_lookup P k m1 m2 H) as L. rewrite Hb in L.
  destruct (lookup k m1) as [a|]; [eauto | contradiction].
Qed.

(** ** tasks *)

Lemma tasks_rel_insert rt gt t r x :
  tasks_rel rt gt -> task_rel (Some r) x -> tasks_rel (insert t r rt) (insert t x gt).
Proof.
  intros H Hx t'. rewrite !lookup_insert. destruct (N.eqb t' t); [exact Hx | apply H].
Qed.

Lemma tasks_rel_insert_r rt gt t x :
  tasks_rel rt gt -> task_rel (lookup t rt) x -> tasks_rel rt (insert t x gt).
Proof.
  intros H Hx t'. rewrite lookup_insert. destruct (N.eqb t' t) eqn:E; [|apply H].
  apply N.eqb_eq in E. subst. exact Hx.
Qed.

Lemma job_wf_set_task gj t x x0 :
  job_wf gj -> lookup t (gj_tasks gj) = Some x0 -> job_wf (gj_set_task gj t x).
Proof.
  intros [Hnd Ha] Hl. unfold job_wf, gj_set_task; simpl.
  assert (Hm : mem t (gj_tasks gj) = true) by (unfold mem; now rewrite Hl).
  rewrite keys_insert_mem by assumption. split; assumption.
Qed.

Lemma winv_set_task ws mw gj t x :
  (forall t' x', lookup t' (gj_tasks gj) = Some x' -> task_winv ws mw x') -> task_winv ws mw x ->
  forall t' x', lookup t' (gj_tasks (gj_set_task gj t x)) = Some x' -> task_winv ws mw x'.
Proof.
  intros H Hx t' x'. unfold gj_set_task; simpl. rewrite lookup_insert.
  destruct (N.eqb t' t); [intros E; inversion E; subst; exact Hx | apply H].
Qed.

(** Updating one task of one job on both sides. *)
Lemma job_rel_set_task ws mw rj gj t r x x0 :
  job_rel ws mw rj gj -> lookup t (gj_tasks gj) = Some x0 ->
  task_rel (Some r) x -> task_winv ws mw x ->
  job_rel ws mw (set_task rj t r) (gj_set_task gj t x).
Proof.
  intros (Ho & Hs & Ht & Hwf & Hw) Hl Hx Hwx. unfold job_rel, set_task; simpl.
  split; [assumption|]. split; [assumption|]. split; [now apply tasks_rel_insert|].
  split; [exact (job_wf_set_task gj t x x0 Hwf Hl)|].
  exact (winv_set_task ws mw gj t x Hw Hwx).
Qed.

(** ** submits *)

Definition ids (sub : list TaskSpec) : list N := List.map ts_id sub.

Lemma forallb_ext {A} (f g : A -> bool) l : (forall x, f x = g x) -> forallb f l = forallb g l.
Proof. intros H. induction l as [|a l IH]; simpl; [reflexivity | now rewrite H, IH]. Qed.

Definition attach_gen {V} (v : V) (m : map V) (sub : list TaskSpec) : map V :=
  fold_left (fun m ts => insert (ts_id ts) v m) sub m.

Lemma attach_is_gen m sub : attach m sub = attach_gen TWaiting m sub.
Proof. reflexivity. Qed.
Lemma g_attach_is_gen m sub : g_attach m sub = attach_gen fresh_task m sub.
Proof. reflexivity. Qed.

Lemma validate_graph_keys {V W} (m1 : map V) (m2 : map W) seen sub :
  keys m1 = keys m2 -> validate_graph m1 seen sub = validate_graph m2 seen sub.
Proof.
  intros Hk. revert seen. induction sub as [|ts sub IH]; intros seen; simpl; [reflexivity|].
  rewrite IH. f_equal. f_equal. apply forallb_ext. intros d. now rewrite !mem_memN_keys, Hk.
Qed.

Lemma validate_keys {V W} (m1 : map V) (m2 : map W) sub :
  keys m1 = keys m2 -> validate m1 sub = validate m2 sub.
Proof.
  intros Hk. unfold validate. rewrite (validate_graph_keys m1 m2 [] sub Hk). f_equal.
  apply forallb_ext. intros ts. now rewrite !mem_memN_keys, Hk.
Qed.

Lemma validate_graph_nodup {V} (m : map V) seen sub :
  validate_graph m seen sub = true -> NoDup (ids sub) /\ forall t, In t (ids sub) -> ~ In t seen.
Proof.
  revert seen. induction sub as [|ts sub IH]; intros seen; simpl; intros H.
  - split; [constructor | tauto].
  - apply andb_prop in H. destruct H as [H H3]. apply andb_prop in H. destruct H as [H1 H2].
    apply IH in H3. destruct H3 as [Hnd Hdis].
    apply Bool.negb_true_iff in H1. apply memN_false in H1.
    split.
    + constructor; [|assumption]. intros Hin. apply (Hdis _ Hin). now left.
    + intros t [<-|Hin]; [assumption|]. intros Hs. apply (Hdis _ Hin). now right.
Qed.

Lemma validate_new {V} (m : map V) sub :
  validate m sub = true -> NoDup (ids sub) /\ forall t, In t (ids sub) -> mem t m = false.
Proof.
  unfold validate. intros H. apply andb_prop in H. destruct H as [H1 H2].
  apply validate_graph_nodup in H2. split; [tauto|].
  intros t Hin. unfold ids in Hin. apply in_map_iff in Hin. destruct Hin as [ts [<- Hts]].
  rewrite forallb_forall in H1. specialize (H1 ts Hts). now apply Bool.negb_true_iff in H1.
Qed.

Lemma keys_attach_gen {V} (v : V) sub : forall m,
  NoDup (ids sub) -> (forall t, In t (ids sub) -> mem t m = false) ->
  keys (attach_gen v m sub) = keys m ++ ids sub.
Proof.
  induction sub as [|ts sub IH]; intros m Hnd Hnew; simpl.
  - now rewrite app_nil_r.
  - inversion Hnd as [|? ? Hn Hnd']; subst.
    unfold attach_gen in *. simpl. rewrite IH; [| assumption |].
    + rewrite keys_insert_new by (apply Hnew; now left). now rewrite <- app_assoc.
    + intros t Hin. unfold mem. rewrite lookup_insert.
      destruct (N.eqb t (ts_id ts)) eqn:E; [apply N.eqb_eq in E; subst; contradiction|].
      specialize (Hnew t (or_intror Hin)). unfold mem in Hnew. exact Hnew.
Qed.

Lemma lookup_attach_gen {V} (v : V) sub : forall m t,
  lookup t (attach_gen v m sub) = if memN t (ids sub) then Some v else lookup t m.
Proof.
  induction sub as [|ts sub IH]; intros m t; simpl; [reflexivity|].
  unfold attach_gen in *. simpl. rewrite IH. rewrite lookup_insert.
  destruct (memN t (ids sub)); [now rewrite Bool.orb_true_r|].
  rewrite Bool.orb_false_r. reflexivity.
Qed.

Lemma keys_waiting_map ks : keys (waiting_map ks) = ks.
Proof. unfold keys, waiting_map. rewrite map_map. simpl. apply map_id. Qed.

Lemma all_waiting_eq (m : map tstate) :
  Forall (fun kv => snd kv = TWaiting) m -> m = waiting_map (keys m).
Proof.
  induction 1 as [|[k v] m Hv _ IH]; simpl in *; [reflexivity|]. subst v. now rewrite <- IH.
Qed.

Lemma all_waiting_insert k (m : map tstate) :
  Forall (fun kv => snd kv = TWaiting) m -> Forall (fun kv => snd kv = TWaiting) (insert k TWaiting m).
Proof.
  induction 1 as [|[k' v] m Hv H IH]; simpl.
  - constructor; [reflexivity | constructor].
  - destruct (N.eqb k k'); constructor; simpl; auto.
Qed.

Lemma all_waiting_attach sub : forall m,
  Forall (fun kv => snd kv = TWaiting) m -> Forall (fun kv => snd kv = TWaiting) (attach m sub).
Proof.
  induction sub as [|ts sub IH]; intros m H; simpl; [assumption|].
  apply IH. now apply all_waiting_insert.
Qed.

Lemma all_waiting_map ks : Forall (fun kv => snd kv = TWaiting) (waiting_map ks).
Proof. unfold waiting_map. apply Forall_forall. intros kv H. apply in_map_iff in H. destruct H as [k [<- _]]. reflexivity. Qed.

Lemma attach_subs_app subs : forall m sub,
  attach_subs m (subs ++ [sub]) =
  match attach_subs m subs with
  | Some m' => if validate m' sub then Some (attach m' sub) else None
  | None => None
  end.
Proof.
  induction subs as [|s subs IH]; intros m sub; simpl; [reflexivity|].
  destruct (validate m s); [apply IH | reflexivity].
Qed.

(** A valid submit attached on both sides. *)
Lemma attach_both (gt : map GTask) sub :
  validate gt sub = true -> NoDup (keys gt) ->
  NoDup (keys (g_attach gt sub))
  /\ validate (waiting_map (keys gt)) sub = true
  /\ attach (waiting_map (keys gt)) sub = waiting_map (keys (g_attach gt sub))
  /\ (forall t, lookup t (g_attach gt sub) = if memN t (ids sub) then Some fresh_task else lookup t gt)
  /\ (forall t, In t (ids sub) -> lookup t gt = None).
Proof.
  intros Hv Hnd. pose proof (validate_new gt sub Hv) as [Hnds Hnew].
  assert (Hk : keys (g_attach gt sub) = keys gt ++ ids sub) by (rewrite g_attach_is_gen; now apply keys_attach_gen).
  assert (Hv' : validate (waiting_map (keys gt)) sub = true)
    by (rewrite (validate_keys (waiting_map (keys gt)) gt sub); [assumption | apply keys_waiting_map]).
  split; [|split; [assumption | split; [|split]]].
  - rewrite Hk. clear - Hnd Hnds Hnew. induction (ids sub) as [|a l IH] using rev_ind; [now rewrite app_nil_r|].
    pose proof (NoDup_remove_1 l [] a Hnds) as X1. pose proof (NoDup_remove_2 l [] a Hnds) as X2.
    rewrite app_nil_r in X1, X2.
    rewrite app_assoc. apply nodup_snoc.
    + apply IH; [assumption | intros t Ht; apply Hnew; rewrite in_app_iff; now left].
    + rewrite in_app_iff. intros [H|H]; [|contradiction].
      assert (Hm : mem a gt = false) by (apply Hnew; rewrite in_app_iff; right; now left).
      rewrite mem_memN_keys in Hm. apply memN_false in Hm. contradiction.
  - rewrite (all_waiting_eq (attach (waiting_map (keys gt)) sub)) by (apply all_waiting_attach, all_waiting_map).
    f_equal. rewrite attach_is_gen, keys_attach_gen; [now rewrite keys_waiting_map, Hk | assumption |].
    intros t Ht. rewrite mem_memN_keys, keys_waiting_map, <- mem_memN_keys. now apply Hnew.
  - intros t. rewrite g_attach_is_gen. apply lookup_attach_gen.
  - intros t Ht. specialize (Hnew t Ht). unfold mem in Hnew. now destruct (lookup t gt).
Qed.

(** * The simulation, event by event *)

Lemma Rel_jobs rs g j gj :
  Rel rs g -> lookup j (g_jobs g) = Some gj ->
  exists rj, lookup j (rs_jobs rs) = Some rj /\ job_rel (g_workers g) (g_max_worker g) rj gj.
Proof. intros (H & _) Hl. exact (map_rel_lookup2 _ j _ _ gj H Hl). Qed.

Lemma Rel_jobs_none rs g j : Rel rs g -> lookup j (g_jobs g) = None -> lookup j (rs_jobs rs) = None.
Proof.
  intros (H & _) Hl. pose proof (map_rel_lookup _ j _ _ H) as L. rewrite Hl in L.
  destruct (lookup j (rs_jobs rs)); [contradiction | reflexivity].
Qed.

Lemma rstep_noop_ids rs g e :
  Rel rs g ->
  (forall j, In j (ev_job_ids e) -> In j (keys (g_jobs g))) ->
  (forall w, In w (ev_worker_ids e) -> In w (g_workers g)) ->
  (forall q, In q (ev_queue_ids e) -> q <= g_max_queue g) ->
  rstep rs e = rstep_arm rs e.
Proof.
  intros (_ & Hj & Hw & Hq & _ & _ & _ & _ & Kw & Kj & Kq) Ij Iw Iq. unfold rstep.
  rewrite update_max_ids_noop; [reflexivity | | |].
  - intros j H. rewrite Hj. apply Kj, Ij, H.
  - intros w H. rewrite Hw. apply Kw, Iw, H.
  - intros q H. rewrite Hq. apply Iq, H.
Qed.

(** Replacing the job [j] on both sides by related jobs. *)
Lemma Rel_upd_job rs g j rj' gj' gj0 :
  Rel rs g -> lookup j (g_jobs g) = Some gj0 ->
  job_rel (g_workers g) (g_max_worker g) rj' gj' ->
  Rel (upd_job rs j rj') (g_set_jobs g (insert j gj' (g_jobs g))).
Proof.
  intros (H & Hrest) Hl Hj. unfold Rel, upd_job, set_jobs, g_set_jobs; simpl.
  split; [now apply map_rel_insert|].
  destruct Hrest as (A1 & A2 & A3 & A4 & A5 & A6 & A7 & A8 & A9 & A10).
  repeat (split; [assumption|]). split; [|assumption].
  intros k Hk. apply in_keys_insert in Hk. destruct Hk as [->|Hk]; [|now apply A9].
  apply A9. now apply lookup_some_keys in Hl.
Qed.

Lemma sim_task_update rs g j gj t x0 r x rj :
  Rel rs g -> lookup j (g_jobs g) = Some gj -> lookup t (gj_tasks gj) = Some x0 ->
  lookup j (rs_jobs rs) = Some rj ->
  task_rel (Some r) x -> task_winv (g_workers g) (g_max_worker g) x ->
  Rel (upd_job rs j (set_task rj t r)) (g_upd_task g j gj t x).
Proof.
  intros HR Hj Ht Hrj Hx Hw. unfold g_upd_task.
  destruct (Rel_jobs rs g j gj HR Hj) as (rj' & E & Hrel). rewrite Hrj in E. inversion E; subst rj'.
  eapply Rel_upd_job; try eassumption.
  eapply job_rel_set_task; eassumption.
Qed.

Lemma Rel_task rs g j gj t x rj :
  Rel rs g -> lookup j (g_jobs g) = Some gj -> lookup t (gj_tasks gj) = Some x ->
  lookup j (rs_jobs rs) = Some rj ->
  task_rel (lookup t (rj_tasks rj)) x /\ task_winv (g_workers g) (g_max_worker g) x.
Proof.
  intros HR Hj Ht Hrj. destruct (Rel_jobs rs g j gj HR Hj) as (rj' & E & Hrel). rewrite Hrj in E. inversion E; subst rj'.
  destruct Hrel as (_ & _ & Hts & _ & Hw). split; [|now apply (Hw t x)].
  specialize (Hts t). now rewrite Ht in Hts.
Qed.

Lemma sim_started rs g g' j t inst ws :
  Rel rs g -> gstep g (ETaskStarted j t inst ws) = Some g' ->
  exists rs', rstep rs (ETaskStarted j t inst ws) = Ok rs' /\ Rel rs' g'.
Proof.
  intros HR Hg. simpl in Hg.
  destruct (lookup j (g_jobs g)) as [gj|] eqn:Hj; [|discriminate].
  destruct (lookup t (gj_tasks gj)) as [x|] eqn:Ht; [|discriminate].
  destruct (gt_state x) eqn:Hs; try discriminate. destruct ws as [|w0 ws]; [discriminate|].
  destruct (forallb _ _ && inst_ok _ _) eqn:Hc; [|discriminate]. inversion Hg; subst g'. clear Hg.
  apply andb_prop in Hc. destruct Hc as [Hall _]. rewrite forallb_forall in Hall.
  destruct (Rel_jobs rs g j gj HR Hj) as (rj & Hrj & _).
  destruct (Rel_task rs g j gj t x rj HR Hj Ht Hrj) as [Htr Hwi].
  rewrite (rstep_noop_ids rs g).
  - simpl. rewrite Hrj. eexists. split; [reflexivity|].
    eapply sim_task_update; try eassumption.
    + unfold task_rel; simpl. unfold rstate_of; simpl. f_equal. f_equal.
      unfold task_rel in Htr. destruct (gt_last x).
      * rewrite Htr. reflexivity.
      * destruct Htr as [Hc0 Ho]. rewrite Hs in Ho. rewrite Ho. now rewrite Hc0.
    + split; simpl; [|discriminate]. intros w Hw. destruct HR as (_ & _ & _ & _ & _ & _ & _ & _ & Kw & _).
      apply Kw. apply memN_in. now apply Hall.
  - assumption.
  - simpl. intros k [<-|[]]. now apply lookup_some_keys in Hj.
  - simpl. intros w Hw. apply memN_in. now apply Hall.
  - simpl. tauto.
Qed.

Lemma sim_finished rs g g' j t :
  Rel rs g -> gstep g (ETaskFinished j t) = Some g' ->
  exists rs', rstep rs (ETaskFinished j t) = Ok rs' /\ Rel rs' g'.
Proof.
  intros HR Hg. simpl in Hg.
  destruct (lookup j (g_jobs g)) as [gj|] eqn:Hj; [|discriminate].
  destruct (lookup t (gj_tasks gj)) as [x|] eqn:Ht; [|discriminate].
  destruct (gt_state x) eqn:Hs; try discriminate. inversion Hg; subst g'. clear Hg.
  destruct (Rel_jobs rs g j gj HR Hj) as (rj & Hrj & _).
  destruct (Rel_task rs g j gj t x rj HR Hj Ht Hrj) as [Htr Hwi].
  rewrite (rstep_noop_ids rs g); [| assumption | | simpl; tauto | simpl; tauto].
  2:{ simpl. intros k [<-|[]]. now apply lookup_some_keys in Hj. }
  simpl. rewrite Hrj. unfold task_rel in Htr. rewrite Hs in Htr.
  destruct (gt_last x) as [i|] eqn:Hl; [|destruct Htr as [_ []]].
  rewrite Htr. simpl. unfold rstate_of. rewrite Hs. eexists. split; [reflexivity|].
  eapply sim_task_update; try eassumption.
  - unfold task_rel; simpl. try rewrite Hl. reflexivity.
  - destruct Hwi as [A B]. split; simpl; [assumption | discriminate].
Qed.

Lemma sim_failed rs g g' j t :
  Rel rs g -> gstep g (ETaskFailed j t) = Some g' ->
  exists rs', rstep rs (ETaskFailed j t) = Ok rs' /\ Rel rs' g'.
Proof.
  intros HR Hg. simpl in Hg.
  destruct (lookup j (g_jobs g)) as [gj|] eqn:Hj; [|discriminate].
  destruct (lookup t (gj_tasks gj)) as [x|] eqn:Ht; [|discriminate].
  destruct (g_terminal (gt_state x)) eqn:Hs; try discriminate. inversion Hg; subst g'. clear Hg.
  destruct (Rel_jobs rs g j gj HR Hj) as (rj & Hrj & _).
  destruct (Rel_task rs g j gj t x rj HR Hj Ht Hrj) as [Htr Hwi].
  rewrite (rstep_noop_ids rs g); [| assumption | | simpl; tauto | simpl; tauto].
  2:{ simpl. intros k [<-|[]]. now apply lookup_some_keys in Hj. }
  simpl. rewrite Hrj. unfold task_rel in Htr.
  assert (Hw' : task_winv (g_workers g) (g_max_worker g) (mkGT GFailed (gt_last x) (gt_ws x) (gt_crash x)))
    by (destruct Hwi as [A B]; split; simpl; [assumption | discriminate]).
  destruct (gt_last x) as [i|] eqn:Hl.
  - rewrite Htr. simpl. unfold rstate_of.
    destruct (gt_state x) eqn:Hst; try discriminate; simpl;
      (eexists; split; [reflexivity|]; eapply sim_task_update; try eassumption;
       unfold task_rel; simpl; try rewrite Hl; reflexivity).
  - destruct Htr as [Hc0 Ho].
    destruct (gt_state x) eqn:Hst; try discriminate; try contradiction.
    rewrite Ho. eexists. split; [reflexivity|]. eapply sim_task_update; try eassumption.
    unfold task_rel; simpl. try rewrite Hl. split; [assumption | reflexivity].
Qed.

(** ** batched cancel / abort *)

Lemma fold_term_none term ids : fold_left (g_term_one term) ids None = None.
Proof. induction ids; simpl; auto. Qed.

Lemma g_upd_task_keys g j gj t x :
  lookup j (g_jobs g) = Some gj -> keys (g_jobs (g_upd_task g j gj t x)) = keys (g_jobs g).
Proof. intros H. unfold g_upd_task; simpl. apply keys_insert_mem. unfold mem. now rewrite H. Qed.

Lemma sim_term_one rs g g' gterm id :
  Rel rs g -> g_terminal gterm = true ->
  g_term_one gterm (Some g) id = Some g' ->
  Rel (term_one (gclass gterm) rs id) g' /\ In (fst id) (keys (g_jobs g)) /\ keys (g_jobs g') = keys (g_jobs g).
Proof.
  intros HR Hterm Hg. destruct id as [j t]. simpl in Hg.
  destruct (lookup j (g_jobs g)) as [gj|] eqn:Hj; [|discriminate].
  destruct (lookup t (gj_tasks gj)) as [x|] eqn:Ht; [|discriminate].
  destruct (g_terminal (gt_state x)) eqn:Hs; [discriminate|]. inversion Hg; subst g'. clear Hg.
  split; [|split; [simpl; now apply lookup_some_keys in Hj | now apply g_upd_task_keys]].
  destruct (Rel_jobs rs g j gj HR Hj) as (rj & Hrj & _).
  destruct (Rel_task rs g j gj t x rj HR Hj Ht Hrj) as [Htr Hwi].
  unfold term_one. rewrite Hrj.
  assert (Hw' : task_winv (g_workers g) (g_max_worker g) (mkGT gterm (gt_last x) (gt_ws x) (gt_crash x))).
  { destruct Hwi as [A B]. split; simpl; [assumption|]. intros E. rewrite E in Hterm. discriminate. }
  unfold task_rel in Htr. destruct (gt_last x) as [i|] eqn:Hl.
  - rewrite Htr. simpl. eapply sim_task_update; try eassumption.
    unfold task_rel; simpl. try rewrite Hl. unfold rstate_of; simpl.
    destruct gterm; try discriminate; reflexivity.
  - destruct Htr as [Hc0 Ho]. destruct (gt_state x) eqn:Hst; try discriminate; try contradiction.
    rewrite Ho. eapply sim_task_update; try eassumption.
    unfold task_rel; simpl. try rewrite Hl. split; [assumption|].
    destruct gterm; try discriminate; reflexivity.
Qed.

Lemma sim_term_fold gterm ids : forall rs g g',
  Rel rs g -> g_terminal gterm = true ->
  fold_left (g_term_one gterm) ids (Some g) = Some g' ->
  Rel (fold_left (term_one (gclass gterm)) ids rs) g'
  /\ (forall j, In j (List.map fst ids) -> In j (keys (g_jobs g))).
Proof.
  induction ids as [|id ids IH]; intros rs g g' HR Ht Hg; cbn [fold_left List.map In] in *.
  - inversion Hg; subst. split; [assumption | tauto].
  - destruct (g_term_one gterm (Some g) id) as [g1|] eqn:E; [|rewrite fold_term_none in Hg; discriminate].
    destruct (sim_term_one rs g g1 gterm id HR Ht E) as (HR1 & Hin & Hk).
    destruct (IH _ _ _ HR1 Ht Hg) as (HR' & Hall).
    split; [assumption|]. intros j [<-|Hj]; [assumption|]. rewrite <- Hk. now apply Hall.
Qed.

(** ** job-level events *)

Lemma Rel_new_job rs g j rj gj :
  Rel rs g -> g_max_job g < j ->
  job_rel (g_workers g) (g_max_worker g) rj gj ->
  Rel (add_job (update_max_ids rs (EJobOpen j)) j rj)
      (mkG (insert j gj (g_jobs g)) (g_workers g) (g_queues g) (g_a2q g) (g_q2w g) (g_uid g)
           (N.max (g_max_job g) j) (g_max_worker g) (g_max_queue g)).
Proof.
  intros (H & A1 & A2 & A3 & A4 & A5 & A6 & A7 & A8 & A9 & A10) Hlt Hj.
  unfold Rel, add_job, update_max_ids; simpl.
  split; [now apply map_rel_insert|].
  repeat split; try assumption; try (simpl; lia).
  intros k Hk. apply in_keys_insert in Hk. destruct Hk as [->|Hk]; [lia|]. specialize (A9 k Hk). lia.
Qed.

Lemma fresh_tasks_rel sub : tasks_rel [] (g_attach [] sub).
Proof.
  intros t. rewrite g_attach_is_gen, lookup_attach_gen. simpl.
  destruct (memN t (ids sub)); [|reflexivity]. unfold task_rel; simpl. tauto.
Qed.

Lemma sim_job_events rs g g' e :
  Rel rs g ->
  match e with ESubmit _ _ _ | EJobOpen _ | EJobClose _ | EJobCompleted _ | EJobCancel _ => True | _ => False end ->
  gstep g e = Some g' -> exists rs', rstep rs e = Ok rs' /\ Rel rs' g'.
Proof.
  intros HR He Hg. destruct e; try contradiction; simpl in Hg.
  - (* Submit *)
    destruct closed.
    + destruct ((g_max_job g <? j) && validate [] tasks) eqn:Hc; [|discriminate]. inversion Hg; subst g'. clear Hg.
      apply andb_prop in Hc. destruct Hc as [Hlt Hv]. apply N.ltb_lt in Hlt.
      eexists. split; [reflexivity|]. unfold rstep. simpl rstep_arm.
      replace (update_max_ids rs (ESubmit j true tasks)) with (update_max_ids rs (EJobOpen j)) by reflexivity.
      apply Rel_new_job; [assumption | assumption|].
      destruct (attach_both [] tasks Hv (NoDup_nil _)) as (B1 & B2 & B3 & B4 & B5).
      unfold job_rel; simpl. split; [reflexivity|]. split; [reflexivity|]. split; [apply fresh_tasks_rel|].
      split; [split; [assumption|]|].
      * simpl in B2, B3. change (waiting_map []) with (@nil (N * tstate)) in *.
        cbn [gj_submits gj_tasks attach_subs]. rewrite B2, B3. reflexivity.
      * intros t x. rewrite B4. destruct (memN t (ids tasks)); [|discriminate].
        intros E; inversion E; subst. split; simpl; tauto.
    + destruct (lookup j (g_jobs g)) as [gj|] eqn:Hj; [|discriminate].
      destruct (gj_open gj && validate (gj_tasks gj) tasks) eqn:Hc; [|discriminate]. inversion Hg; subst g'. clear Hg.
      apply andb_prop in Hc. destruct Hc as [Hop Hv].
      destruct (Rel_jobs rs g j gj HR Hj) as (rj & Hrj & (Ho & Hs & Ht & (Hnd & Hat) & Hw)).
      rewrite (rstep_noop_ids rs g); [| assumption | | simpl; tauto | simpl; tauto].
      2:{ simpl. intros k [<-|[]]. now apply lookup_some_keys in Hj. }
      simpl. rewrite Hrj. eexists. split; [reflexivity|].
      eapply Rel_upd_job; try eassumption.
      destruct (attach_both (gj_tasks gj) tasks Hv Hnd) as (B1 & B2 & B3 & B4 & B5).
      unfold job_rel; simpl. split; [congruence|]. split; [congruence|]. split; [|split; [split|]].
      * intros t. rewrite B4. destruct (memN t (ids tasks)) eqn:E.
        -- apply memN_in in E. specialize (B5 t E). specialize (Ht t). rewrite B5 in Ht.
           unfold task_rel; simpl. rewrite Ht. tauto.
        -- apply Ht.
      * assumption.
      * cbn [gj_submits gj_tasks]. rewrite attach_subs_app, Hat, B2, B3. reflexivity.
      * intros t x. rewrite B4. destruct (memN t (ids tasks)); [|apply Hw].
        intros E; inversion E; subst. split; simpl; tauto.
  - (* JobOpen *)
    destruct (g_max_job g <? j) eqn:Hlt; [|discriminate]. inversion Hg; subst g'. clear Hg. apply N.ltb_lt in Hlt.
    eexists. split; [reflexivity|]. unfold rstep. simpl rstep_arm. apply Rel_new_job; [assumption | assumption|].
    unfold job_rel; simpl. split; [reflexivity|]. split; [reflexivity|]. split; [intros t; reflexivity|].
    split; [split; [constructor | reflexivity]|]. intros t x; discriminate.
  - (* JobClose *)
    destruct (lookup j (g_jobs g)) as [gj|] eqn:Hj; [|discriminate].
    destruct (gj_open gj) eqn:Hop; [|discriminate]. inversion Hg; subst g'. clear Hg.
    destruct (Rel_jobs rs g j gj HR Hj) as (rj & Hrj & (Ho & Hs & Ht & Hwf & Hw)).
    rewrite (rstep_noop_ids rs g); [| assumption | | simpl; tauto | simpl; tauto].
    2:{ simpl. intros k [<-|[]]. now apply lookup_some_keys in Hj. }
    simpl. rewrite Hrj. eexists. split; [reflexivity|].
    eapply Rel_upd_job; try eassumption. unfold job_rel; simpl. tauto.
  - (* JobCompleted *)
    destruct (lookup j (g_jobs g)) as [gj|] eqn:Hj; [|discriminate].
    destruct (job_terminated gj); [|discriminate]. inversion Hg; subst g'. clear Hg.
    rewrite (rstep_noop_ids rs g); [| assumption | | simpl; tauto | simpl; tauto].
    2:{ simpl. intros k [<-|[]]. now apply lookup_some_keys in Hj. }
    simpl. eexists. split; [reflexivity|].
    destruct HR as (H & A1 & A2 & A3 & A4 & A5 & A6 & A7 & A8 & A9 & A10).
    unfold Rel, set_jobs, g_set_jobs; simpl. split; [now apply map_rel_remove|].
    repeat split; try assumption. intros k Hk. apply in_keys_remove in Hk. now apply A9.
  - (* JobCancel *)
    destruct (lookup j (g_jobs g)) as [gj|] eqn:Hj; [|discriminate].
    destruct (job_active gj); [|discriminate]. inversion Hg; subst g'. clear Hg.
    destruct (Rel_jobs rs g j gj HR Hj) as (rj & Hrj & _).
    rewrite (rstep_noop_ids rs g); [| assumption | | simpl; tauto | simpl; tauto].
    2:{ simpl. intros k [<-|[]]. now apply lookup_some_keys in Hj. }
    simpl. rewrite Hrj. eexists. split; [reflexivity | assumption].
Qed.

(** ** worker events, restart *)

Lemma tasks_rel_map rt gt (f : RTask -> RTask) (h : GTask -> GTask) :
  tasks_rel rt gt ->
  (forall t x, lookup t gt = Some x -> task_rel (lookup t rt) x -> task_rel (option_map f (lookup t rt)) (h x)) ->
  tasks_rel (List.map (fun kv => (fst kv, f (snd kv))) rt) (List.map (fun kv => (fst kv, h (snd kv))) gt).
Proof.
  intros H Hf t. rewrite !lookup_map_values. specialize (H t).
  destruct (lookup t gt) as [x|] eqn:E; simpl.
  - now apply Hf.
  - now rewrite H.
Qed.

Lemma job_wf_map gj (h : GTask -> GTask) :
  job_wf gj -> job_wf (mkGJ (gj_open gj) (gj_submits gj) (List.map (fun kv => (fst kv, h (snd kv))) (gj_tasks gj))).
Proof.
  intros [A B]. unfold job_wf; simpl.
  assert (E : keys (List.map (fun kv : N * GTask => (fst kv, h (snd kv))) (gj_tasks gj)) = keys (gj_tasks gj))
    by (unfold keys; rewrite map_map; now apply map_ext).
  rewrite E. split; assumption.
Qed.

Lemma map_id_values {V} (m : map V) : List.map (fun kv => (fst kv, id (snd kv))) m = m.
Proof. induction m as [|[k v] m IH]; simpl; [reflexivity | now rewrite IH]. Qed.

Lemma g_lose_task_ws w f x : gt_ws (g_lose_task w f x) = gt_ws x.
Proof. unfold g_lose_task. destruct (gt_state x); try reflexivity. destruct (gt_ws x) as [|r0 l] eqn:E; try reflexivity. destruct (N.eqb r0 w); simpl; congruence. Qed.

Lemma g_lose_task_waiting w f x :
  gt_state (g_lose_task w f x) = GWaiting ->
  gt_state x = GWaiting \/ (exists l, gt_ws x = w :: l).
Proof.
  unfold g_lose_task. destruct (gt_state x) eqn:Hs; try (rewrite Hs; intros; discriminate); try tauto.
  destruct (gt_ws x) as [|r0 l]; [rewrite Hs; discriminate|].
  destruct (N.eqb r0 w) eqn:E; [|rewrite Hs; discriminate].
  apply N.eqb_eq in E; subst. intros _. right. eauto.
Qed.

Lemma sim_lost rs g g' w r :
  Rel rs g -> gstep g (EWorkerLost w r) = Some g' ->
  exists rs', rstep rs (EWorkerLost w r) = Ok rs' /\ Rel rs' g'.
Proof.
  intros HR Hg. simpl in Hg. destruct (memN w (g_workers g)) eqn:Hw; [|discriminate].
  inversion Hg; subst g'. clear Hg. apply memN_in in Hw.
  rewrite (rstep_noop_ids rs g); [| assumption | simpl; tauto | | simpl; tauto].
  2:{ simpl. intros k [<-|[]]. assumption. }
  destruct HR as (H & A1 & A2 & A3 & A4 & A5 & A6 & A7 & A8 & A9 & A10).
  set (ws' := filter (fun x => negb (N.eqb x w)) (g_workers g)).
  assert (Hjob : forall rj gj, job_rel (g_workers g) (g_max_worker g) rj gj ->
            job_rel ws' (g_max_worker g) (if is_failure r then bump_job w rj else rj) (g_lose_job w (is_failure r) gj)).
  { intros rj gj (Ho & Hs & Ht & Hwf & Hwi).
    assert (Hts : tasks_rel (rj_tasks (if is_failure r then bump_job w rj else rj))
                            (List.map (fun kv => (fst kv, g_lose_task w (is_failure r) (snd kv))) (gj_tasks gj))).
    { assert (Hcore : forall f, f = is_failure r -> forall t x, lookup t (gj_tasks gj) = Some x ->
                task_rel (lookup t (rj_tasks rj)) x ->
                task_rel (option_map (if f then bump_task w else id) (lookup t (rj_tasks rj))) (g_lose_task w f x)).
      { intros f _ t x Hl Hrel. specialize (Hwi t x Hl). destruct Hwi as [Wa Wb].
        unfold task_rel in Hrel |- *. unfold g_lose_task.
        destruct (gt_last x) as [i|] eqn:Hlast.
        - rewrite Hrel. unfold rstate_of.
          destruct (gt_state x) eqn:Hst; simpl.
          + (* waiting after a start: the root is not connected, hence not [w] *)
            rewrite Hlast. unfold rstate_of. rewrite Hst. destruct f; simpl; [|reflexivity].
            unfold bump_task; simpl. destruct (gt_ws x) as [|r0 l]; [reflexivity|].
            specialize (Wb eq_refl). destruct (N.eqb r0 w) eqn:E; [|reflexivity].
            apply N.eqb_eq in E. subst. contradiction.
          + destruct (gt_ws x) as [|r0 l] eqn:Hws.
            * rewrite Hlast. unfold rstate_of. rewrite Hst, Hws. destruct f; reflexivity.
            * destruct (N.eqb r0 w) eqn:E; simpl.
              -- unfold rstate_of; simpl. destruct f; simpl; unfold bump_task; simpl; try rewrite E; try rewrite Hws; reflexivity.
              -- rewrite Hlast. unfold rstate_of. rewrite Hst, Hws. destruct f; simpl; [|reflexivity].
                 unfold bump_task; simpl. now rewrite E.
          + rewrite Hlast. unfold rstate_of. rewrite Hst. destruct f; reflexivity.
          + rewrite Hlast. unfold rstate_of. rewrite Hst. destruct f; reflexivity.
          + rewrite Hlast. unfold rstate_of. rewrite Hst. destruct f; reflexivity.
          + rewrite Hlast. unfold rstate_of. rewrite Hst. destruct f; reflexivity.
        - destruct Hrel as [Hc0 Hoo]. destruct (gt_state x) eqn:Hst; try contradiction;
            rewrite Hlast; (split; [assumption|]); rewrite Hst; rewrite Hoo; destruct f; reflexivity. }
      destruct (is_failure r) eqn:Hf.
      - apply tasks_rel_map; [assumption|]. exact (Hcore true eq_refl).
      - rewrite <- (map_id_values (rj_tasks rj)). apply tasks_rel_map; [assumption|]. exact (Hcore false eq_refl). }
    unfold job_rel, g_lose_job. cbn [gj_open gj_submits gj_tasks].
    split; [destruct (is_failure r); simpl; assumption|].
    split; [destruct (is_failure r); simpl; assumption|].
    split; [exact Hts|]. split; [now apply job_wf_map|].
    intros t x'. rewrite lookup_map_values. destruct (lookup t (gj_tasks gj)) as [x|] eqn:Hl; simpl; [|discriminate].
    intros E; inversion E; subst x'. clear E. destruct (Hwi t x Hl) as [Wa Wb].
    split; [rewrite g_lose_task_ws; exact Wa|].
    intros Hst. rewrite g_lose_task_ws. apply g_lose_task_waiting in Hst. destruct Hst as [Hst|[l Hl']].
    - specialize (Wb Hst). destruct (gt_ws x); [exact I|]. unfold ws'. rewrite filter_In. tauto.
    - rewrite Hl'. unfold ws'. rewrite filter_In. rewrite N.eqb_refl. simpl. intros [_ F]; discriminate. }
  assert (Hk : keys (List.map (fun kv : N * GJob => (fst kv, g_lose_job w (is_failure r) (snd kv))) (g_jobs g)) = keys (g_jobs g))
    by (unfold keys; rewrite map_map; now apply map_ext).
  assert (Hws' : forall x, In x ws' -> x <= g_max_worker g) by (intros x Hx; apply filter_In in Hx; now apply A8).
  simpl. destruct (is_failure r) eqn:Hf.
  - eexists. split; [reflexivity|]. unfold Rel, set_jobs; simpl.
    split; [apply (map_rel_map _ _ (bump_job w) (g_lose_job w true) _ _ H); intros a b Hab; exact (Hjob a b Hab)|].
    repeat split; try assumption. intros k Hkk. rewrite Hk in Hkk. now apply A9.
  - eexists. split; [reflexivity|]. unfold Rel; simpl.
    split; [apply (map_rel_map_r _ _ (g_lose_job w false) _ _ H); intros a b Hab; exact (Hjob a b Hab)|].
    repeat split; try assumption. intros k Hkk. rewrite Hk in Hkk. now apply A9.
Qed.
