(** Journals the server can write: a small state machine [gstep] over [Event]s.

    [G] is the abstract state of the job layer as the journal records it: per job its open flag,
    its submits and per task the state, the last journalled instance id, the workers of the last
    start and the crash count; connected workers; allocation queues; the id high-water marks.
    [gstep g e = Some g'] iff a server in state [g] can append the record [e].  The rules are the
    job-layer rules of [server/job.rs], [server/state.rs], [client/submit.rs] and of tako's
    [on_remove_worker]; they are deliberately permissive where restore does not care (crash
    limits, dependency order of starts, ServerStop), so the set of accepted journals is a superset
    of what the server produces and every prefix of an accepted journal is accepted.

    A [ServerStart] in the middle of a journal is a restart: nothing runs and nobody is connected. *)
From HQ Require Import Base.Prelude Journal.Event Journal.Restore.
Open Scope N_scope.

Inductive gstate := GWaiting | GRunning | GFinished | GFailed | GCanceled | GAborted.

Definition g_terminal (s : gstate) : bool :=
  match s with GWaiting | GRunning => false | _ => true end.

Record GTask := mkGT {
  gt_state : gstate;
  gt_last : option N;     (* instance id of the last TaskStarted *)
  gt_ws : list N;         (* workers of the last TaskStarted (root first) *)
  gt_crash : N }.         (* failure-losses of the root worker while the task was running *)

Record GJob := mkGJ { gj_open : bool; gj_submits : list (list TaskSpec); gj_tasks : map GTask }.

Record G := mkG {
  g_jobs : map GJob;        (* jobs without a JobCompleted record *)
  g_workers : list N;       (* connected workers *)
  g_queues : map unit;
  g_a2q : map N;
  g_q2w : map N;
  g_uid : option N;
  g_max_job : N;
  g_max_worker : N;
  g_max_queue : N }.

Definition g0 : G := mkG [] [] [] [] [] None 0 0 0.

Definition g_set_jobs (g : G) (js : map GJob) : G :=
  mkG js (g_workers g) (g_queues g) (g_a2q g) (g_q2w g) (g_uid g) (g_max_job g) (g_max_worker g) (g_max_queue g).

Definition gj_set_task (gj : GJob) (t : N) (x : GTask) : GJob :=
  mkGJ (gj_open gj) (gj_submits gj) (insert t x (gj_tasks gj)).

Definition g_upd_task (g : G) (j : N) (gj : GJob) (t : N) (x : GTask) : G :=
  g_set_jobs g (insert j (gj_set_task gj t x) (g_jobs g)).

Definition job_active (gj : GJob) : bool :=
  existsb (fun kv => negb (g_terminal (gt_state (snd kv)))) (gj_tasks gj).

(** [Job::is_terminated] *)
Definition job_terminated (gj : GJob) : bool := negb (gj_open gj) && negb (job_active gj).

Definition fresh_task : GTask := mkGT GWaiting None [] 0.

Definition g_attach (tasks : map GTask) (sub : list TaskSpec) : map GTask :=
  fold_left (fun m ts => insert (ts_id ts) fresh_task m) sub tasks.

(** One element of a TasksCanceled / TasksAborted batch. *)
Definition g_term_one (term : gstate) (og : option G) (id : N * N) : option G :=
  match og with
  | None => None
  | Some g =>
      let (j, t) := id in
      match lookup j (g_jobs g) with
      | None => None
      | Some gj =>
          match lookup t (gj_tasks gj) with
          | None => None
          | Some x =>
              if g_terminal (gt_state x) then None
              else Some (g_upd_task g j gj t (mkGT term (gt_last x) (gt_ws x) (gt_crash x)))
          end
      end
  end.

(** Worker [w] is lost: tasks whose root worker it is go back to waiting; a failure counts a crash. *)
Definition g_lose_task (w : N) (fail : bool) (x : GTask) : GTask :=
  match gt_state x, gt_ws x with
  | GRunning, r :: _ =>
      if N.eqb r w then mkGT GWaiting (gt_last x) (gt_ws x) (if fail then gt_crash x + 1 else gt_crash x) else x
  | _, _ => x
  end.
Definition g_lose_job (w : N) (fail : bool) (gj : GJob) : GJob :=
  mkGJ (gj_open gj) (gj_submits gj) (List.map (fun kv => (fst kv, g_lose_task w fail (snd kv))) (gj_tasks gj)).

(** Restart: running tasks are waiting again. *)
Definition g_restart_task (x : GTask) : GTask :=
  match gt_state x with
  | GRunning => mkGT GWaiting (gt_last x) (gt_ws x) (gt_crash x)
  | _ => x
  end.
Definition g_restart_job (gj : GJob) : GJob :=
  mkGJ (gj_open gj) (gj_submits gj) (List.map (fun kv => (fst kv, g_restart_task (snd kv))) (gj_tasks gj)).

Definition inst_ok (last : option N) (inst : N) : bool :=
  match last with Some l => l <? inst | None => true end.

Definition gstep (g : G) (e : Event) : option G :=
  match e with
  | ESubmit j closed tasks =>
      if closed then
        if (g_max_job g <? j) && validate (@nil (N * GTask)) tasks
        then Some (mkG (insert j (mkGJ false [tasks] (g_attach [] tasks)) (g_jobs g)) (g_workers g) (g_queues g)
                       (g_a2q g) (g_q2w g) (g_uid g) (N.max (g_max_job g) j) (g_max_worker g) (g_max_queue g))
        else None
      else
        match lookup j (g_jobs g) with
        | Some gj =>
            if gj_open gj && validate (gj_tasks gj) tasks
            then Some (g_set_jobs g (insert j (mkGJ true (gj_submits gj ++ [tasks]) (g_attach (gj_tasks gj) tasks)) (g_jobs g)))
            else None
        | None => None
        end
  | EJobOpen j =>
      if g_max_job g <? j
      then Some (mkG (insert j (mkGJ true [] []) (g_jobs g)) (g_workers g) (g_queues g) (g_a2q g) (g_q2w g)
                     (g_uid g) (N.max (g_max_job g) j) (g_max_worker g) (g_max_queue g))
      else None
  | EJobClose j =>
      match lookup j (g_jobs g) with
      | Some gj => if gj_open gj
                   then Some (g_set_jobs g (insert j (mkGJ false (gj_submits gj) (gj_tasks gj)) (g_jobs g)))
                   else None
      | None => None
      end
  | EJobCompleted j =>
      match lookup j (g_jobs g) with
      | Some gj => if job_terminated gj then Some (g_set_jobs g (remove j (g_jobs g))) else None
      | None => None
      end
  | EJobCancel j =>
      match lookup j (g_jobs g) with
      | Some gj => if job_active gj then Some g else None
      | None => None
      end
  | ETaskStarted j t inst ws =>
      match lookup j (g_jobs g) with
      | Some gj =>
          match lookup t (gj_tasks gj) with
          | Some x =>
              match gt_state x, ws with
              | GWaiting, _ :: _ =>
                  if forallb (fun w => memN w (g_workers g)) ws && inst_ok (gt_last x) inst
                  then Some (g_upd_task g j gj t (mkGT GRunning (Some inst) ws (gt_crash x)))
                  else None
              | _, _ => None
              end
          | None => None
          end
      | None => None
      end
  | ETaskFinished j t =>
      match lookup j (g_jobs g) with
      | Some gj =>
          match lookup t (gj_tasks gj) with
          | Some x =>
              match gt_state x with
              | GRunning => Some (g_upd_task g j gj t (mkGT GFinished (gt_last x) (gt_ws x) (gt_crash x)))
              | _ => None
              end
          | None => None
          end
      | None => None
      end
  | ETaskFailed j t =>
      match lookup j (g_jobs g) with
      | Some gj =>
          match lookup t (gj_tasks gj) with
          | Some x =>
              if g_terminal (gt_state x) then None
              else Some (g_upd_task g j gj t (mkGT GFailed (gt_last x) (gt_ws x) (gt_crash x)))
          | None => None
          end
      | None => None
      end
  | ETasksCanceled ids => fold_left (g_term_one GCanceled) ids (Some g)
  | ETasksAborted ids => fold_left (g_term_one GAborted) ids (Some g)
  | EWorkerConnected w alloc =>
      if g_max_worker g <? w
      then Some (mkG (g_jobs g) (w :: g_workers g) (g_queues g) (g_a2q g)
                     (match alloc with
                      | Some a => match lookup a (g_a2q g) with Some q => insert q w (g_q2w g) | None => g_q2w g end
                      | None => g_q2w g
                      end)
                     (g_uid g) (g_max_job g) (N.max (g_max_worker g) w) (g_max_queue g))
      else None
  | EWorkerLost w r =>
      if memN w (g_workers g)
      then Some (mkG (List.map (fun kv => (fst kv, g_lose_job w (is_failure r) (snd kv))) (g_jobs g))
                     (filter (fun x => negb (N.eqb x w)) (g_workers g)) (g_queues g) (g_a2q g) (g_q2w g)
                     (g_uid g) (g_max_job g) (g_max_worker g) (g_max_queue g))
      else None
  | EWorkerOverview w => if memN w (g_workers g) then Some g else None
  | EQueueCreated q =>
      if g_max_queue g <? q
      then Some (mkG (g_jobs g) (g_workers g) (insert q tt (g_queues g)) (g_a2q g) (g_q2w g) (g_uid g)
                     (g_max_job g) (g_max_worker g) (N.max (g_max_queue g) q))
      else None
  | EQueueRemoved q =>
      if mem q (g_queues g)
      then Some (mkG (g_jobs g) (g_workers g) (remove q (g_queues g)) (g_a2q g) (g_q2w g) (g_uid g)
                     (g_max_job g) (g_max_worker g) (g_max_queue g))
      else None
  | EAllocQueued q a =>
      if mem q (g_queues g)
      then Some (mkG (g_jobs g) (g_workers g) (g_queues g) (insert a q (g_a2q g)) (g_q2w g) (g_uid g)
                     (g_max_job g) (g_max_worker g) (g_max_queue g))
      else None
  | EAllocStarted q _ | EAllocFinished q _ => if q <=? g_max_queue g then Some g else None
  | EServerStart u =>
      if match g_uid g with Some u' => N.eqb u u' | None => true end
      then Some (mkG (List.map (fun kv => (fst kv, g_restart_job (snd kv))) (g_jobs g)) [] (g_queues g) (g_a2q g)
                     (g_q2w g) (Some u) (g_max_job g) (g_max_worker g) (g_max_queue g))
      else None
  | EServerStop => Some g
  end.

Fixpoint grun (g : G) (evs : list Event) : option G :=
  match evs with
  | [] => Some g
  | e :: r => match gstep g e with Some g' => grun g' r | None => None end
  end.

(** The journals the server can write. *)
Definition producible (evs : list Event) : Prop := exists g, grun g0 evs = Some g.

(** The live sets [client::handle_prune_journal] computes. *)
Definition live_jobs (g : G) : list N :=
  List.map fst (filter (fun kv => negb (job_terminated (snd kv))) (g_jobs g)).
Definition live_workers (g : G) : list N := g_workers g.

(** * What a restart must reproduce ([abs]) *)

Definition gclass (s : gstate) : tstate :=
  match s with
  | GWaiting | GRunning => TWaiting
  | GFinished => TFinished
  | GFailed => TFailed
  | GCanceled => TCanceled
  | GAborted => TAborted
  end.

(** Job counters = counts of the task states (nothing is running after a restart). *)
Definition abs_counters (tasks : map GTask) : Counters :=
  fold_left (fun c kv => bump_counter c (gclass (gt_state (snd kv)))) tasks c0.

Definition abs_job (kv : N * GJob) : SJob :=
  let (jid, gj) := kv in
  mkSJ jid (gj_open gj) (List.map (fun tv => (fst tv, gclass (gt_state (snd tv)))) (gj_tasks gj))
       (abs_counters (gj_tasks gj)) (N.of_nat (length (gj_submits gj))).

Definition g_task_terminal (tasks : map GTask) (t : N) : bool :=
  match lookup t tasks with Some x => g_terminal (gt_state x) | None => false end.

(** A pending task as the core must receive it: id, remaining dependencies, and
    (next instance id, crash count) when the task has a history. *)
Definition abs_adjust (tasks : map GTask) (t : N) : option (N * N) :=
  match lookup t tasks with
  | Some x =>
      match gt_last x with
      | Some i => Some (i + 1, gt_crash x)
      | None => if 0 <? gt_crash x then Some (0, gt_crash x) else None
      end
  | None => None
  end.

Definition ABatch := list (N * list N * option (N * N)).

Definition abs_batch (tasks : map GTask) (sub : list TaskSpec) : ABatch :=
  flat_map (fun ts => if g_task_terminal tasks (ts_id ts) then []
                      else [(ts_id ts, filter (fun d => negb (g_task_terminal tasks d)) (ts_deps ts),
                             abs_adjust tasks (ts_id ts))]) sub.

Definition abs_batches (kv : N * GJob) : list (N * ABatch) :=
  let (jid, gj) := kv in
  flat_map (fun sub => match abs_batch (gj_tasks gj) sub with [] => [] | b => [(jid, b)] end) (gj_submits gj).

(** The view of a model batch that the core sees. *)
Definition batch_view (b : Batch) : N * ABatch :=
  (b_job b, List.map (fun t => (bt_id t, bt_deps t, lookup (bt_id t) (b_adjust b))) (b_tasks b)).

Record AbsRestored := mkAR {
  ar_jobs : list SJob;
  ar_batches : list (N * ABatch);
  ar_job_counter : N;
  ar_worker_counter : N;
  ar_queue_counter : N;
  ar_uid : option N;
  ar_queues : list (N * option N) }.

Definition abs (g : G) : AbsRestored :=
  mkAR (List.map abs_job (g_jobs g)) (flat_map abs_batches (g_jobs g))
       (g_max_job g + 1) (g_max_worker g + 1) (g_max_queue g + 1) (g_uid g)
       (List.map (fun kv => (fst kv, lookup (fst kv) (g_q2w g))) (g_queues g)).

Definition view (r : Restored) : AbsRestored :=
  mkAR (r_jobs r) (List.map batch_view (r_batches r)) (r_job_counter r) (r_worker_counter r)
       (r_queue_counter r) (r_uid r) (r_queues r).
