(** Journal component (C10, C11, C12): abstract events and finite maps.

    [Event] mirrors [hyperqueue::server::event::payload::EventPayload] (the persisted variants).
    A [Submit] carries the abstract content of the serialized [SubmitRequest]: the task ids of the
    submit, per task its dependencies and crash limit.  Strings (job names, cancel reasons, error
    messages), timestamps, resource requests and program bodies are abstracted away: [restore.rs]
    and [prune.rs] never branch on them. *)
From HQ Require Import Base.Prelude.

Inductive crash := CNever | CMax (n : N) | CUnlimited.

Record TaskSpec := mkTS { ts_id : N; ts_crash : crash; ts_deps : list N }.

(** [tako::gateway::LostWorkerReason] *)
Inductive reason := RStopped | RConnLost | RHbLost | RIdle | RTimeLimit.

(** [LostWorkerReason::is_failure] (checked against the source by the constants translator). *)
Definition is_failure (r : reason) : bool :=
  match r with RConnLost | RHbLost => true | _ => false end.

Inductive Event :=
| ESubmit (j : N) (closed : bool) (tasks : list TaskSpec)
| EJobOpen (j : N)
| EJobClose (j : N)
| EJobCompleted (j : N)
| EJobCancel (j : N)
| ETaskStarted (j t inst : N) (ws : list N)
| ETaskFinished (j t : N)
| ETaskFailed (j t : N)
| ETasksCanceled (ids : list (N * N))
| ETasksAborted (ids : list (N * N))
| EWorkerConnected (w : N) (alloc : option N)
| EWorkerLost (w : N) (r : reason)
| EWorkerOverview (w : N)
| EQueueCreated (q : N)
| EQueueRemoved (q : N)
| EAllocQueued (q a : N)
| EAllocStarted (q a : N)
| EAllocFinished (q a : N)
| EServerStart (uid : N)
| EServerStop.

(** * Finite maps as association lists (keys unique by construction of [insert]). *)
Section Map.
  Context {V : Type}.
  Definition map := list (N * V).

  Fixpoint lookup (k : N) (m : map) : option V :=
    match m with
    | [] => None
    | (k', v) :: m' => if N.eqb k k' then Some v else lookup k m'
    end.

  (** [HashMap::insert]: replace the value of an existing key, else add the key. *)
  Fixpoint insert (k : N) (v : V) (m : map) : map :=
    match m with
    | [] => [(k, v)]
    | (k', v') :: m' => if N.eqb k k' then (k, v) :: m' else (k', v') :: insert k v m'
    end.

  Fixpoint remove (k : N) (m : map) : map :=
    match m with
    | [] => []
    | (k', v') :: m' => if N.eqb k k' then remove k m' else (k', v') :: remove k m'
    end.

  Definition keys (m : map) : list N := List.map fst m.

  Definition mem (k : N) (m : map) : bool :=
    match lookup k m with Some _ => true | None => false end.
End Map.
Arguments map V : clear implicits.

Definition memN (x : N) (l : list N) : bool := existsb (N.eqb x) l.

Fixpoint list_max (l : list N) : N :=
  match l with [] => 0%N | x :: r => N.max x (list_max r) end.
