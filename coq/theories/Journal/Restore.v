(** Executable model of [hyperqueue::server::restore] (no proofs here).

    [rstep] is one iteration of the [match event.payload] in [StateRestorer::load_event_file];
    [restore_job] / [restore_jobs] mirror [RestorerJob::restore_job] /
    [StateRestorer::restore_jobs_and_queues] running [validate_submit] and [submit_job_desc]
    against a fresh [State]; [core_of] is what [bootstrap::start_server] then does with the task
    batches ([ServerRef::add_new_tasks] -> [handle_new_tasks] -> [on_new_tasks]).

    Every [unwrap] / [assert!] / [panic!] of those functions is a [Panic site]; an [Err(..)] return
    (startup refuses the journal) is [Disabled]. *)
From HQ Require Import Base.Prelude Journal.Event.
Open Scope N_scope.

(** Panic sites. *)
Definition site_finished_none : N := 1.   (* TaskFinished arm: tasks.get_mut(..).unwrap() *)
Definition site_finished_state : N := 2.  (* TaskFinished arm: panic!("Invalid task state") *)
Definition site_failed_state : N := 4.    (* TaskFailed arm: panic!("Invalid task state") *)
Definition site_queue_assert : N := 5.    (* AllocationQueueCreated arm: assert!(insert(..).is_none()) *)
Definition site_close_none : N := 6.      (* JobClose arm: jobs.get_mut(..).unwrap() *)
Definition site_cancel_none : N := 7.     (* JobCancel arm: jobs.get_mut(..).unwrap() *)
Definition site_nwaiting : N := 10.       (* JobTaskCounters::n_waiting_tasks: u32 subtraction overflow *)
Definition site_core_add : N := 11.       (* bootstrap: add_new_tasks(..).unwrap() on "Task id already taken" *)

(** [JobTaskState] without the payloads restore never inspects ([Running] keeps its worker ids). *)
Inductive tstate := TWaiting | TRunning (ws : list N) | TFinished | TFailed | TCanceled | TAborted.

(** [RestorerTaskInfo::is_completed] *)
Definition completed (s : tstate) : bool :=
  match s with TWaiting | TRunning _ => false | _ => true end.

Record RTask := mkRT { rt_state : tstate; rt_inst : option N; rt_crash : N }.

Record RJob := mkRJ { rj_submits : list (list TaskSpec); rj_tasks : map RTask; rj_open : bool }.

Record RS := mkRS {
  rs_jobs : map RJob;
  rs_max_job : N;
  rs_max_worker : N;
  rs_q2w : map N;          (* queue_to_worker_resources: queue -> the worker whose resources were recorded *)
  rs_a2q : map N;          (* allocation_to_queue_id *)
  rs_queues : map unit;
  rs_max_queue : N;
  rs_uid : option N }.

Definition rs0 : RS := mkRS [] 0 0 [] [] [] 0 None.

Definition set_jobs (s : RS) (js : map RJob) : RS :=
  mkRS js (rs_max_job s) (rs_max_worker s) (rs_q2w s) (rs_a2q s) (rs_queues s) (rs_max_queue s) (rs_uid s).
Definition upd_job (s : RS) (j : N) (rj : RJob) : RS := set_jobs s (insert j rj (rs_jobs s)).
Definition set_task (rj : RJob) (t : N) (rt : RTask) : RJob :=
  mkRJ (rj_submits rj) (insert t rt (rj_tasks rj)) (rj_open rj).

(** [StateRestorer::add_job] *)
Definition add_job (s : RS) (j : N) (rj : RJob) : RS :=
  mkRS (insert j rj (rs_jobs s)) (N.max (rs_max_job s) j) (rs_max_worker s) (rs_q2w s) (rs_a2q s)
       (rs_queues s) (rs_max_queue s) (rs_uid s).

(** [RestorerJob::increase_crash_counters] *)
Definition bump_task (w : N) (rt : RTask) : RTask :=
  match rt_state rt with
  | TRunning (r :: _) => if N.eqb r w then mkRT (rt_state rt) (rt_inst rt) (rt_crash rt + 1) else rt
  | _ => rt
  end.
Definition bump_job (w : N) (rj : RJob) : RJob :=
  mkRJ (rj_submits rj) (List.map (fun kv => (fst kv, bump_task w (snd kv))) (rj_tasks rj)) (rj_open rj).

(** One element of the [TasksCanceled] / [TasksAborted] loops ([term] = the terminal state). *)
Definition term_one (term : tstate) (s : RS) (id : N * N) : RS :=
  let (j, t) := id in
  match lookup j (rs_jobs s) with
  | None => s
  | Some rj =>
      match lookup t (rj_tasks rj) with
      | Some rt => upd_job s j (set_task rj t (mkRT term (rt_inst rt) (rt_crash rt)))
      | None => upd_job s j (set_task rj t (mkRT term None 0))
      end
  end.

(** [StateRestorer::update_max_ids]: every id a record carries raises its high-water mark. *)
Definition ev_job_ids (e : Event) : list N :=
  match e with
  | ESubmit j _ _ | EJobOpen j | EJobClose j | EJobCompleted j | EJobCancel j
  | ETaskStarted j _ _ _ | ETaskFinished j _ | ETaskFailed j _ => [j]
  | ETasksCanceled ids | ETasksAborted ids => List.map fst ids
  | _ => []
  end.
Definition ev_worker_ids (e : Event) : list N :=
  match e with
  | EWorkerConnected w _ | EWorkerLost w _ | EWorkerOverview w => [w]
  | ETaskStarted _ _ _ ws => ws
  | _ => []
  end.
Definition ev_queue_ids (e : Event) : list N :=
  match e with
  | EQueueCreated q | EQueueRemoved q | EAllocQueued q _ | EAllocStarted q _ | EAllocFinished q _ => [q]
  | _ => []
  end.
Definition update_max_ids (s : RS) (e : Event) : RS :=
  mkRS (rs_jobs s) (N.max (rs_max_job s) (list_max (ev_job_ids e)))
       (N.max (rs_max_worker s) (list_max (ev_worker_ids e))) (rs_q2w s) (rs_a2q s) (rs_queues s)
       (N.max (rs_max_queue s) (list_max (ev_queue_ids e))) (rs_uid s).

(** The [match event.payload] of [load_event_file]. *)
Definition rstep_arm (s : RS) (e : Event) : res RS :=
  match e with
  | EWorkerConnected w alloc =>
      let q2w := match alloc with
                 | Some a => match lookup a (rs_a2q s) with
                             | Some q => insert q w (rs_q2w s)
                             | None => rs_q2w s
                             end
                 | None => rs_q2w s
                 end in
      Ok (mkRS (rs_jobs s) (rs_max_job s) (rs_max_worker s) q2w (rs_a2q s) (rs_queues s)
               (rs_max_queue s) (rs_uid s))
  | EWorkerLost w r =>
      if is_failure r
      then Ok (set_jobs s (List.map (fun kv => (fst kv, bump_job w (snd kv))) (rs_jobs s)))
      else Ok s
  | EWorkerOverview _ => Ok s
  | ESubmit j closed tasks =>
      if closed then Ok (add_job s j (mkRJ [tasks] [] false))
      else match lookup j (rs_jobs s) with
           | Some rj => Ok (upd_job s j (mkRJ (rj_submits rj ++ [tasks]) (rj_tasks rj) (rj_open rj)))
           | None => Ok s
           end
  | EJobCompleted j => Ok (set_jobs s (remove j (rs_jobs s)))
  | ETaskStarted j t inst ws =>
      match lookup j (rs_jobs s) with
      | Some rj =>
          let crash := match lookup t (rj_tasks rj) with Some rt => rt_crash rt | None => 0 end in
          Ok (upd_job s j (set_task rj t (mkRT (TRunning ws) (Some inst) crash)))
      | None => Ok s
      end
  | ETaskFinished j t =>
      match lookup j (rs_jobs s) with
      | Some rj =>
          match lookup t (rj_tasks rj) with
          | None => Panic site_finished_none
          | Some rt =>
              match rt_state rt with
              | TRunning _ => Ok (upd_job s j (set_task rj t (mkRT TFinished (rt_inst rt) (rt_crash rt))))
              | _ => Panic site_finished_state
              end
          end
      | None => Ok s
      end
  | ETaskFailed j t =>
      match lookup j (rs_jobs s) with
      | Some rj =>
          match lookup t (rj_tasks rj) with
          | None => Ok (upd_job s j (set_task rj t (mkRT TFailed None 0)))
          | Some rt =>
              match rt_state rt with
              | TWaiting | TRunning _ => Ok (upd_job s j (set_task rj t (mkRT TFailed (rt_inst rt) (rt_crash rt))))
              | _ => Panic site_failed_state
              end
          end
      | None => Ok s
      end
  | ETasksCanceled ids => Ok (fold_left (term_one TCanceled) ids s)
  | ETasksAborted ids => Ok (fold_left (term_one TAborted) ids s)
  | EQueueCreated q =>
      if mem q (rs_queues s) then Panic site_queue_assert
      else Ok (mkRS (rs_jobs s) (rs_max_job s) (rs_max_worker s) (rs_q2w s) (rs_a2q s)
                    (insert q tt (rs_queues s)) (rs_max_queue s) (rs_uid s))
  | EQueueRemoved q =>
      Ok (mkRS (rs_jobs s) (rs_max_job s) (rs_max_worker s) (rs_q2w s) (rs_a2q s)
               (remove q (rs_queues s)) (rs_max_queue s) (rs_uid s))
  | EAllocQueued q a =>
      Ok (mkRS (rs_jobs s) (rs_max_job s) (rs_max_worker s) (rs_q2w s) (insert a q (rs_a2q s))
               (rs_queues s) (rs_max_queue s) (rs_uid s))
  | EAllocStarted _ _ | EAllocFinished _ _ => Ok s
  | EServerStart uid =>
      Ok (mkRS (rs_jobs s) (rs_max_job s) (rs_max_worker s) (rs_q2w s) (rs_a2q s) (rs_queues s)
               (rs_max_queue s) (Some uid))
  | EServerStop => Ok s
  | EJobOpen j => Ok (add_job s j (mkRJ [] [] true))
  | EJobClose j =>
      match lookup j (rs_jobs s) with
      | Some rj => Ok (upd_job s j (mkRJ (rj_submits rj) (rj_tasks rj) false))
      | None => Panic site_close_none
      end
  | EJobCancel j =>
      match lookup j (rs_jobs s) with
      | Some _ => Ok s
      | None => Panic site_cancel_none
      end
  end.

Definition rstep (s : RS) (e : Event) : res RS := rstep_arm (update_max_ids s e) e.

(** [load_event_file]: the fold of [rstep] over the records. *)
Fixpoint load (s : RS) (evs : list Event) : res RS :=
  match evs with
  | [] => Ok s
  | e :: r => match rstep s e with Ok s' => load s' r | Disabled => Disabled | Panic p => Panic p end
  end.

(** * [restore_job] *)

Record Counters := mkC { c_running : N; c_finished : N; c_failed : N; c_canceled : N; c_aborted : N }.
Definition c0 : Counters := mkC 0 0 0 0 0.

(** The restored [Job] of the new [State]. *)
Record SJob := mkSJ { sj_id : N; sj_open : bool; sj_tasks : map tstate; sj_counters : Counters; sj_nsubmits : N }.

Record BTask := mkBT { bt_id : N; bt_deps : list N }.
(** One [TaskSubmit]: the tasks handed to the core and [adjust_instance_id_and_crash_counters]. *)
Record Batch := mkB { b_job : N; b_tasks : list BTask; b_adjust : map (N * N) }.

(** [validate_submit] (the job exists; [tasks] = its tasks so far).  [true] = accepted. *)
Fixpoint validate_graph {V} (tasks : map V) (seen : list N) (sub : list TaskSpec) : bool :=
  match sub with
  | [] => true
  | ts :: r =>
      negb (memN (ts_id ts) seen)
      && forallb (fun d => negb (N.eqb d (ts_id ts)) && (memN d seen || mem d tasks)) (ts_deps ts)
      && validate_graph tasks (ts_id ts :: seen) r
  end.
Definition validate {V} (tasks : map V) (sub : list TaskSpec) : bool :=
  forallb (fun ts => negb (mem (ts_id ts) tasks)) sub && validate_graph tasks [] sub.

(** [Job::attach_submit] *)
Definition attach (tasks : map tstate) (sub : list TaskSpec) : map tstate :=
  fold_left (fun m ts => insert (ts_id ts) TWaiting m) sub tasks.

Definition is_task_completed (rt : map RTask) (t : N) : bool :=
  match lookup t rt with Some x => completed (rt_state x) | None => false end.

(** [new_tasks.tasks.retain_mut(..)]: drop completed tasks and dependencies on completed tasks. *)
Definition retain_tasks (rt : map RTask) (sub : list TaskSpec) : list BTask :=
  flat_map (fun ts => if is_task_completed rt (ts_id ts) then []
                      else [mkBT (ts_id ts) (filter (fun d => negb (is_task_completed rt d)) (ts_deps ts))]) sub.

Definition adjust_of (x : RTask) : option (N * N) :=
  if (0 <? rt_crash x) || (match rt_inst x with Some _ => true | None => false end)
  then Some (match rt_inst x with Some i => i + 1 | None => 0 end, rt_crash x)
  else None.

(** The adjustments collected for the tasks that are really resubmitted. *)
Definition batch_adjust (rt : map RTask) (nt : list BTask) : map (N * N) :=
  fold_left (fun a t => match lookup (bt_id t) rt with
                        | Some x => match adjust_of x with Some v => insert (bt_id t) v a | None => a end
                        | None => a
                        end) nt [].

Definition bump_counter (c : Counters) (s : tstate) : Counters :=
  match s with
  | TWaiting | TRunning _ => c
  | TFinished => mkC (c_running c) (c_finished c + 1) (c_failed c) (c_canceled c) (c_aborted c)
  | TFailed => mkC (c_running c) (c_finished c) (c_failed c + 1) (c_canceled c) (c_aborted c)
  | TCanceled => mkC (c_running c) (c_finished c) (c_failed c) (c_canceled c + 1) (c_aborted c)
  | TAborted => mkC (c_running c) (c_finished c) (c_failed c) (c_canceled c) (c_aborted c + 1)
  end.

(** The final [for (task_id, job_task) in job.tasks.iter_mut()] loop, as two folds over the job's tasks. *)
Definition loop_counters (rt : map RTask) (tasks : map tstate) (c : Counters) : Counters :=
  fold_left (fun c kv => match lookup (fst kv) rt with
                         | Some x => bump_counter c (rt_state x)
                         | None => c
                         end) tasks c.

Definition loop_states (rt : map RTask) (tasks : map tstate) : map tstate :=
  List.map (fun kv => match lookup (fst kv) rt with
                      | Some x => if completed (rt_state x) then (fst kv, rt_state x) else kv
                      | None => kv
                      end) tasks.

(** One iteration of [for submit in self.submit_descs]: the job's tasks so far, the batches, #submits. *)
Definition restore_submit (jid : N) (rt : map RTask) (acc : map tstate * list Batch * N) (sub : list TaskSpec)
  : res (map tstate * list Batch * N) :=
  let '(tasks, out, n) := acc in
  if negb (validate tasks sub) then Disabled
  else
    let nt := retain_tasks rt sub in
    Ok (attach tasks sub, match nt with [] => out | _ => out ++ [mkB jid nt (batch_adjust rt nt)] end, n + 1).

Fixpoint restore_submits (jid : N) (rt : map RTask) (acc : map tstate * list Batch * N) (subs : list (list TaskSpec))
  : res (map tstate * list Batch * N) :=
  match subs with
  | [] => Ok acc
  | sub :: r => match restore_submit jid rt acc sub with
                | Ok acc' => restore_submits jid rt acc' r
                | Disabled => Disabled
                | Panic p => Panic p
                end
  end.

Definition restore_job (jid : N) (rj : RJob) : res (SJob * list Batch) :=
  match restore_submits jid (rj_tasks rj) ([], [], 0) (rj_submits rj) with
  | Ok (tasks, out, n) =>
      Ok (mkSJ jid (rj_open rj) (loop_states (rj_tasks rj) tasks) (loop_counters (rj_tasks rj) tasks c0) n, out)
  | Disabled => Disabled
  | Panic p => Panic p
  end.

Fixpoint restore_jobs (js : map RJob) : res (list SJob * list Batch) :=
  match js with
  | [] => Ok ([], [])
  | (jid, rj) :: r =>
      match restore_job jid rj with
      | Ok (job, bs) =>
          match restore_jobs r with
          | Ok (jobs, bss) => Ok (job :: jobs, bs ++ bss)
          | Disabled => Disabled
          | Panic p => Panic p
          end
      | Disabled => Disabled
      | Panic p => Panic p
      end
  end.

Record Restored := mkR {
  r_jobs : list SJob;
  r_batches : list Batch;
  r_job_counter : N;      (* State::job_id_counter: the next job id *)
  r_worker_counter : N;   (* Core::worker_id_counter: the next worker id is this + 1 *)
  r_queue_counter : N;    (* AutoAllocState::queue_id_counter: the next queue id *)
  r_uid : option N;
  r_queues : list (N * option N) }.

Definition finish (s : RS) : res Restored :=
  match restore_jobs (rs_jobs s) with
  | Ok (jobs, bs) =>
      Ok (mkR jobs bs (rs_max_job s + 1) (rs_max_worker s + 1) (rs_max_queue s + 1) (rs_uid s)
              (List.map (fun kv => (fst kv, lookup (fst kv) (rs_q2w s))) (rs_queues s)))
  | Disabled => Disabled
  | Panic p => Panic p
  end.

(** [start_server]'s restore path: load the file, then restore jobs and queues. *)
Definition restore (evs : list Event) : res Restored :=
  match load rs0 evs with
  | Ok s => finish s
  | Disabled => Disabled
  | Panic p => Panic p
  end.

(** * Queries the server makes on a restored job *)

Definition n_tasks (j : SJob) : N := N.of_nat (length (sj_tasks j)).
Definition c_sum (c : Counters) : N := c_running c + c_finished c + c_failed c + c_canceled c + c_aborted c.

(** [JobTaskCounters::n_waiting_tasks] (checked [u32] subtraction). *)
Definition n_waiting (j : SJob) : res N :=
  if c_sum (sj_counters j) <=? n_tasks j then Ok (n_tasks j - c_sum (sj_counters j)) else Panic site_nwaiting.

(** [Job::is_terminated] *)
Definition is_terminated (j : SJob) : res bool :=
  if sj_open j then Ok false
  else match n_waiting j with
       | Ok n => Ok ((c_running (sj_counters j) =? 0) && (n =? 0))
       | Disabled => Disabled
       | Panic p => Panic p
       end.

(** * The tako core after [add_new_tasks] of every batch *)

Record CTask := mkCT { ct_job : N; ct_id : N; ct_inst : N; ct_crash : N; ct_deps : list N }.

Definition in_core (core : list CTask) (j t : N) : bool :=
  existsb (fun c => N.eqb (ct_job c) j && N.eqb (ct_id c) t) core.

(** [on_new_tasks]: dependencies not present in the core are dropped. *)
Definition core_add_task (b : Batch) (core : list CTask) (t : BTask) : list CTask :=
  let (inst, crash) := match lookup (bt_id t) (b_adjust b) with Some v => v | None => (0, 0) end in
  core ++ [mkCT (b_job b) (bt_id t) inst crash (filter (fun d => in_core core (b_job b) d) (bt_deps t))].

Definition core_add (core : list CTask) (b : Batch) : res (list CTask) :=
  if existsb (fun t => in_core core (b_job b) (bt_id t)) (b_tasks b) then Panic site_core_add
  else Ok (fold_left (core_add_task b) (b_tasks b) core).

Fixpoint core_of (core : list CTask) (bs : list Batch) : res (list CTask) :=
  match bs with
  | [] => Ok core
  | b :: r => match core_add core b with
              | Ok c => core_of c r
              | Disabled => Disabled
              | Panic p => Panic p
              end
  end.
