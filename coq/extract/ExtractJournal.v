From Coq Require Import Extraction ExtrOcamlBasic.
From HQ Require Import Base.Prelude Journal.Event Journal.Restore Journal.Prune Journal.Gen.
Extraction Language OCaml.
Extraction "/verif/ocaml/journal/gen/journal_model.ml" restore prune gstep grun g0 abs view n_waiting is_terminated core_of live_jobs live_workers batch_view job_terminated.
