From Coq Require Import Extraction ExtrOcamlBasic.
From HQ Require Import Base.Prelude Stream.Model.
Extraction Language OCaml.
Extraction "/verif/ocaml/stream/gen/stream_model.ml"
  writer_new writer_write writer_flush writer_bytes kill_len_ok firstnN lenN
  enc_file_header check_header enc_chunk_header dec_chunk_header
  open cat cat_job export_job read_channel summary lookup last_opt superseded channel_size job_tasks
  cut_file afile_seen afile_ok all_seen all_complete max_inst spec_read spec_fin spec_bytes spec_finished
  spec_size other_insts last_contig all_contig f20_class proj_insts.
