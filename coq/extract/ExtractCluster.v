From Coq Require Import Extraction ExtrOcamlBasic.
From HQ Require Import Base.Prelude Cluster.Types Cluster.Core Cluster.Reactor Cluster.Worker Cluster.Server Cluster.Sys.
Extraction Language OCaml.
Extraction "/verif/ocaml/cluster/gen/cluster_model.ml" step init_sys run.
