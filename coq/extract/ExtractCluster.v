From Coq Require Import Extraction ExtrOcamlBasic.
From HQ Require Import Base.Prelude Cluster.Types Cluster.Core Cluster.Reactor Cluster.Worker Cluster.Server Cluster.Sys Cluster.Monitors Cluster.RejHyp Cluster.NoPanicU0 Cluster.NoPanicS7 Cluster.RetractFree Cluster.Wake.
Extraction Language OCaml.
Extraction "/verif/ocaml/cluster/gen/cluster_model.ml" step init_sys run step_fresh core_ok core_ok_which accounting_bad_workers hq_ok hq_core_bijection_ok single_execution_ok terminal_once finish_after_start deps_respected journal_dep_closed instances_increase no_start_after_giveup cancel_final completed_once abort_justified job_counters_ok job_completed_ok proto_ok proto_why proto_culprits op_ok sol_ok worker_is_free retracting_from sched_retract_ok wake_inv placeable sched_complete.
