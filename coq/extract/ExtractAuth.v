From Coq Require Import Extraction ExtrOcamlBasic.
From HQ Require Import Base.Prelude Auth.Model.
Extraction Language OCaml.
Extraction "/verif/ocaml/auth/gen/auth_model.ml" step run authentic authentic_full authentic_proto deliverable new_auth matching honest_exchange.
