From Coq Require Import Extraction ExtrOcamlBasic.
From HQ Require Import Base.Prelude Sched.Model Sched.Query.
Extraction Language OCaml.
Extraction "/verif/ocaml/sched/gen/sched_model.ml"
  from_user_priority empty_queue queue_add queue_remove queue_size iter_priority_sizes take_tasks
  rv_get rv_remove_multiple capable capable_res create_task_batches gap milp_of feasible objective objective_scale
  placed_total mapping_ok free_after ready_tasks inversions inversion classify open_cut k1_violated k2_violated
  has_x count_vars blocker_open count_of placement_kind k3_mapping alt_dispatches k4_event k4_violated k5_event vplace_errors vfree_after vdecision_ok rv_remove_cls task_max_count_cls inst_on
  new_worker_query compute_new_worker_query query_sol_ok class_fits query_inst query_groups sn_waiting waiting_of
  mn_entry_of mn_entries find_query is_mn nodes_of class_min_time queue_total desc_valid loaded sumN prefix_mn_unwrap prefix_highs_rejects.
