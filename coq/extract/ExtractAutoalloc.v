From Coq Require Import Extraction ExtrOcamlBasic.
From HQ Require Import Base.Prelude Autoalloc.Model Autoalloc.Spec.
Extraction Language OCaml.
Extraction "/verif/ocaml/autoalloc/gen/autoalloc_model.ml" step init_state ghost_step init_ghost mon_c17 mon_c18 mon_step_c17 mon_step_c18 default_limiter.
