From Coq Require Import Extraction ExtrOcamlBasic.
From HQ Require Import Base.Prelude Alloc.Model Alloc.Spec.
Extraction Language OCaml.
Extraction "/verif/ocaml/alloc/gen/alloc_model.ml" step run init allocator_new label_of
  exclusive_ok sum_bound_ok exact_amount_ok exact_amount_set_ok all_entries_free transfer_ok conserved_ok pools_equiv mirror_ok
  request_fits weights_apply group_count_ok scatter_ok compact_even_ok tight_ok min_fraction_ok answer_optimal coupled_entries
  concise_state min_groups pool_per_group groups_used is_coupled is_forced.
