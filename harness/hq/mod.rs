//! Verification hooks for hyperqueue (compiled only with `--features verif`).
//! See /verif/harness/tako/mod.rs.
#![allow(dead_code, unused_imports, unexpected_cfgs, clippy::all)]

#[cfg(any(not(verif_dev), verif_dev_stream))]
pub mod stream;

#[cfg(any(not(verif_dev), verif_dev_autoalloc))]
pub mod autoalloc;

#[cfg(any(not(verif_dev), verif_dev_cluster))]
pub mod cluster;

#[cfg(any(not(verif_dev), verif_dev_journal))]
pub mod journal;
