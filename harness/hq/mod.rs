//! Verification hooks for hyperqueue (compiled only with `--features verif`).
//! See /verif/harness/tako/mod.rs.
#![allow(dead_code, unused_imports, unexpected_cfgs, clippy::all)]
