//! Hook for component `journal` (properties C10, C11, C12).
//!
//! Thin plain-data layer over the crate-private `StateRestorer` / `prune_journal` and the public
//! `JournalWriter` / `JournalReader`:
//!   * `VEvent`  <-> real `Event` (minimal `SubmitRequest` / `WorkerConfiguration` / `QueueParameters` bodies),
//!   * `restore(path)`   = what `bootstrap::start_server` does with a journal: `load_event_file`,
//!                         `State::restore_state`, `restore_jobs_and_queues`, then the task batches are
//!                         handed to a fresh in-process tako core (`add_new_tasks`), and a snapshot is taken,
//!   * `prune(path, ..)` = what `journal::stream::streaming_process` does for `PruneJournal`.
use crate::common::arraydef::IntArray;
use crate::common::manager::info::{ManagerInfo, ManagerType, WORKER_EXTRA_MANAGER_KEY};
use crate::common::serialization::Serialized;
use crate::server::VerifStateRestorer as StateRestorer;
use crate::server::autoalloc::QueueParameters;
use crate::server::event::Event;
use crate::server::event::journal::verif_prune_journal as prune_journal;
use crate::server::event::journal::{JournalReader, JournalWriter};
use crate::server::event::payload::EventPayload;
use crate::server::job::JobTaskState;
use crate::server::state::StateRef;
use crate::transfer::messages::{
    JobDescription, JobSubmitDescription, JobTaskDescription, LocalResourceRqId, PinMode,
    ServerInfo, SubmitRequest, TaskDescription, TaskKind, TaskKindProgram, TaskWithDependencies,
};
use chrono::{TimeZone, Utc};
use smallvec::SmallVec;
use std::path::{Path, PathBuf};
use std::rc::Rc;
use std::time::Duration;
use tako::control::ServerRef;
use tako::gateway::{CrashLimit, LostWorkerReason, ResourceRequestVariants};
use tako::program::ProgramDefinition;
use tako::resources::ResourceDescriptor;
use tako::worker::{ServerLostPolicy, WorkerConfiguration, WorkerOverview};
use tako::{InstanceId, JobId, JobTaskId, Set, TaskId, UserPriority, WorkerId};

#[derive(Clone, Debug, PartialEq, Eq)]
pub enum VCrash {
    Never,
    Max(u16),
    Unlimited,
}

#[derive(Clone, Debug, PartialEq, Eq)]
pub struct VTask {
    pub id: u32,
    pub crash: VCrash,
    pub deps: Vec<u32>,
}

#[derive(Clone, Debug, PartialEq, Eq)]
pub enum VEvent {
    /// `graph = false`: `JobTaskDescription::Array` (all tasks share one description, no deps).
    Submit { job: u32, closed: bool, graph: bool, tasks: Vec<VTask> },
    JobOpen(u32),
    JobClose(u32),
    JobCompleted(u32),
    JobCancel(u32),
    TaskStarted { job: u32, task: u32, inst: u32, workers: Vec<u32> },
    TaskFinished { job: u32, task: u32 },
    TaskFailed { job: u32, task: u32 },
    TasksCanceled(Vec<(u32, u32)>),
    TasksAborted(Vec<(u32, u32)>),
    /// `alloc`: allocation id in the worker's manager info; the worker has `10 + w` cpus.
    WorkerConnected { w: u32, alloc: Option<u32> },
    /// reason: 0 stopped, 1 connection lost, 2 heartbeat lost, 3 idle timeout, 4 time limit
    WorkerLost { w: u32, reason: u8 },
    WorkerOverview(u32),
    QueueCreated(u32),
    QueueRemoved(u32),
    AllocQueued { q: u32, a: u32 },
    AllocStarted { q: u32, a: u32 },
    AllocFinished { q: u32, a: u32 },
    ServerStart(u32),
    ServerStop,
    /// a record kind the symbolic vocabulary does not cover (never written by the harness)
    Other,
}

fn crash_of(c: &VCrash) -> CrashLimit {
    match c {
        VCrash::Never => CrashLimit::NeverRestart,
        VCrash::Max(n) => CrashLimit::MaxCrashes(*n),
        VCrash::Unlimited => CrashLimit::Unlimited,
    }
}
fn vcrash_of(c: &CrashLimit) -> VCrash {
    match c {
        CrashLimit::NeverRestart => VCrash::Never,
        CrashLimit::MaxCrashes(n) => VCrash::Max(*n),
        CrashLimit::Unlimited => VCrash::Unlimited,
    }
}

fn task_desc(crash: &VCrash) -> TaskDescription {
    TaskDescription {
        kind: TaskKind::ExternalProgram(TaskKindProgram {
            program: ProgramDefinition {
                args: vec!["true".into()],
                env: Default::default(),
                stdout: Default::default(),
                stderr: Default::default(),
                stdin: vec![],
                cwd: PathBuf::from("/tmp"),
            },
            pin_mode: PinMode::None,
            task_dir: false,
        }),
        time_limit: None,
        priority: UserPriority::default(),
        crash_limit: crash_of(crash),
    }
}

fn job_desc(job: u32) -> JobDescription {
    JobDescription { name: format!("job{job}"), max_fails: None }
}

fn alloc_name(a: u32) -> String {
    format!("a{a}")
}
fn parse_alloc(s: &str) -> u32 {
    s.trim_start_matches('a').parse().unwrap_or(u32::MAX)
}
fn uid_name(u: u32) -> String {
    format!("uid{u}")
}
pub fn parse_uid(s: &str) -> Option<u32> {
    if s.is_empty() { None } else { Some(s.trim_start_matches("uid").parse().unwrap_or(u32::MAX)) }
}

fn worker_config(w: u32, alloc: Option<u32>) -> WorkerConfiguration {
    let mut extra: tako::Map<String, String> = Default::default();
    if let Some(a) = alloc {
        let info = ManagerInfo {
            manager: ManagerType::Slurm,
            allocation_id: alloc_name(a),
            time_limit: None,
            max_memory_mb: None,
        };
        extra.insert(WORKER_EXTRA_MANAGER_KEY.to_string(), serde_json::to_string(&info).unwrap());
    }
    WorkerConfiguration {
        resources: ResourceDescriptor::simple_cpus(10 + w),
        listen_address: "127.0.0.1:1".to_string(),
        hostname: format!("host{w}"),
        group: "default".to_string(),
        work_dir: PathBuf::from("/tmp"),
        heartbeat_interval: Duration::from_secs(8),
        overview_configuration: Default::default(),
        idle_timeout: None,
        time_limit: None,
        retract_check_interval: Duration::from_secs(30),
        on_server_lost: ServerLostPolicy::Stop,
        min_utilization: 0.0,
        extra,
    }
}

fn queue_params(q: u32) -> QueueParameters {
    QueueParameters {
        manager: ManagerType::Slurm,
        max_workers_per_alloc: 1,
        backlog: 1,
        timelimit: Duration::from_secs(3600),
        name: Some(format!("q{q}")),
        max_worker_count: None,
        min_utilization: 0.0,
        additional_args: vec![],
        worker_start_cmd: None,
        worker_stop_cmd: None,
        worker_wrap_cmd: None,
        cli_resource_descriptor: None,
        worker_args: vec![],
        idle_timeout: None,
    }
}

fn reason_of(r: u8) -> LostWorkerReason {
    match r {
        0 => LostWorkerReason::Stopped,
        1 => LostWorkerReason::ConnectionLost,
        2 => LostWorkerReason::HeartbeatLost,
        3 => LostWorkerReason::IdleTimeout,
        _ => LostWorkerReason::TimeLimitReached,
    }
}
fn vreason_of(r: &LostWorkerReason) -> u8 {
    match r {
        LostWorkerReason::Stopped => 0,
        LostWorkerReason::ConnectionLost => 1,
        LostWorkerReason::HeartbeatLost => 2,
        LostWorkerReason::IdleTimeout => 3,
        LostWorkerReason::TimeLimitReached => 4,
    }
}

fn tid(j: u32, t: u32) -> TaskId {
    TaskId::new(JobId::new(j), JobTaskId::new(t))
}
fn tids(v: &[(u32, u32)]) -> Vec<TaskId> {
    v.iter().map(|(j, t)| tid(*j, *t)).collect()
}
fn vtids(v: &[TaskId]) -> Vec<(u32, u32)> {
    v.iter().map(|t| (t.job_id().as_num(), t.job_task_id().as_num())).collect()
}

/// Symbolic -> real.  `seq` only makes the timestamps distinct and increasing.
pub fn to_event(v: &VEvent, seq: u64) -> Event {
    let payload = match v {
        VEvent::Submit { job, closed, graph, tasks } => {
            let task_desc_ = if *graph {
                JobTaskDescription::Graph {
                    resource_rqs: vec![ResourceRequestVariants::default()],
                    tasks: tasks
                        .iter()
                        .map(|t| TaskWithDependencies {
                            id: JobTaskId::new(t.id),
                            resource_rq_id: LocalResourceRqId::new(0),
                            task_desc: task_desc(&t.crash),
                            task_deps: t.deps.iter().map(|d| JobTaskId::new(*d)).collect(),
                        })
                        .collect(),
                }
            } else {
                let mut ids: Vec<u32> = tasks.iter().map(|t| t.id).collect();
                ids.sort_unstable();
                JobTaskDescription::Array {
                    ids: IntArray::from_sorted_ids(ids.into_iter()),
                    entries: None,
                    resource_rq: ResourceRequestVariants::default(),
                    task_desc: task_desc(tasks.first().map(|t| &t.crash).unwrap_or(&VCrash::Unlimited)),
                }
            };
            let rq = SubmitRequest {
                job_desc: job_desc(*job),
                submit_desc: JobSubmitDescription {
                    task_desc: task_desc_,
                    submit_dir: PathBuf::from("/tmp"),
                    stream_path: None,
                },
                job_id: if *closed { None } else { Some(JobId::new(*job)) },
            };
            EventPayload::Submit {
                job_id: JobId::new(*job),
                closed_job: *closed,
                serialized_desc: Serialized::new(&rq).unwrap(),
            }
        }
        VEvent::JobOpen(j) => EventPayload::JobOpen(JobId::new(*j), job_desc(*j)),
        VEvent::JobClose(j) => EventPayload::JobClose(JobId::new(*j)),
        VEvent::JobCompleted(j) => EventPayload::JobCompleted(JobId::new(*j)),
        VEvent::JobCancel(j) => EventPayload::JobCancel { job_id: JobId::new(*j), cancel_reason: "r".to_string() },
        VEvent::TaskStarted { job, task, inst, workers } => EventPayload::TaskStarted {
            task_id: tid(*job, *task),
            instance_id: InstanceId::new(*inst),
            worker_ids: workers.iter().map(|w| WorkerId::new(*w)).collect::<SmallVec<[WorkerId; 1]>>(),
            rv_id: 0.into(),
        },
        VEvent::TaskFinished { job, task } => EventPayload::TaskFinished { task_id: tid(*job, *task) },
        VEvent::TaskFailed { job, task } => {
            EventPayload::TaskFailed { task_id: tid(*job, *task), error: "e".to_string() }
        }
        VEvent::TasksCanceled(v) => EventPayload::TasksCanceled { task_ids: tids(v) },
        VEvent::TasksAborted(v) => EventPayload::TasksAborted { task_ids: tids(v) },
        VEvent::WorkerConnected { w, alloc } => {
            EventPayload::WorkerConnected(WorkerId::new(*w), Box::new(worker_config(*w, *alloc)))
        }
        VEvent::WorkerLost { w, reason } => EventPayload::WorkerLost(WorkerId::new(*w), reason_of(*reason)),
        VEvent::WorkerOverview(w) => EventPayload::WorkerOverviewReceived(Box::new(WorkerOverview {
            id: WorkerId::new(*w),
            running_tasks: vec![],
            hw_state: None,
        })),
        VEvent::QueueCreated(q) => EventPayload::AllocationQueueCreated(*q, Box::new(queue_params(*q))),
        VEvent::QueueRemoved(q) => EventPayload::AllocationQueueRemoved(*q),
        VEvent::AllocQueued { q, a } => {
            EventPayload::AllocationQueued { queue_id: *q, allocation_id: alloc_name(*a), worker_count: 1 }
        }
        VEvent::AllocStarted { q, a } => EventPayload::AllocationStarted(*q, alloc_name(*a)),
        VEvent::AllocFinished { q, a } => EventPayload::AllocationFinished(*q, alloc_name(*a)),
        VEvent::ServerStart(u) => EventPayload::ServerStart { server_uid: uid_name(*u) },
        VEvent::ServerStop => EventPayload::ServerStop,
        VEvent::Other => EventPayload::JobIdle(JobId::new(0)),
    };
    Event { time: Utc.timestamp_millis_opt(1_700_000_000_000 + seq as i64).unwrap(), payload }
}

/// Real -> symbolic (used to read back journals written / pruned by the real code).
pub fn from_event(e: &Event) -> VEvent {
    match &e.payload {
        EventPayload::Submit { job_id, closed_job, serialized_desc } => {
            let rq: SubmitRequest = match serialized_desc.deserialize() {
                Ok(r) => r,
                Err(_) => return VEvent::Other,
            };
            let (graph, tasks) = match &rq.submit_desc.task_desc {
                JobTaskDescription::Array { ids, task_desc, .. } => (
                    false,
                    ids.iter()
                        .map(|i| VTask { id: i, crash: vcrash_of(&task_desc.crash_limit), deps: vec![] })
                        .collect(),
                ),
                JobTaskDescription::Graph { tasks, .. } => (
                    true,
                    tasks
                        .iter()
                        .map(|t| VTask {
                            id: t.id.as_num(),
                            crash: vcrash_of(&t.task_desc.crash_limit),
                            deps: t.task_deps.iter().map(|d| d.as_num()).collect(),
                        })
                        .collect(),
                ),
            };
            VEvent::Submit { job: job_id.as_num(), closed: *closed_job, graph, tasks }
        }
        EventPayload::JobOpen(j, _) => VEvent::JobOpen(j.as_num()),
        EventPayload::JobClose(j) => VEvent::JobClose(j.as_num()),
        EventPayload::JobCompleted(j) => VEvent::JobCompleted(j.as_num()),
        EventPayload::JobCancel { job_id, .. } => VEvent::JobCancel(job_id.as_num()),
        EventPayload::TaskStarted { task_id, instance_id, worker_ids, .. } => VEvent::TaskStarted {
            job: task_id.job_id().as_num(),
            task: task_id.job_task_id().as_num(),
            inst: instance_id.as_num(),
            workers: worker_ids.iter().map(|w| w.as_num()).collect(),
        },
        EventPayload::TaskFinished { task_id } => {
            VEvent::TaskFinished { job: task_id.job_id().as_num(), task: task_id.job_task_id().as_num() }
        }
        EventPayload::TaskFailed { task_id, .. } => {
            VEvent::TaskFailed { job: task_id.job_id().as_num(), task: task_id.job_task_id().as_num() }
        }
        EventPayload::TasksCanceled { task_ids } => VEvent::TasksCanceled(vtids(task_ids)),
        EventPayload::TasksAborted { task_ids } => VEvent::TasksAborted(vtids(task_ids)),
        EventPayload::WorkerConnected(w, cfg) => {
            use crate::common::manager::info::GetManagerInfo;
            VEvent::WorkerConnected {
                w: w.as_num(),
                alloc: cfg.get_manager_info().map(|i| parse_alloc(&i.allocation_id)),
            }
        }
        EventPayload::WorkerLost(w, r) => VEvent::WorkerLost { w: w.as_num(), reason: vreason_of(r) },
        EventPayload::WorkerOverviewReceived(o) => VEvent::WorkerOverview(o.id.as_num()),
        EventPayload::AllocationQueueCreated(q, _) => VEvent::QueueCreated(*q),
        EventPayload::AllocationQueueRemoved(q) => VEvent::QueueRemoved(*q),
        EventPayload::AllocationQueued { queue_id, allocation_id, .. } => {
            VEvent::AllocQueued { q: *queue_id, a: parse_alloc(allocation_id) }
        }
        EventPayload::AllocationStarted(q, a) => VEvent::AllocStarted { q: *q, a: parse_alloc(a) },
        EventPayload::AllocationFinished(q, a) => VEvent::AllocFinished { q: *q, a: parse_alloc(a) },
        EventPayload::ServerStart { server_uid } => VEvent::ServerStart(parse_uid(server_uid).unwrap_or(u32::MAX)),
        EventPayload::ServerStop => VEvent::ServerStop,
        EventPayload::JobIdle(_) | EventPayload::TaskNotify(_) => VEvent::Other,
    }
}

/// The real writer (append mode, as the server opens it: `create_or_append(path, truncate)`).
pub struct VWriter(JournalWriter);

impl VWriter {
    pub fn open(path: &Path, truncate: Option<u64>) -> Result<VWriter, String> {
        JournalWriter::create_or_append(path, truncate).map(VWriter).map_err(|e| format!("{e:?}"))
    }
    pub fn store(&mut self, v: &VEvent, seq: u64) -> Result<(), String> {
        self.0.store(to_event(v, seq)).map_err(|e| format!("{e:?}"))
    }
    pub fn flush(&mut self) -> Result<(), String> {
        self.0.flush().map_err(|e| format!("{e:?}"))
    }
}

pub struct VRead {
    pub events: Vec<VEvent>,
    /// byte offset at which each returned record starts
    pub starts: Vec<u64>,
    /// `Some(msg)`: the reader returned an error item (corrupted record)
    pub error: Option<String>,
    pub partial: bool,
    /// `JournalReader::position()` after the iteration ended
    pub position: u64,
}

/// Real `JournalReader` over the whole file.
pub fn read_all(path: &Path) -> Result<VRead, String> {
    let mut reader = JournalReader::open(path).map_err(|e| format!("{e:?}"))?;
    let mut events = Vec::new();
    let mut starts = Vec::new();
    let mut error = None;
    loop {
        let item = (&mut reader).next();
        match item {
            None => break,
            Some(Ok(e)) => {
                starts.push(reader.position());
                events.push(from_event(&e));
            }
            Some(Err(e)) => {
                error = Some(format!("{e:?}"));
                break;
            }
        }
    }
    Ok(VRead { events, starts, error, partial: reader.contains_partial_data(), position: reader.position() })
}

#[derive(Clone, Debug, PartialEq, Eq)]
pub struct VJob {
    pub id: u32,
    pub open: bool,
    /// (task id, class) sorted; class: w waiting, r running, f finished, x failed, c canceled, a aborted
    pub tasks: Vec<(u32, char)>,
    /// running, finished, failed, canceled, aborted
    pub counters: [u32; 5],
    pub n_submits: usize,
    /// `Job::counters.n_waiting_tasks(n_tasks)`; Err = it panicked (arithmetic overflow)
    pub n_waiting: Result<u32, String>,
    /// `Job::is_terminated()` as evaluated by `handle_prune_journal`
    pub terminated: Result<bool, String>,
}

#[derive(Clone, Debug, PartialEq, Eq)]
pub struct VBatchTask {
    pub job: u32,
    pub task: u32,
    pub deps: Vec<u32>,
    /// effective entry of `adjust_instance_id_and_crash_counters` for this task
    pub adjust: Option<(u32, u32)>,
}

#[derive(Clone, Debug, PartialEq, Eq)]
pub struct VCoreTask {
    pub job: u32,
    pub task: u32,
    pub deps: Vec<u32>,
    pub inst: u32,
    pub crash: u32,
}

#[derive(Clone, Debug)]
pub struct VRestored {
    pub jobs: Vec<VJob>,
    /// one entry per `TaskSubmit` (sorted by first task), tasks sorted by id
    pub batches: Vec<Vec<VBatchTask>>,
    /// total number of adjust-map entries over all batches (incl. those for tasks not in the batch)
    pub adjust_entries: usize,
    pub job_id_counter: u32,
    pub worker_id_counter: u32,
    pub queue_id_counter: u32,
    pub server_uid: String,
    /// (queue id, cpus of the recorded worker resources)
    pub queues: Vec<(u32, Option<u32>)>,
    pub truncate: Option<u64>,
    /// what the tako core holds after `add_new_tasks` of every batch (Err: add_new_tasks failed -> bootstrap unwraps)
    pub core: Result<Vec<VCoreTask>, String>,
}

pub fn new_server_ref(server_uid: &str, worker_id_counter: u32) -> ServerRef {
    tako::internal::verif::journal::new_server_ref(server_uid, worker_id_counter)
}

fn class_of(s: &JobTaskState) -> char {
    match s {
        JobTaskState::Waiting => 'w',
        JobTaskState::Running { .. } => 'r',
        JobTaskState::Finished { .. } => 'f',
        JobTaskState::Failed { .. } => 'x',
        JobTaskState::Canceled { .. } => 'c',
        JobTaskState::Aborted { .. } => 'a',
    }
}

fn quiet<T>(f: impl FnOnce() -> T) -> Result<T, String> {
    std::panic::catch_unwind(std::panic::AssertUnwindSafe(f)).map_err(|e| {
        if let Some(s) = e.downcast_ref::<&str>() {
            s.to_string()
        } else if let Some(s) = e.downcast_ref::<String>() {
            s.clone()
        } else {
            "panic".to_string()
        }
    })
}

fn parse_task_id_str(s: &str) -> (u32, u32) {
    // TaskId displays as "<job>@<task>"
    let mut it = s.split('@');
    let j = it.next().and_then(|x| x.parse().ok()).unwrap_or(u32::MAX);
    let t = it.next().and_then(|x| x.parse().ok()).unwrap_or(u32::MAX);
    (j, t)
}

/// `start_server`'s restore path on `path`.  Panics of the real code propagate to the caller.
/// Err(msg): `load_event_file` / `restore_jobs_and_queues` returned an error.
pub fn restore(path: &Path) -> Result<VRestored, String> {
    let mut restorer = StateRestorer::default();
    restorer.load_event_file(path).map_err(|e| format!("load: {e:?}"))?;
    let truncate = restorer.truncate_size();
    let server_uid = restorer.take_server_uid();
    let worker_id_counter = restorer.worker_id_counter().as_num();
    let queue_id_counter = restorer.queue_id_counter();
    let state_ref = StateRef::new(ServerInfo {
        version: "verif".to_string(),
        server_uid: if server_uid.is_empty() { "fresh".to_string() } else { server_uid.clone() },
        client_host: "h".to_string(),
        worker_host: "h".to_string(),
        client_port: 0,
        worker_port: 0,
        pid: 0,
        start_date: Utc.timestamp_millis_opt(0).unwrap(),
        journal_path: Some(path.to_path_buf()),
    });
    let server_ref = new_server_ref(&server_uid, worker_id_counter);
    let mut state = state_ref.get_mut();
    state.restore_state(&restorer);
    let (new_tasks, queues) =
        restorer.restore_jobs_and_queues(&mut state, &server_ref).map_err(|e| format!("restore: {e:?}"))?;

    let mut jobs: Vec<VJob> = state
        .jobs()
        .map(|job| {
            let mut tasks: Vec<(u32, char)> =
                job.iter_task_states().map(|(id, s)| (id.as_num(), class_of(s))).collect();
            tasks.sort_unstable();
            let c = &job.counters;
            VJob {
                id: job.job_id.as_num(),
                open: job.is_open(),
                tasks,
                counters: [c.n_running_tasks, c.n_finished_tasks, c.n_failed_tasks, c.n_canceled_tasks, c.n_aborted_tasks],
                n_submits: job.submit_descs.len(),
                n_waiting: quiet(|| job.counters.n_waiting_tasks(job.n_tasks())),
                terminated: quiet(|| job.is_terminated()),
            }
        })
        .collect();
    jobs.sort_by_key(|j| j.id);
    // job id counter as the next submit would see it
    let job_id_counter = {
        let id = state.new_job_id();
        state.revert_to_job_id(id);
        id.as_num()
    };
    drop(state);

    let mut batches = Vec::new();
    let mut adjust_entries = 0;
    for ts in &new_tasks {
        adjust_entries += ts.adjust_instance_id_and_crash_counters.len();
        let mut b: Vec<VBatchTask> = ts
            .tasks
            .iter()
            .map(|t| {
                let mut deps: Vec<u32> = t.task_deps.iter().map(|d| d.job_task_id().as_num()).collect();
                deps.sort_unstable();
                VBatchTask {
                    job: t.id.job_id().as_num(),
                    task: t.id.job_task_id().as_num(),
                    deps,
                    adjust: ts.adjust_instance_id_and_crash_counters.get(&t.id).map(|(i, c)| (i.as_num(), *c)),
                }
            })
            .collect();
        b.sort_by_key(|t| (t.job, t.task));
        batches.push(b);
    }
    // Hand the batches to the core exactly as bootstrap does (in the order restore returned them).
    let core = quiet(|| {
        for ts in new_tasks {
            server_ref.add_new_tasks(ts).map_err(|e| format!("add_new_tasks: {e:?}"))?;
        }
        Ok::<(), String>(())
    })
    .and_then(|r| r)
    .map(|()| {
        let dump = server_ref.debug_dump(std::time::Instant::now());
        let mut v: Vec<VCoreTask> = dump["tasks"]
            .as_array()
            .map(|a| {
                a.iter()
                    .map(|t| {
                        let (job, task) = parse_task_id_str(t["id"].as_str().unwrap_or(""));
                        let mut deps: Vec<u32> = t["task_deps"]
                            .as_array()
                            .map(|d| d.iter().map(|x| task_of_json(x)).collect())
                            .unwrap_or_default();
                        deps.sort_unstable();
                        VCoreTask {
                            job,
                            task,
                            deps,
                            inst: t["instance_id"].as_u64().unwrap_or(u64::MAX) as u32,
                            crash: t["crash_counter"].as_u64().unwrap_or(u64::MAX) as u32,
                        }
                    })
                    .collect()
            })
            .unwrap_or_default();
        v.sort_by_key(|t| (t.job, t.task));
        v
    });
    batches.sort_by_key(|b| b.first().map(|t| (t.job, t.task)));

    // What `bootstrap::start_server` does with the restored queues: the autoalloc state is created
    // with the restored id counter and every restored queue is re-added under its OLD id; the id the
    // next NEW queue would get is what the restart really hands out (C11: it must not be a used one).
    let queue_id_counter = {
        use crate::server::autoalloc::verif_api as aa;
        struct NoHandler;
        impl aa::QueueHandler for NoHandler {
            fn submit_allocation(
                &mut self,
                _queue_id: crate::server::autoalloc::QueueId,
                _queue_info: &crate::server::autoalloc::QueueInfo,
                _worker_count: u64,
                _mode: aa::SubmitMode,
            ) -> std::pin::Pin<Box<dyn std::future::Future<Output = crate::server::autoalloc::AutoAllocResult<aa::AllocationSubmissionResult>>>> {
                unreachable!()
            }
            fn get_status_of_allocations(
                &self,
                _allocations: &[&crate::server::autoalloc::Allocation],
            ) -> std::pin::Pin<Box<dyn std::future::Future<Output = crate::server::autoalloc::AutoAllocResult<aa::AllocationStatusMap>>>> {
                unreachable!()
            }
            fn remove_allocation(
                &self,
                _allocation: &crate::server::autoalloc::Allocation,
            ) -> std::pin::Pin<Box<dyn std::future::Future<Output = crate::server::autoalloc::AutoAllocResult<()>>>> {
                unreachable!()
            }
        }
        let mk = |params: &QueueParameters, res: Option<ResourceDescriptor>| {
            aa::AllocationQueue::new(
                crate::server::autoalloc::QueueInfo::new(params.clone()),
                params.name.clone(),
                Box::new(NoHandler),
                aa::RateLimiter::new(aa::SUBMISSION_DELAYS.to_vec(), aa::MAX_SUBMISSION_FAILS, aa::max_allocation_fails()),
                res,
            )
        };
        let mut aa_state = aa::AutoAllocState::new(queue_id_counter);
        let readd = std::panic::catch_unwind(std::panic::AssertUnwindSafe(|| {
            for q in &queues {
                aa_state.add_queue(mk(&q.params, q.worker_resources.clone()), Some(q.queue_id));
            }
            aa_state.add_queue(mk(&queue_params(0), None), None)
        }));
        match readd {
            Ok(id) => id,
            Err(_) => return Err("re-adding the restored queues panicked".to_string()),
        }
    };
    let mut qs: Vec<(u32, Option<u32>)> = queues
        .iter()
        .map(|q| (q.queue_id, q.worker_resources.as_ref().map(descriptor_cpus)))
        .collect();
    qs.sort_unstable();
    Ok(VRestored {
        jobs,
        batches,
        adjust_entries,
        job_id_counter,
        worker_id_counter,
        queue_id_counter,
        server_uid,
        queues: qs,
        truncate,
        core,
    })
}

fn task_of_json(x: &serde_json::Value) -> u32 {
    // TaskId serialises as a struct {job_id, job_task_id} (or a string); take the task part.
    if let Some(s) = x.as_str() {
        return parse_task_id_str(s).1;
    }
    if let Some(o) = x.as_object() {
        for k in ["job_task_id", "task_id"] {
            if let Some(v) = o.get(k).and_then(|v| v.as_u64()) {
                return v as u32;
            }
        }
    }
    if let Some(a) = x.as_array() {
        if let Some(v) = a.get(1).and_then(|v| v.as_u64()) {
            return v as u32;
        }
    }
    u32::MAX
}

fn descriptor_cpus(d: &ResourceDescriptor) -> u32 {
    d.resources
        .iter()
        .find(|r| r.name == tako::resources::CPU_RESOURCE_NAME)
        .map(|r| r.kind.size().as_f32() as u32)
        .unwrap_or(0)
}

/// The `PruneJournal` arm of `journal::stream::streaming_process`: read `path`, write `<path>.tmp`
/// through `prune_journal`, rename over `path`.
pub fn prune(path: &Path, live_jobs: &[u32], live_workers: &[u32]) -> Result<(), String> {
    let live_jobs: Set<JobId> = live_jobs.iter().map(|j| JobId::new(*j)).collect();
    let live_workers: Set<WorkerId> = live_workers.iter().map(|w| WorkerId::new(*w)).collect();
    let mut tmp: std::ffi::OsString = path.into();
    tmp.push(".tmp");
    let tmp: PathBuf = tmp.into();
    {
        let mut reader = JournalReader::open(path).map_err(|e| format!("{e:?}"))?;
        let mut writer = JournalWriter::create(&tmp).map_err(|e| format!("{e:?}"))?;
        if let Err(e) = prune_journal(&mut reader, &mut writer, &live_jobs, &live_workers) {
            let _ = std::fs::remove_file(&tmp);
            return Err(format!("{e:?}"));
        }
    }
    std::fs::rename(&tmp, path).map_err(|e| format!("{e:?}"))
}

/// The filter of `client::handle_prune_journal` on a (restored) state.
pub fn live_jobs_of_restored(path: &Path) -> Result<Vec<u32>, String> {
    let r = restore(path)?;
    let mut v = Vec::new();
    for j in &r.jobs {
        match &j.terminated {
            Ok(false) => v.push(j.id),
            Ok(true) => {}
            Err(e) => return Err(e.clone()),
        }
    }
    Ok(v)
}
