//! Hook for component `autoalloc` (properties C17, C18): re-exports of the guarded wrappers in
//! `server::autoalloc::verif_api` (handle_message / perform_submits / do_periodic_update /
//! queue_try_submit / compute_submission_permit / try_pause_queue / remove_queue) and a canonical
//! snapshot of an `AutoAllocState`.  Logic lives in /verif/harness/bin/autoalloc.
pub use crate::common::manager::info::{ManagerInfo, ManagerType};
pub use crate::common::rpc::ResponseToken;
pub use crate::common::utils::time::AbsoluteTime;
pub use crate::server::autoalloc::verif_api::*;
pub use crate::server::autoalloc::{
    Allocation, AllocationId, AllocationState, AutoAllocResult, LostWorkerDetails, QueueId,
    QueueInfo, QueueParameters,
};
pub use crate::server::event::Event;
pub use crate::server::event::payload::EventPayload;
pub use crate::server::event::streamer::{EventFilter, EventStreamer};

use std::time::Duration;
use tako::WorkerId;
use tako::gateway::LostWorkerReason;

fn ids(mut v: Vec<u32>) -> String {
    v.sort_unstable();
    if v.is_empty() {
        "-".to_string()
    } else {
        v.iter().map(|x| x.to_string()).collect::<Vec<_>>().join(",")
    }
}

fn crashed(d: &LostWorkerDetails) -> bool {
    matches!(
        d.reason,
        LostWorkerReason::ConnectionLost | LostWorkerReason::HeartbeatLost
    ) && d.lifetime <= Duration::from_secs(60)
}

fn disc(d: &DisconnectedWorkers) -> String {
    let mut v: Vec<(u32, bool)> = d
        .verif_workers()
        .iter()
        .map(|(w, det)| (w.as_num(), crashed(det)))
        .collect();
    v.sort_unstable();
    if v.is_empty() {
        "-".to_string()
    } else {
        v.iter()
            .map(|(w, c)| format!("{w}{}", if *c { "!" } else { "" }))
            .collect::<Vec<_>>()
            .join(",")
    }
}

fn set(s: &tako::Set<WorkerId>) -> String {
    ids(s.iter().map(|w| w.as_num()).collect())
}

/// `id:target:Q<err>` | `id:target:R<err>[conn][disc]` | `id:target:F[disc]` | `id:target:U<failed>[conn][disc]`
pub fn allocation_line(a: &Allocation) -> String {
    let st = match &a.status {
        AllocationState::Queued { status_error_count } => format!("Q{status_error_count}"),
        AllocationState::Running {
            connected_workers,
            disconnected_workers,
            status_error_count,
            ..
        } => format!(
            "R{status_error_count}[{}][{}]",
            set(connected_workers),
            disc(disconnected_workers)
        ),
        AllocationState::Finished {
            disconnected_workers,
            ..
        } => format!("F[{}]", disc(disconnected_workers)),
        AllocationState::FinishedUnexpectedly {
            connected_workers,
            disconnected_workers,
            failed,
            ..
        } => format!(
            "U{}[{}][{}]",
            if *failed { 1 } else { 0 },
            set(connected_workers),
            disc(disconnected_workers)
        ),
    };
    format!("{}:{}:{}", a.id, a.target_worker_count, st)
}

/// One line per queue (sorted by id) + the allocation index.  `quantum`: the limiter's elapsed
/// time is printed in multiples of this many seconds (rounded down).
pub fn snapshot(state: &AutoAllocState, quantum: u64) -> Vec<String> {
    let mut qs: Vec<(QueueId, &AllocationQueue)> = state.queues().collect();
    qs.sort_by_key(|(id, _)| *id);
    let mut out = Vec::new();
    for (id, q) in qs {
        let mut allocs: Vec<&Allocation> = q.all_allocations().collect();
        allocs.sort_by_key(|a| (a.id.len(), a.id.clone()));
        let (level, sf, af, elapsed) = q.limiter().verif_snapshot();
        let el = match elapsed {
            None => "-".to_string(),
            Some(d) => (d.as_secs() / quantum.max(1)).to_string(),
        };
        let al = if allocs.is_empty() {
            "-".to_string()
        } else {
            allocs
                .iter()
                .map(|a| allocation_line(a))
                .collect::<Vec<_>>()
                .join(" ")
        };
        out.push(format!(
            "SNAP q{id} {} lim={level},{sf},{af},{el} allocs {al}",
            if q.state().is_active() { "A" } else { "P" }
        ));
    }
    let idx = state.verif_allocation_index();
    let mut idx: Vec<(String, u32)> = idx;
    idx.sort_by_key(|(a, _)| (a.len(), a.clone()));
    out.push(format!(
        "SNAP index {}",
        if idx.is_empty() {
            "-".to_string()
        } else {
            idx.iter()
                .map(|(a, q)| format!("{a}>{q}"))
                .collect::<Vec<_>>()
                .join(",")
        }
    ));
    out
}
