//! Hook for component `cluster`: attaches the REAL HyperQueue job layer (`State`, the
//! `UpstreamEventProcessor` callbacks, `EventStreamer`) to the in-process tako simulation.
use crate::server::Senders;
use crate::server::UpstreamEventProcessor;
use crate::server::autoalloc::create_autoalloc_service;
use crate::server::event::journal::EventStreamMessage;
use crate::server::event::streamer::EventStreamer;
use crate::server::state::StateRef;
use crate::transfer::messages::ServerInfo;
use crate::worker::start::RunningTaskContext;
use tako::internal::scheduler::SchedulerConfig;
use tako::internal::verif::cluster::Sim;
use tokio::sync::mpsc::{UnboundedReceiver, unbounded_channel};

pub struct HqSim {
    pub sim: Sim,
    pub state_ref: StateRef,
    pub senders: Senders,
    /// what the journal thread would receive (events to persist, flush / prune requests)
    pub journal_rx: UnboundedReceiver<EventStreamMessage>,
}

pub fn new_hq_sim(config: SchedulerConfig, worker_id_initial: u32) -> HqSim {
    let sim = Sim::new(config, worker_id_initial);
    let state_ref = StateRef::new(ServerInfo {
        server_uid: "verif-uid".to_string(),
        client_host: "localhost".to_string(),
        worker_host: "localhost".to_string(),
        client_port: 0,
        worker_port: 0,
        version: "verif".to_string(),
        pid: 0,
        start_date: chrono::Utc::now(),
        journal_path: None,
    });
    let (tx, journal_rx) = unbounded_channel::<EventStreamMessage>();
    let events = EventStreamer::new(Some(tx));
    let (autoalloc, _process) = create_autoalloc_service(sim.server_ref.clone(), 1, events.clone());
    let senders = Senders { server_control: sim.server_ref.clone(), events, autoalloc };
    sim.set_client_events(Box::new(UpstreamEventProcessor::new(state_ref.clone(), senders.clone())));
    HqSim { sim, state_ref, senders, journal_rx }
}

/// The task context a real HQ worker sends with `Running` (the job layer deserialises it).
pub fn running_context(instance_id: tako::InstanceId) -> Vec<u8> {
    tako::comm::serialize(&RunningTaskContext { instance_id }).unwrap()
}
