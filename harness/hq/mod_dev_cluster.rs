//! Development-only module list (used by the coordinator's private worktree): cluster only.
#![allow(dead_code, unused_imports, unexpected_cfgs, clippy::all)]
pub mod cluster;
