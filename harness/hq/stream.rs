//! Hook for component `stream` (property C19): the real worker-side stream writer
//! (`StreamerRef::get_stream` -> `StreamSender` -> `stream_writer`) and the real `OutputLog`
//! reader, plus the real (de)serialisers of the two headers for the codec checks.
//! Thin wrappers only; all logic lives in /verif/harness/bin/stream.
use crate::client::commands::outputlog::{CatOpts, Channel, ExportOpts};
use crate::common::arraydef::IntArray;
use crate::common::serialization::SerializationConfig;
use crate::stream::StreamSerializationConfig;
use crate::stream::reader::outputlog::OutputLog;
pub use crate::stream::reader::outputlog::{Summary, VerifInstance};
use crate::transfer::stream::StreamChunkHeader;
use crate::worker::streamer::{STREAM_FILE_HEADER, STREAM_FILE_SUFFIX, StreamFileHeader, StreamerRef};
pub use crate::worker::streamer::StreamSender;
use bincode::Options;
use chrono::{DateTime, TimeZone, Utc};
use std::borrow::Cow;
use std::ops::Deref;
use std::path::{Path, PathBuf};
use tako::{InstanceId, JobId, JobTaskId, TaskId, WorkerId};

pub const FILE_MAGIC: &[u8] = STREAM_FILE_HEADER;
pub const FILE_SUFFIX: &str = STREAM_FILE_SUFFIX;

/// One "worker": a real `Streamer` (one writer task + queue per stream directory).
pub struct VWorker(StreamerRef);

impl VWorker {
    pub fn new(server_uid: &str, worker_id: u32) -> Self {
        VWorker(StreamerRef::new(server_uid, WorkerId::new(worker_id)))
    }

    /// `Streamer::get_stream` (must run inside a tokio `LocalSet`: the first call per directory
    /// spawns the real `stream_writer`).
    pub fn get_stream(&self, dir: &Path, job: u32, task: u32, instance: u32) -> Result<StreamSender, String> {
        let task_id = TaskId::new(JobId::new(job), JobTaskId::new(task));
        self.0
            .get_mut()
            .get_stream(&self.0, dir, task_id, InstanceId::new(instance))
            .map_err(|e| e.to_string())
    }
}

/// The real reader.
pub struct VLog(OutputLog);

impl VLog {
    pub fn open(dir: &Path, server_uid: Option<&str>) -> Result<VLog, String> {
        OutputLog::open(dir, server_uid).map(VLog).map_err(|e| e.to_string())
    }
    pub fn paths(&self) -> Vec<PathBuf> {
        self.0.verif_paths().to_vec()
    }
    pub fn index(&self) -> Vec<(u32, u32, Vec<VerifInstance>)> {
        self.0.verif_index()
    }
    pub fn read_channel(&mut self, job: u32, task: u32, channel: usize) -> Result<Vec<u8>, String> {
        self.0.verif_read_channel(JobId::new(job), task, channel).map_err(|e| format!("{e:#}"))
    }
    pub fn summary(&self) -> Summary {
        self.0.summary()
    }
    /// The real `cat` (prints to stdout; the harness captures fd 1).
    pub fn cat(&mut self, job: u32, task: Option<u32>, channel: usize, allow_unfinished: bool) -> Result<(), String> {
        let opts = CatOpts {
            job: JobId::new(job),
            channel: if channel == 0 { Channel::Stdout } else { Channel::Stderr },
            task: task.map(IntArray::from_id),
            allow_unfinished,
        };
        self.0.cat(&opts).map_err(|e| format!("{e:#}"))
    }
    /// The real `export` (prints JSON to stdout; the harness captures fd 1).
    pub fn export(&mut self, job: u32, task: Option<u32>) -> Result<(), String> {
        let opts = ExportOpts { job: JobId::new(job), task: task.map(IntArray::from_id) };
        self.0.export(&opts).map_err(|e| format!("{e:#}"))
    }
}

/// Plain-data chunk header (time in ms since the epoch).
#[derive(Clone, Debug, PartialEq, Eq)]
pub struct VChunkHeader {
    pub time_ms: i64,
    pub job: u32,
    pub task: u32,
    pub instance: u32,
    pub channel: u32,
    pub size: u64,
}

/// Real serialiser of the chunk header (what `stream_writer` writes). None if the time is not
/// representable.
pub fn encode_chunk_header(h: &VChunkHeader) -> Option<Vec<u8>> {
    let time: DateTime<Utc> = Utc.timestamp_millis_opt(h.time_ms).single()?;
    let hdr = StreamChunkHeader {
        time,
        task: TaskId::new(JobId::new(h.job), JobTaskId::new(h.task)),
        instance: InstanceId::new(h.instance),
        channel: h.channel,
        size: h.size,
    };
    let mut buf = Vec::new();
    StreamSerializationConfig::config().serialize_into(&mut buf, &hdr).ok()?;
    Some(buf)
}

pub enum VDecode<T> {
    Ok(T, usize),
    Eof,
    Invalid(String),
}

/// Real deserialiser of the chunk header with the error classification of `OutputLog::read_chunk`
/// (UnexpectedEof => end of file, anything else => error).  Returns the number of bytes consumed.
pub fn decode_chunk_header(bytes: &[u8]) -> VDecode<VChunkHeader> {
    let mut cur = std::io::Cursor::new(bytes);
    let r: bincode::Result<StreamChunkHeader> = StreamSerializationConfig::config().deserialize_from(&mut cur);
    match r {
        Ok(h) => VDecode::Ok(
            VChunkHeader {
                time_ms: h.time.timestamp_millis(),
                job: h.task.job_id().as_num(),
                task: h.task.job_task_id().as_num(),
                instance: h.instance.as_num(),
                channel: h.channel,
                size: h.size,
            },
            cur.position() as usize,
        ),
        Err(error) => match error.deref() {
            bincode::ErrorKind::Io(e) if matches!(e.kind(), std::io::ErrorKind::UnexpectedEof) => VDecode::Eof,
            _ => VDecode::Invalid(error.to_string()),
        },
    }
}

/// Real serialiser of the file header: magic + StreamFileHeader.
pub fn encode_file_header(server_uid: &str, worker_id: u32) -> Vec<u8> {
    let mut buf = STREAM_FILE_HEADER.to_vec();
    let header = StreamFileHeader { server_uid: Cow::Borrowed(server_uid), worker_id: WorkerId::new(worker_id) };
    StreamSerializationConfig::config().serialize_into(&mut buf, &header).unwrap();
    buf
}

/// Real parser of the file header as in `OutputLog::check_header`: (server uid, worker id, bytes consumed).
pub fn decode_file_header(bytes: &[u8]) -> Result<(String, u32, usize), String> {
    if bytes.len() < STREAM_FILE_HEADER.len() {
        return Err("eof".to_string());
    }
    if &bytes[..STREAM_FILE_HEADER.len()] != STREAM_FILE_HEADER {
        return Err("Invalid file format".to_string());
    }
    let mut cur = std::io::Cursor::new(&bytes[STREAM_FILE_HEADER.len()..]);
    let r: bincode::Result<StreamFileHeader> = StreamSerializationConfig::config().deserialize_from(&mut cur);
    match r {
        Ok(h) => Ok((h.server_uid.into_owned(), h.worker_id.as_num(), STREAM_FILE_HEADER.len() + cur.position() as usize)),
        Err(e) => Err(e.to_string()),
    }
}
