//! Hook for component `journal` (C10-C12): a `ServerRef` over a fresh in-process core (no sockets),
//! as `server_start` builds it, so that `submit_job_desc` / `add_new_tasks` run against the real core.
use crate::control::ServerRef;
use crate::internal::server::comm::CommSenderRef;
use crate::internal::server::core::CoreRef;
use crate::WorkerId;
use std::rc::Rc;

pub fn new_server_ref(server_uid: &str, worker_id_initial: u32) -> ServerRef {
    let comm_ref = CommSenderRef::new(Rc::new(tokio::sync::Notify::new()), false);
    let core_ref = CoreRef::new(
        0,
        None,
        None,
        None,
        server_uid.to_string(),
        WorkerId::new(worker_id_initial),
        Default::default(),
    );
    ServerRef::verif_new(core_ref, comm_ref)
}
