//! Hook for component `auth` (property C20): the three `Authenticator` methods with plain-data
//! messages.  Every message passes through the real wire (de)serialisation, as in
//! `do_authentication`.
use crate::internal::messages::auth::{
    AuthenticationError, AuthenticationMode, AuthenticationRequest, AuthenticationResponse,
    Challenge, EncryptionResponse,
};
use crate::internal::transfer::auth::{Authenticator, deserialize, serialize};
use orion::kdf::SecretKey;
use std::borrow::Cow;
use std::sync::Arc;

pub struct VAuth(Option<Authenticator>);

#[derive(Clone, Debug)]
pub enum VMode {
    NoAuth,
    Enc(Vec<u8>),
}

#[derive(Clone, Debug)]
pub struct VRequest {
    pub protocol: u32,
    pub role: String,
    pub mode: VMode,
}

#[derive(Clone, Debug)]
pub enum VResponse {
    NoAuth,
    Enc { nonce: Vec<u8>, response: Vec<u8> },
    Err(String),
}

fn wire<T: serde::Serialize + serde::de::DeserializeOwned>(v: &T) -> T {
    let bytes = serialize(v).expect("serialize");
    deserialize(&bytes).expect("deserialize")
}

impl VAuth {
    pub fn new(
        protocol: u32,
        me: &'static str,
        peer: &'static str,
        key: Option<Arc<SecretKey>>,
    ) -> Self {
        VAuth(Some(Authenticator::new(protocol, me, peer, key)))
    }

    pub fn make_request(&mut self) -> VRequest {
        let r = self.0.as_mut().unwrap().make_auth_request().expect("make_auth_request");
        let r: AuthenticationRequest = wire(&r);
        VRequest {
            protocol: r.protocol,
            role: r.role.to_string(),
            mode: match r.mode {
                AuthenticationMode::NoAuth => VMode::NoAuth,
                AuthenticationMode::Encryption(c) => VMode::Enc(c.challenge),
            },
        }
    }

    pub fn make_response(&mut self, q: VRequest) -> VResponse {
        let q = AuthenticationRequest {
            protocol: q.protocol,
            role: Cow::Owned(q.role),
            mode: match q.mode {
                VMode::NoAuth => AuthenticationMode::NoAuth,
                VMode::Enc(c) => AuthenticationMode::Encryption(Challenge { challenge: c }),
            },
        };
        let q: AuthenticationRequest = wire(&q);
        let r = self.0.as_mut().unwrap().make_auth_response(q).expect("make_auth_response");
        let r: AuthenticationResponse = wire(&r);
        match r {
            AuthenticationResponse::NoAuth => VResponse::NoAuth,
            AuthenticationResponse::Encryption(e) => VResponse::Enc { nonce: e.nonce, response: e.response },
            AuthenticationResponse::Error(e) => VResponse::Err(e.message),
        }
    }

    /// `finish_authentication`; true = accepted.
    pub fn finish(&mut self, r: VResponse) -> bool {
        let r = match r {
            VResponse::NoAuth => AuthenticationResponse::NoAuth,
            VResponse::Enc { nonce, response } => {
                AuthenticationResponse::Encryption(EncryptionResponse { nonce, response })
            }
            VResponse::Err(m) => AuthenticationResponse::Error(AuthenticationError { message: m }),
        };
        let r: AuthenticationResponse = wire(&r);
        self.0.take().unwrap().finish_authentication(r).is_ok()
    }
}
