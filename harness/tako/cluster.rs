//! Hook for component `cluster`: an in-process cluster simulation made of the REAL tako server
//! core (`Core` + `CommSender` + reactor + scheduler) and REAL worker state machines
//! (`WorkerState` + `process_worker_message` + the task futures spawned by the worker reactor),
//! connected by byte channels that the harness drains one message at a time.
//!
//! Only glue lives here: construction, message (de)serialisation, the dispatch `match`es of
//! `worker_receive_loop` / `worker_message_loop`, a fake `TaskLauncher`, and plain-data snapshots.
use crate::comm::{deserialize, serialize};
use crate::control::ServerRef;
use crate::events::EventProcessor;
use crate::gateway::LostWorkerReason;
use crate::internal::common::resources::map::ResourceIdMap;
use crate::internal::common::resources::{ResourceDescriptor, ResourceDescriptorItem};
use crate::internal::messages::worker::{
    FromWorkerMessage, ToWorkerMessage, WorkerTaskUpdate,
};
use crate::internal::scheduler::{
    SchedulerConfig, SchedulingSolution, create_task_batches, create_task_mapping,
    run_scheduling_solver,
};
use crate::internal::server::comm::{Comm, CommSenderRef};
use crate::internal::server::core::{Core, CoreRef};
use crate::internal::server::reactor::{
    on_new_worker, on_remove_worker, on_retract_response, on_task_update,
};
use crate::internal::server::task::TaskRuntimeState;
use crate::internal::server::worker::{Worker, WorkerAssignment};
use crate::internal::worker::comm::WorkerComm;
use crate::internal::worker::configuration::{OverviewConfiguration, WorkerConfiguration};
use crate::internal::worker::rpc::process_worker_message;
use crate::internal::worker::state::WorkerStateRef;
use crate::launcher::{StopReason, TaskBuildContext, TaskLaunchData, TaskLauncher, TaskResult};
use crate::worker::ServerLostPolicy;
use crate::{InstanceId, Map, TaskId, WorkerId};
use bytes::Bytes;
use std::cell::RefCell;
use std::rc::Rc;
use std::time::{Duration, Instant};
use tokio::sync::Notify;
use tokio::sync::mpsc::{UnboundedReceiver, unbounded_channel};
use tokio::sync::oneshot;

/// How the harness wants a launched task future to end.
pub enum VEnd {
    Finished,
    Failed(String),
    /// resolve as the stop signal says (Canceled / Timeouted); if no signal was sent behaves as Finished
    FollowStop,
}

pub struct LaunchRec {
    pub task_id: TaskId,
    pub instance_id: InstanceId,
    pub rv_id: u32,
    pub node_list: Vec<WorkerId>,
    /// (resource id, [(index, group, fractions)], amount fractions)
    pub allocation: Vec<(u32, Vec<(u32, u32, u32)>, u64)>,
    pub ok: bool,
}

struct Pending {
    end: oneshot::Sender<VEnd>,
    stop_seen: Rc<RefCell<Option<&'static str>>>,
}

#[derive(Default)]
pub struct LauncherShared {
    pub log: Vec<LaunchRec>,
    pending: Map<TaskId, Pending>,
    /// task ids whose next launch must fail (launch failure injected by the harness)
    pub fail_next: Vec<TaskId>,
    pub context_maker: Option<Box<dyn Fn(InstanceId) -> Vec<u8>>>,
}

struct SimLauncher {
    shared: Rc<RefCell<LauncherShared>>,
}

impl TaskLauncher for SimLauncher {
    fn build_task(
        &self,
        ctx: TaskBuildContext,
        stop_receiver: oneshot::Receiver<StopReason>,
    ) -> crate::Result<TaskLaunchData> {
        let mut sh = self.shared.borrow_mut();
        let task_id = ctx.task_id();
        let allocation = ctx
            .allocation()
            .resources
            .iter()
            .map(|r| {
                (
                    r.resource_id.as_num(),
                    r.indices
                        .iter()
                        .map(|i| (i.index.as_num(), i.group_idx as u32, i.fractions))
                        .collect(),
                    r.amount.total_fractions(),
                )
            })
            .collect();
        let fail = if let Some(p) = sh.fail_next.iter().position(|t| *t == task_id) {
            sh.fail_next.remove(p);
            true
        } else {
            false
        };
        sh.log.push(LaunchRec {
            task_id,
            instance_id: ctx.instance_id(),
            rv_id: ctx.resource_variant().as_num() as u32,
            node_list: ctx.node_list().to_vec(),
            allocation,
            ok: !fail,
        });
        if fail {
            return Err("launch failed (injected)".into());
        }
        let (end_tx, end_rx) = oneshot::channel::<VEnd>();
        let stop_seen: Rc<RefCell<Option<&'static str>>> = Rc::new(RefCell::new(None));
        sh.pending.insert(task_id, Pending { end: end_tx, stop_seen: stop_seen.clone() });
        let context = sh
            .context_maker
            .as_ref()
            .map(|f| f(ctx.instance_id()))
            .unwrap_or_default();
        let fut = async move {
            let mut stop_receiver = stop_receiver;
            let mut stop_open = true;
            let mut end_rx = end_rx;
            loop {
                tokio::select! {
                    biased;
                    s = &mut stop_receiver, if stop_open => {
                        stop_open = false;
                        if let Ok(reason) = s {
                            *stop_seen.borrow_mut() = Some(match reason {
                                StopReason::Cancel => "cancel",
                                StopReason::Timeout => "timeout",
                            });
                        }
                    }
                    e = &mut end_rx => {
                        return match e {
                            Ok(VEnd::Finished) => Ok(TaskResult::Finished),
                            Ok(VEnd::Failed(m)) => Err(m.into()),
                            Ok(VEnd::FollowStop) | Err(_) => {
                                // the launcher contract: a stop signal makes the future resolve accordingly
                                if stop_open {
                                    if let Ok(reason) = stop_receiver.try_recv() {
                                        *stop_seen.borrow_mut() = Some(match reason {
                                            StopReason::Cancel => "cancel",
                                            StopReason::Timeout => "timeout",
                                        });
                                    }
                                }
                                match *stop_seen.borrow() {
                                    Some("cancel") => Ok(TaskResult::Canceled),
                                    Some("timeout") => Ok(TaskResult::Timeouted),
                                    _ => Ok(TaskResult::Finished),
                                }
                            }
                        };
                    }
                }
            }
        };
        Ok(TaskLaunchData { task_future: Box::pin(fut), task_context: context })
    }
}

pub struct SimWorker {
    pub id: WorkerId,
    pub state: WorkerStateRef,
    down: UnboundedReceiver<Bytes>,
    up: UnboundedReceiver<Bytes>,
    /// messages already taken off the tokio channels, oldest first (filled by `Sim::pump`)
    down_q: std::collections::VecDeque<Bytes>,
    up_q: std::collections::VecDeque<Bytes>,
    pub launcher: Rc<RefCell<LauncherShared>>,
}

pub struct WorkerSpec {
    /// (resource name, number of indices) - every resource is a single-group index list
    pub resources: Vec<(String, u32)>,
    pub group: String,
}

/// Plain-data view of one message travelling server -> worker.
#[derive(Debug)]
pub enum VDown {
    /// (task, instance, variant (None = prefill), rq, node list)
    /// (task, instance, variant, request, nodes, has a time limit - read from the shared data entry the task points to)
    Compute(Vec<(TaskId, u32, Option<u32>, u32, Vec<WorkerId>, bool)>),
    Retract(Vec<TaskId>),
    Cancel(Vec<TaskId>),
    NewWorker(WorkerId),
    LostWorker(WorkerId),
    NewRq(u32),
    Stop,
    Other,
}

/// Plain-data view of one message travelling worker -> server.
#[derive(Debug)]
pub enum VUpdate {
    Finished(TaskId),
    Failed(TaskId, String),
    Running(TaskId, u32),
    RunningPrefilled(TaskId, u32),
    Reject(TaskId, Option<u32>),
    Enable(u32, u32),
}
#[derive(Debug)]
pub enum VUp {
    Updates(Vec<VUpdate>),
    RetractResponse(Vec<TaskId>),
    Other,
}

pub struct Sim {
    pub core_ref: CoreRef,
    pub comm_ref: CommSenderRef,
    pub server_ref: ServerRef,
    pub workers: Map<WorkerId, SimWorker>,
    pub now: Instant,
}

fn vdown(m: &ToWorkerMessage) -> VDown {
    match m {
        ToWorkerMessage::ComputeTasks(c) => VDown::Compute(
            c.tasks
                .iter()
                .map(|t| {
                    (
                        t.id,
                        t.instance_id.as_num(),
                        t.resource_rq_variant.map(|v| v.as_num() as u32),
                        t.resource_rq_id.as_num(),
                        t.node_list.clone(),
                        c.shared_data.get(t.shared_index).map(|d| d.time_limit.is_some()).unwrap_or(false),
                    )
                })
                .collect(),
        ),
        ToWorkerMessage::RetractTasks(m) => VDown::Retract(m.ids.clone()),
        ToWorkerMessage::CancelTasks(m) => VDown::Cancel(m.ids.clone()),
        ToWorkerMessage::NewWorker(m) => VDown::NewWorker(m.worker_id),
        ToWorkerMessage::LostWorker(w) => VDown::LostWorker(*w),
        ToWorkerMessage::NewResourceRequest(rq, _) => VDown::NewRq(rq.as_num()),
        ToWorkerMessage::Stop => VDown::Stop,
        ToWorkerMessage::SetOverviewIntervalOverride(_) => VDown::Other,
    }
}

fn vup(m: &FromWorkerMessage) -> VUp {
    match m {
        FromWorkerMessage::TaskUpdate(ups) => VUp::Updates(
            ups.iter()
                .map(|u| match u {
                    WorkerTaskUpdate::Finished { task_id } => VUpdate::Finished(*task_id),
                    WorkerTaskUpdate::Failed { task_id, info } => VUpdate::Failed(*task_id, info.message.clone()),
                    WorkerTaskUpdate::Running(m) => VUpdate::Running(m.task_id, m.rv_id.as_num() as u32),
                    WorkerTaskUpdate::RunningPrefilled(m) => VUpdate::RunningPrefilled(m.task_id, m.rv_id.as_num() as u32),
                    WorkerTaskUpdate::RejectRequest { task_id, rv_id } => VUpdate::Reject(*task_id, rv_id.map(|v| v.as_num() as u32)),
                    WorkerTaskUpdate::EnableRequest { resource_rq_id, rv_id } => VUpdate::Enable(resource_rq_id.as_num(), rv_id.as_num() as u32),
                })
                .collect(),
        ),
        FromWorkerMessage::RetractResponse(r) => VUp::RetractResponse(r.retracted.clone()),
        _ => VUp::Other,
    }
}

/// The scheduler's answer of one round, in the iteration order `create_task_mapping` will use.
pub struct VSolution {
    pub sn: Vec<((u32, u32), Vec<(WorkerId, u32)>)>,
    pub mn: Vec<((u32, u32), Vec<Vec<WorkerId>>)>,
    pub is_optimal: bool,
}

/// Hash-iteration orders that the next reactor / scheduler call will observe.
pub struct VOrders {
    /// worker map iteration order
    pub workers: Vec<WorkerId>,
    /// per worker: assigned set order, prefilled set order
    pub worker_sets: Vec<(WorkerId, Vec<TaskId>, Vec<TaskId>)>,
    /// per queue (rq): prefill set iteration order
    pub prefill_sets: Vec<(u32, Vec<TaskId>)>,
    /// task map iteration order
    pub tasks: Vec<TaskId>,
}

pub struct VTask {
    pub id: TaskId,
    /// W<n> | A<w>:<rv> | P<w> | S<w> | R<w>:<rv> | M<w,w,..> | F
    pub state: String,
    pub deps: Vec<TaskId>,
    pub consumers: Vec<TaskId>,
    pub rq: u32,
    pub user_priority: i32,
    pub instance: u32,
    pub crash_counter: u32,
}

pub struct VWorker {
    pub id: WorkerId,
    /// None = multi-node assignment
    pub sn: Option<(Vec<TaskId>, Vec<TaskId>, Vec<u64>)>,
    pub mn: Option<(TaskId, bool)>,
    pub resources: Vec<u64>,
    pub blocked: Vec<(u32, u32)>,
    pub stopping: bool,
    pub free: bool,
    pub group: String,
}

pub struct VQueue {
    pub rq: u32,
    /// (user priority, ids) in queue order
    pub ready: Vec<(i32, Vec<TaskId>)>,
    pub prefill: Option<(i32, Vec<TaskId>)>,
}

pub struct CoreSnapshot {
    pub tasks: Vec<VTask>,
    pub workers: Vec<VWorker>,
    pub queues: Vec<VQueue>,
    pub redirects: Vec<(TaskId, WorkerId, u32)>,
    pub flag: bool,
}

pub struct WorkerSnapshot {
    pub id: WorkerId,
    /// rq -> task ids in Vec order (popped from the back)
    pub backlog: Vec<(u32, Vec<TaskId>)>,
    pub running: Vec<(TaskId, u32)>,
    pub blocked: Vec<(u32, u32)>,
}

/// User priority back from the mixed `Priority` (inverse of `Priority::from_user_priority`).
fn prio_user(p: crate::Priority) -> i32 {
    let raw: u64 = bincode::deserialize(&bincode::serialize(&p).unwrap()).unwrap();
    (((raw >> 32) as u32) ^ 0x8000_0000) as i32
}

fn state_str(s: &TaskRuntimeState) -> String {
    match s {
        TaskRuntimeState::Waiting { unfinished_deps } => format!("W{unfinished_deps}"),
        TaskRuntimeState::Assigned { worker_id, rv_id } => format!("A{worker_id}:{rv_id}"),
        TaskRuntimeState::Prefilled { worker_id } => format!("P{worker_id}"),
        TaskRuntimeState::Retracting { worker_id } => format!("S{worker_id}"),
        TaskRuntimeState::Running { worker_id, rv_id } => format!("R{worker_id}:{rv_id}"),
        TaskRuntimeState::RunningMultiNode(ws) => {
            format!("M{}", ws.iter().map(|w| w.to_string()).collect::<Vec<_>>().join(","))
        }
        TaskRuntimeState::Finished => "F".to_string(),
    }
}

impl Sim {
    pub fn new(config: SchedulerConfig, worker_id_initial: u32) -> Sim {
        let core_ref = CoreRef::new(0, None, None, None, "verif-uid".to_string(), WorkerId::new(worker_id_initial), config);
        let comm_ref = CommSenderRef::new(Rc::new(Notify::new()), false);
        let server_ref = ServerRef::verif_new(core_ref.clone(), comm_ref.clone());
        {
            // fixed resource universe of the simulation: cpus = 0, gpus = 1, mem = 2
            let mut core = core_ref.get_mut();
            core.get_or_create_resource_id("cpus");
            core.get_or_create_resource_id("gpus");
            core.get_or_create_resource_id("mem");
        }
        Sim { core_ref, comm_ref, server_ref, workers: Map::new(), now: Instant::now() }
    }

    pub fn set_client_events(&self, ev: Box<dyn EventProcessor>) {
        self.comm_ref.set_client_events(ev);
    }

    /// What `worker_rpc_loop` does when a worker registers (without the socket), plus the worker
    /// process' own initialisation from the registration response.
    pub fn connect_worker(&mut self, spec: &WorkerSpec, context_maker: Option<Box<dyn Fn(InstanceId) -> Vec<u8>>>) -> WorkerId {
        let worker_id = self.core_ref.get_mut().new_worker_id();
        let descriptor = ResourceDescriptor::new(
            spec.resources
                .iter()
                .map(|(name, n)| ResourceDescriptorItem::range(name, 0, n.saturating_sub(1)))
                .collect(),
            Default::default(),
        );
        let configuration = WorkerConfiguration {
            resources: descriptor,
            listen_address: format!("1.1.1.{worker_id}:123"),
            hostname: format!("sim{worker_id}"),
            group: spec.group.clone(),
            work_dir: Default::default(),
            heartbeat_interval: Duration::from_millis(1000),
            overview_configuration: OverviewConfiguration { send_interval: None, gpu_families: Default::default() },
            idle_timeout: None,
            time_limit: None,
            retract_check_interval: Duration::from_secs(30),
            on_server_lost: ServerLostPolicy::Stop,
            min_utilization: 0.0,
            extra: Default::default(),
        };
        let (down_tx, down_rx) = unbounded_channel::<Bytes>();
        {
            let mut core = self.core_ref.get_mut();
            for item in &configuration.resources.resources {
                core.get_or_create_resource_id(&item.name);
            }
            let worker = Worker::new(worker_id, configuration.clone(), &core.create_resource_map(), self.now);
            on_new_worker(&mut core, &mut *self.comm_ref.get_mut(), worker);
        }
        // registration response data
        let (resource_names, rq_map, others): (Vec<String>, _, Vec<_>) = {
            let core = self.core_ref.get();
            (
                core.create_resource_map().into_vec(),
                core.get_resource_rq_map().clone(),
                core.get_workers().filter(|w| w.id != worker_id).map(|w| (w.id, w.configuration.listen_address.clone())).collect(),
            )
        };
        self.comm_ref.get_mut().add_worker(worker_id, down_tx);
        // worker side
        let (up_tx, up_rx) = unbounded_channel::<Bytes>();
        let launcher = Rc::new(RefCell::new(LauncherShared { context_maker, ..Default::default() }));
        let state = WorkerStateRef::new(
            WorkerComm::new(up_tx),
            worker_id,
            configuration,
            ResourceIdMap::from_vec(resource_names),
            rq_map,
            Box::new(SimLauncher { shared: launcher.clone() }),
            "verif-uid".to_string(),
        );
        {
            let mut st = state.get_mut();
            for (w, addr) in others {
                st.worker_addresses.insert(w, addr);
            }
        }
        self.workers.insert(worker_id, SimWorker { id: worker_id, state, down: down_rx, up: up_rx, down_q: Default::default(), up_q: Default::default(), launcher });
        worker_id
    }

    /// The worker process disappears: both channels and the worker state are dropped, then the
    /// server runs what `worker_rpc_loop` runs when the connection ends.
    pub fn lose_worker(&mut self, worker_id: WorkerId, reason: LostWorkerReason) {
        if let Some(w) = self.workers.remove(&worker_id) {
            // running task futures hold only channels; dropping the state is enough
            w.state.get_mut().drop_non_running_tasks();
            drop(w);
        }
        let mut core = self.core_ref.get_mut();
        let mut comm = self.comm_ref.get_mut();
        let reason = core.get_worker(worker_id).stop_reason.map(|(r, _)| r).unwrap_or(reason);
        comm.remove_worker(worker_id);
        on_remove_worker(&mut core, &mut *comm, worker_id, reason);
    }

    /// Move everything sent so far from the tokio channels into inspectable FIFO queues.
    pub fn pump(&mut self) {
        for w in self.workers.values_mut() {
            while let Ok(b) = w.down.try_recv() {
                w.down_q.push_back(b);
            }
            while let Ok(b) = w.up.try_recv() {
                w.up_q.push_back(b);
            }
        }
    }
    pub fn down_len(&self, w: WorkerId) -> usize {
        self.workers.get(&w).map(|x| x.down_q.len()).unwrap_or(0)
    }
    pub fn up_len(&self, w: WorkerId) -> usize {
        self.workers.get(&w).map(|x| x.up_q.len()).unwrap_or(0)
    }
    pub fn pending_down(&self, w: WorkerId) -> Vec<VDown> {
        self.workers.get(&w).map(|x| x.down_q.iter().map(|b| vdown(&deserialize::<ToWorkerMessage>(b).expect("ToWorkerMessage"))).collect()).unwrap_or_default()
    }
    pub fn pending_up(&self, w: WorkerId) -> Vec<VUp> {
        self.workers.get(&w).map(|x| x.up_q.iter().map(|b| vup(&deserialize::<FromWorkerMessage>(b).expect("FromWorkerMessage"))).collect()).unwrap_or_default()
    }

    /// Deliver the oldest server->worker message (the body of `worker_message_loop`).
    /// Must run inside a tokio `LocalSet` (the worker reactor spawns the task futures).
    pub fn deliver_down(&mut self, w: WorkerId) -> Option<VDown> {
        self.pump();
        let sw = self.workers.get_mut(&w)?;
        let data = sw.down_q.pop_front()?;
        let message: ToWorkerMessage = deserialize(&data).expect("ToWorkerMessage");
        let v = vdown(&message);
        let mut state = sw.state.get_mut();
        let _stop = process_worker_message(&mut state, message);
        Some(v)
    }

    /// Deliver the oldest worker->server message (the body of `worker_receive_loop`).
    pub fn deliver_up(&mut self, w: WorkerId) -> Option<VUp> {
        self.pump();
        let sw = self.workers.get_mut(&w)?;
        let data = sw.up_q.pop_front()?;
        let message: FromWorkerMessage = deserialize(&data).expect("FromWorkerMessage");
        let v = vup(&message);
        let mut core = self.core_ref.get_mut();
        let mut comm = self.comm_ref.get_mut();
        match message {
            FromWorkerMessage::TaskUpdate(updates) => on_task_update(&mut core, &mut *comm, w, updates),
            FromWorkerMessage::RetractResponse(msg) => on_retract_response(&mut core, &mut *comm, w, &msg.retracted),
            _ => {}
        }
        Some(v)
    }

    /// End a launched task future the way the harness chooses. Returns false if no such future.
    pub fn end_task(&mut self, w: WorkerId, task: TaskId, end: VEnd) -> bool {
        let Some(sw) = self.workers.get(&w) else { return false };
        let Some(p) = sw.launcher.borrow_mut().pending.remove(&task) else { return false };
        p.end.send(end).is_ok()
    }

    pub fn pending_tasks(&self, w: WorkerId) -> Vec<(TaskId, Option<&'static str>)> {
        let Some(sw) = self.workers.get(&w) else { return vec![] };
        let mut v: Vec<_> = sw.launcher.borrow().pending.iter().map(|(t, p)| (*t, *p.stop_seen.borrow())).collect();
        v.sort();
        v
    }

    pub fn scheduling_flag(&self) -> bool {
        self.comm_ref.get().get_scheduling_flag()
    }

    pub fn orders(&self) -> VOrders {
        let core = self.core_ref.get();
        let split = core.split();
        let workers: Vec<WorkerId> = split.worker_map.keys().copied().collect();
        let worker_sets = split
            .worker_map
            .iter()
            .filter_map(|(id, w)| w.sn_assignment().map(|sn| (*id, sn.assigned_tasks.iter().copied().collect(), sn.prefilled_tasks.iter().copied().collect())))
            .collect();
        let prefill_sets = split
            .task_queues
            .iter()
            .filter_map(|q| q.prefill.as_ref().map(|(_, ts)| (q.resource_rq_id.as_num(), ts.iter().copied().collect())))
            .collect();
        // iteration order of `task_map.tasks_mut()` (StableMap: storage order, NOT the key order of the index)
        let tasks = split.task_map.tasks().map(|t| t.id).collect();
        VOrders { workers, worker_sets, prefill_sets, tasks }
    }

    /// One scheduling round = the body of `run_scheduling_inner`, returning the solver's answer
    /// (in iteration order) so that the model can validate and apply it. Resets the flag like
    /// `scheduler_loop` does.
    pub fn schedule(&mut self) -> VSolution {
        let mut core = self.core_ref.get_mut();
        let mut comm = self.comm_ref.get_mut();
        let batches = create_task_batches(&mut core, self.now, None);
        let solution: SchedulingSolution = run_scheduling_solver(&core, self.now, &batches, None);
        let v = VSolution {
            sn: solution
                .sn_counts
                .iter()
                .map(|((rq, rv), m)| ((rq.as_num(), rv.as_num() as u32), m.iter().map(|(w, c)| (*w, *c)).collect()))
                .collect(),
            mn: solution
                .mn_workers
                .iter()
                .map(|((rq, rv), sets)| ((rq.as_num(), rv.as_num() as u32), sets.iter().map(|s| s.iter().copied().collect()).collect()))
                .collect(),
            is_optimal: solution.is_optimal,
        };
        let mapping = create_task_mapping(&mut core, solution);
        mapping.send_messages(&mut core, &mut *comm);
        comm.reset_scheduling_flag();
        v
    }

    pub fn snapshot(&self) -> CoreSnapshot {
        let core = self.core_ref.get();
        let split = core.split();
        let mut tasks: Vec<VTask> = split
            .task_map
            .task_ids()
            .map(|id| {
                let t = split.task_map.get_task(id);
                let mut deps: Vec<TaskId> = t.task_deps.iter().copied().collect();
                deps.sort();
                let mut consumers: Vec<TaskId> = t.get_consumers().iter().copied().collect();
                consumers.sort();
                VTask {
                    id,
                    state: state_str(&t.state),
                    deps,
                    consumers,
                    rq: t.resource_rq_id.as_num(),
                    user_priority: bincode::deserialize::<i32>(&bincode::serialize(&t.configuration.user_priority).unwrap()).unwrap(),
                    instance: t.instance_id.as_num(),
                    crash_counter: t.crash_counter,
                }
            })
            .collect();
        tasks.sort_by_key(|t| t.id);
        let n_res = core.resource_map().n_resources();
        let mut workers: Vec<VWorker> = split
            .worker_map
            .values()
            .map(|w| {
                let res = |r: &crate::internal::server::workerload::WorkerResources| -> Vec<u64> {
                    (0..n_res).map(|i| r.get((i as u32).into()).total_fractions()).collect()
                };
                let (sn, mn) = match w.assignment() {
                    WorkerAssignment::Sn(a) => {
                        let mut at: Vec<TaskId> = a.assigned_tasks.iter().copied().collect();
                        at.sort();
                        let mut pt: Vec<TaskId> = a.prefilled_tasks.iter().copied().collect();
                        pt.sort();
                        (Some((at, pt, res(&a.free_resources))), None)
                    }
                    WorkerAssignment::Mn(m) => (None, Some((m.task_id, m.is_root))),
                };
                let mut blocked: Vec<(u32, u32)> = w.blocked_requests.iter().map(|(a, b)| (a.as_num(), b.as_num() as u32)).collect();
                blocked.sort();
                VWorker { id: w.id, sn, mn, resources: res(&w.resources), blocked, stopping: w.is_stopping(), free: w.is_free(), group: w.configuration.group.clone() }
            })
            .collect();
        workers.sort_by_key(|w| w.id);
        let queues = split
            .task_queues
            .iter()
            .map(|q| VQueue {
                rq: q.resource_rq_id.as_num(),
                ready: q
                    .queue
                    .iter()
                    .map(|(p, ids)| {
                        let ids: Vec<TaskId> = match ids {
                            crate::internal::scheduler::OneOrMoreTaskIds::One(t) => vec![*t],
                            crate::internal::scheduler::OneOrMoreTaskIds::More(ts) => ts.iter().copied().collect(),
                        };
                        (prio_user(p.0), ids)
                    })
                    .collect(),
                prefill: q.prefill.as_ref().map(|(p, ts)| {
                    let mut v: Vec<TaskId> = ts.iter().copied().collect();
                    v.sort();
                    (prio_user(*p), v)
                }),
            })
            .collect();
        let mut redirects: Vec<(TaskId, WorkerId, u32)> = split.scheduler_state.redirects.iter().map(|(t, (w, v))| (*t, *w, v.as_num() as u32)).collect();
        redirects.sort();
        CoreSnapshot { tasks, workers, queues, redirects, flag: self.comm_ref.get().get_scheduling_flag() }
    }

    /// Iteration order of the worker's backlog map (request ids), as `retract_tasks` will see it.
    pub fn backlog_rq_order(&self, w: WorkerId) -> Vec<u32> {
        self.workers.get(&w).map(|sw| sw.state.get().prefilled_tasks.keys().map(|k| k.as_num()).collect()).unwrap_or_default()
    }

    pub fn worker_snapshot(&self, w: WorkerId) -> Option<WorkerSnapshot> {
        let sw = self.workers.get(&w)?;
        let st = sw.state.get();
        let mut backlog: Vec<(u32, Vec<TaskId>)> = st.prefilled_tasks.iter().map(|(rq, ts)| (rq.as_num(), ts.iter().map(|t| t.id).collect())).filter(|(_, v): &(u32, Vec<TaskId>)| !v.is_empty()).collect();
        backlog.sort();
        let mut running: Vec<(TaskId, u32)> = st.running_tasks.values().map(|r| (r.task.id, r.rv_id.as_num() as u32)).collect();
        running.sort();
        let mut blocked: Vec<(u32, u32)> = st.blocked_requests.iter().map(|(a, b)| (a.as_num(), b.as_num() as u32)).collect();
        blocked.sort();
        Some(WorkerSnapshot { id: w, backlog, running, blocked })
    }
}
