//! Verification hooks for tako (compiled only with `--features verif`).
//!
//! The source of this module lives in /verif/harness/tako and is included by
//! `#[path]` from crates/tako/src/internal/mod.rs, so that it has crate-level
//! visibility of tako's internals.  Every sub-module is a thin layer exposing
//! internals to the external harness binaries in /verif/harness/bin.
//!
//! For isolated development a sub-module can be compiled alone with
//! RUSTFLAGS="--cfg verif_dev --cfg verif_dev_<name>".
#![allow(dead_code, unused_imports, unexpected_cfgs, clippy::all)]

#[cfg(any(not(verif_dev), verif_dev_auth))]
pub mod auth;

#[cfg(any(not(verif_dev), verif_dev_cluster))]
pub mod cluster;

#[cfg(any(not(verif_dev), verif_dev_alloc))]
pub mod alloc;

#[cfg(any(not(verif_dev), verif_dev_sched))]
pub mod sched;

#[cfg(any(not(verif_dev), verif_dev_journal))]
pub mod journal;
