//! Development-only module list (used by the coordinator's private worktree): auth + cluster.
#![allow(dead_code, unused_imports, unexpected_cfgs, clippy::all)]
pub mod auth;
pub mod cluster;
