//! Hook for component `sched` (properties C15, C05-row-system): one scheduling decision of the
//! REAL MILP scheduler on a `Core` built from plain data.
//!
//! Thin wrappers only: construction of workers / request classes / tasks through the real reactor
//! entry points, `create_task_batches`, `run_scheduling_solver` (with the add-only `verif_log`
//! recording the variables / rows / raw solution values it hands to HiGHS), `create_task_mapping`,
//! `GapCache::get_gap`, `TaskQueue::take_tasks`, `Priority::from_user_priority`, and plain-data
//! snapshots.  All logic (generation, printing, checking) lives in harness/bin/sched.
use crate::events::EventProcessor;
use crate::gateway::{
    CrashLimit, LostWorkerReason, ResourceRequest as ClientRq, ResourceRequestEntry,
    ResourceRequestVariants as ClientRqv,
};
use crate::internal::common::resources::{
    AllocationRequest, ResourceAmount, ResourceDescriptor, ResourceDescriptorItem,
};
use crate::internal::messages::common::TaskFailInfo;
use crate::internal::messages::worker::{
    TaskRunningMsg, ToWorkerMessage, WorkerOverview, WorkerTaskUpdate,
};
use crate::control::WorkerTypeQuery;
use crate::internal::scheduler::query::compute_new_worker_query;
use crate::internal::scheduler::verif_log;
use crate::internal::scheduler::{
    TaskBatch, create_task_batches, create_task_mapping, run_scheduling_solver,
};
use crate::internal::server::comm::Comm;
use crate::internal::server::core::Core;
use crate::internal::server::reactor::{
    get_or_create_resource_rq_id, on_new_tasks, on_new_worker, on_task_update,
};
use crate::internal::server::task::{Task, TaskConfiguration, TaskRuntimeState};
use crate::internal::server::worker::Worker;
use crate::internal::solver::ConstraintType;
use crate::internal::worker::configuration::{OverviewConfiguration, WorkerConfiguration};
use crate::resources::ResourceRqId;
use crate::ResourceVariantId;
use crate::task::SerializedTaskContext;
use crate::worker::ServerLostPolicy;
use crate::{InstanceId, JobId, JobTaskId, Priority, TaskId, UserPriority, WorkerId};
use smallvec::smallvec;
use std::rc::Rc;
use std::time::{Duration, Instant};

#[derive(Default)]
struct NullEvents;

impl EventProcessor for NullEvents {
    fn on_task_finished(&mut self, _task_id: TaskId) {}
    fn on_task_started(
        &mut self,
        _task_id: TaskId,
        _instance_id: InstanceId,
        _worker_ids: &[WorkerId],
        _rv_id: ResourceVariantId,
        _context: SerializedTaskContext,
    ) {
    }
    fn on_task_error(
        &mut self,
        _task_id: TaskId,
        _consumers_id: Vec<TaskId>,
        _error_info: TaskFailInfo,
    ) -> Vec<TaskId> {
        Vec::new()
    }
    fn on_worker_new(&mut self, _worker_id: WorkerId, _configuration: &WorkerConfiguration) {}
    fn on_worker_lost(
        &mut self,
        _worker_id: WorkerId,
        _running_tasks: &[TaskId],
        _reason: LostWorkerReason,
    ) {
    }
    fn on_worker_overview(&mut self, _overview: Box<WorkerOverview>) {}
    fn on_task_notify(&mut self, _task_id: TaskId, _worker_id: WorkerId, _message: Box<[u8]>) {}
}

/// Local `Comm`: counts messages, keeps nothing.
#[derive(Default)]
pub struct NullComm {
    events: NullEvents,
    pub n_worker_msgs: usize,
    pub n_broadcasts: usize,
    pub need_scheduling: bool,
}

impl Comm for NullComm {
    fn send_worker_message(&mut self, _worker_id: WorkerId, _message: &ToWorkerMessage) {
        self.n_worker_msgs += 1;
    }
    fn broadcast_worker_message(&mut self, _message: &ToWorkerMessage) {
        self.n_broadcasts += 1;
    }
    fn ask_for_scheduling(&mut self) {
        self.need_scheduling = true;
    }
    fn client(&mut self) -> &mut dyn EventProcessor {
        &mut self.events
    }
}

/// task id as one number: job * 2^32 + job_task (numeric order = `TaskId`'s derived order)
pub fn task_num(t: TaskId) -> u64 {
    ((t.job_id().as_num() as u64) << 32) | t.job_task_id().as_num() as u64
}
pub fn task_of_num(n: u64) -> TaskId {
    TaskId::new(JobId::new((n >> 32) as u32), JobTaskId::new(n as u32))
}

/// `Priority::from_user_priority` as a number.
pub fn encode_user_priority(p: i32) -> u64 {
    let pr = Priority::from_user_priority(UserPriority::new(p));
    // Priority has no accessor; its serde form is the bare u64
    let bytes = bincode::serialize(&pr).expect("serialize priority");
    let v: u64 = bincode::deserialize(&bytes).expect("deserialize priority");
    v
}

#[derive(Debug, Clone)]
pub struct VCut {
    pub size: u32,
    pub blockers: Vec<(u32, Option<u32>)>,
}

#[derive(Debug, Clone)]
pub struct VBatch {
    pub rq: u32,
    pub size: u32,
    pub limit: u32,
    pub limit_reached: bool,
    pub is_blocker: bool,
    pub cuts: Vec<VCut>,
}

#[derive(Debug, Clone)]
pub enum VEntry {
    Var { index: usize, kind: char, a: u32, b: u32, c: u32, weight: f64 },
    /// ctype: 0 = Min (>=), 1 = Max (<=), 2 = Eq
    Row { ctype: u8, bound: f64, terms: Vec<(usize, f64)> },
    Values(Vec<f64>),
}

#[derive(Debug, Clone, Default)]
pub struct VSolution {
    pub is_optimal: bool,
    /// (rq, variant, worker, count), sorted
    pub sn_counts: Vec<(u32, u32, u32, u32)>,
    pub n_mn: usize,
    pub log: Vec<VEntry>,
}

#[derive(Debug, Clone, Default)]
pub struct VMapping {
    /// (worker, task, variant) in the order of `WorkerTaskUpdate::assigned`, workers sorted
    pub assigned: Vec<(u32, u64, u32)>,
    pub prefills: Vec<(u32, u64)>,
    pub retracts: Vec<(u32, u64)>,
}

#[derive(Debug, Clone)]
pub struct VQueue {
    pub rq: u32,
    /// (priority, ids ascending) in the queue's own order (descending priority)
    pub ready: Vec<(u64, Vec<u64>)>,
    pub prefill: Option<(u64, Vec<u64>)>,
}

#[derive(Debug, Clone)]
pub struct VWorker {
    pub id: u32,
    pub resources: Vec<u64>,
    pub free: Vec<u64>,
    /// (task, rq) of assigned / running single-node tasks, sorted by task
    pub assigned: Vec<(u64, u32)>,
    pub prefilled: Vec<u64>,
}

/// One `WorkerTypeQuery` as plain data: descriptor items are (resource name, units); "cpus" becomes a
/// one-socket range, everything else a `Sum` item.
#[derive(Debug, Clone)]
pub struct VQuery {
    pub partial: bool,
    pub items: Vec<(String, u32)>,
    pub time_limit: Option<u64>,
    pub max_sn_workers: u32,
    pub max_workers_per_allocation: u32,
    pub min_utilization: f32,
}

/// What `compute_new_worker_query` answered, plus the raw solution of the solve it ran.
#[derive(Debug, Clone, Default)]
pub struct VQueryResult {
    /// `Err` of `descriptor.validate(!partial)` (the first step of `ServerRef::new_worker_query`)
    pub invalid: bool,
    pub sn: Vec<u32>,
    /// (worker_type, worker_per_allocation, max_allocations) in the order of the response
    pub mn: Vec<(usize, u32, u32)>,
    /// every variable the solver created: (kind, a, b, c, rounded value), kinds as in `verif_log`
    pub xvars: Vec<(char, u32, u32, u32, i64)>,
    /// the solver produced values (false: no solve or no incumbent)
    pub solved: bool,
    pub n_vars: usize,
    pub worker_counter: u32,
}

pub struct VSched {
    core: Core,
    comm: NullComm,
    now: Instant,
    batches: Vec<TaskBatch>,
    solution: Option<crate::internal::scheduler::SchedulingSolution>,
}

impl VSched {
    /// `resource_names[0]` must be "cpus".
    pub fn new(resource_names: &[&str]) -> Self {
        let mut core = Core::default();
        for n in resource_names {
            core.get_or_create_resource_id(n);
        }
        VSched { core, comm: NullComm::default(), now: Instant::now(), batches: Vec::new(), solution: None }
    }

    pub fn set_prefill_config(&mut self, reserve: u32, max: u32) {
        let st = self.core.split_mut().scheduler_state;
        st.config.proactive_filling_reserve = reserve;
        st.config.proactive_filling_max = max;
    }

    pub fn prefill_config(&self) -> (u32, u32) {
        let st = self.core.split().scheduler_state;
        (st.config.proactive_filling_reserve, st.config.proactive_filling_max)
    }

    /// Worker with `cpus` cpus (one socket) and `sum` resources (name, units); through `on_new_worker`.
    pub fn add_worker(&mut self, id: u32, cpus: u32, others: &[(&str, u32)], min_utilization: f32) {
        self.add_worker_tl(id, cpus, others, min_utilization, None)
    }

    /// Same with a time limit (seconds): the worker's termination time is `now + limit`, and the
    /// scheduling decision is taken at the same `now`, so the remaining lifetime is exactly the limit.
    pub fn add_worker_tl(
        &mut self,
        id: u32,
        cpus: u32,
        others: &[(&str, u32)],
        min_utilization: f32,
        time_limit_secs: Option<u64>,
    ) {
        let mut descriptor = ResourceDescriptor::simple_cpus(cpus);
        for (name, units) in others {
            descriptor.resources.push(ResourceDescriptorItem::sum(name, *units));
        }
        let config = WorkerConfiguration {
            resources: descriptor,
            listen_address: format!("1.1.1.{id}:123"),
            hostname: format!("v{id}"),
            group: "default".to_string(),
            work_dir: Default::default(),
            heartbeat_interval: Duration::from_millis(1000),
            overview_configuration: OverviewConfiguration {
                send_interval: None,
                gpu_families: Default::default(),
            },
            idle_timeout: None,
            time_limit: time_limit_secs.map(Duration::from_secs),
            retract_check_interval: Duration::from_secs(30),
            on_server_lost: ServerLostPolicy::Stop,
            min_utilization,
            extra: Default::default(),
        };
        let map = self.core.create_resource_map();
        let worker = Worker::new(WorkerId::new(id), config, &map, self.now);
        on_new_worker(&mut self.core, &mut self.comm, worker);
    }

    /// Worker with a server-assigned id (`Core::new_worker_id`, as a connecting worker gets it), a
    /// group name and an optional time limit; returns the id.
    pub fn add_worker_auto(
        &mut self,
        cpus: u32,
        others: &[(&str, u32)],
        group: &str,
        time_limit_secs: Option<u64>,
    ) -> u32 {
        let id = self.core.new_worker_id();
        let mut descriptor = ResourceDescriptor::simple_cpus(cpus);
        for (name, units) in others {
            descriptor.resources.push(ResourceDescriptorItem::sum(name, *units));
        }
        let config = WorkerConfiguration {
            resources: descriptor,
            listen_address: format!("1.1.1.{id}:123"),
            hostname: format!("v{id}"),
            group: group.to_string(),
            work_dir: Default::default(),
            heartbeat_interval: Duration::from_millis(1000),
            overview_configuration: OverviewConfiguration {
                send_interval: None,
                gpu_families: Default::default(),
            },
            idle_timeout: None,
            time_limit: time_limit_secs.map(Duration::from_secs),
            retract_check_interval: Duration::from_secs(30),
            on_server_lost: ServerLostPolicy::Stop,
            min_utilization: 0.0,
            extra: Default::default(),
        };
        let map = self.core.create_resource_map();
        let worker = Worker::new(id, config, &map, self.now);
        on_new_worker(&mut self.core, &mut self.comm, worker);
        id.as_num()
    }

    /// Multi-node request class (`n_nodes` >= 1, `min_time` in seconds); returns rq id.
    pub fn add_request_mn(&mut self, n_nodes: u32, min_time: u64) -> u32 {
        let rq = ClientRq {
            n_nodes,
            resources: Default::default(),
            min_time: Duration::from_secs(min_time),
            weight: Default::default(),
        };
        rq.validate().expect("valid request");
        let rqv = ClientRqv::new_simple(rq);
        let (id, _) = get_or_create_resource_rq_id(&mut self.core, &mut self.comm, &rqv);
        id.as_num()
    }

    pub fn worker_counter(&self) -> u32 {
        self.core.worker_counter()
    }

    /// number of connected workers with `is_free()`
    pub fn n_free_workers(&self) -> u32 {
        self.core.get_workers().filter(|w| w.is_free()).count() as u32
    }

    /// The real `compute_new_worker_query` (after the `validate` step of `ServerRef::new_worker_query`),
    /// with the row log of the solve it runs.
    pub fn query(&mut self, queries: &[VQuery]) -> VQueryResult {
        let qs: Vec<WorkerTypeQuery> = queries
            .iter()
            .map(|q| {
                let resources = q
                    .items
                    .iter()
                    .map(|(name, units)| {
                        if name == "cpus" && *units > 0 {
                            ResourceDescriptor::simple_cpus(*units).resources.remove(0)
                        } else {
                            ResourceDescriptorItem::sum(name, *units)
                        }
                    })
                    .collect();
                WorkerTypeQuery {
                    partial: q.partial,
                    descriptor: ResourceDescriptor::new(resources, Default::default()),
                    time_limit: q.time_limit.map(Duration::from_secs),
                    max_sn_workers: q.max_sn_workers,
                    max_workers_per_allocation: q.max_workers_per_allocation,
                    min_utilization: q.min_utilization,
                }
            })
            .collect();
        let mut r = VQueryResult { worker_counter: self.core.worker_counter(), ..Default::default() };
        if qs.iter().any(|q| q.descriptor.validate(!q.partial).is_err()) {
            r.invalid = true;
            return r;
        }
        verif_log::start();
        let response = compute_new_worker_query(&mut self.core, &qs);
        let log = verif_log::take();
        let mut values: Option<Vec<f64>> = None;
        let mut vars: Vec<(usize, char, u32, u32, u32)> = Vec::new();
        for e in log {
            match e {
                verif_log::Entry::Var { index, kind, a, b, c, .. } => vars.push((index, kind, a, b, c)),
                verif_log::Entry::Values(v) => values = Some(v),
                verif_log::Entry::Row { .. } => {}
            }
        }
        r.n_vars = vars.len();
        r.solved = values.is_some();
        let vals = values.unwrap_or_default();
        for (index, kind, a, b, c) in vars {
            r.xvars.push((kind, a, b, c, vals.get(index).map(|v| v.round() as i64).unwrap_or(0)));
        }
        r.sn = response.single_node_workers_per_query;
        r.mn = response
            .multi_node_allocations
            .iter()
            .map(|m| (m.worker_type, m.worker_per_allocation, m.max_allocations))
            .collect();
        r
    }

    /// Single-variant single-node request class (resource name, amount in fractions); returns rq id.
    pub fn add_request(&mut self, entries: &[(&str, u64)]) -> u32 {
        let rq = ClientRq {
            n_nodes: 0,
            resources: entries
                .iter()
                .map(|(name, fr)| ResourceRequestEntry {
                    resource: name.to_string(),
                    policy: policy_of(*fr),
                })
                .collect(),
            min_time: Duration::default(),
            weight: Default::default(),
        };
        rq.validate().expect("valid request");
        let rqv = ClientRqv::new_simple(rq);
        let (id, _) = get_or_create_resource_rq_id(&mut self.core, &mut self.comm, &rqv);
        id.as_num()
    }

    /// Request class with several variants, each (entries [(resource name, fractions)], min_time seconds).
    pub fn add_request_variants(&mut self, variants: &[(Vec<(&str, u64)>, u64)]) -> u32 {
        let vs = variants
            .iter()
            .map(|(entries, min_time)| {
                let rq = ClientRq {
                    n_nodes: 0,
                    resources: entries
                        .iter()
                        .map(|(name, fr)| ResourceRequestEntry {
                            resource: name.to_string(),
                            policy: policy_of(*fr),
                        })
                        .collect(),
                    min_time: Duration::from_secs(*min_time),
                    weight: Default::default(),
                };
                rq.validate().expect("valid request");
                rq
            })
            .collect();
        let rqv = ClientRqv::new(vs);
        let (id, _) = get_or_create_resource_rq_id(&mut self.core, &mut self.comm, &rqv);
        id.as_num()
    }

    /// `Worker::block_request` (what a `Reject` update of the worker does on the server side).
    pub fn block(&mut self, worker: u32, rq: u32, variant: u32) {
        self.core
            .split_mut()
            .worker_map
            .get_worker_mut(WorkerId::new(worker))
            .block_request(ResourceRqId::new(rq), ResourceVariantId::new(variant as u8));
    }

    /// variants of a class: (entries (resource id, fractions), min_time secs)
    pub fn request_variants(&self, rq: u32) -> Vec<(Vec<(u32, u64)>, u64)> {
        let rqv = self.core.get_resource_rq(ResourceRqId::new(rq));
        rqv.requests()
            .iter()
            .map(|r| {
                (
                    r.entries()
                        .iter()
                        .map(|e| (e.resource_id.as_num(), e.request.amount_or_none_if_all().map(|a| a.total_fractions()).unwrap_or(0)))
                        .collect(),
                    r.min_time().as_secs(),
                )
            })
            .collect()
    }

    /// New ready task through `on_new_tasks`.
    pub fn add_task(&mut self, task: u64, rq: u32, user_priority: i32) {
        let t = Task::new(
            task_of_num(task),
            ResourceRqId::new(rq),
            Default::default(),
            None,
            Rc::new(TaskConfiguration {
                time_limit: None,
                user_priority: UserPriority::new(user_priority),
                crash_limit: CrashLimit::default(),
                body: Rc::new([]),
            }),
        );
        on_new_tasks(&mut self.core, &mut self.comm, vec![t]);
    }

    /// Make a ready task assigned to `worker` (what an earlier scheduling round does: reservation via
    /// `insert_sn_task`, state `Assigned`, removal from the ready queue) and, if `start`, deliver the
    /// worker's `Running` update through the real `on_task_update`.
    pub fn assign(&mut self, task: u64, worker: u32, start: bool) {
        let task_id = task_of_num(task);
        let worker_id = WorkerId::new(worker);
        {
            let s = self.core.split_mut();
            let t = s.task_map.get_task_mut(task_id);
            assert!(matches!(t.state, TaskRuntimeState::Waiting { unfinished_deps: 0 }));
            t.state = TaskRuntimeState::Assigned { worker_id, rv_id: 0.into() };
            let rq = s.request_map.get(t.resource_rq_id).get(ResourceVariantId::new(0));
            s.worker_map.get_worker_mut(worker_id).insert_sn_task(task_id, rq);
            let (rq_id, prio) = (t.resource_rq_id, t.priority());
            s.task_queues.get_mut(rq_id).remove(task_id, prio);
        }
        if start {
            let up = WorkerTaskUpdate::Running(TaskRunningMsg {
                task_id,
                rv_id: 0.into(),
                context: Default::default(),
            });
            on_task_update(&mut self.core, &mut self.comm, worker_id, smallvec![up]);
        }
    }

    pub fn n_resources(&self) -> usize {
        self.core.resource_map().n_resources()
    }

    pub fn request_entries(&self, rq: u32) -> Vec<(u32, u64)> {
        let rqv = self.core.get_resource_rq(ResourceRqId::new(rq));
        rqv.get(ResourceVariantId::new(0))
            .entries()
            .iter()
            .map(|e| (e.resource_id.as_num(), e.request.amount_or_none_if_all().map(|a| a.total_fractions()).unwrap_or(0)))
            .collect()
    }

    pub fn workers(&self) -> Vec<VWorker> {
        let n = self.n_resources();
        let mut ws: Vec<VWorker> = self
            .core
            .get_workers()
            .map(|w| {
                let (free, mut assigned, mut prefilled) = match w.sn_assignment() {
                    Some(a) => (
                        (0..n).map(|r| a.free_resources.get((r as u32).into()).total_fractions()).collect(),
                        a.assigned_tasks
                            .iter()
                            .map(|t| (task_num(*t), self.core.get_task(*t).resource_rq_id.as_num()))
                            .collect::<Vec<_>>(),
                        a.prefilled_tasks.iter().map(|t| task_num(*t)).collect::<Vec<_>>(),
                    ),
                    None => (Vec::new(), Vec::new(), Vec::new()),
                };
                assigned.sort();
                prefilled.sort();
                VWorker {
                    id: w.id.as_num(),
                    resources: (0..n).map(|r| w.resources.get((r as u32).into()).total_fractions()).collect(),
                    free,
                    assigned,
                    prefilled,
                }
            })
            .collect();
        ws.sort_by_key(|w| w.id);
        ws
    }

    pub fn queues(&self) -> Vec<VQueue> {
        self.core
            .split()
            .task_queues
            .iter()
            .map(|q| {
                let ready = q
                    .queue
                    .iter()
                    .map(|(p, ids)| {
                        let ids: Vec<u64> = match ids {
                            crate::internal::scheduler::OneOrMoreTaskIds::One(t) => vec![task_num(*t)],
                            crate::internal::scheduler::OneOrMoreTaskIds::More(ts) => {
                                ts.iter().map(|t| task_num(*t)).collect()
                            }
                        };
                        (prio_num(p.0), ids)
                    })
                    .collect();
                let prefill = q.prefill.as_ref().map(|(p, ts)| {
                    let mut v: Vec<u64> = ts.iter().map(|t| task_num(*t)).collect();
                    v.sort();
                    (prio_num(*p), v)
                });
                VQueue { rq: q.resource_rq_id.as_num(), ready, prefill }
            })
            .collect()
    }

    /// `iter_priority_sizes` of every queue (what `create_task_batches` merges).
    pub fn priority_sizes(&self) -> Vec<(u32, Vec<(u64, u32)>)> {
        self.core
            .split()
            .task_queues
            .iter()
            .map(|q| (q.resource_rq_id.as_num(), q.iter_priority_sizes().map(|(p, s)| (prio_num(p), s)).collect()))
            .collect()
    }

    /// The real `create_task_batches`; the result is kept for `solve`.
    pub fn batches(&mut self) -> Vec<VBatch> {
        self.batches = create_task_batches(&mut self.core, self.now, None);
        self.batches
            .iter()
            .map(|b| VBatch {
                rq: b.resource_rq_id.as_num(),
                size: b.size,
                limit: b.limit,
                limit_reached: b.limit_reached,
                is_blocker: b.is_blocker,
                cuts: b
                    .cuts
                    .iter()
                    .map(|c| VCut {
                        size: c.size,
                        blockers: c.blockers.iter().map(|(rq, s)| (rq.as_num(), *s)).collect(),
                    })
                    .collect(),
            })
            .collect()
    }

    /// `GapCache::get_gap(high, low, resources of worker, its assigned tasks)` exactly as the solver calls it.
    pub fn gap(&self, high: u32, low: u32, worker: u32) -> u32 {
        let s = self.core.split();
        let w = s.worker_map.get_worker(WorkerId::new(worker));
        let a = w.sn_assignment().expect("sn worker");
        s.scheduler_state.gap_cache.get_gap(
            ResourceRqId::new(high),
            ResourceRqId::new(low),
            &w.resources,
            a.assigned_tasks.iter().map(|task_id| {
                let t = s.task_map.get_task(*task_id);
                (t.resource_rq_id, t.rv_id().unwrap())
            }),
            s.request_map,
        )
    }

    /// The real `run_scheduling_solver` on the batches of the last `batches()` call, with the row log.
    pub fn solve(&mut self) -> VSolution {
        verif_log::start();
        let solution = run_scheduling_solver(&self.core, self.now, &self.batches, None);
        let log = verif_log::take()
            .into_iter()
            .map(|e| match e {
                verif_log::Entry::Var { index, kind, a, b, c, weight } => VEntry::Var { index, kind, a, b, c, weight },
                verif_log::Entry::Row { ctype, bound, terms } => VEntry::Row {
                    ctype: match ctype {
                        ConstraintType::Min => 0,
                        ConstraintType::Max => 1,
                        ConstraintType::Eq => 2,
                    },
                    bound,
                    terms,
                },
                verif_log::Entry::Values(v) => VEntry::Values(v),
            })
            .collect();
        let mut sn_counts: Vec<(u32, u32, u32, u32)> = solution
            .sn_counts
            .iter()
            .flat_map(|((rq, v), m)| m.iter().map(move |(w, c)| (rq.as_num(), v.as_num() as u32, w.as_num(), *c)))
            .collect();
        sn_counts.sort();
        let r = VSolution { is_optimal: solution.is_optimal, sn_counts, n_mn: solution.mn_workers.len(), log };
        self.solution = Some(solution);
        r
    }

    /// The real `create_task_mapping` on the solution of the last `solve()`.
    pub fn map(&mut self) -> VMapping {
        let solution = self.solution.take().expect("solve first");
        let mapping = create_task_mapping(&mut self.core, solution);
        let mut ws: Vec<_> = mapping.workers.iter().collect();
        ws.sort_by_key(|(w, _)| **w);
        let mut r = VMapping::default();
        for (w, up) in ws {
            for (t, v) in &up.assigned {
                r.assigned.push((w.as_num(), task_num(*t), v.as_num() as u32));
            }
            for t in &up.prefills {
                r.prefills.push((w.as_num(), task_num(*t)));
            }
            for t in &up.retracts {
                r.retracts.push((w.as_num(), task_num(*t)));
            }
        }
        mapping.send_messages(&mut self.core, &mut self.comm);
        r
    }

    /// State of a task after mapping: (state tag, worker).
    pub fn task_state(&self, task: u64) -> (&'static str, Option<u32>) {
        match &self.core.get_task(task_of_num(task)).state {
            TaskRuntimeState::Waiting { .. } => ("waiting", None),
            TaskRuntimeState::Assigned { worker_id, .. } => ("assigned", Some(worker_id.as_num())),
            TaskRuntimeState::Prefilled { worker_id } => ("prefilled", Some(worker_id.as_num())),
            TaskRuntimeState::Retracting { worker_id } => ("retracting", Some(worker_id.as_num())),
            TaskRuntimeState::Running { worker_id, .. } => ("running", Some(worker_id.as_num())),
            TaskRuntimeState::RunningMultiNode(_) => ("running-mn", None),
            TaskRuntimeState::Finished => ("finished", None),
        }
    }

    /// `TaskQueue::take_tasks(count)` on a queue (destructive; used on a scratch instance).
    pub fn take_tasks(&mut self, rq: u32, count: u32) -> Vec<u64> {
        self.core
            .split_mut()
            .task_queues
            .get_mut(ResourceRqId::new(rq))
            .take_tasks(count)
            .into_iter()
            .map(task_num)
            .collect()
    }

    pub fn queue_size(&self, rq: u32) -> u32 {
        self.core.split().task_queues.iter().nth(rq as usize).map(|q| q.size()).unwrap_or(0)
    }
}

/// amount in fractions; 0 stands for the `All` policy (the whole resource of the worker)
fn policy_of(fractions: u64) -> AllocationRequest {
    if fractions == 0 {
        AllocationRequest::All
    } else {
        AllocationRequest::Compact(ResourceAmount::new((fractions / 10_000) as u32, (fractions % 10_000) as u32))
    }
}

fn prio_num(p: Priority) -> u64 {
    let bytes = bincode::serialize(&p).expect("serialize priority");
    bincode::deserialize(&bytes).expect("deserialize priority")
}
