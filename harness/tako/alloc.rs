//! Hook for component `alloc` (properties C04, C16): the worker-side `ResourceAllocator` with
//! plain-data descriptors / requests, a free-state snapshot, and the group solver's answers.
//! Thin wrappers only; all generation / logging logic lives in /verif/harness/bin/alloc.
use crate::internal::common::resources::{ResourceId, ResourceIndex};
use crate::internal::worker::resources::allocator::ResourceAllocator;
use crate::internal::worker::resources::map::ResourceLabelMap;
use crate::resources::{
    Allocation, AllocationRequest, ResourceAllocRequest, ResourceAmount, ResourceDescriptor,
    ResourceDescriptorCoupling, ResourceDescriptorCouplingItem, ResourceDescriptorItem,
    ResourceDescriptorKind, ResourceIdMap, ResourceRequest, ResourceWeight,
};
use std::rc::Rc;
use std::time::Duration;

#[derive(Clone, Debug)]
pub enum VKind {
    List(Vec<String>),
    Range(u32, u32),
    Groups(Vec<Vec<String>>),
    /// size in fractions
    Sum(u64),
}

#[derive(Clone, Debug)]
pub struct VDesc {
    /// number of resource names known to the worker (ids 0..n_names)
    pub n_names: u32,
    /// descriptor items in descriptor order: (resource id, kind)
    pub items: Vec<(u32, VKind)>,
    /// (resource1_idx, group1, resource2_idx, group2, weight) - indices into `items`
    pub coupling: Vec<(u8, u8, u8, u8, u16)>,
}

/// policy: 0 compact, 1 tight, 2 scatter, 3 compact!, 4 tight!, 5 all; amount in fractions
#[derive(Clone, Debug)]
pub struct VEntry {
    pub resource: u32,
    pub policy: u8,
    pub amount: u64,
}

pub type VPool = (u8, u64, u64, Vec<(Vec<u32>, Vec<(u32, u32)>)>);
pub type VConcise = Vec<(u32, Vec<(u32, u32)>)>;

pub struct VAlloc {
    alloc: ResourceAllocator,
    labels: ResourceLabelMap,
}

fn amount(a: u64) -> ResourceAmount {
    let fpu = crate::resources::FRACTIONS_PER_UNIT as u64;
    ResourceAmount::new((a / fpu) as u32, (a % fpu) as u32)
}

pub fn make_request(entries: &[VEntry]) -> ResourceRequest {
    ResourceRequest::new(
        0,
        Duration::ZERO,
        entries
            .iter()
            .map(|e| ResourceAllocRequest {
                resource_id: ResourceId::new(e.resource),
                request: match e.policy {
                    0 => AllocationRequest::Compact(amount(e.amount)),
                    1 => AllocationRequest::Tight(amount(e.amount)),
                    2 => AllocationRequest::Scatter(amount(e.amount)),
                    3 => AllocationRequest::ForceCompact(amount(e.amount)),
                    4 => AllocationRequest::ForceTight(amount(e.amount)),
                    _ => AllocationRequest::All,
                },
            })
            .collect(),
        ResourceWeight::default(),
    )
}

impl VAlloc {
    pub fn new(desc: &VDesc) -> VAlloc {
        let names: Vec<String> = (0..desc.n_names).map(|i| format!("r{i}")).collect();
        let resource_map = ResourceIdMap::from_vec(names);
        let d = ResourceDescriptor::new(
            desc.items
                .iter()
                .map(|(rid, kind)| ResourceDescriptorItem {
                    name: format!("r{rid}"),
                    kind: match kind {
                        VKind::List(values) => ResourceDescriptorKind::List { values: values.clone() },
                        VKind::Range(s, e) => ResourceDescriptorKind::Range {
                            start: ResourceIndex::new(*s),
                            end: ResourceIndex::new(*e),
                        },
                        VKind::Groups(groups) => ResourceDescriptorKind::Groups { groups: groups.clone() },
                        VKind::Sum(size) => ResourceDescriptorKind::Sum { size: amount(*size) },
                    },
                })
                .collect(),
            ResourceDescriptorCoupling {
                weights: desc
                    .coupling
                    .iter()
                    .map(|(r1, g1, r2, g2, w)| ResourceDescriptorCouplingItem {
                        resource1_idx: *r1,
                        group1_idx: (*g1).into(),
                        resource2_idx: *r2,
                        group2_idx: (*g2).into(),
                        weight: *w,
                    })
                    .collect(),
            },
        );
        let labels = ResourceLabelMap::new(&d, &resource_map);
        let alloc = ResourceAllocator::new(&d, &resource_map, &labels);
        VAlloc { alloc, labels }
    }

    pub fn try_allocate(&mut self, rq: &ResourceRequest) -> Option<Rc<Allocation>> {
        self.alloc.try_allocate(rq)
    }

    pub fn is_enabled(&self, rq: &ResourceRequest) -> bool {
        self.alloc.is_enabled(rq)
    }

    pub fn release(&mut self, a: Rc<Allocation>) {
        self.alloc.release_allocation(a)
    }

    /// the debug-only consistency check of the allocator (panics on failure)
    pub fn validate(&self) {
        self.alloc.validate()
    }

    pub fn pools(&self) -> Vec<VPool> {
        self.alloc.verif_pools().iter().map(|p| p.verif_snapshot()).collect()
    }

    pub fn concise(&self) -> Vec<VConcise> {
        self.alloc.verif_free().verif_states().iter().map(|s| s.verif_snapshot()).collect()
    }

    pub fn group_solve(&self, rq: &ResourceRequest, on_all: bool, tie_breaking: bool) -> (Vec<u32>, Option<(Vec<Vec<usize>>, f64)>) {
        self.alloc.verif_group_solve(rq, on_all, tie_breaking)
    }

    /// the label handed to the task for an index (`allocation_to_labels` in hyperqueue uses exactly this call)
    pub fn label(&self, resource: u32, index: u32) -> String {
        self.labels.get_label(ResourceId::new(resource), ResourceIndex::new(index)).to_string()
    }
}
