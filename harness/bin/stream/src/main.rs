//! Harness for component `stream` (C19): several REAL stream writers ("workers": a real `Streamer`
//! each, i.e. real `StreamSender` + `stream_writer` on a tokio current-thread runtime) write random
//! chunkings of random byte strings into stream directories under /tmp/stream-*, then the REAL
//! `OutputLog` reads them back (index snapshot, bytes per task/channel through the `cat` code path,
//! the real `cat`/`export` with stdout captured, `summary`), also after cutting a writer file at
//! chosen byte offsets.
//!
//! Trace vocabulary (integers / short tokens only):
//!   C uid <ascii> workers <ids..> dirs <n>
//!   O OPEN w d job task inst                      = OK | ERR | (skipped if worker stopped)
//!   O SEND w d job task inst ch seed len time     (time = witness read back from the file)
//!   O FLUSH w d job task inst                     = OK
//!   O JUNK d kind [wid]                           kinds: nonhqs empty badmagic otheruid tornhdr
//!   O STOP w mode lens=<d:len,..>                 = FILE w d <len>:<fnv>      (witness: real lengths)
//!   O CUT d w off | O RESTORE d w | O RAW d w <hex>   = LEN <len>:<fnv>
//!   O READ d filter=<-|uid> order=<w,..>          = OPENERR c | PANIC s | FILES/T/SUM/CAT/CATJOB/EXPORT lines
use hqv_common::{Rng, catch, env_u64, install_panic_hook};
use hyperqueue::verif::stream as vs;
use std::collections::{BTreeMap, HashMap};
use std::fmt::Write as _;
use std::io::{Read, Seek, SeekFrom, Write};
use std::os::fd::AsRawFd;
use std::path::{Path, PathBuf};

// ---------------------------------------------------------------- data + hashes (mirrored in driver.ml)

fn gen_data(seed: u64, len: usize) -> Vec<u8> {
    let mut x = seed & 0x7fff_ffff;
    let mut v = Vec::with_capacity(len);
    for _ in 0..len {
        x = (x.wrapping_mul(1103515245).wrapping_add(12345)) & 0x7fff_ffff;
        v.push(((x >> 16) & 0xff) as u8);
    }
    v
}

fn fnv(b: &[u8]) -> u32 {
    let mut h: u32 = 0x811c9dc5;
    for &x in b {
        h ^= x as u32;
        h = h.wrapping_mul(16777619);
    }
    h
}

fn hl(b: &[u8]) -> String {
    format!("{}:{:08x}", b.len(), fnv(b))
}

fn hex(b: &[u8]) -> String {
    b.iter().map(|x| format!("{x:02x}")).collect()
}
fn unhex(s: &str) -> Vec<u8> {
    if s == "-" {
        return vec![];
    }
    (0..s.len() / 2).map(|i| u8::from_str_radix(&s[2 * i..2 * i + 2], 16).unwrap()).collect()
}

// ---------------------------------------------------------------- stdout capture (for the real cat/export)

struct Capture {
    file: std::fs::File,
    path: PathBuf,
}

impl Capture {
    fn new() -> Self {
        let path = PathBuf::from(format!("/tmp/stream-cap-{}", std::process::id()));
        let file = std::fs::OpenOptions::new().create(true).read(true).write(true).truncate(true).open(&path).unwrap();
        Capture { file, path }
    }
    fn run<T>(&mut self, f: impl FnOnce() -> T) -> (Result<T, String>, Vec<u8>) {
        std::io::stdout().flush().ok();
        self.file.set_len(0).unwrap();
        self.file.seek(SeekFrom::Start(0)).unwrap();
        let saved = unsafe { libc::dup(1) };
        unsafe { libc::dup2(self.file.as_raw_fd(), 1) };
        let r = catch(f);
        std::io::stdout().flush().ok();
        unsafe {
            libc::dup2(saved, 1);
            libc::close(saved);
        }
        self.file.seek(SeekFrom::Start(0)).unwrap();
        let mut out = Vec::new();
        self.file.read_to_end(&mut out).unwrap();
        (r, out)
    }
}
impl Drop for Capture {
    fn drop(&mut self) {
        std::fs::remove_file(&self.path).ok();
    }
}

// ---------------------------------------------------------------- world

type StreamKey = (usize, u32, u32, u32); // dir, job, task, inst

struct WorkerRt {
    // field order = drop order for a kill: senders, streamer, tasks (LocalSet), runtime
    streams: HashMap<StreamKey, vs::StreamSender>,
    w: vs::VWorker,
    local: tokio::task::LocalSet,
    rt: tokio::runtime::Runtime,
}

struct World {
    root: PathBuf,
    dirs: Vec<PathBuf>,
    uid: String,
    worker_ids: Vec<u32>,
    workers: Vec<Option<WorkerRt>>,
    used_dirs: Vec<Vec<bool>>,            // [w][d]: worker w opened a stream in dir d
    wpaths: HashMap<(usize, usize), PathBuf>, // (w, d) -> the file its writer created
    pending: HashMap<(usize, usize), Vec<usize>>, // (w, d) -> indices of SEND lines awaiting their time witness
    lines: Vec<String>,
    files: HashMap<(usize, u32), (PathBuf, Vec<u8>)>, // (d, worker id) -> path, original bytes at STOP / JUNK time
    cap: Capture,
    n_junk: u32,
}

fn classify_err(e: &str) -> &'static str {
    if e.contains("No log files found") {
        "4"
    } else if e.contains("multiple server instances") {
        "5"
    } else if e.contains("Job") && e.contains("not found") {
        "6"
    } else if e.contains("Task") && e.contains("not found") {
        "7"
    } else if e.contains("failed to fill whole buffer") {
        "8"
    } else if e.contains("is not finished") {
        "9"
    } else if e.contains("Invalid argument") || e.contains("os error 22") {
        "2"
    } else {
        "1"
    }
}

fn classify_panic(p: &str) -> String {
    if p.contains("index out of bounds") && p.contains("outputlog.rs") {
        "1".into()
    } else if p.contains("outputlog.rs") && p.contains("unwrap") {
        "2".into()
    } else {
        format!("other:{}", p.replace(' ', "_"))
    }
}

/// varint/zig-zag time of a (possibly partial) chunk header: missing bytes count as zero.
fn partial_time(b: &[u8]) -> i64 {
    if b.is_empty() {
        return 0;
    }
    let n = match b[0] {
        x @ 0..=250 => return zz(x as u64),
        251 => 2,
        252 => 4,
        253 => 8,
        _ => return 0,
    };
    let mut v: u64 = 0;
    for i in 0..n {
        let byte = *b.get(1 + i).unwrap_or(&0) as u64;
        v |= byte << (8 * i);
    }
    zz(v)
}
fn zz(n: u64) -> i64 {
    if n % 2 == 0 { (n / 2) as i64 } else { !(n / 2) as i64 }
}

impl World {
    fn new(id: u64, uid: &str, worker_ids: &[u32], n_dirs: usize) -> World {
        let root = PathBuf::from(format!("/tmp/stream-{}-{}", std::process::id(), id));
        std::fs::remove_dir_all(&root).ok();
        let mut dirs = Vec::new();
        for d in 0..n_dirs {
            let p = root.join(format!("d{d}"));
            std::fs::create_dir_all(&p).unwrap();
            dirs.push(p);
        }
        let mut workers = Vec::new();
        for &wid in worker_ids {
            let rt = tokio::runtime::Builder::new_current_thread().enable_all().build().unwrap();
            workers.push(Some(WorkerRt {
                streams: HashMap::new(),
                w: vs::VWorker::new(uid, wid),
                local: tokio::task::LocalSet::new(),
                rt,
            }));
        }
        let mut w = World {
            root,
            dirs,
            uid: uid.to_string(),
            worker_ids: worker_ids.to_vec(),
            used_dirs: vec![vec![false; n_dirs]; worker_ids.len()],
            wpaths: HashMap::new(),
            workers,
            pending: HashMap::new(),
            lines: Vec::new(),
            files: HashMap::new(),
            cap: Capture::new(),
            n_junk: 0,
        };
        w.lines.push(format!(
            "C uid {} workers {} dirs {}",
            uid,
            worker_ids.iter().map(|x| x.to_string()).collect::<Vec<_>>().join(" "),
            n_dirs
        ));
        w
    }

    fn all_stopped(&self) -> bool {
        self.workers.iter().all(|w| w.is_none())
    }

    fn open(&mut self, w: usize, d: usize, job: u32, task: u32, inst: u32) -> bool {
        if w >= self.workers.len() || d >= self.dirs.len() {
            return false;
        }
        let dir = self.dirs[d].clone();
        let Some(wr) = self.workers[w].as_mut() else { return false };
        if wr.streams.contains_key(&(d, job, task, inst)) {
            return false;
        }
        let WorkerRt { streams, w: vw, local, rt, .. } = wr;
        let r = local.block_on(rt, async { vw.get_stream(&dir, job, task, inst) });
        self.lines.push(format!("O OPEN {w} {d} {job} {task} {inst}"));
        match r {
            Ok(s) => {
                streams.insert((d, job, task, inst), s);
                if !self.used_dirs[w][d] {
                    // let the freshly spawned writer task create its file, so that the file can be
                    // attributed to this worker by name (its header may never reach the disk)
                    let known: Vec<PathBuf> = self.wpaths.values().cloned().chain(self.files.values().map(|x| x.0.clone())).collect();
                    for _ in 0..2000 {
                        local.block_on(rt, async { tokio::time::sleep(std::time::Duration::from_micros(100)).await });
                        let mut newp = None;
                        for e in std::fs::read_dir(&dir).unwrap() {
                            let p = e.unwrap().path();
                            if p.extension().and_then(|x| x.to_str()) == Some(vs::FILE_SUFFIX) && !known.contains(&p) {
                                newp = Some(p);
                            }
                        }
                        if let Some(p) = newp {
                            self.wpaths.insert((w, d), p);
                            break;
                        }
                    }
                }
                self.used_dirs[w][d] = true;
                self.lines.push("= OK".into());
            }
            Err(_) => self.lines.push("= ERR".into()),
        }
        true
    }

    fn send(&mut self, w: usize, d: usize, job: u32, task: u32, inst: u32, ch: u32, seed: u64, len: usize) -> bool {
        if w >= self.workers.len() {
            return false;
        }
        let Some(wr) = self.workers[w].as_mut() else { return false };
        let WorkerRt { streams, local, rt, .. } = wr;
        let Some(s) = streams.get(&(d, job, task, inst)) else { return false };
        let data = gen_data(seed, len);
        let r = local.block_on(rt, async { s.send_data(ch, data).await });
        if r.is_err() {
            self.lines.push(format!("O SENDFAIL {w} {d} {job} {task} {inst} {ch}"));
            return true;
        }
        self.pending.entry((w, d)).or_default().push(self.lines.len());
        self.lines.push(format!("O SEND {w} {d} {job} {task} {inst} {ch} {seed} {len} @T"));
        true
    }

    fn flush(&mut self, w: usize, d: usize, job: u32, task: u32, inst: u32) -> bool {
        if w >= self.workers.len() {
            return false;
        }
        let Some(wr) = self.workers[w].as_mut() else { return false };
        let WorkerRt { streams, local, rt, .. } = wr;
        let Some(s) = streams.get(&(d, job, task, inst)) else { return false };
        let r = local.block_on(rt, async { s.flush().await });
        self.lines.push(format!("O FLUSH {w} {d} {job} {task} {inst}"));
        self.lines.push(if r.is_ok() { "= OK".into() } else { "= ERR".into() });
        true
    }

    /// Stop a worker: `flush` = flush every directory it writes to, then drop; `kill` = drop the
    /// runtime with whatever is still buffered.
    fn stop(&mut self, w: usize, kill: bool) -> bool {
        if w >= self.workers.len() {
            return false;
        }
        let Some(wr) = self.workers[w].take() else { return false };
        if !kill {
            let mut done: Vec<usize> = Vec::new();
            let keys: Vec<StreamKey> = wr.streams.keys().cloned().collect();
            for k in keys {
                if done.contains(&k.0) {
                    continue;
                }
                done.push(k.0);
                let s = wr.streams.get(&k).unwrap();
                wr.local.block_on(&wr.rt, async { s.flush().await }).ok();
            }
        }
        drop(wr);
        let wid = self.worker_ids[w];
        // find this worker's files, patch the time witnesses of its SEND lines
        let mut lens = Vec::new();
        let mut outs = Vec::new();
        for d in 0..self.dirs.len() {
            if !self.used_dirs[w][d] {
                continue;
            }
            let found: Option<(PathBuf, Vec<u8>)> = self.wpaths.get(&(w, d)).and_then(|p| std::fs::read(p).ok().map(|b| (p.clone(), b)));
            let Some((path, bytes)) = found else {
                // the writer task never got to create its file
                self.pending.remove(&(w, d));
                lens.push(format!("{d}:x"));
                continue;
            };
            // times of the records, in file order
            let hdr_len = vs::decode_file_header(&bytes).map(|x| x.2).unwrap_or(bytes.len());
            let mut pos = hdr_len;
            let mut times = Vec::new();
            while pos < bytes.len() {
                match vs::decode_chunk_header(&bytes[pos..]) {
                    vs::VDecode::Ok(h, n) => {
                        times.push(h.time_ms);
                        pos += n + h.size as usize;
                    }
                    _ => {
                        times.push(partial_time(&bytes[pos..]));
                        break;
                    }
                }
            }
            let last = times.last().cloned().unwrap_or(1_700_000_000_000);
            if let Some(idxs) = self.pending.remove(&(w, d)) {
                for (i, li) in idxs.iter().enumerate() {
                    let t = times.get(i).cloned().unwrap_or(last);
                    self.lines[*li] = self.lines[*li].replace("@T", &t.to_string());
                }
            }
            lens.push(format!("{d}:{}", bytes.len()));
            outs.push(format!("= FILE {wid} {d} {}", hl(&bytes)));
            self.files.insert((d, wid), (path, bytes));
        }
        self.lines.push(format!(
            "O STOP {w} {} lens={}",
            if kill { "kill" } else { "flush" },
            if lens.is_empty() { "-".to_string() } else { lens.join(",") }
        ));
        self.lines.extend(outs);
        true
    }

    fn junk(&mut self, d: usize, kind: &str, wid: u32) -> bool {
        if d >= self.dirs.len() || self.files.contains_key(&(d, wid)) || self.worker_ids.contains(&wid) {
            return false;
        }
        self.n_junk += 1;
        let (name, bytes): (String, Vec<u8>) = match kind {
            "nonhqs" => (format!("junk{}.txt", self.n_junk), b"hello".to_vec()),
            "empty" => (format!("junk{}.hqs", self.n_junk), vec![]),
            "badmagic" => (format!("junk{}.hqs", self.n_junk), b"hqsf0001\x01a\x05".to_vec()),
            "tornhdr" => {
                let mut b = vs::encode_file_header(&self.uid, wid);
                b.pop();
                (format!("junk{}.hqs", self.n_junk), b)
            }
            "otheruid" => {
                let mut b = vs::encode_file_header("otherserver", wid);
                let h = vs::VChunkHeader { time_ms: 1_700_000_000_000, job: 1, task: 0, instance: 9, channel: 0, size: 3 };
                b.extend(vs::encode_chunk_header(&h).unwrap());
                b.extend(b"xyz");
                (format!("junk{}.hqs", self.n_junk), b)
            }
            _ => return false,
        };
        let p = self.dirs[d].join(name);
        std::fs::write(&p, &bytes).unwrap();
        self.wpaths.insert((usize::MAX - self.n_junk as usize, d), p.clone()); // known name
        self.lines.push(format!("O JUNK {d} {kind} {wid}"));
        if kind == "otheruid" {
            self.files.insert((d, wid), (p, bytes));
        }
        true
    }

    fn set_file(&mut self, what: &str, d: usize, wid: u32, bytes: Option<Vec<u8>>, off: usize) -> bool {
        if !self.all_stopped() {
            return false;
        }
        let Some((path, orig)) = self.files.get(&(d, wid)) else { return false };
        let content: Vec<u8> = match what {
            "CUT" => {
                if off > orig.len() {
                    return false;
                }
                orig[..off].to_vec()
            }
            "RESTORE" => orig.clone(),
            _ => bytes.unwrap(),
        };
        std::fs::write(path, &content).unwrap();
        match what {
            "CUT" => self.lines.push(format!("O CUT {d} {wid} {off}")),
            "RESTORE" => self.lines.push(format!("O RESTORE {d} {wid}")),
            _ => self.lines.push(format!("O RAW {d} {wid} {}", if content.is_empty() { "-".to_string() } else { hex(&content) })),
        }
        self.lines.push(format!("= LEN {}", hl(&content)));
        true
    }

    fn read(&mut self, d: usize, filter: Option<&str>) -> bool {
        if d >= self.dirs.len() || !self.all_stopped() {
            return false;
        }
        let dir = self.dirs[d].clone();
        let fstr = filter.unwrap_or("-").to_string();
        let res = catch(|| vs::VLog::open(&dir, filter));
        let mut log = match res {
            Err(p) => {
                self.lines.push(format!("O READ {d} filter={fstr} order=-"));
                self.lines.push(format!("= PANIC {}", classify_panic(&p)));
                return true;
            }
            Ok(Err(e)) => {
                self.lines.push(format!("O READ {d} filter={fstr} order=-"));
                self.lines.push(format!("= OPENERR {}", classify_err(&e)));
                return true;
            }
            Ok(Ok(l)) => l,
        };
        let paths = log.paths();
        // files are identified by the worker id under which the harness registered their path
        let wid_of: Vec<u32> = paths
            .iter()
            .map(|p| self.files.iter().find(|(k, v)| k.0 == d && &v.0 == p).map(|(k, _)| k.1).unwrap_or(u32::MAX))
            .collect();
        self.lines.push(format!(
            "O READ {d} filter={fstr} order={}",
            if wid_of.is_empty() { "-".to_string() } else { wid_of.iter().map(|x| x.to_string()).collect::<Vec<_>>().join(",") }
        ));
        self.lines.push(format!("= FILES {}", paths.len()));
        let index = log.index();
        // crafted files can claim chunks of up to 4 GiB, which the reader would allocate: do not read those
        let huge = index.iter().any(|(_, _, insts)| insts.iter().any(|i| i.channels.iter().any(|c| c.iter().map(|x| x.1 as u64).sum::<u64>() > (1 << 26))));
        let mut jobs: BTreeMap<u32, Vec<u32>> = BTreeMap::new();
        for (job, task, insts) in &index {
            jobs.entry(*job).or_default().push(*task);
            let last = insts.last();
            let mut s = format!("= T {job} {task}");
            match last {
                None => s.push_str(" last=- fin=0"),
                Some(l) => write!(s, " last={} fin={}", l.instance_id, l.finished as u8).unwrap(),
            }
            for ch in 0..2usize {
                if huge {
                    write!(s, " c{ch}=HUGE").unwrap();
                    continue;
                }
                let r = catch(|| log.read_channel(*job, *task, ch));
                match r {
                    Ok(Ok(b)) => write!(s, " c{ch}={}", hl(&b)).unwrap(),
                    Ok(Err(e)) => write!(s, " c{ch}=E{}", classify_err(&e)).unwrap(),
                    Err(p) => write!(s, " c{ch}=P{}", classify_panic(&p)).unwrap(),
                }
            }
            let il: Vec<String> = insts
                .iter()
                .map(|i| {
                    format!(
                        "{}@{}:{}:{}:{}:{}:{}",
                        i.instance_id,
                        wid_of.get(i.file_idx).cloned().unwrap_or(u32::MAX),
                        i.finished as u8,
                        i.channels[0].len(),
                        i.channels[1].len(),
                        i.channels[0].iter().map(|c| c.1 as u64).sum::<u64>(),
                        i.channels[1].iter().map(|c| c.1 as u64).sum::<u64>()
                    )
                })
                .collect();
            write!(s, " insts={}", il.join(",")).unwrap();
            self.lines.push(s);
        }
        match catch(|| log.summary()) {
            Ok(su) => self.lines.push(format!(
                "= SUM files={} jobs={} tasks={} streams={} opened={} out={} err={} sup={} supout={} superr={}",
                su.n_files, su.n_jobs, su.n_tasks, su.n_streams, su.n_opened, su.stdout_size, su.stderr_size, su.n_superseded, su.superseded_stdout_size, su.superseded_stderr_size
            )),
            Err(p) => self.lines.push(format!("= SUM PANIC {}", classify_panic(&p))),
        }
        if huge {
            return true;
        }
        // the real `cat` (strict: refuses unfinished streams) per task, and per job with --allow-unfinished
        for (job, task, _) in &index {
            for ch in 0..2usize {
                let (r, out) = self.cap.run(|| log.cat(*job, Some(*task), ch, false));
                let v = match r {
                    Ok(Ok(())) => hl(&out),
                    Ok(Err(e)) => format!("E{}", classify_err(&e)),
                    Err(p) => format!("P{}", classify_panic(&p)),
                };
                self.lines.push(format!("= CAT {job} {task} {ch} {v}"));
            }
        }
        for (job, _) in &jobs {
            for ch in 0..2usize {
                let (r, out) = self.cap.run(|| log.cat(*job, None, ch, true));
                let v = match r {
                    Ok(Ok(())) => hl(&out),
                    Ok(Err(e)) => format!("E{}", classify_err(&e)),
                    Err(p) => format!("P{}", classify_panic(&p)),
                };
                self.lines.push(format!("= CATJOB {job} {ch} {v}"));
            }
            let (r, out) = self.cap.run(|| log.export(*job, None));
            let v = match r {
                Ok(Ok(())) => {
                    let text = String::from_utf8_lossy(&out);
                    let mut fins = String::new();
                    for l in text.lines() {
                        let l = l.trim();
                        if l.starts_with("\"finished\": true") {
                            fins.push('1');
                        } else if l.starts_with("\"finished\": false") {
                            fins.push('0');
                        }
                    }
                    format!("ok fins={}", if fins.is_empty() { "-".to_string() } else { fins })
                }
                Ok(Err(e)) => format!("E{}", classify_err(&e)),
                Err(p) => format!("P{}", classify_panic(&p)),
            };
            self.lines.push(format!("= EXPORT {job} {v}"));
        }
        true
    }

    fn finish(mut self, header: &str, out: &mut String) {
        // stop whatever still runs (replay of a shrunk trace)
        for w in 0..self.workers.len() {
            if self.workers[w].is_some() {
                self.stop(w, false);
            }
        }
        // unresolved witnesses (cannot happen after stop)
        for l in self.lines.iter_mut() {
            if l.contains("@T") {
                *l = l.replace("@T", "0");
            }
        }
        writeln!(out, "{header}").unwrap();
        for l in &self.lines {
            writeln!(out, "{l}").unwrap();
        }
        writeln!(out, "END").unwrap();
        std::fs::remove_dir_all(&self.root).ok();
    }

    fn exec_line(&mut self, o: &str) -> bool {
        let t: Vec<&str> = o.split_whitespace().collect();
        let n = |i: usize| -> u64 { t.get(i).and_then(|s| s.parse().ok()).unwrap_or(0) };
        match t[0] {
            "OPEN" => self.open(n(1) as usize, n(2) as usize, n(3) as u32, n(4) as u32, n(5) as u32),
            "SEND" => self.send(n(1) as usize, n(2) as usize, n(3) as u32, n(4) as u32, n(5) as u32, n(6) as u32, n(7), n(8) as usize),
            "FLUSH" => self.flush(n(1) as usize, n(2) as usize, n(3) as u32, n(4) as u32, n(5) as u32),
            "STOP" => self.stop(n(1) as usize, t.get(2) == Some(&"kill")),
            "JUNK" => self.junk(n(1) as usize, t[2], n(3) as u32),
            "CUT" => self.set_file("CUT", n(1) as usize, n(2) as u32, None, n(3) as usize),
            "RESTORE" => self.set_file("RESTORE", n(1) as usize, n(2) as u32, None, 0),
            "RAW" => self.set_file("RAW", n(1) as usize, n(2) as u32, Some(unhex(t.get(3).unwrap_or(&"-"))), 0),
            "READ" => {
                let f = t.get(2).and_then(|s| s.strip_prefix("filter=")).unwrap_or("-");
                self.read(n(1) as usize, if f == "-" { None } else { Some(f) })
            }
            _ => false,
        }
    }
}

// ---------------------------------------------------------------- generation

#[derive(Clone)]
enum SOp {
    Open,
    Send(u32, u64, usize),
    Flush,
}

#[derive(Clone)]
struct Lane {
    w: usize,
    d: usize,
    job: u32,
    task: u32,
    inst: u32,
    ops: Vec<SOp>,
}

fn chunk_len(rng: &mut Rng, bufsz: usize, big_ok: bool) -> usize {
    match rng.below(100) {
        0..=54 => rng.range(1, 24) as usize,
        55..=69 => rng.range(100, 400) as usize,
        70..=79 => *rng.pick(&[250usize, 251, 252, 255, 256]),
        80..=89 if big_ok => *rng.pick(&[bufsz - 1, bufsz, bufsz, bufsz + 1, 8191, 8192, 8193]),
        90..=94 if big_ok => *rng.pick(&[65535usize, 65536, 65537]),
        _ => rng.range(1, 64) as usize,
    }
}

fn gen_trace(id: u64, rng: &mut Rng, tier: &str, out: &mut String) {
    let bufsz = 16 * 1024;
    let thorough = tier == "thorough";
    let n_workers = rng.range(1, 3) as usize;
    let n_dirs = if rng.chance(1, 4) { 2 } else { 1 };
    let mut worker_ids: Vec<u32> = Vec::new();
    while worker_ids.len() < n_workers {
        let w = *rng.pick(&[1u32, 2, 3, 7, 250, 251, 70000]);
        if !worker_ids.contains(&w) {
            worker_ids.push(w);
        }
    }
    let uid = rng.pick(&["srvA", "x", "abcdefghijkl", "Uid0123456789Uid0123456789"]).to_string();
    let big = rng.chance(1, 6);
    let mut tags = format!("w={n_workers} d={n_dirs}");
    let mut world = World::new(id, &uid, &worker_ids, n_dirs);

    // tasks
    let n_tasks = rng.range(1, 5) as usize;
    let jobs_pool = [1u32, 2, 7, 300, 70000];
    let tasks_pool = [0u32, 1, 2, 3, 250, 251, 65535, 65536, u32::MAX - 1]; // u32::MAX itself: IntArray::from_id overflows (arraydef.rs), outside this component
    let mut keys: Vec<(u32, u32)> = Vec::new();
    while keys.len() < n_tasks {
        let k = (*rng.pick(&jobs_pool[..3.min(jobs_pool.len())]), *rng.pick(&tasks_pool));
        let k = if rng.chance(1, 8) { (*rng.pick(&jobs_pool), k.1) } else { k };
        if !keys.contains(&k) {
            keys.push(k);
        }
    }
    let mut lanes: Vec<Vec<Lane>> = Vec::new(); // each entry: lanes executed sequentially (instances of one task)
    let mut alternating = false;
    for &(job, task) in &keys {
        let d = (job as usize) % n_dirs;
        let n_inst = match rng.below(10) {
            0..=5 => 1,
            6..=8 => 2,
            _ => 3,
        };
        let mut inst = *rng.pick(&[0u32, 0, 1, 249, 65534, u32::MAX - 4]);
        let zombie = n_inst > 1 && rng.chance(1, 8);
        let mut seq: Vec<Lane> = Vec::new();
        for j in 0..n_inst {
            let is_last = j + 1 == n_inst;
            let w = rng.below(n_workers as u64) as usize;
            let ended = if is_last { rng.chance(85, 100) } else { rng.chance(30, 100) };
            let piped: [bool; 2] = match rng.below(10) {
                0 => [true, false],
                1 => [false, true],
                _ => [true, true],
            };
            // per channel chunk list
            let mut per: [Vec<SOp>; 2] = [vec![], vec![]];
            for ch in 0..2 {
                if !piped[ch] {
                    continue;
                }
                let n = if rng.chance(1, 4) { 0 } else { rng.range(1, if big { 3 } else { 6 }) };
                for _ in 0..n {
                    per[ch].push(SOp::Send(ch as u32, rng.below(1 << 30), chunk_len(rng, bufsz, big)));
                }
                let marker = if ended { true } else { rng.chance(1, 5) };
                if marker {
                    per[ch].push(SOp::Send(ch as u32, 0, 0));
                } else if !per[ch].is_empty() && rng.chance(1, 2) {
                    // crashed mid-way: drop a suffix
                    let keep = rng.below(per[ch].len() as u64 + 1) as usize;
                    per[ch].truncate(keep);
                }
            }
            let mut ops = vec![SOp::Open];
            let (mut a, mut b) = (0, 0);
            while a < per[0].len() || b < per[1].len() {
                let take0 = if a >= per[0].len() { false } else if b >= per[1].len() { true } else { rng.chance(1, 2) };
                if take0 {
                    ops.push(per[0][a].clone());
                    a += 1;
                } else {
                    ops.push(per[1][b].clone());
                    b += 1;
                }
                if rng.chance(1, 12) {
                    ops.push(SOp::Flush);
                }
            }
            if ended || rng.chance(1, 3) {
                ops.push(SOp::Flush);
            }
            seq.push(Lane { w, d, job, task, inst, ops });
            inst = inst.wrapping_add(rng.range(1, 3) as u32);
            if inst < 3 {
                inst = 3; // wrapped
            }
        }
        if n_inst >= 2 && rng.chance(1, 25) {
            // hypothesis-violating shape: an instance id re-appears after a later one in the same file
            let mut again = seq[0].clone();
            again.w = seq[1].w;
            seq[0].w = seq[1].w;
            again.ops = vec![SOp::Send(0, rng.below(1 << 30), rng.range(1, 9) as usize), SOp::Flush];
            seq.push(again);
            alternating = true;
        }
        if zombie {
            for l in seq {
                lanes.push(vec![l]);
            }
            tags.push_str(" zombie");
        } else {
            lanes.push(seq);
        }
    }
    if alternating {
        tags.push_str(" alternating");
    }
    if big {
        tags.push_str(" big");
    }
    // junk
    if rng.chance(1, 5) {
        let kind = *rng.pick(&["nonhqs", "empty", "badmagic", "tornhdr"]);
        world.junk(rng.below(n_dirs as u64) as usize, kind, 900);
    }
    // optional mid-run kill
    let total_ops: usize = lanes.iter().map(|s| s.iter().map(|l| l.ops.len()).sum::<usize>()).sum();
    let kill_at = if rng.chance(1, 5) { Some((rng.below(total_ops as u64 + 1) as usize, rng.below(n_workers as u64) as usize)) } else { None };
    // interleave
    let mut cursor: Vec<(usize, usize)> = vec![(0, 0); lanes.len()]; // (instance idx, op idx)
    let mut step = 0usize;
    let mut cur_lane = 0usize;
    loop {
        let live: Vec<usize> = (0..lanes.len()).filter(|&i| cursor[i].0 < lanes[i].len()).collect();
        if live.is_empty() {
            break;
        }
        if let Some((at, w)) = kill_at {
            if at == step {
                world.stop(w, true);
                tags.push_str(" midkill");
            }
        }
        if !live.contains(&cur_lane) || rng.chance(1, 2) {
            cur_lane = *rng.pick(&live);
        }
        let (ii, oi) = cursor[cur_lane];
        let lane = &lanes[cur_lane][ii];
        match &lane.ops[oi] {
            SOp::Open => {
                world.open(lane.w, lane.d, lane.job, lane.task, lane.inst);
            }
            SOp::Send(ch, seed, len) => {
                world.send(lane.w, lane.d, lane.job, lane.task, lane.inst, *ch, *seed, *len);
            }
            SOp::Flush => {
                world.flush(lane.w, lane.d, lane.job, lane.task, lane.inst);
            }
        }
        cursor[cur_lane].1 += 1;
        if cursor[cur_lane].1 >= lane.ops.len() {
            cursor[cur_lane] = (ii + 1, 0);
        }
        step += 1;
    }
    // stop all workers
    let mut order: Vec<usize> = (0..n_workers).collect();
    for i in (1..order.len()).rev() {
        order.swap(i, rng.below(i as u64 + 1) as usize);
    }
    for w in order {
        let kill = rng.chance(1, 4);
        world.stop(w, kill);
    }
    if rng.chance(1, 12) {
        let d = rng.below(n_dirs as u64) as usize;
        if world.junk(d, "otheruid", 901) {
            tags.push_str(" otheruid");
        }
    }
    // full read of every directory
    for d in 0..n_dirs {
        world.read(d, None);
        if rng.chance(1, 6) {
            let u = uid.clone();
            world.read(d, Some(&u));
        }
        if rng.chance(1, 20) {
            world.read(d, Some("nosuchuid"));
        }
    }
    // torn files
    let mut budget: i64 = if thorough { 400 } else { 40 };
    let mut fkeys: Vec<(usize, u32)> = world.files.keys().cloned().collect();
    fkeys.sort();
    for (d, wid) in fkeys {
        if budget <= 0 {
            break;
        }
        if !thorough && !rng.chance(2, 3) {
            continue;
        }
        let bytes = world.files[&(d, wid)].1.clone();
        // record boundaries
        let mut bounds: Vec<usize> = vec![0];
        let hdr_len = vs::decode_file_header(&bytes).map(|x| x.2).unwrap_or(bytes.len());
        bounds.push(hdr_len / 2);
        bounds.push(hdr_len);
        let mut pos = hdr_len;
        while pos < bytes.len() {
            match vs::decode_chunk_header(&bytes[pos..]) {
                vs::VDecode::Ok(h, n) => {
                    bounds.push(pos + n / 2);
                    bounds.push(pos + n);
                    if h.size > 1 {
                        bounds.push(pos + n + (h.size as usize) / 2);
                    }
                    pos += n + h.size as usize;
                    bounds.push(pos.min(bytes.len()));
                }
                _ => break,
            }
        }
        let mut offs: Vec<usize> = if thorough && bytes.len() <= 700 {
            (0..bytes.len()).collect()
        } else if thorough {
            let mut v = Vec::new();
            for &b in &bounds {
                for x in [b.saturating_sub(1), b, b + 1] {
                    v.push(x);
                }
            }
            for _ in 0..20 {
                v.push(rng.below(bytes.len() as u64 + 1) as usize);
            }
            v
        } else {
            bounds.clone()
        };
        offs.retain(|&o| o < bytes.len());
        offs.sort();
        offs.dedup();
        if !thorough && offs.len() > 24 {
            // keep a random subset
            while offs.len() > 24 {
                let i = rng.below(offs.len() as u64) as usize;
                offs.remove(i);
            }
        }
        for o in offs {
            if budget <= 0 {
                break;
            }
            budget -= 1;
            world.set_file("CUT", d, wid, None, o);
            world.read(d, None);
        }
        if rng.chance(4, 5) {
            world.set_file("RESTORE", d, wid, None, 0);
        }
    }
    world.finish(&format!("TRACE {id} {tags}"), out);
}

// ---------------------------------------------------------------- adversarial stream: crafted / mutated files

fn gen_adversarial(id: u64, rng: &mut Rng, out: &mut String) {
    let uid = "adv";
    let mut world = World::new(id, uid, &[1, 2], 1);
    // a small honest file written by the real writer
    world.open(0, 0, 1, 0, 0);
    let n = rng.range(1, 4);
    for _ in 0..n {
        world.send(0, 0, 1, 0, 0, rng.below(2) as u32, rng.below(1 << 30), rng.range(1, 12) as usize);
    }
    world.send(0, 0, 1, 0, 0, 0, 0, 0);
    world.stop(0, false);
    world.stop(1, false);
    let base = world.files[&(0, 1)].1.clone();
    let tries = rng.range(3, 8);
    for _ in 0..tries {
        let mut b = base.clone();
        match rng.below(6) {
            0 => {
                // crafted header appended
                let h = vs::VChunkHeader {
                    time_ms: *rng.pick(&[0i64, -1, 1_700_000_000_000, 8210266876799999, 8210266876800000, -8334601228800000, -8334601228800001, i64::MAX, i64::MIN]),
                    job: *rng.pick(&[1u32, 250, 251, 65536, u32::MAX]),
                    task: *rng.pick(&[0u32, 3, u32::MAX - 1]),
                    instance: *rng.pick(&[0u32, 1, 251]),
                    channel: *rng.pick(&[0u32, 1, 1, 2, 7]),
                    size: *rng.pick(&[0u64, 1, 5, 4294967296, 4294967299, (1 << 33) + 5]), // sizes >= 2^40: lseek limit is file-system dependent, not exercised
                };
                if let Some(e) = vs::encode_chunk_header(&h) {
                    b.extend(e);
                } else {
                    // not representable through chrono: write the varints by hand
                    b.extend(enc_varint(zigzag(h.time_ms)));
                    for v in [h.job as u64, h.task as u64, h.instance as u64, h.channel as u64, h.size] {
                        b.extend(enc_varint(v));
                    }
                }
                let extra = rng.below(8) as usize;
                b.extend(gen_data(rng.below(1000), extra));
            }
            1 => {
                // flip one byte after the file header
                let hl = vs::decode_file_header(&b).map(|x| x.2).unwrap_or(0);
                if b.len() > hl {
                    let i = hl + rng.below((b.len() - hl) as u64) as usize;
                    b[i] = *rng.pick(&[0u8, 1, 2, 250, 251, 252, 254, 255, if b[i] == 252 { 0 } else { b[i].wrapping_add(1) }]); // never the u64 tag 253 (see above)
                }
            }
            2 => {
                // u32 field out of range / non-canonical varints
                b.extend([253u8, 0, 0, 0, 0, 0, 0, 0, 0]); // time 0 as a 9-byte varint
                b.extend(*rng.pick(&[&[253u8, 0, 0, 0, 0, 1, 0, 0, 0][..], &[252u8, 5, 0, 0, 0][..], &[251u8, 5, 0][..]]));
                b.extend([0u8, 0, 0]);
                b.extend(*rng.pick(&[&[0u8][..], &[2u8, 9, 9][..], &[251u8, 2, 0, 9, 9][..]]));
            }
            3 => {
                // file header variants
                b = match rng.below(5) {
                    0 => b"hqsf0000".to_vec(),
                    1 => b"hqsf0000\x03ad".to_vec(),
                    2 => b"hqsf0000\xfb\x03\x00adv\x01".to_vec(),
                    3 => b"hqsf0000\xfd\x00\x00\x00\x10\x00\x00\x00\x00adv\x01".to_vec(),
                    _ => b"hqsf0000\x03adv\xfd\x00\x00\x00\x00\x01\x00\x00\x00".to_vec(),
                };
            }
            4 => {
                let cut = rng.below(b.len() as u64 + 1) as usize;
                b.truncate(cut);
                b.extend(gen_data(rng.below(1000), rng.below(6) as usize).iter().map(|x| x % 4));
            }
            _ => {
                // tag bytes 254 / 255 at the start of a header
                b.push(*rng.pick(&[254u8, 255]));
                b.extend([0u8; 6]);
            }
        }
        world.set_file("RAW", 0, 1, Some(b), 0);
        world.read(0, None);
    }
    world.finish(&format!("TRACE {id} adversarial"), out);
}

fn zigzag(v: i64) -> u64 {
    if v >= 0 { (v as u64) << 1 } else { (!(v as u64) << 1) | 1 }
}
fn enc_varint(n: u64) -> Vec<u8> {
    if n < 251 {
        vec![n as u8]
    } else if n < 65536 {
        let mut v = vec![251u8];
        v.extend((n as u16).to_le_bytes());
        v
    } else if n < (1 << 32) {
        let mut v = vec![252u8];
        v.extend((n as u32).to_le_bytes());
        v
    } else {
        let mut v = vec![253u8];
        v.extend(n.to_le_bytes());
        v
    }
}

// ---------------------------------------------------------------- replay

fn replay(input: &str) -> String {
    let mut out = String::new();
    let mut w: Option<(World, String)> = None;
    let mut pending_cfg: Option<String> = None;
    let mut n = 0u64;
    for line in input.lines() {
        if let Some(rest) = line.strip_prefix("TRACE ") {
            pending_cfg = Some(format!("TRACE {rest}"));
            w = None;
        } else if line == "END" {
            if let Some((x, h)) = w.take() {
                x.finish(&h, &mut out);
            } else if let Some(h) = pending_cfg.take() {
                out.push_str(&format!("{h}\nEND\n"));
            }
        } else if let Some(c) = line.strip_prefix("C uid ") {
            // C uid <uid> workers <ids..> dirs <n>
            let t: Vec<&str> = c.split_whitespace().collect();
            let uid = t[0];
            let wi = t.iter().position(|x| *x == "workers").unwrap();
            let di = t.iter().position(|x| *x == "dirs").unwrap();
            let ids: Vec<u32> = t[wi + 1..di].iter().map(|x| x.parse().unwrap()).collect();
            let nd: usize = t[di + 1].parse().unwrap();
            n += 1;
            let header = pending_cfg.take().unwrap_or_else(|| "TRACE 0 replay".to_string());
            w = Some((World::new(1_000_000 + n, uid, &ids, nd), header));
        } else if let Some(o) = line.strip_prefix("O ") {
            if let Some((x, _)) = w.as_mut() {
                x.exec_line(o);
            }
        }
    }
    out
}

fn main() {
    install_panic_hook();
    let args: Vec<String> = std::env::args().collect();
    let get = |name: &str| args.iter().position(|a| a == name).map(|i| args[i + 1].clone());
    match args.get(1).map(|s| s.as_str()) {
        Some("gen") => {
            let seed: u64 = get("--seed").and_then(|s| s.parse().ok()).unwrap_or(env_u64("VERIF_SEED", 1));
            let count: u64 = get("--count").and_then(|s| s.parse().ok()).unwrap_or(100);
            let tier = get("--tier").unwrap_or("quick".into());
            let mode = get("--mode").unwrap_or("main".into());
            let outp = get("--out").expect("--out");
            let mut rng = Rng::new(seed ^ if mode == "adv" { 0x5151 } else { 0 });
            let mut out = String::new();
            for i in 0..count {
                let id = (seed % 1_000_000) * 100000 + i;
                if mode == "adv" {
                    gen_adversarial(id, &mut rng, &mut out);
                } else {
                    gen_trace(id, &mut rng, &tier, &mut out);
                }
            }
            std::fs::write(outp, out).unwrap();
        }
        Some("replay") => {
            let inp = get("--in").expect("--in");
            let outp = get("--out").expect("--out");
            let text = std::fs::read_to_string(inp).unwrap();
            std::fs::write(outp, replay(&text)).unwrap();
        }
        Some("probe") => {
            for (u, w) in [("abcXYZ", 7u32), ("", 300)] {
                println!("filehdr {u} {w} {}", hex(&vs::encode_file_header(u, w)));
            }
            for (t, j, k, i, c, s) in [(0i64, 0u32, 0u32, 0u32, 0u32, 0u64), (1_800_000_000_000, 1, 2, 3, 1, 16384), (-1, 250, 251, 65535, 65536, 1 << 32), (i64::MAX / 1000000, u32::MAX, 0, 0, 0, u64::MAX)] {
                let h = vs::VChunkHeader { time_ms: t, job: j, task: k, instance: i, channel: c, size: s };
                println!("chunk {:?} {}", h, vs::encode_chunk_header(&h).map(|b| hex(&b)).unwrap_or("none".into()));
            }
            let ok = |m: i64| vs::encode_chunk_header(&vs::VChunkHeader { time_ms: m, job: 0, task: 0, instance: 0, channel: 0, size: 0 }).is_some();
            let (mut lo, mut hi) = (-(1i64 << 62), 0i64);
            while lo + 1 < hi {
                let m = lo + (hi - lo) / 2;
                if ok(m) { hi = m } else { lo = m }
            }
            println!("min time ms {hi}");
            let (mut lo, mut hi) = (0i64, 1i64 << 62);
            while lo + 1 < hi {
                let m = lo + (hi - lo) / 2;
                if ok(m) { lo = m } else { hi = m }
            }
            println!("max time ms {lo}");
        }
        _ => {
            eprintln!("usage: hqv-stream gen --seed S --count N --tier T [--mode main|adv] --out FILE | replay --in FILE --out FILE | probe");
            std::process::exit(2);
        }
    }
}
