//! Shared helpers for the harness binaries: deterministic PRNG, panic capture, line output.

/// splitmix64-seeded xorshift PRNG: every random choice of a harness run derives from one seed.
#[derive(Clone)]
pub struct Rng(u64);

impl Rng {
    pub fn new(seed: u64) -> Self {
        let mut z = seed.wrapping_add(0x9E3779B97F4A7C15);
        z = (z ^ (z >> 30)).wrapping_mul(0xBF58476D1CE4E5B9);
        z = (z ^ (z >> 27)).wrapping_mul(0x94D049BB133111EB);
        z ^= z >> 31;
        Rng(if z == 0 { 0x1234_5678_9abc_def1 } else { z })
    }
    pub fn next_u64(&mut self) -> u64 {
        let mut x = self.0;
        x ^= x << 13;
        x ^= x >> 7;
        x ^= x << 17;
        self.0 = x;
        x.wrapping_mul(0x2545F4914F6CDD1D)
    }
    /// uniform in 0..n (n > 0)
    pub fn below(&mut self, n: u64) -> u64 {
        self.next_u64() % n
    }
    pub fn range(&mut self, lo: u64, hi_incl: u64) -> u64 {
        lo + self.below(hi_incl - lo + 1)
    }
    pub fn chance(&mut self, num: u64, den: u64) -> bool {
        self.below(den) < num
    }
    pub fn pick<'a, T>(&mut self, xs: &'a [T]) -> &'a T {
        &xs[self.below(xs.len() as u64) as usize]
    }
    pub fn fork(&mut self) -> Rng {
        Rng::new(self.next_u64())
    }
}

/// Run `f`, catching a panic; returns Err(message) with the panic message and location.
pub fn catch<T>(f: impl FnOnce() -> T) -> Result<T, String> {
    use std::panic::{AssertUnwindSafe, catch_unwind};
    match catch_unwind(AssertUnwindSafe(f)) {
        Ok(v) => Ok(v),
        Err(e) => {
            let msg = if let Some(s) = e.downcast_ref::<&str>() {
                s.to_string()
            } else if let Some(s) = e.downcast_ref::<String>() {
                s.clone()
            } else {
                "<non-string panic>".to_string()
            };
            let loc = LAST_PANIC_LOC.with(|l| l.borrow().clone());
            Err(format!("{} @ {}", msg.replace('\n', " "), loc))
        }
    }
}

thread_local! {
    /// number of panics seen by the hook on this thread (also those swallowed by tokio tasks)
    pub static PANIC_COUNT: std::cell::Cell<u64> = const { std::cell::Cell::new(0) };
    pub static LAST_PANIC_LOC: std::cell::RefCell<String> = std::cell::RefCell::new(String::new());
}

/// Install a quiet panic hook that records the location instead of printing.
pub fn install_panic_hook() {
    std::panic::set_hook(Box::new(|info| {
        let loc = info
            .location()
            .map(|l| {
                let f = l.file();
                let f = f.rsplit("crates/").next().unwrap_or(f);
                format!("{}:{}", f, l.line())
            })
            .unwrap_or_default();
        LAST_PANIC_LOC.with(|l| *l.borrow_mut() = loc);
        PANIC_COUNT.with(|c| c.set(c.get() + 1));
        if std::env::var("VERIF_BACKTRACE").is_ok() {
            let bt = std::backtrace::Backtrace::force_capture().to_string();
            let frames: Vec<&str> = bt
                .lines()
                .filter(|l| (l.contains("tako::") || l.contains("hyperqueue::")) && !l.contains("verif"))
                .map(|l| l.trim())
                .take(12)
                .collect();
            eprintln!("PANIC BACKTRACE:\n  {}", frames.join("\n  "));
        }
    }));
}

pub fn join<T: std::fmt::Display>(xs: impl IntoIterator<Item = T>, sep: &str) -> String {
    let v: Vec<String> = xs.into_iter().map(|x| x.to_string()).collect();
    if v.is_empty() { "-".to_string() } else { v.join(sep) }
}

pub fn env_u64(name: &str, default: u64) -> u64 {
    std::env::var(name).ok().and_then(|s| s.parse().ok()).unwrap_or(default)
}
