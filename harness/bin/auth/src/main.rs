//! Harness for component `auth` (C20): real `Authenticator`s driven by an interposed adversary.
//!
//! Operations are generated *symbolically* (the same vocabulary the Coq model uses), concretised
//! into real bytes / keys / role strings, executed on the real code, and the real outputs are
//! symbolised again by decrypting with the keys the harness knows.
use hqv_common::{Rng, env_u64, install_panic_hook};
use orion::aead::streaming::{Nonce, StreamOpener, StreamSealer, StreamTag};
use orion::kdf::SecretKey;
use std::collections::HashMap;
use std::fmt::Write as _;
use std::sync::Arc;
use tako::internal::verif::auth::{VAuth, VMode, VRequest, VResponse};

const ROLES: [&str; 4] = ["server", "worker", "hq-server", "hq-client"];
const N_KEYS: usize = 3; // key 2 is compromised (known to the attacker)
const BAD_KEY: usize = 2;

#[derive(Clone, Debug, PartialEq)]
enum Chal {
    H(u64),
    A(u64),
}
impl Chal {
    fn sym(&self) -> String {
        match self {
            Chal::H(n) => format!("h{n}"),
            Chal::A(n) => format!("a{n}"),
        }
    }
    fn parse(s: &str) -> Chal {
        let n = s[1..].parse().unwrap();
        if s.starts_with('h') { Chal::H(n) } else { Chal::A(n) }
    }
}

#[derive(Clone, Debug)]
enum Mode {
    NoAuth,
    Enc(Chal, u64),
}
#[derive(Clone, Debug)]
struct Req {
    proto: u64,
    role: u64,
    mode: Mode,
}
impl Req {
    fn sym(&self) -> String {
        match &self.mode {
            Mode::NoAuth => format!("{} {} noauth", self.proto, self.role),
            Mode::Enc(c, l) => format!("{} {} enc {} {}", self.proto, self.role, c.sym(), l),
        }
    }
}
#[derive(Clone, Debug)]
enum Cipher {
    Sealed(u64, u64, Chal, u64),
    Garbage(u64),
}
impl Cipher {
    fn sym(&self) -> String {
        match self {
            Cipher::Sealed(k, r, c, l) => format!("s:{k}:{r}:{}:{l}", c.sym()),
            Cipher::Garbage(g) => format!("g{g}"),
        }
    }
    fn parse(s: &str) -> Cipher {
        if let Some(rest) = s.strip_prefix("s:") {
            let p: Vec<&str> = rest.split(':').collect();
            Cipher::Sealed(p[0].parse().unwrap(), p[1].parse().unwrap(), Chal::parse(p[2]), p[3].parse().unwrap())
        } else {
            Cipher::Garbage(s[1..].parse().unwrap())
        }
    }
}
#[derive(Clone, Debug)]
enum Resp {
    NoAuth,
    Err,
    Enc(Cipher),
}
impl Resp {
    fn sym(&self) -> String {
        match self {
            Resp::NoAuth => "noauth".into(),
            Resp::Err => "err".into(),
            Resp::Enc(c) => format!("enc {}", c.sym()),
        }
    }
}

#[derive(Clone, Debug)]
enum Op {
    New { proto: u64, me: u64, peer: u64, key: Option<u64> },
    Resp { e: u64, q: Req },
    Fin { e: u64, r: Resp },
}

fn parse_req(t: &[&str]) -> Req {
    let proto = t[0].parse().unwrap();
    let role = t[1].parse().unwrap();
    let mode = if t[2] == "noauth" { Mode::NoAuth } else { Mode::Enc(Chal::parse(t[3]), t[4].parse().unwrap()) };
    Req { proto, role, mode }
}
fn parse_resp(t: &[&str]) -> Resp {
    match t[0] {
        "noauth" => Resp::NoAuth,
        "err" => Resp::Err,
        _ => Resp::Enc(Cipher::parse(t[1])),
    }
}
fn parse_op(line: &str) -> Op {
    let t: Vec<&str> = line.split_whitespace().collect();
    match t[0] {
        "NEW" => Op::New {
            proto: t[1].parse().unwrap(),
            me: t[2].parse().unwrap(),
            peer: t[3].parse().unwrap(),
            key: if t[4] == "-" { None } else { Some(t[4].parse().unwrap()) },
        },
        "RESP" => Op::Resp { e: t[1].parse().unwrap(), q: parse_req(&t[2..]) },
        "FIN" => Op::Fin { e: t[1].parse().unwrap(), r: parse_resp(&t[2..]) },
        _ => panic!("bad op {line}"),
    }
}
fn op_sym(o: &Op) -> String {
    match o {
        Op::New { proto, me, peer, key } => {
            format!("NEW {proto} {me} {peer} {}", key.map(|k| k.to_string()).unwrap_or("-".into()))
        }
        Op::Resp { e, q } => format!("RESP {e} {}", q.sym()),
        Op::Fin { e, r } => format!("FIN {e} {}", r.sym()),
    }
}

struct Endpoint {
    auth: VAuth,
    proto: u64,
    me: u64,
    peer: u64,
    key: Option<u64>,
    req: Req,
    responded: Option<Resp>,
    done: bool,
}

struct World {
    keys: Vec<Arc<SecretKey>>,
    eps: Vec<Endpoint>,
    chal_bytes: HashMap<String, Vec<u8>>, // "h3" -> its real 16 bytes
    emitted: HashMap<String, (Vec<u8>, Vec<u8>)>, // cipher symbol -> (nonce, body)
    out: String,
}

fn role_str(r: u64) -> &'static str {
    if (r as usize) < ROLES.len() { ROLES[r as usize] } else { Box::leak(format!("role{r}").into_boxed_str()) }
}

impl World {
    fn new(seed: u64) -> World {
        let mut rng = Rng::new(seed ^ 0xabcdef);
        let keys = (0..N_KEYS)
            .map(|_| {
                let bytes: Vec<u8> = (0..32).map(|_| rng.below(256) as u8).collect();
                Arc::new(SecretKey::from_slice(&bytes).unwrap())
            })
            .collect();
        World { keys, eps: vec![], chal_bytes: HashMap::new(), emitted: HashMap::new(), out: String::new() }
    }

    fn chal_to_bytes(&self, c: &Chal, len: u64) -> Vec<u8> {
        let mut base = match c {
            Chal::H(_) => self.chal_bytes.get(&c.sym()).cloned().unwrap_or_else(|| vec![0xEE; 16]),
            Chal::A(n) => {
                let mut r = Rng::new(*n ^ 0x5151_5151);
                (0..16).map(|_| r.below(256) as u8).collect()
            }
        };
        base.resize(len as usize, 0x5A);
        base
    }

    fn bytes_to_chal(&self, b: &[u8]) -> (Chal, u64) {
        let len = b.len() as u64;
        for (sym, bytes) in &self.chal_bytes {
            let mut x = bytes.clone();
            x.resize(b.len(), 0x5A);
            if x == b {
                return (Chal::parse(sym), len);
            }
        }
        for n in 0..64u64 {
            if self.chal_to_bytes(&Chal::A(n), len) == b {
                return (Chal::A(n), len);
            }
        }
        (Chal::A(9999), len)
    }

    fn concretize_req(&self, q: &Req) -> VRequest {
        VRequest {
            protocol: q.proto as u32,
            role: role_str(q.role).to_string(),
            mode: match &q.mode {
                Mode::NoAuth => VMode::NoAuth,
                Mode::Enc(c, l) => VMode::Enc(self.chal_to_bytes(c, *l)),
            },
        }
    }

    fn symbolize_req(&self, q: &VRequest) -> Req {
        let role = ROLES.iter().position(|r| *r == q.role).map(|x| x as u64).unwrap_or_else(|| {
            q.role.strip_prefix("role").and_then(|s| s.parse().ok()).unwrap_or(99)
        });
        Req {
            proto: q.protocol as u64,
            role,
            mode: match &q.mode {
                VMode::NoAuth => Mode::NoAuth,
                VMode::Enc(b) => {
                    let (c, l) = self.bytes_to_chal(b);
                    Mode::Enc(c, l)
                }
            },
        }
    }

    /// None = the attacker cannot build this ciphertext (honest key, never emitted).
    fn concretize_resp(&self, r: &Resp) -> Option<VResponse> {
        Some(match r {
            Resp::NoAuth => VResponse::NoAuth,
            Resp::Err => VResponse::Err("forged error".into()),
            Resp::Enc(c) => {
                if let Some((n, b)) = self.emitted.get(&c.sym()) {
                    VResponse::Enc { nonce: n.clone(), response: b.clone() }
                } else {
                    match c {
                        Cipher::Sealed(k, r, ch, l) => {
                            if *k as usize != BAD_KEY {
                                return None;
                            }
                            let (mut sealer, nonce) = StreamSealer::new(&self.keys[*k as usize]).unwrap();
                            let mut payload = role_str(*r).as_bytes().to_vec();
                            payload.extend_from_slice(&self.chal_to_bytes(ch, *l));
                            let body = sealer.seal_chunk(&payload, &StreamTag::Message).unwrap();
                            VResponse::Enc { nonce: nonce.as_ref().to_vec(), response: body }
                        }
                        Cipher::Garbage(g) => {
                            // a modified copy of an emitted ciphertext when there is one, random bytes otherwise
                            let mut rr = Rng::new(*g ^ 0x77);
                            let mut vals: Vec<&(Vec<u8>, Vec<u8>)> = self.emitted.values().collect();
                            vals.sort();
                            if !vals.is_empty() && g % 2 == 0 {
                                let (n, b) = vals[(g / 2) as usize % vals.len()].clone();
                                let mut b = b;
                                let mut n = n;
                                if g % 4 == 0 {
                                    let i = rr.below(b.len() as u64) as usize;
                                    b[i] ^= 1 << rr.below(8);
                                } else {
                                    let i = rr.below(n.len() as u64) as usize;
                                    n[i] ^= 1 << rr.below(8);
                                }
                                VResponse::Enc { nonce: n, response: b }
                            } else {
                                let nlen = if g % 7 == 3 { 5 } else { 24 };
                                VResponse::Enc {
                                    nonce: (0..nlen).map(|_| rr.below(256) as u8).collect(),
                                    response: (0..(17 + rr.below(40))).map(|_| rr.below(256) as u8).collect(),
                                }
                            }
                        }
                    }
                }
            }
        })
    }

    fn symbolize_resp(&mut self, r: &VResponse) -> Resp {
        match r {
            VResponse::NoAuth => Resp::NoAuth,
            VResponse::Err(_) => Resp::Err,
            VResponse::Enc { nonce, response } => {
                for (k, key) in self.keys.iter().enumerate() {
                    let Ok(n) = Nonce::from_slice(nonce) else { continue };
                    let Ok(mut opener) = StreamOpener::new(key, &n) else { continue };
                    if let Ok((payload, _tag)) = opener.open_chunk(response) {
                        // payload = role string ++ challenge bytes
                        let mut best: Option<(u64, Chal, u64)> = None;
                        for (ri, rs) in ROLES.iter().enumerate() {
                            if payload.starts_with(rs.as_bytes()) {
                                let (c, l) = self.bytes_to_chal(&payload[rs.len()..]);
                                let known = c != Chal::A(9999);
                                if best.is_none() || known {
                                    best = Some((ri as u64, c, l));
                                }
                            }
                        }
                        let (ri, c, l) = best.unwrap_or((98, Chal::A(9998), payload.len() as u64));
                        let cipher = Cipher::Sealed(k as u64, ri, c, l);
                        self.emitted.insert(cipher.sym(), (nonce.clone(), response.clone()));
                        return Resp::Enc(cipher);
                    }
                }
                Resp::Enc(Cipher::Garbage(0))
            }
        }
    }

    /// Execute one op on the real code; returns false if the op is not executable (skipped).
    fn exec(&mut self, o: &Op) -> bool {
        match o {
            Op::New { proto, me, peer, key } => {
                let k = key.map(|k| self.keys[k as usize].clone());
                let mut auth = VAuth::new(*proto as u32, role_str(*me), role_str(*peer), k);
                let rq = auth.make_request();
                let idx = self.eps.len() as u64;
                if let VMode::Enc(b) = &rq.mode {
                    self.chal_bytes.insert(format!("h{idx}"), b.clone());
                } else {
                    // a keyless endpoint draws no challenge; the id h<idx> then denotes fixed bytes nobody owns
                    let mut r = Rng::new(idx ^ 0x6868_6868);
                    self.chal_bytes.insert(format!("h{idx}"), (0..16).map(|_| r.below(256) as u8).collect());
                }
                let req = self.symbolize_req(&rq);
                writeln!(self.out, "O {}", op_sym(o)).unwrap();
                writeln!(self.out, "= REQ {}", req.sym()).unwrap();
                self.eps.push(Endpoint { auth, proto: *proto, me: *me, peer: *peer, key: *key, req, responded: None, done: false });
                true
            }
            Op::Resp { e, q } => {
                let i = *e as usize;
                if i >= self.eps.len() || self.eps[i].responded.is_some() {
                    return false;
                }
                if let Mode::Enc(Chal::H(n), _) = &q.mode {
                    if *n as usize >= self.eps.len() {
                        return false; // cannot guess a challenge that does not exist yet
                    }
                }
                let vq = self.concretize_req(q);
                let vr = self.eps[i].auth.make_response(vq);
                let r = self.symbolize_resp(&vr);
                writeln!(self.out, "O {}", op_sym(o)).unwrap();
                writeln!(self.out, "= RESP {}", r.sym()).unwrap();
                self.eps[i].responded = Some(r);
                true
            }
            Op::Fin { e, r } => {
                let i = *e as usize;
                if i >= self.eps.len() || self.eps[i].responded.is_none() || self.eps[i].done {
                    return false;
                }
                let Some(vr) = self.concretize_resp(r) else { return false };
                let ok = self.eps[i].auth.finish(vr);
                self.eps[i].done = true;
                writeln!(self.out, "O {}", op_sym(o)).unwrap();
                writeln!(self.out, "= FIN {}", if ok { "accept" } else { "reject" }).unwrap();
                true
            }
        }
    }
}

fn gen_trace(id: u64, rng: &mut Rng, out: &mut String) {
    let mut w = World::new(rng.next_u64());
    writeln!(w.out, "TRACE {id} auth").unwrap();
    writeln!(w.out, "C bad {BAD_KEY}").unwrap();
    // 1. create endpoints: mostly complementary pairs, sometimes with a mismatch
    let npairs = rng.range(1, 2);
    for _ in 0..npairs {
        let proto = rng.below(2);
        let (me, peer) = *rng.pick(&[(0u64, 1u64), (1, 0), (2, 3), (3, 2), (0, 0)]);
        let key = match rng.below(8) { 0 => None, 1 => Some(BAD_KEY as u64), x => Some(x % 2) };
        w.exec(&Op::New { proto, me, peer, key });
        // partner: complementary, with a mutation in 40% of the cases
        let (mut p2, mut me2, mut peer2, mut key2) = (proto, peer, me, key);
        if rng.chance(4, 10) {
            match rng.below(5) {
                0 => p2 = 1 - p2,
                1 => me2 = rng.below(4),
                2 => peer2 = rng.below(4),
                3 => key2 = if key2.is_none() { Some(0) } else { None },
                _ => key2 = Some(rng.below(3)),
            }
        }
        w.exec(&Op::New { proto: p2, me: me2, peer: peer2, key: key2 });
        if rng.chance(1, 4) {
            let key3 = if rng.chance(1, 2) { key } else { Some(rng.below(3)) };
            w.exec(&Op::New { proto: rng.below(2), me: rng.below(4), peer: rng.below(4), key: key3 });
        }
    }
    let n = w.eps.len() as u64;
    // 2. every endpoint answers a request chosen by the adversary
    let mut order: Vec<u64> = (0..n).collect();
    for i in (1..order.len()).rev() {
        order.swap(i, rng.below(i as u64 + 1) as usize);
    }
    for &e in &order {
        let partner = e ^ 1;
        let src = match rng.below(100) {
            0..=54 if partner < n => partner,
            55..=69 => rng.below(n),
            70..=79 => e,
            _ => if partner < n { partner } else { rng.below(n) },
        };
        let mut q = w.eps[src as usize].req.clone();
        if rng.chance(35, 100) {
            // modification of plaintext fields
            for _ in 0..rng.range(1, 2) {
                match rng.below(7) {
                    0 => q.proto = w.eps[e as usize].proto,
                    1 => q.role = w.eps[e as usize].peer,
                    2 => q.proto = rng.below(3),
                    3 => q.role = rng.below(5),
                    4 => q.mode = match q.mode { Mode::NoAuth => Mode::Enc(Chal::A(rng.below(3)), 16), Mode::Enc(..) => Mode::NoAuth },
                    5 => if let Mode::Enc(c, _) = &q.mode { q.mode = Mode::Enc(c.clone(), *rng.pick(&[0u64, 15, 17, 16, 32])) },
                    _ => if let Mode::Enc(_, l) = &q.mode { q.mode = Mode::Enc(if rng.chance(1, 2) { Chal::A(rng.below(3)) } else { Chal::H(rng.below(n)) }, *l) },
                }
            }
        }
        w.exec(&Op::Resp { e, q });
    }
    // 3. every endpoint receives a response chosen by the adversary
    for i in (1..order.len()).rev() {
        order.swap(i, rng.below(i as u64 + 1) as usize);
    }
    for &e in &order {
        let partner = e ^ 1;
        let ep = &w.eps[e as usize];
        let own_chal = Chal::H(e);
        let r = match rng.below(100) {
            0..=49 if partner < n => w.eps[partner as usize].responded.clone().unwrap_or(Resp::Err),
            50..=64 => w.eps[rng.below(n) as usize].responded.clone().unwrap_or(Resp::Err),
            65..=71 => ep.responded.clone().unwrap_or(Resp::Err),
            72..=75 => Resp::NoAuth,
            76..=78 => Resp::Err,
            79..=86 => Resp::Enc(Cipher::Garbage(rng.below(40))),
            87..=93 => Resp::Enc(Cipher::Sealed(BAD_KEY as u64, ep.peer, own_chal, 16)),
            94..=96 => Resp::Enc(Cipher::Sealed(BAD_KEY as u64, rng.below(4), Chal::A(rng.below(3)), 16)),
            _ => Resp::Enc(Cipher::Sealed(rng.below(2), ep.peer, own_chal, 16)), // honest key: only deliverable if emitted
        };
        if !w.exec(&Op::Fin { e, r }) {
            let r2 = if partner < n { w.eps[partner as usize].responded.clone().unwrap_or(Resp::Err) } else { Resp::Err };
            w.exec(&Op::Fin { e, r: r2 });
        }
    }
    writeln!(w.out, "END").unwrap();
    out.push_str(&w.out);
}

fn replay(input: &str) -> String {
    let mut out = String::new();
    let mut w: Option<World> = None;
    for line in input.lines() {
        if let Some(rest) = line.strip_prefix("TRACE ") {
            let mut nw = World::new(7);
            writeln!(nw.out, "TRACE {rest}").unwrap();
            w = Some(nw);
        } else if line == "END" {
            if let Some(mut x) = w.take() {
                writeln!(x.out, "END").unwrap();
                out.push_str(&x.out);
            }
        } else if let Some(x) = w.as_mut() {
            if line.starts_with("C ") {
                writeln!(x.out, "{line}").unwrap();
            } else if let Some(o) = line.strip_prefix("O ") {
                x.exec(&parse_op(o));
            }
        }
    }
    out
}

fn main() {
    install_panic_hook();
    let args: Vec<String> = std::env::args().collect();
    let get = |name: &str| args.iter().position(|a| a == name).map(|i| args[i + 1].clone());
    match args.get(1).map(|s| s.as_str()) {
        Some("gen") => {
            let seed: u64 = get("--seed").and_then(|s| s.parse().ok()).unwrap_or(env_u64("VERIF_SEED", 1));
            let count: u64 = get("--count").and_then(|s| s.parse().ok()).unwrap_or(100);
            let outp = get("--out").expect("--out");
            let mut rng = Rng::new(seed);
            let mut out = String::new();
            for i in 0..count {
                gen_trace(seed * 100000 + i, &mut rng, &mut out);
            }
            std::fs::write(outp, out).unwrap();
        }
        Some("replay") => {
            let inp = get("--in").expect("--in");
            let outp = get("--out").expect("--out");
            let text = std::fs::read_to_string(inp).unwrap();
            std::fs::write(outp, replay(&text)).unwrap();
        }
        _ => {
            eprintln!("usage: hqv-auth gen --seed S --count N --tier T --out FILE | replay --in FILE --out FILE");
            std::process::exit(2);
        }
    }
}
