//! Harness for component `journal` (C10, C11, C12): event histories written through the REAL
//! `JournalWriter`, cut / read by the REAL `JournalReader`, restored by the REAL `StateRestorer`
//! into a fresh `State` + tako core, pruned by the REAL `prune_journal`.
//!
//! Events are symbolic in the trace and concretised by the hook (`hyperqueue::verif::journal`).
use hqv_common::{Rng, catch, install_panic_hook, join};
use hyperqueue::verif::journal::{self as hk, VCrash, VEvent, VRestored, VTask};
use std::collections::{BTreeMap, BTreeSet};
use std::fmt::Write as _;
use std::path::{Path, PathBuf};

// ---------------------------------------------------------------------------------------------
// symbolic event syntax
// ---------------------------------------------------------------------------------------------

fn crash_s(c: &VCrash) -> String {
    match c {
        VCrash::Never => "n".into(),
        VCrash::Unlimited => "u".into(),
        VCrash::Max(k) => format!("m{k}"),
    }
}
fn parse_crash(s: &str) -> VCrash {
    match s {
        "n" => VCrash::Never,
        "u" => VCrash::Unlimited,
        _ => VCrash::Max(s[1..].parse().unwrap()),
    }
}
fn plus(v: &[u32]) -> String {
    if v.is_empty() { "-".into() } else { v.iter().map(|x| x.to_string()).collect::<Vec<_>>().join("+") }
}
fn parse_plus(s: &str) -> Vec<u32> {
    if s == "-" { vec![] } else { s.split('+').map(|x| x.parse().unwrap()).collect() }
}
fn ids_s(v: &[(u32, u32)]) -> String {
    if v.is_empty() { "-".into() } else { v.iter().map(|(j, t)| format!("{j}.{t}")).collect::<Vec<_>>().join(",") }
}
fn parse_ids(s: &str) -> Vec<(u32, u32)> {
    if s == "-" {
        return vec![];
    }
    s.split(',')
        .map(|x| {
            let (a, b) = x.split_once('.').unwrap();
            (a.parse().unwrap(), b.parse().unwrap())
        })
        .collect()
}

fn ev_s(e: &VEvent) -> String {
    match e {
        VEvent::Submit { job, closed, graph, tasks } => format!(
            "submit {job} {} {} {}",
            *closed as u8,
            if *graph { "g" } else { "a" },
            if tasks.is_empty() {
                "-".to_string()
            } else {
                tasks.iter().map(|t| format!("{}:{}:{}", t.id, crash_s(&t.crash), plus(&t.deps))).collect::<Vec<_>>().join(";")
            }
        ),
        VEvent::JobOpen(j) => format!("open {j}"),
        VEvent::JobClose(j) => format!("close {j}"),
        VEvent::JobCompleted(j) => format!("completed {j}"),
        VEvent::JobCancel(j) => format!("cancel {j}"),
        VEvent::TaskStarted { job, task, inst, workers } => format!("started {job} {task} {inst} {}", plus(workers)),
        VEvent::TaskFinished { job, task } => format!("finished {job} {task}"),
        VEvent::TaskFailed { job, task } => format!("failed {job} {task}"),
        VEvent::TasksCanceled(v) => format!("canceled {}", ids_s(v)),
        VEvent::TasksAborted(v) => format!("aborted {}", ids_s(v)),
        VEvent::WorkerConnected { w, alloc } => {
            format!("wconn {w} {}", alloc.map(|a| a.to_string()).unwrap_or("-".into()))
        }
        VEvent::WorkerLost { w, reason } => format!("wlost {w} {reason}"),
        VEvent::WorkerOverview(w) => format!("wover {w}"),
        VEvent::QueueCreated(q) => format!("qcreate {q}"),
        VEvent::QueueRemoved(q) => format!("qremove {q}"),
        VEvent::AllocQueued { q, a } => format!("aqueued {q} {a}"),
        VEvent::AllocStarted { q, a } => format!("astarted {q} {a}"),
        VEvent::AllocFinished { q, a } => format!("afinished {q} {a}"),
        VEvent::ServerStart(u) => format!("sstart {u}"),
        VEvent::ServerStop => "sstop".into(),
        VEvent::Other => "other".into(),
    }
}

fn parse_ev(t: &[&str]) -> Option<VEvent> {
    let n = |i: usize| -> Option<u32> { t.get(i)?.parse().ok() };
    Some(match *t.first()? {
        "submit" => {
            let tasks = if *t.get(4)? == "-" {
                vec![]
            } else {
                t[4].split(';')
                    .map(|x| {
                        let p: Vec<&str> = x.split(':').collect();
                        VTask { id: p[0].parse().unwrap(), crash: parse_crash(p[1]), deps: parse_plus(p[2]) }
                    })
                    .collect()
            };
            VEvent::Submit { job: n(1)?, closed: n(2)? == 1, graph: t[3] == "g", tasks }
        }
        "open" => VEvent::JobOpen(n(1)?),
        "close" => VEvent::JobClose(n(1)?),
        "completed" => VEvent::JobCompleted(n(1)?),
        "cancel" => VEvent::JobCancel(n(1)?),
        "started" => VEvent::TaskStarted { job: n(1)?, task: n(2)?, inst: n(3)?, workers: parse_plus(t.get(4)?) },
        "finished" => VEvent::TaskFinished { job: n(1)?, task: n(2)? },
        "failed" => VEvent::TaskFailed { job: n(1)?, task: n(2)? },
        "canceled" => VEvent::TasksCanceled(parse_ids(t.get(1)?)),
        "aborted" => VEvent::TasksAborted(parse_ids(t.get(1)?)),
        "wconn" => VEvent::WorkerConnected { w: n(1)?, alloc: if *t.get(2)? == "-" { None } else { Some(n(2)?) } },
        "wlost" => VEvent::WorkerLost { w: n(1)?, reason: n(2)? as u8 },
        "wover" => VEvent::WorkerOverview(n(1)?),
        "qcreate" => VEvent::QueueCreated(n(1)?),
        "qremove" => VEvent::QueueRemoved(n(1)?),
        "aqueued" => VEvent::AllocQueued { q: n(1)?, a: n(2)? },
        "astarted" => VEvent::AllocStarted { q: n(1)?, a: n(2)? },
        "afinished" => VEvent::AllocFinished { q: n(1)?, a: n(2)? },
        "sstart" => VEvent::ServerStart(n(1)?),
        "sstop" => VEvent::ServerStop,
        _ => return None,
    })
}

// ---------------------------------------------------------------------------------------------
// running the real code
// ---------------------------------------------------------------------------------------------

/// Map a panic (message @ file:line) of the real code to a stable site name: the match arm of
/// `load_event_file` it occurred in (looked up in the current source) + the kind of panic.
fn panic_site(msg: &str) -> String {
    let (m, loc) = msg.rsplit_once(" @ ").unwrap_or((msg, ""));
    let kind = if m.contains("on a `None` value") {
        "none"
    } else if m.contains("Invalid task state") {
        "state"
    } else if m.contains("assertion") {
        "assert"
    } else if m.contains("overflow") {
        "overflow"
    } else {
        "other"
    };
    let (file, line) = loc.rsplit_once(':').unwrap_or((loc, "0"));
    let line: usize = line.parse().unwrap_or(0);
    if file.ends_with("server/restore.rs") {
        let path = format!("/repo/crates/{file}");
        if let Ok(src) = std::fs::read_to_string(&path) {
            let lines: Vec<&str> = src.lines().collect();
            let mut i = line.min(lines.len());
            while i > 0 {
                let l = lines[i - 1].trim_start();
                if let Some(rest) = l.strip_prefix("EventPayload::") {
                    let name: String = rest.chars().take_while(|c| c.is_alphanumeric()).collect();
                    return format!("{name}:{kind}");
                }
                i -= 1;
            }
        }
        return format!("restore.rs:{kind}");
    }
    if file.ends_with("server/job.rs") {
        return if kind == "overflow" { "n_waiting:overflow".into() } else { format!("attach_submit:{kind}") };
    }
    if file.ends_with("server/state.rs") {
        return format!("add_job:{kind}");
    }
    let f = file.rsplit('/').next().unwrap_or(file);
    format!("{f}:{kind}")
}

fn restored_line(r: &Result<Result<VRestored, String>, String>, offsets: &[u64]) -> String {
    match r {
        Err(p) => format!("panic {}", panic_site(p)),
        Ok(Err(_)) => "err".to_string(),
        Ok(Ok(r)) => {
            let mut s = String::new();
            let _ = write!(
                s,
                "ok jc={} wc={} qc={} uid={}",
                r.job_id_counter,
                r.worker_id_counter,
                r.queue_id_counter,
                hk::parse_uid(&r.server_uid).map(|u| u.to_string()).unwrap_or("-".into())
            );
            let jobs = r
                .jobs
                .iter()
                .map(|j| {
                    format!(
                        "{}:{}:s{}:{}:{}:{}",
                        j.id,
                        if j.open { "o" } else { "c" },
                        j.n_submits,
                        if j.tasks.is_empty() {
                            "-".to_string()
                        } else {
                            j.tasks.iter().map(|(t, c)| format!("{t}{c}")).collect::<Vec<_>>().join(",")
                        },
                        j.counters.iter().map(|c| c.to_string()).collect::<Vec<_>>().join("/"),
                        match &j.n_waiting {
                            Ok(n) => format!("nw{n}"),
                            Err(_) => "nwP".to_string(),
                        }
                    )
                })
                .collect::<Vec<_>>();
            let _ = write!(s, " jobs={}", join(jobs, ";"));
            let batches = r
                .batches
                .iter()
                .map(|b| {
                    b.iter()
                        .map(|t| {
                            format!(
                                "{}.{}<{}{}",
                                t.job,
                                t.task,
                                plus(&t.deps),
                                t.adjust.map(|(i, c)| format!("[{i}.{c}]")).unwrap_or_default()
                            )
                        })
                        .collect::<Vec<_>>()
                        .join(",")
                })
                .collect::<Vec<_>>();
            let _ = write!(s, " batches={}", join(batches, ";"));
            let core = match &r.core {
                Ok(v) => join(v.iter().map(|t| format!("{}.{}:{}:{}<{}", t.job, t.task, t.inst, t.crash, plus(&t.deps))), ","),
                Err(_) => "ERR".to_string(),
            };
            let _ = write!(s, " core={core}");
            let _ = write!(
                s,
                " queues={}",
                join(r.queues.iter().map(|(q, c)| format!("{q}:{}", c.map(|c| c.to_string()).unwrap_or("-".into()))), ",")
            );
            let _ = write!(
                s,
                " trunc={}",
                match r.truncate {
                    None => "-".to_string(),
                    Some(p) => offsets.iter().position(|o| *o == p).map(|k| k.to_string()).unwrap_or(format!("?{p}")),
                }
            );
            s
        }
    }
}

struct Real {
    dir: PathBuf,
    /// the server's journal (pruned at PRUNE ops)
    b: PathBuf,
    /// shadow journal holding the complete history (never pruned)
    a: PathBuf,
    offs_b: Vec<u64>,
    offs_a: Vec<u64>,
    /// number of records of `b` right after the last prune (cuts below are not crash points)
    base: usize,
    seq: u64,
}

static COUNTER: std::sync::atomic::AtomicU64 = std::sync::atomic::AtomicU64::new(0);

impl Real {
    fn new() -> Real {
        let n = COUNTER.fetch_add(1, std::sync::atomic::Ordering::SeqCst);
        let dir = PathBuf::from(format!("/tmp/journal-{}-{}", std::process::id(), n));
        let _ = std::fs::remove_dir_all(&dir);
        std::fs::create_dir_all(&dir).unwrap();
        let b = dir.join("journal.bin");
        let a = dir.join("full.bin");
        // the server creates the file (header) when it opens the writer
        drop(hk::VWriter::open(&b, None).unwrap());
        drop(hk::VWriter::open(&a, None).unwrap());
        let hb = std::fs::metadata(&b).unwrap().len();
        Real { dir, a, offs_b: vec![hb], offs_a: vec![hb], base: 0, seq: 0, b }
    }
    fn n(&self) -> usize {
        self.offs_b.len() - 1
    }
    fn append(&mut self, e: &VEvent) {
        self.seq += 1;
        for (p, offs) in [(&self.b, &mut self.offs_b), (&self.a, &mut self.offs_a)] {
            let mut w = hk::VWriter::open(p, None).unwrap();
            w.store(e, self.seq).unwrap();
            drop(w);
            offs.push(std::fs::metadata(p).unwrap().len());
        }
    }
    fn restore_file(&self, p: &Path, offsets: &[u64]) -> String {
        let r = catch(|| hk::restore(p));
        restored_line(&r, offsets)
    }
    fn restore_prefix(&self, k: usize, extra: u64) -> String {
        let cut = self.dir.join("cut.bin");
        let len = self.offs_b[k] + extra;
        let data = std::fs::read(&self.b).unwrap();
        std::fs::write(&cut, &data[..len as usize]).unwrap();
        let s = self.restore_file(&cut, &self.offs_b);
        let _ = std::fs::remove_file(&cut);
        s
    }
    fn drop_last(&mut self, d: usize) {
        for (p, offs) in [(&self.b, &mut self.offs_b), (&self.a, &mut self.offs_a)] {
            let k = offs.len() - 1 - d;
            offs.truncate(k + 1);
            // the server truncates through create_or_append(path, Some(size))
            drop(hk::VWriter::open(p, Some(offs[k])).unwrap());
        }
    }
    fn read_line(&self) -> String {
        match hk::read_all(&self.b) {
            Err(_) => "J ERR".into(),
            Ok(r) => {
                let evs = join(r.events.iter().map(ev_s), " | ");
                let aligned = r.starts.len() + 1 == self.offs_b.len() && r.starts.iter().zip(&self.offs_b).all(|(a, b)| a == b);
                format!(
                    "J {} partial={} err={} aligned={}",
                    evs,
                    r.partial as u8,
                    r.error.is_some() as u8,
                    aligned as u8
                )
            }
        }
    }
    fn prune(&mut self, jobs: &[u32], workers: &[u32]) -> String {
        match catch(|| hk::prune(&self.b, jobs, workers)) {
            Err(p) => format!("J PANIC {}", panic_site(&p)),
            Ok(Err(_)) => "J ERR".into(),
            Ok(Ok(())) => match hk::read_all(&self.b) {
                Err(_) => "J ERR".into(),
                Ok(r) => {
                    let mut offs = r.starts.clone();
                    offs.push(r.position);
                    self.offs_b = offs;
                    self.base = self.n();
                    format!("J {} partial={} err={}", join(r.events.iter().map(ev_s), " | "), r.partial as u8, r.error.is_some() as u8)
                }
            },
        }
    }
}

impl Drop for Real {
    fn drop(&mut self) {
        let _ = std::fs::remove_dir_all(&self.dir);
    }
}

/// Execute one op on the real code; returns the `=` lines, or None if the op is not enabled.
fn exec(real: &mut Real, op: &str, last_restore: &mut Option<Result<VRestored, ()>>) -> Option<Vec<String>> {
    let t: Vec<&str> = op.split_whitespace().collect();
    match *t.first()? {
        "EV" => {
            let e = parse_ev(&t[1..])?;
            real.append(&e);
            Some(vec!["ok".into()])
        }
        "CUTS" => {
            let mut out = Vec::new();
            for k in real.base..=real.n() {
                out.push(format!("R k={k} {}", real.restore_prefix(k, 0)));
            }
            Some(out)
        }
        "CUTB" => {
            let k: usize = t.get(1)?.parse().ok()?;
            let b: u64 = t.get(2)?.parse().ok()?;
            if k < real.base || k >= real.n() || b == 0 || real.offs_b[k] + b >= real.offs_b[k + 1] {
                return None;
            }
            Some(vec![format!("R k={k} {}", real.restore_prefix(k, b))])
        }
        "RESTORE" => {
            let r = catch(|| hk::restore(&real.b));
            *last_restore = Some(match &r {
                Ok(Ok(v)) => Ok(v.clone()),
                _ => Err(()),
            });
            Some(vec![format!("R {}", restored_line(&r, &real.offs_b))])
        }
        "RESTOREFULL" => Some(vec![format!("R {}", real.restore_file(&real.a, &real.offs_a))]),
        "DROP" => {
            let d: usize = t.get(1)?.parse().ok()?;
            if d > real.n() - real.base {
                return None;
            }
            real.drop_last(d);
            Some(vec![format!("n={}", real.n())])
        }
        "READ" => Some(vec![real.read_line()]),
        "PRUNE" => {
            let jobs = if *t.get(1)? == "-" { vec![] } else { t[1].split(',').map(|x| x.parse().unwrap()).collect::<Vec<u32>>() };
            let workers = if *t.get(2)? == "-" { vec![] } else { t[2].split(',').map(|x| x.parse().unwrap()).collect::<Vec<u32>>() };
            Some(vec![real.prune(&jobs, &workers)])
        }
        _ => None,
    }
}

// ---------------------------------------------------------------------------------------------
// generator: a small state machine mirroring the job-layer rules of the server
// ---------------------------------------------------------------------------------------------

#[derive(Clone, Debug, PartialEq)]
enum TS {
    Waiting,
    Running(Vec<u32>),
    Finished,
    Failed,
    Canceled,
    Aborted,
}
impl TS {
    fn terminal(&self) -> bool {
        !matches!(self, TS::Waiting | TS::Running(_))
    }
}

#[derive(Clone, Debug)]
struct GTask {
    state: TS,
    deps: Vec<u32>,
    limit: VCrash,
    last_inst: Option<u32>,
    /// instance id the core would use for the next start
    live_inst: u32,
    crash: u32,
}

#[derive(Clone, Debug, Default)]
struct GJob {
    open: bool,
    tasks: BTreeMap<u32, GTask>,
    completed: bool,
}
impl GJob {
    fn active(&self) -> bool {
        self.tasks.values().any(|t| !t.state.terminal())
    }
    fn terminated(&self) -> bool {
        !self.open && !self.active()
    }
}

#[derive(Clone, Debug, Default)]
struct Gen {
    jobs: BTreeMap<u32, GJob>,
    /// connected workers
    workers: BTreeSet<u32>,
    queues: BTreeSet<u32>,
    allocs: Vec<(u32, u32)>,
    next_job: u32,
    next_worker: u32,
    next_queue: u32,
    next_alloc: u32,
    uid: Option<u32>,
    up: bool,
}

impl Gen {
    fn new() -> Gen {
        Gen { next_job: 1, next_worker: 1, next_queue: 1, next_alloc: 1, ..Default::default() }
    }
    fn live_jobs(&self) -> Vec<u32> {
        self.jobs.iter().filter(|(_, j)| !j.completed && !j.terminated()).map(|(i, _)| *i).collect()
    }
    /// apply an event to the abstract state (the event is assumed enabled)
    fn apply(&mut self, e: &VEvent) {
        match e {
            VEvent::Submit { job, closed, tasks, .. } => {
                let j = self.jobs.entry(*job).or_default();
                if *closed {
                    j.open = false;
                }
                for t in tasks {
                    j.tasks.insert(
                        t.id,
                        GTask { state: TS::Waiting, deps: t.deps.clone(), limit: t.crash.clone(), last_inst: None, live_inst: 0, crash: 0 },
                    );
                }
                self.next_job = self.next_job.max(job + 1);
            }
            VEvent::JobOpen(j) => {
                self.jobs.insert(*j, GJob { open: true, ..Default::default() });
                self.next_job = self.next_job.max(j + 1);
            }
            VEvent::JobClose(j) => {
                if let Some(j) = self.jobs.get_mut(j) {
                    j.open = false
                }
            }
            VEvent::JobCompleted(j) => {
                if let Some(j) = self.jobs.get_mut(j) {
                    j.completed = true
                }
            }
            VEvent::JobCancel(_) => {}
            VEvent::TaskStarted { job, task, inst, workers } => {
                if let Some(t) = self.jobs.get_mut(job).and_then(|j| j.tasks.get_mut(task)) {
                    t.state = TS::Running(workers.clone());
                    t.last_inst = Some(*inst);
                    t.live_inst = *inst;
                }
            }
            VEvent::TaskFinished { job, task } => self.set(*job, *task, TS::Finished),
            VEvent::TaskFailed { job, task } => self.set(*job, *task, TS::Failed),
            VEvent::TasksCanceled(v) => {
                for (j, t) in v {
                    self.set(*j, *t, TS::Canceled)
                }
            }
            VEvent::TasksAborted(v) => {
                for (j, t) in v {
                    self.set(*j, *t, TS::Aborted)
                }
            }
            VEvent::WorkerConnected { w, .. } => {
                self.workers.insert(*w);
                self.next_worker = self.next_worker.max(w + 1);
            }
            VEvent::WorkerLost { w, reason } => {
                self.workers.remove(w);
                let failure = *reason == 1 || *reason == 2;
                for j in self.jobs.values_mut() {
                    for t in j.tasks.values_mut() {
                        if let TS::Running(ws) = &mut t.state {
                            if ws[0] == *w {
                                t.state = TS::Waiting;
                                t.live_inst += 1;
                                if failure && t.limit != VCrash::Never {
                                    t.crash += 1;
                                }
                            } else {
                                ws.retain(|x| x != w);
                            }
                        }
                    }
                }
            }
            VEvent::WorkerOverview(_) => {}
            VEvent::QueueCreated(q) => {
                self.queues.insert(*q);
                self.next_queue = self.next_queue.max(q + 1);
            }
            VEvent::QueueRemoved(q) => {
                self.queues.remove(q);
            }
            VEvent::AllocQueued { q, a } => {
                self.allocs.push((*q, *a));
                self.next_alloc = self.next_alloc.max(a + 1);
            }
            VEvent::AllocStarted { .. } | VEvent::AllocFinished { .. } => {}
            VEvent::ServerStart(u) => {
                self.uid = Some(*u);
                self.up = true;
                // a (re)start: nothing runs, nobody is connected, completed jobs are not restored
                self.workers.clear();
                self.jobs.retain(|_, j| !j.completed);
                for j in self.jobs.values_mut() {
                    for t in j.tasks.values_mut() {
                        if matches!(t.state, TS::Running(_)) {
                            t.state = TS::Waiting;
                        }
                        t.live_inst = t.last_inst.map(|i| i + 1).unwrap_or(0);
                    }
                }
            }
            VEvent::ServerStop => self.up = false,
            VEvent::Other => {}
        }
    }
    fn set(&mut self, j: u32, t: u32, s: TS) {
        if let Some(t) = self.jobs.get_mut(&j).and_then(|j| j.tasks.get_mut(&t)) {
            t.state = s
        }
    }
}

struct Trace {
    lines: Vec<String>,
    tags: BTreeSet<&'static str>,
}

struct Driver<'a> {
    rng: &'a mut Rng,
    real: Real,
    g: Gen,
    /// abstract state after each record of the server journal (index = #records), for DROP
    snaps: Vec<Gen>,
    tr: Trace,
    last_restore: Option<Result<VRestored, ()>>,
}

impl<'a> Driver<'a> {
    fn op(&mut self, op: String) {
        let out = exec(&mut self.real, &op, &mut self.last_restore).expect("generated op must be enabled");
        self.tr.lines.push(format!("O {op}"));
        for l in out {
            self.tr.lines.push(format!("= {l}"));
        }
    }
    fn ev(&mut self, e: VEvent) {
        self.g.apply(&e);
        self.op(format!("EV {}", ev_s(&e)));
        self.snaps.push(self.g.clone());
    }
    fn tag(&mut self, t: &'static str) {
        self.tr.tags.insert(t);
    }

    fn random_crash(&mut self) -> VCrash {
        match self.rng.below(6) {
            0 => VCrash::Never,
            1 => VCrash::Unlimited,
            2 => VCrash::Max(1),
            3 => VCrash::Max(2),
            _ => VCrash::Max(5),
        }
    }

    /// tasks for a submit into job `j` (existing ids known), either an array or a small DAG
    fn gen_tasks(&mut self, existing: &[u32], auto: bool) -> (bool, Vec<VTask>) {
        let max = existing.iter().max().copied();
        let mut next = if auto { max.map(|m| m + 1).unwrap_or(0) } else { max.map(|m| m + 1).unwrap_or(0) + self.rng.below(3) as u32 };
        if existing.is_empty() && !auto && self.rng.chance(1, 2) {
            next = 1 + self.rng.below(3) as u32;
        }
        let n = 1 + self.rng.below(4) as usize;
        let graph = self.rng.chance(1, 2);
        let mut tasks = Vec::new();
        let crash = self.random_crash();
        let mut ids: Vec<u32> = Vec::new();
        for _ in 0..n {
            let id = next;
            next += 1 + if auto || !graph { 0 } else { self.rng.below(2) as u32 };
            let mut deps = Vec::new();
            if graph {
                let pool: Vec<u32> = existing.iter().copied().chain(ids.iter().copied()).collect();
                for d in pool {
                    if self.rng.chance(1, 3) && deps.len() < 2 {
                        deps.push(d);
                    }
                }
            }
            let c = if graph { self.random_crash() } else { crash.clone() };
            tasks.push(VTask { id, crash: c, deps });
            ids.push(id);
        }
        (graph, tasks)
    }

    /// everything the server does when task (j,t) fails: abort the transitive dependents, fail it,
    /// complete the job if nothing is left
    fn fail_task(&mut self, j: u32, t: u32) {
        let job = &self.g.jobs[&j];
        let mut ab: Vec<u32> = Vec::new();
        let mut frontier = vec![t];
        while let Some(x) = frontier.pop() {
            for (id, tt) in &job.tasks {
                if tt.deps.contains(&x) && !tt.state.terminal() && !ab.contains(id) && *id != t {
                    ab.push(*id);
                    frontier.push(*id);
                }
            }
        }
        ab.sort_unstable();
        if !ab.is_empty() {
            self.tag("abort-dependents");
            self.ev(VEvent::TasksAborted(ab.iter().map(|x| (j, *x)).collect()));
        }
        self.ev(VEvent::TaskFailed { job: j, task: t });
        self.maybe_complete(j);
    }
    fn maybe_complete(&mut self, j: u32) {
        let job = &self.g.jobs[&j];
        if !job.completed && job.terminated() {
            // a crash may fall between the last task record and JobCompleted
            self.ev(VEvent::JobCompleted(j));
        }
    }

    fn step(&mut self) {
        let g = self.g.clone();
        let live: Vec<u32> = g.jobs.iter().filter(|(_, j)| !j.completed).map(|(i, _)| *i).collect();
        let mut waiting: Vec<(u32, u32)> = Vec::new();
        let mut startable: Vec<(u32, u32)> = Vec::new();
        let mut running: Vec<(u32, u32)> = Vec::new();
        for j in &live {
            for (t, tt) in &g.jobs[j].tasks {
                match &tt.state {
                    TS::Waiting => {
                        waiting.push((*j, *t));
                        if tt.deps.iter().all(|d| g.jobs[j].tasks.get(d).map(|x| x.state == TS::Finished).unwrap_or(true)) {
                            startable.push((*j, *t));
                        }
                    }
                    TS::Running(_) => running.push((*j, *t)),
                    _ => {}
                }
            }
        }
        let workers: Vec<u32> = g.workers.iter().copied().collect();
        let open_jobs: Vec<u32> = live.iter().copied().filter(|j| g.jobs[j].open).collect();
        let r = self.rng.below(100);
        match r {
            0..=11 => {
                // closed job
                let auto = self.rng.chance(1, 2);
                let (graph, tasks) = self.gen_tasks(&[], auto);
                let j = self.g.next_job;
                self.tag(if graph { "submit-graph" } else { "submit-array" });
                self.ev(VEvent::Submit { job: j, closed: true, graph, tasks });
            }
            12..=15 => {
                let j = self.g.next_job;
                self.tag("open-job");
                self.ev(VEvent::JobOpen(j));
            }
            16..=25 => {
                if let Some(&j) = open_jobs.first().filter(|_| !open_jobs.is_empty()) {
                    let j = if self.rng.chance(1, 2) { j } else { *self.rng.pick(&open_jobs) };
                    let existing: Vec<u32> = g.jobs[&j].tasks.keys().copied().collect();
                    let auto = self.rng.chance(1, 2);
                    let (graph, tasks) = self.gen_tasks(&existing, auto);
                    if !existing.is_empty() {
                        self.tag("multi-submit");
                    }
                    if tasks.iter().any(|t| t.deps.iter().any(|d| existing.contains(d))) {
                        self.tag("dep-on-earlier-submit");
                    }
                    self.ev(VEvent::Submit { job: j, closed: false, graph, tasks });
                }
            }
            26..=28 => {
                if !open_jobs.is_empty() {
                    let j = *self.rng.pick(&open_jobs);
                    self.tag("close-job");
                    self.ev(VEvent::JobClose(j));
                    self.maybe_complete(j);
                }
            }
            29..=38 => {
                let w = self.g.next_worker;
                let alloc = if !g.allocs.is_empty() && self.rng.chance(1, 2) {
                    self.tag("worker-from-alloc");
                    Some(self.rng.pick(&g.allocs).1)
                } else {
                    None
                };
                self.ev(VEvent::WorkerConnected { w, alloc });
            }
            39..=58 => {
                if !startable.is_empty() && !workers.is_empty() {
                    let (j, t) = *self.rng.pick(&startable);
                    let mut ws = vec![*self.rng.pick(&workers)];
                    if workers.len() >= 2 && self.rng.chance(1, 6) {
                        let w2 = *self.rng.pick(&workers);
                        if w2 != ws[0] {
                            ws.push(w2);
                            self.tag("multi-node");
                        }
                    }
                    let tt = &g.jobs[&j].tasks[&t];
                    // the core's instance id may have advanced without a journalled start
                    let inst = tt.live_inst + if self.rng.chance(1, 8) { 1 } else { 0 };
                    if tt.last_inst.is_some() {
                        self.tag("restarted-task");
                    }
                    self.ev(VEvent::TaskStarted { job: j, task: t, inst, workers: ws });
                }
            }
            59..=68 => {
                if !running.is_empty() {
                    let (j, t) = *self.rng.pick(&running);
                    self.ev(VEvent::TaskFinished { job: j, task: t });
                    self.maybe_complete(j);
                }
            }
            69..=72 => {
                if !running.is_empty() {
                    let (j, t) = *self.rng.pick(&running);
                    self.tag("fail-after-start");
                    self.fail_task(j, t);
                }
            }
            73..=75 => {
                if !waiting.is_empty() {
                    let (j, t) = *self.rng.pick(&waiting);
                    self.tag("fail-before-start");
                    self.fail_task(j, t);
                }
            }
            76..=79 => {
                // cancel a job
                let cands: Vec<u32> = live.iter().copied().filter(|j| g.jobs[j].active()).collect();
                if !cands.is_empty() {
                    let j = *self.rng.pick(&cands);
                    let ids: Vec<(u32, u32)> =
                        g.jobs[&j].tasks.iter().filter(|(_, t)| !t.state.terminal()).map(|(t, _)| (j, *t)).collect();
                    self.tag("cancel");
                    self.ev(VEvent::JobCancel(j));
                    self.ev(VEvent::TasksCanceled(ids));
                    self.maybe_complete(j);
                }
            }
            80..=88 => {
                if !workers.is_empty() {
                    let w = *self.rng.pick(&workers);
                    let reason = self.rng.below(5) as u8;
                    let failure = reason == 1 || reason == 2;
                    let on_w: Vec<(u32, u32)> = running
                        .iter()
                        .copied()
                        .filter(|(j, t)| matches!(&g.jobs[j].tasks[t].state, TS::Running(ws) if ws[0] == w))
                        .collect();
                    if running.iter().any(|(j, t)| matches!(&g.jobs[j].tasks[t].state, TS::Running(ws) if ws[0] != w && ws.contains(&w))) {
                        self.tag("lost-nonroot");
                    }
                    if !on_w.is_empty() {
                        self.tag(if failure { "lost-running-failure" } else { "lost-running-graceful" });
                    }
                    self.ev(VEvent::WorkerLost { w, reason });
                    for (j, t) in on_w {
                        let tt = &self.g.jobs[&j].tasks[&t];
                        let fails = match tt.limit {
                            VCrash::Never => true,
                            VCrash::Max(k) => failure && tt.crash >= k as u32,
                            VCrash::Unlimited => false,
                        };
                        if fails && tt.state == TS::Waiting {
                            self.tag("crash-limit-fail");
                            self.fail_task(j, t);
                        }
                    }
                }
            }
            89..=91 => {
                let q = self.g.next_queue;
                self.tag("queue");
                self.ev(VEvent::QueueCreated(q));
            }
            92..=93 => {
                if !g.queues.is_empty() {
                    let qs: Vec<u32> = g.queues.iter().copied().collect();
                    let q = *self.rng.pick(&qs);
                    if self.rng.chance(1, 3) {
                        self.tag("queue-removed");
                        self.ev(VEvent::QueueRemoved(q));
                    } else {
                        let a = self.g.next_alloc;
                        self.ev(VEvent::AllocQueued { q, a });
                        if self.rng.chance(1, 2) {
                            self.ev(VEvent::AllocStarted { q, a });
                            if self.rng.chance(1, 3) {
                                self.ev(VEvent::AllocFinished { q, a });
                            }
                        }
                    }
                }
            }
            94 => {
                if !workers.is_empty() {
                    let w = *self.rng.pick(&workers);
                    self.ev(VEvent::WorkerOverview(w));
                }
            }
            95..=97 => self.restart(),
            _ => self.prune_block(),
        }
    }

    /// crash (losing the last d records) or graceful stop, then start again from the journal
    fn restart(&mut self) {
        if self.rng.chance(1, 3) {
            self.tag("graceful-stop");
            self.ev(VEvent::ServerStop);
        } else {
            let maxd = (self.real.n() - self.real.base).min(3);
            let d = self.rng.below(maxd as u64 + 1) as usize;
            self.tag("crash");
            if d > 0 {
                self.op(format!("DROP {d}"));
                let k = self.snaps.len() - 1 - d;
                self.snaps.truncate(k + 1);
                self.g = self.snaps[k].clone();
            }
        }
        self.tag("restart");
        self.op("RESTORE".into());
        // the new server continues with what the REAL restore produced
        let uid = match &self.last_restore {
            Some(Ok(r)) => {
                // (never below the ids this history has already used: a stale restored counter is
                // reported by the C11 monitor on the RESTORE line; the history itself stays producible)
                self.g.next_job = self.g.next_job.max(r.job_id_counter);
                self.g.next_worker = self.g.next_worker.max(r.worker_id_counter + 1);
                self.g.next_queue = self.g.next_queue.max(r.queue_id_counter);
                hk::parse_uid(&r.server_uid)
            }
            _ => self.g.uid,
        };
        let uid = uid.unwrap_or(7);
        self.ev(VEvent::ServerStart(uid));
    }

    fn prune_block(&mut self) {
        self.tag("prune");
        let jobs = self.g.live_jobs();
        let workers: Vec<u32> = self.g.workers.iter().copied().collect();
        self.op("RESTORE".into());
        self.op(format!("PRUNE {} {}", join(jobs.iter(), ","), join(workers.iter(), ",")));
        // the abstract per-record snapshots no longer line up with the pruned file
        self.snaps = vec![self.g.clone()];
        self.op("RESTORE".into());
        self.op("RESTOREFULL".into());
        if self.rng.chance(1, 3) {
            self.tag("prune-twice");
            self.op(format!("PRUNE {} {}", join(jobs.iter(), ","), join(workers.iter(), ",")));
            self.op("RESTORE".into());
        }
    }
}

fn gen_producible(rng: &mut Rng, tier: &str, id: u64) -> Trace {
    let mut d = Driver {
        rng,
        real: Real::new(),
        g: Gen::new(),
        snaps: vec![],
        tr: Trace { lines: vec![], tags: BTreeSet::new() },
        last_restore: None,
    };
    d.snaps.push(d.g.clone());
    let _ = id;
    let uid = 1 + d.rng.below(9) as u32;
    d.ev(VEvent::ServerStart(uid));
    let steps = if tier == "thorough" { d.rng.range(10, 70) } else { d.rng.range(8, 45) };
    for _ in 0..steps {
        d.step();
    }
    d.op("READ".into());
    d.op("CUTS".into());
    if tier == "thorough" {
        // arbitrary byte offsets: every offset of up to three records, a few offsets of the others
        let n = d.real.n();
        let mut full = 3;
        for k in d.real.base..n {
            let len = d.real.offs_b[k + 1] - d.real.offs_b[k];
            if full > 0 && d.rng.chance(1, 3) {
                full -= 1;
                for b in 1..len {
                    d.op(format!("CUTB {k} {b}"));
                }
            } else {
                for _ in 0..2 {
                    if len > 1 {
                        let b = d.rng.range(1, len - 1);
                        d.op(format!("CUTB {k} {b}"));
                    }
                }
            }
        }
        d.tag("byte-cuts");
    } else if d.real.n() > d.real.base {
        let k = d.real.base + d.rng.below((d.real.n() - d.real.base) as u64) as usize;
        let len = d.real.offs_b[k + 1] - d.real.offs_b[k];
        if len > 1 {
            let b = d.rng.range(1, len - 1);
            d.op(format!("CUTB {k} {b}"));
            d.tag("byte-cuts");
        }
    }
    d.prune_block();
    // append after prune
    let more = d.rng.range(0, 8);
    for _ in 0..more {
        d.step();
    }
    if more > 0 {
        d.tag("append-after-prune");
    }
    d.op("RESTORE".into());
    d.op("RESTOREFULL".into());
    d.tr
}

/// arbitrary (mostly non-producible) event lists: restore must behave as the model predicts
/// (incl. its panics), the id counters must exceed every id, prune must match the model.
fn gen_adversarial(rng: &mut Rng) -> Trace {
    let mut real = Real::new();
    let mut tr = Trace { lines: vec![], tags: BTreeSet::new() };
    tr.tags.insert("adversarial");
    let mut last = None;
    let n = rng.range(1, 14);
    let mut push = |real: &mut Real, tr: &mut Trace, op: String, last: &mut Option<Result<VRestored, ()>>| {
        let out = exec(real, &op, last).unwrap();
        tr.lines.push(format!("O {op}"));
        for l in out {
            tr.lines.push(format!("= {l}"));
        }
    };
    for _ in 0..n {
        let j = 1 + rng.below(3) as u32;
        let t = rng.below(4) as u32;
        let w = 1 + rng.below(3) as u32;
        let q = 1 + rng.below(2) as u32;
        let e = match rng.below(22) {
            0..=3 => {
                let graph = rng.chance(1, 2);
                let k = 1 + rng.below(3) as u32;
                let start = rng.below(3) as u32;
                let tasks = (0..k)
                    .map(|i| VTask {
                        id: start + i,
                        crash: if graph && rng.chance(1, 2) { VCrash::Never } else { VCrash::Max(2) },
                        deps: if graph && rng.chance(1, 3) { vec![rng.below(5) as u32] } else { vec![] },
                    })
                    .collect();
                VEvent::Submit { job: j, closed: rng.chance(1, 2), graph, tasks }
            }
            4 => VEvent::JobOpen(j),
            5 => VEvent::JobClose(j),
            6 => VEvent::JobCompleted(j),
            7 => VEvent::JobCancel(j),
            8..=10 => VEvent::TaskStarted { job: j, task: t, inst: rng.below(3) as u32, workers: vec![w] },
            11 => VEvent::TaskFinished { job: j, task: t },
            12 => VEvent::TaskFailed { job: j, task: t },
            13 => VEvent::TasksCanceled(vec![(j, t), (1 + rng.below(3) as u32, rng.below(4) as u32)]),
            14 => VEvent::TasksAborted(vec![(j, t)]),
            15 => VEvent::WorkerConnected { w: w + rng.below(3) as u32, alloc: if rng.chance(1, 2) { Some(1) } else { None } },
            16..=17 => VEvent::WorkerLost { w, reason: rng.below(5) as u8 },
            18 => VEvent::QueueCreated(q),
            19 => {
                if rng.chance(1, 2) {
                    VEvent::QueueRemoved(q)
                } else {
                    VEvent::AllocQueued { q, a: 1 }
                }
            }
            20 => VEvent::ServerStart(1 + rng.below(3) as u32),
            _ => VEvent::ServerStop,
        };
        push(&mut real, &mut tr, format!("EV {}", ev_s(&e)), &mut last);
    }
    push(&mut real, &mut tr, "READ".into(), &mut last);
    push(&mut real, &mut tr, "RESTORE".into(), &mut last);
    let jobs: Vec<u32> = (1..=3).filter(|_| rng.chance(1, 2)).collect();
    let workers: Vec<u32> = (1..=4).filter(|_| rng.chance(1, 2)).collect();
    push(&mut real, &mut tr, format!("PRUNE {} {}", join(jobs.iter(), ","), join(workers.iter(), ",")), &mut last);
    push(&mut real, &mut tr, "RESTORE".into(), &mut last);
    tr
}

fn main() {
    install_panic_hook();
    let args: Vec<String> = std::env::args().collect();
    let get = |k: &str| args.iter().position(|a| a == k).and_then(|i| args.get(i + 1)).cloned();
    let mode = args.get(1).cloned().unwrap_or_default();
    let mut out = String::new();
    match mode.as_str() {
        "gen" => {
            let seed: u64 = get("--seed").and_then(|s| s.parse().ok()).unwrap_or(1);
            let count: u64 = get("--count").and_then(|s| s.parse().ok()).unwrap_or(10);
            let tier = get("--tier").unwrap_or("quick".into());
            let mut rng = Rng::new(seed);
            for i in 0..count {
                let mut r = rng.fork();
                let tr = if i % 5 == 4 { gen_adversarial(&mut r) } else { gen_producible(&mut r, &tier, i) };
                let _ = writeln!(out, "TRACE {seed}-{i} {}", join(tr.tags.iter(), " "));
                for l in &tr.lines {
                    let _ = writeln!(out, "{l}");
                }
                let _ = writeln!(out, "END");
            }
        }
        "replay" => {
            let inp = get("--in").expect("--in");
            let text = std::fs::read_to_string(inp).unwrap();
            let mut real: Option<Real> = None;
            let mut last = None;
            for line in text.lines() {
                if line.starts_with("TRACE ") {
                    let _ = writeln!(out, "{line}");
                    real = Some(Real::new());
                    last = None;
                } else if line == "END" {
                    let _ = writeln!(out, "END");
                    real = None;
                } else if let Some(op) = line.strip_prefix("O ") {
                    if let Some(r) = real.as_mut() {
                        if let Some(res) = exec(r, op, &mut last) {
                            let _ = writeln!(out, "O {op}");
                            for l in res {
                                let _ = writeln!(out, "= {l}");
                            }
                        }
                    }
                } else if line.starts_with("C ") {
                    let _ = writeln!(out, "{line}");
                }
            }
        }
        _ => {
            eprintln!("usage: hqv-journal gen --seed S --count N --tier quick|thorough --out FILE | replay --in FILE --out FILE");
            std::process::exit(2);
        }
    }
    let outp = get("--out").expect("--out");
    std::fs::write(outp, out).unwrap();
}
