//! Harness for component `alloc` (C04, C16): drives the REAL `ResourceAllocator` of tako with
//! random descriptors and alloc / release / is_enabled sequences and logs, per operation, the
//! witnesses (group solver answers, index that won the min-fraction tie break), the returned
//! allocation, the labels handed to the task and a canonical snapshot of pools + concise mirror.
use hqv_common::{Rng, catch, install_panic_hook, join};
use std::fmt::Write as _;
use std::rc::Rc;
use tako::internal::verif::alloc::{VAlloc, VConcise, VDesc, VEntry, VKind, VPool, make_request};
use tako::resources::Allocation;

const FPU: u64 = 10_000;
const POLICIES: [&str; 6] = ["compact", "tight", "scatter", "compact!", "tight!", "all"];

// ---------------------------------------------------------------------------------------------
// descriptor <-> C lines

#[derive(Clone, Debug)]
enum Kind {
    List(Vec<u64>),
    Range(u32, u32),
    Groups(Vec<Vec<u64>>),
    Sum(u64),
}

#[derive(Clone, Debug, Default)]
struct Desc {
    n_names: u32,
    items: Vec<(u32, Kind)>,
    coupling: Vec<(u8, u8, u8, u8, u16)>,
}

fn lab(n: u64) -> String {
    format!("L{n}")
}

impl Desc {
    fn to_v(&self) -> VDesc {
        VDesc {
            n_names: self.n_names,
            items: self
                .items
                .iter()
                .map(|(r, k)| {
                    (
                        *r,
                        match k {
                            Kind::List(l) => VKind::List(l.iter().map(|x| lab(*x)).collect()),
                            Kind::Range(s, e) => VKind::Range(*s, *e),
                            Kind::Groups(g) => VKind::Groups(g.iter().map(|l| l.iter().map(|x| lab(*x)).collect()).collect()),
                            Kind::Sum(s) => VKind::Sum(*s),
                        },
                    )
                })
                .collect(),
            coupling: self.coupling.clone(),
        }
    }
    fn c_lines(&self, out: &mut String) {
        writeln!(out, "C N {}", self.n_names).unwrap();
        for (r, k) in &self.items {
            match k {
                Kind::List(l) => writeln!(out, "C R {r} list {}", join(l.iter(), ",")).unwrap(),
                Kind::Range(s, e) => writeln!(out, "C R {r} range {s} {e}").unwrap(),
                Kind::Groups(g) => writeln!(out, "C R {r} groups {}", g.iter().map(|l| join(l.iter(), ",")).collect::<Vec<_>>().join(";")).unwrap(),
                Kind::Sum(s) => writeln!(out, "C R {r} sum {s}").unwrap(),
            }
        }
        for (a, b, c, d, w) in &self.coupling {
            writeln!(out, "C W {a} {b} {c} {d} {w}").unwrap();
        }
    }
    fn parse_line(&mut self, line: &str) {
        let t: Vec<&str> = line.split_whitespace().collect();
        let nums = |s: &str| -> Vec<u64> { if s == "-" { vec![] } else { s.split(',').map(|x| x.parse().unwrap()).collect() } };
        match t[0] {
            "N" => self.n_names = t[1].parse().unwrap(),
            "R" => {
                let r: u32 = t[1].parse().unwrap();
                let k = match t[2] {
                    "list" => Kind::List(nums(t[3])),
                    "range" => Kind::Range(t[3].parse().unwrap(), t[4].parse().unwrap()),
                    "groups" => Kind::Groups(t[3].split(';').map(nums).collect()),
                    _ => Kind::Sum(t[3].parse().unwrap()),
                };
                self.items.push((r, k));
            }
            "W" => self.coupling.push((
                t[1].parse().unwrap(),
                t[2].parse().unwrap(),
                t[3].parse().unwrap(),
                t[4].parse().unwrap(),
                t[5].parse().unwrap(),
            )),
            _ => {}
        }
    }
    fn size_of(&self, rid: u32) -> Option<u64> {
        self.items.iter().rev().find(|(r, _)| *r == rid).map(|(_, k)| match k {
            Kind::List(l) => l.len() as u64 * FPU,
            Kind::Range(s, e) => if e >= s { (*e as u64 + 1 - *s as u64) * FPU } else { 0 },
            Kind::Groups(g) => g.iter().map(|x| x.len() as u64).sum::<u64>() * FPU,
            Kind::Sum(s) => *s,
        })
    }
    fn n_groups(&self, idx: usize) -> usize {
        match &self.items[idx].1 {
            Kind::Groups(g) => g.len(),
            _ => 1,
        }
    }
}

// ---------------------------------------------------------------------------------------------
// operations

#[derive(Clone, Debug)]
enum Op {
    Init,
    Alloc(Vec<VEntry>),
    Enabled(Vec<VEntry>),
    Release(usize),
}

fn req_str(es: &[VEntry]) -> String {
    join(es.iter().map(|e| format!("{}:{}:{}", e.resource, POLICIES[e.policy as usize], e.amount)), " ")
}

fn parse_req(toks: &[&str]) -> Vec<VEntry> {
    toks.iter()
        .take_while(|t| **t != "|")
        .filter(|t| **t != "-")
        .map(|t| {
            let p: Vec<&str> = t.split(':').collect();
            VEntry {
                resource: p[0].parse().unwrap(),
                policy: POLICIES.iter().position(|x| *x == p[1]).unwrap() as u8,
                amount: p[2].parse().unwrap(),
            }
        })
        .collect()
}

fn parse_op(line: &str) -> Op {
    let t: Vec<&str> = line.split_whitespace().collect();
    match t[0] {
        "INIT" => Op::Init,
        "ALLOC" => Op::Alloc(parse_req(&t[1..])),
        "ENABLED" => Op::Enabled(parse_req(&t[1..])),
        "REL" => Op::Release(t[1].parse().unwrap()),
        _ => panic!("bad op {line}"),
    }
}

// ---------------------------------------------------------------------------------------------
// execution against the real allocator

struct World {
    desc: Desc,
    alloc: Option<VAlloc>,
    live: Vec<Rc<Allocation>>,
    dead: bool, // a panic happened: the state is unusable, the trace ends
    out: String,
    yard_cache: Vec<(String, String)>,
}

fn fr_str(fr: &[(u32, u32)]) -> String {
    join(fr.iter().map(|(k, v)| format!("{k}:{v}")), ",")
}

fn snapshot(out: &mut String, pools: &[VPool], concise: &[VConcise]) {
    for (rid, (kind, full, free, groups)) in pools.iter().enumerate() {
        match kind {
            0 => writeln!(out, "= P {rid} E").unwrap(),
            3 => writeln!(out, "= P {rid} S {full} {free}").unwrap(),
            _ => writeln!(
                out,
                "= P {rid} {} {full} {}",
                if *kind == 1 { "I" } else { "G" },
                groups.iter().map(|(st, fr)| format!("{}|{}", join(st.iter(), ","), fr_str(fr))).collect::<Vec<_>>().join(" / ")
            )
            .unwrap(),
        }
    }
    for (rid, st) in concise.iter().enumerate() {
        if st.is_empty() {
            writeln!(out, "= F {rid} -").unwrap();
        } else {
            writeln!(out, "= F {rid} {}", st.iter().map(|(u, fr)| format!("{u}|{}", fr_str(fr))).collect::<Vec<_>>().join(" / ")).unwrap();
        }
    }
}

fn masks_str(ids: &[u32], masks: &[Vec<usize>]) -> String {
    ids.iter().zip(masks.iter()).map(|(r, m)| format!("{r}:{}", join(m.iter(), "."))).collect::<Vec<_>>().join("/")
}

impl World {
    fn new(desc: Desc) -> World {
        World { desc, alloc: None, live: vec![], dead: false, out: String::new(), yard_cache: vec![] }
    }

    fn snap(&mut self) {
        let a = self.alloc.as_ref().unwrap();
        let (p, c) = (a.pools(), a.concise());
        snapshot(&mut self.out, &p, &c);
    }

    /// witness tokens for a request in the current state: the group solver's answers
    ///   m= the solve of claim_resources (current free resources, with tie-breaking terms)
    ///   a= the admission solve of a strict request (current free resources, no tie-breaking)
    ///   y= the yardstick solve of a strict request (empty worker, no tie-breaking; static, cached per request)
    fn solver_witness(&mut self, es: &[VEntry]) -> Result<String, String> {
        let a = self.alloc.as_ref().unwrap();
        let rq = make_request(es);
        let mut w = String::new();
        let forced = es.iter().any(|e| e.policy == 3 || e.policy == 4);
        let (ids, ans) = catch(|| a.group_solve(&rq, false, true))?;
        if !ids.is_empty() {
            match ans {
                Some((masks, _)) => write!(w, " m={}", masks_str(&ids, &masks)).unwrap(),
                None => write!(w, " m=none").unwrap(),
            }
            if forced {
                let (ids1, ans1) = catch(|| a.group_solve(&rq, false, false))?;
                match ans1 {
                    Some((masks, _)) => write!(w, " a={}", masks_str(&ids1, &masks)).unwrap(),
                    None => write!(w, " a=none").unwrap(),
                }
                let key = req_str(es);
                let y = match self.yard_cache.iter().find(|(k, _)| *k == key) {
                    Some((_, y)) => y.clone(),
                    None => {
                        let (ids2, ans2) = catch(|| a.group_solve(&rq, true, false))?;
                        let y = match ans2 {
                            Some((masks, _)) => format!(" y={}", masks_str(&ids2, &masks)),
                            None => " y=none".to_string(),
                        };
                        self.yard_cache.push((key, y.clone()));
                        y
                    }
                };
                w += &y;
            }
        }
        Ok(w)
    }

    fn exec(&mut self, op: &Op) {
        if self.dead {
            return;
        }
        match op {
            Op::Init => {
                writeln!(self.out, "O INIT").unwrap();
                let v = self.desc.to_v();
                match catch(|| {
                    let a = VAlloc::new(&v);
                    a.validate();
                    a
                }) {
                    Ok(a) => {
                        self.alloc = Some(a);
                        writeln!(self.out, "= OK").unwrap();
                        self.snap();
                    }
                    Err(_) => {
                        writeln!(self.out, "= PANIC").unwrap();
                        self.dead = true;
                    }
                }
            }
            Op::Alloc(es) => {
                if self.alloc.is_none() {
                    return;
                }
                let rq = make_request(es);
                // entries are sorted by ResourceRequest::new; log them in that order
                let mut es = es.clone();
                es.sort_by_key(|e| e.resource);
                let w = match self.solver_witness(&es) {
                    Ok(w) => w,
                    Err(_) => {
                        writeln!(self.out, "O ALLOC {} |", req_str(&es)).unwrap();
                        writeln!(self.out, "= PANIC").unwrap();
                        self.dead = true;
                        return;
                    }
                };
                let a = self.alloc.as_mut().unwrap();
                let r = catch(|| a.try_allocate(&rq));
                let a = self.alloc.as_ref().unwrap();
                let vpanic = r.is_ok() && catch(|| a.validate()).is_err();
                if vpanic {
                    self.dead = true;
                }
                match r {
                    Ok(Some(al)) => {
                        let fw: Vec<String> = al
                            .resources
                            .iter()
                            .filter_map(|ra| ra.indices.iter().find(|i| i.fractions > 0).map(|i| format!("{}:{}", ra.resource_id.as_num(), i.index.as_num())))
                            .collect();
                        let fw = if fw.is_empty() { String::new() } else { format!(" f={}", fw.join("/")) };
                        writeln!(self.out, "O ALLOC {} |{}{}", req_str(&es), w, fw).unwrap();
                        writeln!(
                            self.out,
                            "= GRANT {}",
                            join(
                                al.resources.iter().map(|ra| format!(
                                    "{}:{}:{}",
                                    ra.resource_id.as_num(),
                                    ra.amount.total_fractions(),
                                    join(ra.indices.iter().map(|i| format!("{}.{}.{}", i.index.as_num(), i.group_idx, i.fractions)), ",")
                                )),
                                ";"
                            )
                        )
                        .unwrap();
                        let a = self.alloc.as_ref().unwrap();
                        writeln!(
                            self.out,
                            "= LABELS {}",
                            join(
                                al.resources.iter().map(|ra| format!(
                                    "{}:{}",
                                    ra.resource_id.as_num(),
                                    join(ra.indices.iter().map(|i| a.label(ra.resource_id.as_num(), i.index.as_num())), ",")
                                )),
                                ";"
                            )
                        )
                        .unwrap();
                        self.live.push(al);
                        self.snap();
                        if vpanic {
                            writeln!(self.out, "= VALIDATE-PANIC").unwrap();
                        }
                    }
                    Ok(None) => {
                        writeln!(self.out, "O ALLOC {} |{}", req_str(&es), w).unwrap();
                        writeln!(self.out, "= NONE").unwrap();
                        self.snap();
                        if vpanic {
                            writeln!(self.out, "= VALIDATE-PANIC").unwrap();
                        }
                    }
                    Err(_) => {
                        writeln!(self.out, "O ALLOC {} |{}", req_str(&es), w).unwrap();
                        writeln!(self.out, "= PANIC").unwrap();
                        self.dead = true;
                    }
                }
            }
            Op::Enabled(es) => {
                if self.alloc.is_none() {
                    return;
                }
                let rq = make_request(es);
                let mut es = es.clone();
                es.sort_by_key(|e| e.resource);
                let w = self.solver_witness(&es).unwrap_or_default();
                writeln!(self.out, "O ENABLED {} |{}", req_str(&es), w).unwrap();
                let a = self.alloc.as_ref().unwrap();
                match catch(|| a.is_enabled(&rq)) {
                    Ok(b) => writeln!(self.out, "= ENABLED {}", b as u8).unwrap(),
                    Err(_) => {
                        writeln!(self.out, "= PANIC").unwrap();
                        self.dead = true;
                    }
                }
            }
            Op::Release(k) => {
                if self.alloc.is_none() || *k >= self.live.len() {
                    return;
                }
                writeln!(self.out, "O REL {k}").unwrap();
                let al = self.live.remove(*k);
                let a = self.alloc.as_mut().unwrap();
                let r = catch(|| a.release(al));
                let a = self.alloc.as_ref().unwrap();
                let vpanic = r.is_ok() && catch(|| a.validate()).is_err();
                if vpanic {
                    self.dead = true;
                }
                match r {
                    Ok(()) => {
                        writeln!(self.out, "= RELEASED").unwrap();
                        self.snap();
                        if vpanic {
                            writeln!(self.out, "= VALIDATE-PANIC").unwrap();
                        }
                    }
                    Err(_) => {
                        writeln!(self.out, "= PANIC").unwrap();
                        self.dead = true;
                    }
                }
            }
        }
    }
}

// ---------------------------------------------------------------------------------------------
// generation

fn gen_desc(rng: &mut Rng, adversarial: bool) -> Desc {
    let n_names = rng.range(1, 4) as u32;
    let mut rids: Vec<u32> = (0..n_names).collect();
    // random order, random non-empty subset
    for i in (1..rids.len()).rev() {
        let j = rng.below(i as u64 + 1) as usize;
        rids.swap(i, j);
    }
    let keep = rng.range(1, rids.len() as u64) as usize;
    rids.truncate(keep.max(if rng.chance(3, 4) { rids.len().min(3) } else { 1 }));
    let mut next_label = 0u64;
    let mut labels = |rng: &mut Rng, n: u64| -> Vec<u64> {
        (0..n)
            .map(|_| {
                next_label += 1 + rng.below(3);
                next_label
            })
            .collect()
    };
    let mut items = vec![];
    for r in rids {
        let k = match rng.below(10) {
            0..=1 => {
                let n = rng.range(1, 6);
                Kind::List(labels(rng, n))
            }
            2..=3 => {
                let s = rng.below(6) as u32;
                Kind::Range(s, s + rng.below(6) as u32)
            }
            4..=7 => {
                let ng = if rng.chance(1, 8) { 1 } else { rng.range(2, 4) };
                let regular = rng.chance(1, 2);
                let sz = rng.range(1, 6);
                let g: Vec<Vec<u64>> = (0..ng)
                    .map(|_| {
                        let n = if regular { sz } else if rng.chance(1, 12) { 0 } else { rng.range(1, 6) };
                        labels(rng, n)
                    })
                    .collect();
                if g.iter().all(|x| x.is_empty()) { Kind::Groups(vec![labels(rng, 2), labels(rng, 1)]) } else { Kind::Groups(g) }
            }
            _ => Kind::Sum(match rng.below(5) {
                0 => rng.range(1, 8) * FPU,
                1 => rng.range(1, 40) * FPU / 4,
                2 => rng.range(1, 100_000),
                3 => rng.range(1, 1000) * FPU * 1000,
                _ => rng.range(1, 4) * FPU + *rng.pick(&[1, 3333, 5000, 9999]),
            }),
        };
        items.push((r, k));
    }
    let mut d = Desc { n_names, items, coupling: vec![] };
    // coupling between grouped resources
    let grouped: Vec<usize> = (0..d.items.len()).filter(|i| d.n_groups(*i) >= 2).collect();
    if !grouped.is_empty() && rng.chance(1, 3) {
        let n = rng.range(1, 4);
        for _ in 0..n {
            let a = *rng.pick(&grouped);
            let b = *rng.pick(&grouped);
            let (a, b) = if a <= b { (a, b) } else { (b, a) };
            let ga = rng.below(d.n_groups(a) as u64) as u8;
            let gb = rng.below(d.n_groups(b) as u64) as u8;
            let w = *rng.pick(&[1u16, 8, 64, 256, 1000, 2000, 5000]);
            if !d.coupling.iter().any(|c| c.0 == a as u8 && c.1 == ga && c.2 == b as u8 && c.3 == gb) {
                d.coupling.push((a as u8, ga, b as u8, gb, w));
            }
        }
        d.coupling.sort();
    }
    if adversarial && rng.chance(1, 6) {
        // a descriptor the allocator cannot be built from: unknown resource name
        d.items.push((n_names + rng.below(2) as u32, Kind::Sum(FPU)));
    }
    d
}

fn gen_amount(rng: &mut Rng, size: u64, adversarial: bool) -> u64 {
    let grid = [2500u64, 5000, 7500, 10000, 12500, 15000, 20000, 25000, 30000, 40000, 17500, 22500];
    let a = match rng.below(12) {
        0..=5 => *rng.pick(&grid),
        6..=7 => rng.range(1, 6) * FPU,
        8 => (size / FPU).max(1) * FPU / rng.range(1, 3),
        9 => *rng.pick(&[1u64, 3333, 6667, 9999, 10001, 13333, 19999, 100, 5001]),
        10 => size.saturating_sub(*rng.pick(&[0u64, 2500, 5000, 10000])).max(1),
        _ => rng.range(1, 8) * 2500,
    };
    if adversarial && rng.chance(1, 10) {
        return *rng.pick(&[0u64, size + 1, size * 3 + 1, 4_000_000_000 * FPU]);
    }
    a.max(1)
}

fn gen_request(rng: &mut Rng, d: &Desc, adversarial: bool) -> Vec<VEntry> {
    let present: Vec<u32> = d.items.iter().map(|x| x.0).collect();
    let n = match rng.below(10) {
        0..=5 => 1,
        6..=8 => 2,
        _ => 3,
    };
    let mut es: Vec<VEntry> = vec![];
    for _ in 0..n {
        let r = if adversarial && rng.chance(1, 5) { rng.below(d.n_names as u64 + 2) as u32 } else { *rng.pick(&present) };
        if es.iter().any(|e| e.resource == r) {
            continue;
        }
        let size = d.size_of(r).unwrap_or(FPU);
        let policy = match rng.below(20) {
            0..=4 => 0,
            5..=8 => 1,
            9..=11 => 2,
            12..=14 => 3,
            15..=17 => 4,
            _ => 5,
        } as u8;
        if policy == 5 && d.size_of(r).is_none() && !adversarial {
            continue;
        }
        es.push(VEntry { resource: r, policy, amount: if policy == 5 { 0 } else { gen_amount(rng, size, adversarial) } });
    }
    if es.is_empty() && !adversarial {
        let r = present[0];
        es.push(VEntry { resource: r, policy: 0, amount: FPU });
    }
    es
}

fn gen_trace(seed: u64, id: u64, tier: &str) -> String {
    let mut rng = Rng::new(seed.wrapping_mul(0x9E37_79B9).wrapping_add(id));
    let adversarial = rng.chance(1, 12);
    let desc = gen_desc(&mut rng, adversarial);
    let mut w = World::new(desc.clone());
    let mut head = String::new();
    writeln!(head, "TRACE {seed}-{id} {}", if adversarial { "adversarial" } else { "regular" }).unwrap();
    desc.c_lines(&mut head);
    w.exec(&Op::Init);
    let n_ops = if tier == "thorough" { rng.range(10, 80) } else { rng.range(10, 60) };
    let release_all = rng.chance(1, 2);
    // a small set of request shapes is reused so that the strict-policy cache and hand-overs are exercised
    let shapes: Vec<Vec<VEntry>> = (0..rng.range(2, 6)).map(|_| gen_request(&mut rng, &desc, adversarial)).collect();
    for _ in 0..n_ops {
        if w.dead {
            break;
        }
        let k = rng.below(100);
        if k < 55 || w.live.is_empty() {
            let rq = if rng.chance(2, 3) { rng.pick(&shapes).clone() } else { gen_request(&mut rng, &desc, adversarial) };
            if rng.chance(1, 2) {
                w.exec(&Op::Enabled(rq.clone()));
            }
            w.exec(&Op::Alloc(rq));
        } else if k < 88 {
            let i = rng.below(w.live.len() as u64) as usize;
            w.exec(&Op::Release(i));
        } else {
            let rq = if rng.chance(1, 2) { rng.pick(&shapes).clone() } else { gen_request(&mut rng, &desc, adversarial) };
            w.exec(&Op::Enabled(rq));
        }
    }
    if release_all {
        while !w.dead && !w.live.is_empty() {
            let i = rng.below(w.live.len() as u64) as usize;
            w.exec(&Op::Release(i));
        }
    }
    head + &w.out + "END\n"
}

fn replay(text: &str) -> String {
    let mut out = String::new();
    let mut cur: Option<(String, Desc, Vec<Op>)> = None;
    for line in text.lines() {
        if line.starts_with("TRACE ") {
            cur = Some((line.to_string(), Desc::default(), vec![]));
        } else if line == "END" {
            if let Some((h, d, ops)) = cur.take() {
                let mut w = World::new(d.clone());
                let mut head = String::new();
                writeln!(head, "{h}").unwrap();
                d.c_lines(&mut head);
                for o in &ops {
                    w.exec(o);
                }
                out += &head;
                out += &w.out;
                out += "END\n";
            }
        } else if let Some((_, d, ops)) = cur.as_mut() {
            if let Some(rest) = line.strip_prefix("C ") {
                d.parse_line(rest);
            } else if let Some(rest) = line.strip_prefix("O ") {
                ops.push(parse_op(rest));
            }
        }
    }
    out
}

fn main() {
    install_panic_hook();
    let args: Vec<String> = std::env::args().collect();
    let get = |name: &str| -> Option<String> { args.iter().position(|a| a == name).and_then(|i| args.get(i + 1).cloned()) };
    match args.get(1).map(|s| s.as_str()) {
        Some("gen") => {
            let seed: u64 = get("--seed").and_then(|s| s.parse().ok()).unwrap_or(1);
            let count: u64 = get("--count").and_then(|s| s.parse().ok()).unwrap_or(10);
            let tier = get("--tier").unwrap_or("quick".into());
            let outp = get("--out").expect("--out");
            let mut text = String::new();
            for id in 0..count {
                text += &gen_trace(seed, id, &tier);
            }
            std::fs::write(outp, text).unwrap();
        }
        Some("replay") => {
            let inp = get("--in").expect("--in");
            let outp = get("--out").expect("--out");
            let text = std::fs::read_to_string(inp).unwrap();
            std::fs::write(outp, replay(&text)).unwrap();
        }
        _ => {
            eprintln!("usage: hqv-alloc gen --seed S --count N --tier T --out FILE | replay --in FILE --out FILE");
            std::process::exit(2);
        }
    }
}
