//! Harness for component `sched` (C15, row-system half of C05): one scheduling decision of the REAL
//! tako scheduler (create_task_batches -> run_scheduling_solver [HiGHS] -> create_task_mapping) on
//! random small clusters x ready queues.  Everything observable is printed: queue snapshots, batches /
//! cuts, gaps, the variable / row list handed to the LP solver (add-only `verif_log` hook), the raw
//! solution, the dispatch.  The model runner (extracted Coq model) recomputes all of it.
use hqv_common::{Rng, catch, env_u64, install_panic_hook, join};
use std::fmt::Write as _;
use tako::internal::verif::sched::{VEntry, VQuery, VSched, encode_user_priority};

const RES_NAMES: [&str; 3] = ["cpus", "gpus", "mem"];
const FR: u64 = 10_000;

#[derive(Clone, Debug)]
enum Op {
    AddW { id: u32, units: Vec<u32> },
    AddRq { entries: Vec<(u32, u64)> },
    AddT { task: u64, rq: u32, prio: i32 },
    Busy { task: u64, worker: u32, started: bool },
    Cfg { reserve: u32, max: u32 },
    AddWT { id: u32, tl: Option<u64>, units: Vec<u32> },
    AddRqV { variants: Vec<(Vec<(u32, u64)>, u64)> },
    Block { worker: u32, rq: u32, variant: u32 },
    VDecide,
    AddWA { units: Vec<u32>, group: String, tl: Option<u64> },
    AddRqMn { n_nodes: u32, min_time: u64 },
    Query { queries: Vec<QSpec> },
    Prio { vals: Vec<i32> },
    Take { rq: u32, count: u32 },
    State,
    Decide,
    Solution,
    Mapping,
}

/// one worker-type query: descriptor items are (resource index, units); `mu` = min_utilization in percent
#[derive(Clone, Debug)]
struct QSpec {
    partial: bool,
    tl: Option<u64>,
    max_sn: u32,
    max_pa: u32,
    mu: u32,
    items: Vec<(u32, u32)>,
}

fn fmt_queries(qs: &[QSpec]) -> String {
    join(
        qs.iter().map(|q| {
            format!(
                "{}:{}:{}:{}:{}:{}",
                q.partial as u8,
                q.tl.map(|t| t.to_string()).unwrap_or("-".to_string()),
                q.max_sn,
                q.max_pa,
                q.mu,
                join(q.items.iter().map(|(r, u)| format!("{r}/{u}")), ",")
            )
        }),
        ";",
    )
}

fn parse_queries(s: &str) -> Option<Vec<QSpec>> {
    if s == "-" {
        return Some(Vec::new());
    }
    let mut out = Vec::new();
    for q in s.split(';') {
        let f: Vec<&str> = q.split(':').collect();
        if f.len() != 6 {
            return None;
        }
        let items = if f[5] == "-" {
            Vec::new()
        } else {
            f[5].split(',')
                .map(|e| {
                    let (r, u) = e.split_once('/')?;
                    Some((r.parse().ok()?, u.parse().ok()?))
                })
                .collect::<Option<Vec<_>>>()?
        };
        out.push(QSpec {
            partial: f[0] == "1",
            tl: if f[1] == "-" { None } else { Some(f[1].parse().ok()?) },
            max_sn: f[2].parse().ok()?,
            max_pa: f[3].parse().ok()?,
            mu: f[4].parse().ok()?,
            items,
        });
    }
    Some(out)
}

fn parse_op(line: &str) -> Option<Op> {
    let t: Vec<&str> = line.split_whitespace().collect();
    let p = |s: &str| s.parse::<u64>().unwrap();
    Some(match *t.first()? {
        "ADDW" => Op::AddW { id: p(t[1]) as u32, units: t[2..].iter().map(|x| p(x) as u32).collect() },
        "ADDRQ" => Op::AddRq {
            entries: t[1]
                .split(',')
                .map(|e| {
                    let (r, a) = e.split_once(':').unwrap();
                    (p(r) as u32, p(a))
                })
                .collect(),
        },
        "ADDWT" => Op::AddWT {
            id: p(t[1]) as u32,
            tl: if t[2] == "-" { None } else { Some(p(t[2])) },
            units: t[3..].iter().map(|x| p(x) as u32).collect(),
        },
        "ADDRQV" => Op::AddRqV {
            variants: t[1]
                .split('|')
                .map(|v| {
                    let (es, tm) = v.split_once('@').unwrap();
                    (
                        es.split(',')
                            .map(|e| {
                                let (r, a) = e.split_once(':').unwrap();
                                (p(r) as u32, p(a))
                            })
                            .collect(),
                        p(tm),
                    )
                })
                .collect(),
        },
        "BLOCK" => Op::Block { worker: p(t[1]) as u32, rq: p(t[2]) as u32, variant: p(t[3]) as u32 },
        "VDECIDE" => Op::VDecide,
        "ADDWA" => Op::AddWA {
            group: t[1].to_string(),
            tl: if t[2] == "-" { None } else { Some(p(t[2])) },
            units: t[3..].iter().map(|x| p(x) as u32).collect(),
        },
        "ADDRQMN" => Op::AddRqMn { n_nodes: p(t[1]) as u32, min_time: p(t[2]) },
        "QUERY" => Op::Query { queries: parse_queries(t[1].strip_prefix("q=")?)? },
        "ADDT" => Op::AddT { task: p(t[1]), rq: p(t[2]) as u32, prio: t[3].parse().unwrap() },
        "BUSY" => Op::Busy { task: p(t[1]), worker: p(t[2]) as u32, started: t[3] == "1" },
        "CFG" => Op::Cfg { reserve: p(t[1]) as u32, max: p(t[2]) as u32 },
        "PRIO" => Op::Prio { vals: t[1..].iter().map(|x| x.parse().unwrap()).collect() },
        "TAKE" => Op::Take { rq: p(t[1]) as u32, count: p(t[2]) as u32 },
        "STATE" => Op::State,
        "DECIDE" => Op::Decide,
        "SOLUTION" => Op::Solution,
        "MAPPING" => Op::Mapping,
        _ => return None,
    })
}

struct World {
    out: String,
    n_res: usize,
    s: VSched,
    /// setup ops so far (to rebuild a scratch instance for destructive queries)
    setup: Vec<Op>,
    n_rq: u32,
    workers: Vec<u32>,
    tasks: Vec<(u64, u32, i32)>,
    busy: Vec<u64>,
    decided: bool,
    solved: bool,
    mapped: bool,
    var_kinds: Vec<char>,
    inversion_tags: Vec<String>,
    worker_tl: Vec<(u32, Option<u64>)>,
}

/// does an entry (amount in fractions, 0 = the `All` policy) fit: `All` needs the whole, existing resource
fn fits_entry(amount: u64, free: u64, total: u64) -> bool {
    if amount == 0 { total > 0 && free == total } else { free >= amount }
}

fn round_scaled(x: f64) -> i64 {
    (x * FR as f64).round() as i64
}

impl World {
    fn new(n_res: usize) -> Self {
        World {
            out: String::new(),
            n_res,
            s: VSched::new(&RES_NAMES[..n_res]),
            setup: Vec::new(),
            n_rq: 0,
            workers: Vec::new(),
            tasks: Vec::new(),
            busy: Vec::new(),
            decided: false,
            solved: false,
            mapped: false,
            var_kinds: Vec::new(),
            inversion_tags: Vec::new(),
            worker_tl: Vec::new(),
        }
    }

    fn o(&mut self, s: String) {
        writeln!(self.out, "O {s}").unwrap();
    }
    fn e(&mut self, s: String) {
        writeln!(self.out, "= {s}").unwrap();
    }

    fn apply_setup(s: &mut VSched, n_res: usize, op: &Op) -> Option<u32> {
        match op {
            Op::AddW { id, units } => {
                let others: Vec<(&str, u32)> =
                    (1..n_res).filter(|r| units[*r] > 0).map(|r| (RES_NAMES[r], units[r])).collect();
                s.add_worker(*id, units[0], &others, 0.0);
                None
            }
            Op::AddRq { entries } => {
                let es: Vec<(&str, u64)> = entries.iter().map(|(r, a)| (RES_NAMES[*r as usize], *a)).collect();
                Some(s.add_request(&es))
            }
            Op::AddT { task, rq, prio } => {
                s.add_task(*task, *rq, *prio);
                None
            }
            Op::Busy { task, worker, started } => {
                s.assign(*task, *worker, *started);
                None
            }
            Op::Cfg { reserve, max } => {
                s.set_prefill_config(*reserve, *max);
                None
            }
            Op::AddWT { id, tl, units } => {
                let others: Vec<(&str, u32)> =
                    (1..n_res).filter(|r| units[*r] > 0).map(|r| (RES_NAMES[r], units[r])).collect();
                s.add_worker_tl(*id, units[0], &others, 0.0, *tl);
                None
            }
            Op::AddRqV { variants } => {
                let vs: Vec<(Vec<(&str, u64)>, u64)> = variants
                    .iter()
                    .map(|(es, t)| (es.iter().map(|(r, a)| (RES_NAMES[*r as usize], *a)).collect(), *t))
                    .collect();
                Some(s.add_request_variants(&vs))
            }
            Op::Block { worker, rq, variant } => {
                s.block(*worker, *rq, *variant);
                None
            }
            Op::AddWA { units, group, tl } => {
                let others: Vec<(&str, u32)> =
                    (1..n_res).filter(|r| units[*r] > 0).map(|r| (RES_NAMES[r], units[r])).collect();
                Some(s.add_worker_auto(units[0], &others, group, *tl))
            }
            Op::AddRqMn { n_nodes, min_time } => Some(s.add_request_mn(*n_nodes, *min_time)),
            _ => None,
        }
    }

    /// Executes an op on the real code; returns false if it is not enabled (skipped).
    fn exec(&mut self, op: &Op) -> bool {
        match op {
            Op::AddW { id, units } => {
                if self.decided || self.workers.contains(id) || units.len() != self.n_res || units[0] == 0 {
                    return false;
                }
                self.o(format!("ADDW {} {}", id, join(units.iter(), " ")));
                Self::apply_setup(&mut self.s, self.n_res, op);
                self.workers.push(*id);
                self.setup.push(op.clone());
            }
            Op::AddRq { entries } => {
                if self.decided
                    || entries.is_empty()
                    || entries.iter().any(|(r, _)| *r as usize >= self.n_res)
                {
                    return false;
                }
                self.o(format!("ADDRQ {}", join(entries.iter().map(|(r, a)| format!("{r}:{a}")), ",")));
                let id = Self::apply_setup(&mut self.s, self.n_res, op).unwrap();
                self.e(format!("RQ {id}"));
                if id == self.n_rq {
                    self.n_rq += 1;
                }
                self.setup.push(op.clone());
            }
            Op::AddT { task, rq, prio } => {
                if self.decided || *rq >= self.n_rq || self.tasks.iter().any(|t| t.0 == *task) {
                    return false;
                }
                self.o(format!("ADDT {task} {rq} {prio}"));
                Self::apply_setup(&mut self.s, self.n_res, op);
                self.tasks.push((*task, *rq, *prio));
                self.setup.push(op.clone());
            }
            Op::Busy { task, worker, started } => {
                let Some(t) = self.tasks.iter().find(|t| t.0 == *task).copied() else { return false };
                if self.decided || self.busy.contains(task) || !self.workers.contains(worker) {
                    return false;
                }
                // enabled only if the request fits the worker's free resources (an earlier round placed it)
                let w = self.s.workers().into_iter().find(|w| w.id == *worker).unwrap();
                let fits = self.s.request_entries(t.1).iter().all(|(r, a)| fits_entry(*a, w.free[*r as usize], w.resources[*r as usize]));
                if !fits {
                    return false;
                }
                self.o(format!("BUSY {task} {worker} {}", *started as u8));
                Self::apply_setup(&mut self.s, self.n_res, op);
                self.busy.push(*task);
                self.setup.push(op.clone());
            }
            Op::Cfg { reserve, max } => {
                if self.decided {
                    return false;
                }
                self.o(format!("CFG {reserve} {max}"));
                Self::apply_setup(&mut self.s, self.n_res, op);
                self.setup.push(op.clone());
            }
            Op::AddWT { id, tl, units } => {
                if self.decided || self.workers.contains(id) || units.len() != self.n_res || units[0] == 0 {
                    return false;
                }
                self.o(format!(
                    "ADDWT {} {} {}",
                    id,
                    tl.map(|t| t.to_string()).unwrap_or("-".to_string()),
                    join(units.iter(), " ")
                ));
                Self::apply_setup(&mut self.s, self.n_res, op);
                self.workers.push(*id);
                self.worker_tl.push((*id, *tl));
                self.setup.push(op.clone());
            }
            Op::AddRqV { variants } => {
                if self.decided
                    || variants.is_empty()
                    || variants.iter().any(|(es, _)| {
                        es.is_empty() || es.iter().any(|(r, _)| *r as usize >= self.n_res)
                    })
                {
                    return false;
                }
                self.o(format!(
                    "ADDRQV {}",
                    join(
                        variants
                            .iter()
                            .map(|(es, t)| format!("{}@{}", join(es.iter().map(|(r, a)| format!("{r}:{a}")), ","), t)),
                        "|"
                    )
                ));
                let id = Self::apply_setup(&mut self.s, self.n_res, op).unwrap();
                self.e(format!("RQ {id}"));
                if id == self.n_rq {
                    self.n_rq += 1;
                }
                self.setup.push(op.clone());
            }
            Op::Block { worker, rq, variant } => {
                if self.decided || !self.workers.contains(worker) || *rq >= self.n_rq {
                    return false;
                }
                if (*variant as usize) >= self.s.request_variants(*rq).len() {
                    return false;
                }
                self.o(format!("BLOCK {worker} {rq} {variant}"));
                Self::apply_setup(&mut self.s, self.n_res, op);
                self.setup.push(op.clone());
            }
            Op::AddWA { units, group, tl } => {
                if self.decided || units.len() != self.n_res || units[0] == 0 || group.is_empty() {
                    return false;
                }
                self.o(format!(
                    "ADDWA {} {} {}",
                    group,
                    tl.map(|t| t.to_string()).unwrap_or("-".to_string()),
                    join(units.iter(), " ")
                ));
                let id = Self::apply_setup(&mut self.s, self.n_res, op).unwrap();
                self.e(format!("W {id}"));
                self.workers.push(id);
                self.worker_tl.push((id, *tl));
                self.setup.push(op.clone());
            }
            Op::AddRqMn { n_nodes, min_time } => {
                if self.decided || *n_nodes == 0 {
                    return false;
                }
                self.o(format!("ADDRQMN {n_nodes} {min_time}"));
                let id = Self::apply_setup(&mut self.s, self.n_res, op).unwrap();
                self.e(format!("RQ {id}"));
                if id == self.n_rq {
                    self.n_rq += 1;
                }
                self.setup.push(op.clone());
            }
            Op::Query { queries } => {
                if self.decided || queries.iter().any(|q| q.items.iter().any(|(r, _)| *r as usize >= self.n_res)) {
                    return false;
                }
                self.decided = true;
                self.solved = true;
                self.mapped = true;
                let qs: Vec<VQuery> = queries
                    .iter()
                    .map(|q| VQuery {
                        partial: q.partial,
                        items: q.items.iter().map(|(r, u)| (RES_NAMES[*r as usize].to_string(), *u)).collect(),
                        time_limit: q.tl,
                        max_sn_workers: q.max_sn,
                        max_workers_per_allocation: q.max_pa,
                        min_utilization: q.mu as f32 / 100.0,
                    })
                    .collect();
                let free_real = self.s.n_free_workers();
                let counter = self.s.worker_counter();
                // the query runs on a scratch instance rebuilt from the same setup ops, so that a panic
                // inside the real code cannot leave `self.s` half-updated
                let mut scratch = VSched::new(&RES_NAMES[..self.n_res]);
                for op in &self.setup {
                    Self::apply_setup(&mut scratch, self.n_res, op);
                }
                let res = catch(move || scratch.query(&qs));
                match res {
                    Ok(r) => {
                        // witness: the value of every placement variable the solver created
                        self.o(format!(
                            "QUERY q={} solved={} x={}",
                            fmt_queries(queries),
                            r.solved as u8,
                            join(r.xvars.iter().map(|(k, a, b, c, v)| format!("{k}:{a}:{b}:{c}:{v}")), ",")
                        ));
                        self.e(format!("STATE counter={counter} free_real={free_real}"));
                        if r.invalid {
                            self.e("INVALID".to_string());
                        } else {
                            // the order among entries with equal sort key is unspecified (unstable sort):
                            // print the list canonically and, separately, whether it was sorted by its key
                            let by_key = r.mn.windows(2).all(|p| (p[0].0, p[0].1) <= (p[1].0, p[1].1));
                            let mut mn = r.mn.clone();
                            mn.sort();
                            self.e(format!(
                                "RESPONSE sn={} mn={}",
                                join(r.sn.iter(), ","),
                                join(mn.iter().map(|(i, n, a)| format!("{i}:{n}:{a}")), ",")
                            ));
                            self.e(format!("MNSORTED {}", by_key as u8));
                        }
                    }
                    Err(msg) => {
                        if std::env::var("HQV_SCHED_DEBUG").is_ok() {
                            eprintln!("query panic: {msg}");
                        }
                        self.o(format!("QUERY q={} solved=0 x=-", fmt_queries(queries)));
                        self.e(format!("STATE counter={counter} free_real={free_real}"));
                        self.e("PANIC compute_new_worker_query".to_string());
                    }
                }
            }
            Op::VDecide => {
                if self.decided {
                    return false;
                }
                self.decided = true;
                self.solved = true;
                self.mapped = true;
                let before = self.s.workers();
                let _ = self.s.batches();
                let sol = self.s.solve();
                let m = self.s.map();
                self.o(format!(
                    "VDECIDE optimal={} counts={} assigned={}",
                    sol.is_optimal as u8,
                    join(sol.sn_counts.iter().map(|(rq, v, w, c)| format!("{rq}:{v}:{w}:{c}")), ","),
                    join(m.assigned.iter().map(|(w, t, v)| format!("{w}:{t}:{v}")), ",")
                ));
                for w in &before {
                    self.e(format!("PRE {} free={}", w.id, join(w.free.iter(), ",")));
                }
                self.e("PLACEMENTS ok".to_string());
                for w in self.s.workers() {
                    self.e(format!("POST {} free={}", w.id, join(w.free.iter(), ",")));
                }
            }
            Op::Prio { vals } => {
                self.o(format!("PRIO {}", join(vals.iter(), " ")));
                let enc: Vec<u64> = vals.iter().map(|v| encode_user_priority(*v)).collect();
                self.e(format!("ENC {}", join(enc.iter(), " ")));
            }
            Op::Take { rq, count } => {
                if self.decided || *rq >= self.n_rq {
                    return false;
                }
                self.o(format!("TAKE {rq} {count}"));
                // destructive: run on a scratch instance rebuilt from the same setup ops
                let mut scratch = VSched::new(&RES_NAMES[..self.n_res]);
                for op in &self.setup {
                    Self::apply_setup(&mut scratch, self.n_res, op);
                }
                let (rq, count) = (*rq, *count);
                match catch(move || scratch.take_tasks(rq, count)) {
                    Ok(ids) => self.e(format!("TAKEN {}", join(ids.iter(), " "))),
                    Err(_) => self.e("PANIC take_tasks".to_string()),
                }
            }
            Op::State => {
                self.o("STATE".to_string());
                self.print_state();
            }
            Op::Decide => {
                if self.decided {
                    return false;
                }
                self.o("DECIDE".to_string());
                self.decided = true;
                let batches = self.s.batches();
                for b in &batches {
                    let cuts = join(
                        b.cuts.iter().map(|c| {
                            format!(
                                "{}:{}",
                                c.size,
                                join(
                                    c.blockers.iter().map(|(rq, s)| match s {
                                        Some(s) => format!("{rq}/{s}"),
                                        None => format!("{rq}/-"),
                                    }),
                                    "+"
                                )
                            )
                        }),
                        ";",
                    );
                    self.e(format!(
                        "BATCH rq={} size={} limit={} lr={} blk={} cuts={}",
                        b.rq, b.size, b.limit, b.limit_reached as u8, b.is_blocker as u8, cuts
                    ));
                }
                // gaps for every ordered pair of batch classes on every worker (the solver asks for a subset)
                let ws = self.s.workers();
                for h in &batches {
                    for l in &batches {
                        if h.rq == l.rq {
                            continue;
                        }
                        for w in &ws {
                            let tl = self.worker_tl.iter().find(|x| x.0 == w.id).and_then(|x| x.1);
                            let min_time = self.s.request_variants(h.rq)[0].1;
                            let capable = self.s.request_entries(h.rq).iter().all(|(r, a)| w.resources[*r as usize] >= (*a).max(1))
                                && tl.map(|t| min_time <= t).unwrap_or(true);
                            if capable {
                                let g = self.s.gap(h.rq, l.rq, w.id);
                                self.e(format!("GAP {} {} {} {}", h.rq, l.rq, w.id, g));
                            }
                        }
                    }
                }
            }
            Op::Solution => {
                if !self.decided || self.solved {
                    return false;
                }
                self.solved = true;
                let sol = self.s.solve();
                // variables / rows in creation order
                let mut lines = Vec::new();
                let mut rows: Vec<(u8, f64, Vec<(usize, f64)>)> = Vec::new();
                let mut weights = Vec::new();
                let mut values: Vec<f64> = Vec::new();
                self.var_kinds.clear();
                for e in &sol.log {
                    match e {
                        VEntry::Var { index, kind, a, b, c, weight } => {
                            lines.push(format!("VAR {index} {kind} {a} {b} {c}"));
                            weights.push(*weight);
                            self.var_kinds.push(*kind);
                        }
                        VEntry::Row { ctype, bound, terms } => {
                            let ct = ["ge", "le", "eq"][*ctype as usize];
                            lines.push(format!(
                                "ROW {ct} {} {}",
                                round_scaled(*bound),
                                join(terms.iter().map(|(i, c)| format!("{i}:{}", round_scaled(*c))), ",")
                            ));
                            rows.push((*ctype, *bound, terms.clone()));
                        }
                        VEntry::Values(v) => values = v.clone(),
                    }
                }
                let solved = !values.is_empty() || weights.is_empty();
                let ints: Vec<i64> = values.iter().map(|v| v.round() as i64).collect();
                let integral = values.iter().all(|v| (v - v.round()).abs() < 1e-6);
                // the implementation's own check of its rows on the rounded values (float rows, tolerance)
                let feasible = solved
                    && rows.iter().all(|(ct, bound, terms)| {
                        let lhs: f64 = terms.iter().map(|(i, c)| c * ints.get(*i).copied().unwrap_or(0) as f64).sum();
                        match ct {
                            0 => lhs >= bound - 1e-6,
                            1 => lhs <= bound + 1e-6,
                            _ => (lhs - bound).abs() <= 1e-6,
                        }
                    });
                self.o(format!(
                    "SOLUTION optimal={} solved={} integral={} values={} weights={}",
                    sol.is_optimal as u8,
                    solved as u8,
                    integral as u8,
                    join(ints.iter(), ","),
                    join(weights.iter().map(|w| format!("{:.12e}", w)), ",")
                ));
                for l in lines {
                    self.e(l);
                }
                // no solution at all (HiGHS hit its time limit without an incumbent, e.g. on a starved machine)
                if solved {
                    self.e(format!("FEASIBLE {}", feasible as u8));
                } else {
                    self.e("FEASIBLE -".to_string());
                }
                self.e(format!(
                    "COUNTS {}",
                    join(sol.sn_counts.iter().map(|(rq, _v, w, c)| format!("{rq}:{w}:{c}")), ",")
                ));
                self.e("WEIGHTS ok".to_string());
            }
            Op::Mapping => {
                if !self.solved || self.mapped {
                    return false;
                }
                self.mapped = true;
                let m = self.s.map();
                self.o(format!(
                    "MAPPING assigned={} prefills={} retracts={}",
                    join(m.assigned.iter().map(|(w, t, _)| format!("{w}:{t}")), ","),
                    join(m.prefills.iter().map(|(w, t)| format!("{w}:{t}")), ","),
                    join(m.retracts.iter().map(|(w, t)| format!("{w}:{t}")), ",")
                ));
                // dispatched ids per class (sorted) + resulting free resources
                for rq in 0..self.n_rq {
                    let mut ids: Vec<u64> = m
                        .assigned
                        .iter()
                        .filter(|(_, t, _)| self.tasks.iter().any(|x| x.0 == *t && x.1 == rq))
                        .map(|(_, t, _)| *t)
                        .collect();
                    ids.sort();
                    if !ids.is_empty() {
                        self.e(format!("DISPATCH {rq} {}", join(ids.iter(), " ")));
                    }
                }
                self.e("MAPOK 1".to_string());
                for w in self.s.workers() {
                    self.e(format!("POST {} free={}", w.id, join(w.free.iter(), ",")));
                }
            }
        }
        true
    }

    fn print_state(&mut self) {
        for w in self.s.workers() {
            let mut rqs: Vec<u32> = w.assigned.iter().map(|(_, rq)| *rq).collect();
            rqs.sort();
            self.e(format!(
                "W {} res={} free={} assigned={} prefilled={}",
                w.id,
                join(w.resources.iter(), ","),
                join(w.free.iter(), ","),
                join(rqs.iter(), ","),
                join(w.prefilled.iter(), ",")
            ));
        }
        for q in self.s.queues() {
            let ready = join(q.ready.iter().map(|(p, ids)| format!("{p}:{}", join(ids.iter(), "+"))), ";");
            let prefill = match &q.prefill {
                Some((p, ids)) => format!("{p}:{}", join(ids.iter(), "+")),
                None => "-".to_string(),
            };
            self.e(format!("Q {} ready={} prefill={}", q.rq, ready, prefill));
        }
        for (rq, ps) in self.s.priority_sizes() {
            self.e(format!("PS {} {}", rq, join(ps.iter().map(|(p, s)| format!("{p}:{s}")), ",")));
        }
    }
}

fn header(out: &mut String, id: u64, n_res: usize, tags: &str) {
    writeln!(out, "TRACE {id} {tags}").unwrap();
    writeln!(out, "C res {n_res}").unwrap();
}

fn finish(w: World, out: &mut String) {
    out.push_str(&w.out);
    writeln!(out, "END").unwrap();
}

/// One random instance within the domain of C15: 1-3 workers (heterogeneous cpus / gpus / mem, idle or
/// partly busy), 1-3 single-variant single-node request classes, up to 8 priority levels.
/// wide mode, pruning scenario: two small request classes on big workers, many interleaved priority
/// levels with one task each, so that a batch collects more than BATCH_PRUNING_MAX_SIZE cuts and
/// `prune_progressive` runs.
fn gen_pruning_trace(id: u64, rng: &mut Rng, out: &mut String) {
    let mut w = World::new(1);
    header(&mut w.out, id, 1, "wide");
    for i in 0..3u32 {
        w.exec(&Op::AddW { id: i + 1, units: vec![rng.range(14, 16) as u32] });
    }
    w.exec(&Op::AddRq { entries: vec![(0, FR / 2)] });
    w.exec(&Op::AddRq { entries: vec![(0, FR * 3 / 4)] });
    let n_levels = rng.range(68, 90);
    let mut next_task = 1u64;
    for lvl in 0..n_levels {
        // alternate the classes level by level so that every level opens a cut
        let rq = (lvl % 2) as u32;
        let t = (1u64 << 32) | next_task;
        next_task += 1;
        w.exec(&Op::AddT { task: t, rq: if rng.chance(1, 10) { 1 - rq } else { rq }, prio: 1000 - lvl as i32 });
    }
    w.exec(&Op::State);
    w.exec(&Op::Decide);
    w.exec(&Op::Solution);
    w.exec(&Op::Mapping);
    finish(w, out);
}

fn gen_trace(id: u64, rng: &mut Rng, tier: &str, mode: &str, out: &mut String) {
    let wide = mode == "wide";
    if wide && rng.chance(1, 5) {
        gen_pruning_trace(id, rng, out);
        return;
    }
    // candidate exact class of C15: one worker, one resource kind (cpus), two request classes
    let exact = mode == "exact";
    let n_res = if exact { 1 } else { match rng.below(10) {
        0..=4 => 1,
        5..=8 => 2,
        _ => 3,
    } };
    let mut w = World::new(n_res);
    header(&mut w.out, id, n_res, mode);
    // wide mode: half of the instances use worker time limits, request min_times and blocked classes
    // (single variant), so that the creation filters of placement / reservation variables are exercised
    let timed = wide && rng.chance(1, 2);
    let n_workers = if exact { 1 } else { rng.range(1, 3) as u32 };
    let big = tier == "thorough" && rng.chance(1, 4);
    let max_cpus = if big { 16 } else { 8 };
    let mut wunits: Vec<Vec<u32>> = Vec::new();
    for i in 0..n_workers {
        let mut units = vec![rng.range(1, max_cpus) as u32];
        for r in 1..n_res {
            units.push(if rng.chance(2, 3) { rng.range(1, if r == 1 { 4 } else { 8 }) as u32 } else { 0 });
        }
        // worker ids not in creation order sometimes (the solver sorts by id)
        let id = if rng.chance(1, 5) { 10 - i } else { i + 1 };
        if timed {
            let tl = if rng.chance(2, 3) { Some(*rng.pick(&[50u64, 100, 200])) } else { None };
            w.exec(&Op::AddWT { id, tl, units: units.clone() });
        } else {
            w.exec(&Op::AddW { id, units: units.clone() });
        }
        wunits.push(units);
    }
    let n_classes = if exact { 2 } else { rng.range(1, 3) as u32 };
    let mut classes: Vec<Vec<(u32, u64)>> = Vec::new();
    let mut guard = 0;
    while (classes.len() as u32) < n_classes && guard < 20 {
        guard += 1;
        let cpus = if rng.chance(1, 8) { rng.range(1, 3) * FR / 2 } else { rng.range(1, max_cpus.min(8)) * FR };
        let mut es = vec![(0u32, cpus)];
        for r in 1..n_res {
            if rng.chance(1, 2) {
                es.push((r as u32, rng.range(1, if r == 1 { 2 } else { 4 }) * FR));
            }
        }
        // `All` policy (amount 0 = the whole resource of the worker) on cpus or on another resource
        if !exact && rng.chance(1, 5) {
            let r_all = rng.below(n_res as u64) as u32;
            if let Some(e) = es.iter_mut().find(|e| e.0 == r_all) {
                e.1 = 0;
            } else {
                es.push((r_all, 0));
                es.sort();
            }
        }
        if classes.contains(&es) {
            continue;
        }
        if timed {
            w.exec(&Op::AddRqV { variants: vec![(es.clone(), *rng.pick(&[0u64, 10, 75, 150]))] });
        } else {
            w.exec(&Op::AddRq { entries: es.clone() });
        }
        classes.push(es);
    }
    let n_classes = classes.len() as u32;
    // priority levels
    let n_levels = if wide { rng.range(1, 60) } else { rng.range(1, 8) } as usize;
    let mut levels: Vec<i32> = Vec::new();
    while levels.len() < n_levels {
        let p = match rng.below(12) {
            0 => i32::MIN,
            1 => i32::MAX,
            2 => -1,
            3 => 0,
            _ => rng.range(0, 200) as i32 - 100,
        };
        if !levels.contains(&p) {
            levels.push(p);
        }
    }
    let mut next_task = 1u64;
    let mut all_tasks: Vec<(u64, u32)> = Vec::new();
    for rq in 0..n_classes {
        let n_tasks = if wide { rng.range(1, 70) } else { rng.range(1, if big { 12 } else { 7 }) };
        for _ in 0..n_tasks {
            let job = rng.range(1, 2);
            let t = (job << 32) | next_task;
            next_task += 1;
            let prio = *rng.pick(&levels);
            w.exec(&Op::AddT { task: t, rq, prio });
            all_tasks.push((t, rq));
        }
    }
    // partly busy workers: some extra tasks already assigned / running from an earlier round
    if rng.chance(1, 2) {
        let n_busy = rng.range(1, 4);
        for _ in 0..n_busy {
            let rq = rng.below(n_classes as u64) as u32;
            let t = (1u64 << 32) | next_task;
            next_task += 1;
            let worker = w.workers[rng.below(w.workers.len() as u64) as usize];
            // only if it fits (exec checks); the task is created first, then moved to the worker
            let prio = *rng.pick(&levels);
            let ws = w.s.workers().into_iter().find(|x| x.id == worker).unwrap();
            let fits = classes[rq as usize].iter().all(|(r, a)| fits_entry(*a, ws.free[*r as usize], ws.resources[*r as usize]));
            if fits {
                w.exec(&Op::AddT { task: t, rq, prio });
                w.exec(&Op::Busy { task: t, worker, started: rng.chance(2, 3) });
            }
        }
    }
    if timed && rng.chance(1, 2) {
        let worker = w.workers[rng.below(w.workers.len() as u64) as usize];
        w.exec(&Op::Block { worker, rq: rng.below(n_classes as u64) as u32, variant: 0 });
    }
    w.exec(&Op::Prio { vals: levels.iter().copied().take(8).collect() });
    w.exec(&Op::State);
    for rq in 0..n_classes {
        if rng.chance(1, 2) {
            let size = w.s.queue_size(rq);
            let count = if rng.chance(1, 20) { size + 1 } else { rng.range(0, size as u64) as u32 };
            w.exec(&Op::Take { rq, count });
        }
    }
    w.exec(&Op::Decide);
    w.exec(&Op::Solution);
    w.exec(&Op::Mapping);
    let _ = all_tasks;
    finish(w, out);
}

/// C05 on multi-variant classes: workers with time limits, request classes with 1-3 variants whose
/// `min_time`s differ, blocked (class, variant) pairs.  Only the decision is checked (no row comparison).
fn gen_variants_trace(id: u64, rng: &mut Rng, out: &mut String) {
    let n_res = if rng.chance(1, 2) { 1 } else { 2 };
    let mut w = World::new(n_res);
    header(&mut w.out, id, n_res, "variants");
    let n_workers = rng.range(1, 3) as u32;
    const LIMITS: [u64; 4] = [50, 100, 200, 1000];
    const TIMES: [u64; 5] = [0, 10, 75, 150, 500];
    for i in 0..n_workers {
        let mut units = vec![rng.range(1, 8) as u32];
        for _ in 1..n_res {
            units.push(if rng.chance(2, 3) { rng.range(1, 4) as u32 } else { 0 });
        }
        let tl = if rng.chance(3, 4) { Some(*rng.pick(&LIMITS)) } else { None };
        w.exec(&Op::AddWT { id: i + 1, tl, units });
    }
    let n_classes = rng.range(1, 3) as u32;
    let mut n_variants: Vec<u32> = Vec::new();
    for _ in 0..n_classes {
        let nv = rng.range(1, 3);
        let mut variants: Vec<(Vec<(u32, u64)>, u64)> = Vec::new();
        for vi in 0..nv {
            // typical shape: the quick variant needs more resources than the slow one
            let cpus = if vi == 0 { rng.range(2, 8) } else { rng.range(1, 3) } * FR;
            let mut es = vec![(0u32, cpus)];
            if n_res > 1 && rng.chance(1, 3) {
                es.push((1, rng.range(1, 2) * FR));
            }
            if rng.chance(1, 6) {
                // `All` policy on one of the variant's resources
                let k = rng.below(es.len() as u64) as usize;
                es[k].1 = 0;
            }
            let t = if vi == 0 && rng.chance(2, 3) { *rng.pick(&TIMES[..2]) } else { *rng.pick(&TIMES) };
            variants.push((es, t));
        }
        let before = w.n_rq;
        w.exec(&Op::AddRqV { variants });
        if w.n_rq > before {
            n_variants.push(nv as u32);
        }
    }
    let n_classes = w.n_rq;
    if n_classes == 0 {
        finish(w, out);
        return;
    }
    let mut next_task = 1u64;
    for rq in 0..n_classes {
        for _ in 0..rng.range(1, 6) {
            let t = (1u64 << 32) | next_task;
            next_task += 1;
            w.exec(&Op::AddT { task: t, rq, prio: rng.range(0, 3) as i32 });
        }
    }
    if rng.chance(1, 4) {
        let rq = rng.below(n_classes as u64) as u32;
        let nv = n_variants.get(rq as usize).copied().unwrap_or(1);
        let worker = w.workers[rng.below(w.workers.len() as u64) as usize];
        w.exec(&Op::Block { worker, rq, variant: rng.below(nv as u64) as u32 });
    }
    // partly busy workers: tasks assigned by an earlier round (first variant)
    if rng.chance(1, 2) {
        for _ in 0..rng.range(1, 2) {
            let rq = rng.below(n_classes as u64) as u32;
            let t = (1u64 << 32) | next_task;
            next_task += 1;
            let worker = w.workers[rng.below(w.workers.len() as u64) as usize];
            w.exec(&Op::AddT { task: t, rq, prio: rng.range(0, 3) as i32 });
            // not enabled if it does not fit; the task then simply stays in the queue
            w.exec(&Op::Busy { task: t, worker, started: rng.chance(2, 3) });
        }
    }
    w.exec(&Op::State);
    w.exec(&Op::VDecide);
    finish(w, out);
}

/// C17 demand side: the REAL `compute_new_worker_query` on a core with connected workers (server-assigned
/// ids, groups, partly busy), waiting single-node classes that fit / do not fit / fit only some query
/// (resources, `min_time` vs. the query's time limit), multi-node classes, priorities; 1-3 queries (full /
/// partial descriptors, max_sn_workers 0..4, max_workers_per_allocation 0..3, min_utilization).
/// `malformed`: empty query list, all-zero max_sn_workers, invalid descriptors.
fn gen_query_trace(id: u64, rng: &mut Rng, out: &mut String) {
    let n_res = match rng.below(10) {
        0..=3 => 1,
        4..=7 => 2,
        _ => 3,
    };
    let malformed = rng.chance(1, 8);
    let mut w = World::new(n_res);
    header(&mut w.out, id, n_res, if malformed { "query malformed" } else { "query" });
    const LIMITS: [u64; 3] = [40, 100, 200];
    const TIMES: [u64; 4] = [0, 0, 50, 150];
    // connected workers
    let n_workers = rng.below(4);
    for _ in 0..n_workers {
        let mut units = vec![rng.range(1, 4) as u32];
        for _ in 1..n_res {
            units.push(if rng.chance(1, 2) { rng.range(1, 3) as u32 } else { 0 });
        }
        let group = if rng.chance(2, 3) { "g1" } else { "g2" }.to_string();
        let tl = if rng.chance(1, 3) { Some(*rng.pick(&LIMITS)) } else { None };
        w.exec(&Op::AddWA { units, group, tl });
    }
    // single-node classes
    let lo_sn = if rng.chance(1, 6) { 0 } else { 1 };
    let n_sn = rng.range(lo_sn, 3);
    let mut sn_classes: Vec<(u32, Vec<(u32, u64)>)> = Vec::new();
    for _ in 0..n_sn {
        let cpus = if rng.chance(1, 8) { FR / 2 } else { rng.range(1, 5) * FR };
        let mut es = vec![(0u32, cpus)];
        for r in 1..n_res {
            if rng.chance(1, 3) {
                es.push((r as u32, rng.range(1, 3) * FR));
            }
        }
        if rng.chance(1, 8) {
            let k = rng.below(es.len() as u64) as usize;
            es[k].1 = 0; // `All` policy
        }
        let before = w.n_rq;
        w.exec(&Op::AddRqV { variants: vec![(es.clone(), *rng.pick(&TIMES))] });
        if w.n_rq > before {
            sn_classes.push((before, es));
        }
    }
    // multi-node classes
    let n_mn = if rng.chance(1, 2) { rng.range(1, 2) } else { 0 };
    let mut mn_classes: Vec<u32> = Vec::new();
    for _ in 0..n_mn {
        let before = w.n_rq;
        w.exec(&Op::AddRqMn { n_nodes: rng.range(1, 3) as u32, min_time: *rng.pick(&TIMES) });
        if w.n_rq > before {
            mn_classes.push(before);
        }
    }
    let levels: [i32; 3] = [0, 5, -3];
    let mut next_task = 1u64;
    for (rq, _) in &sn_classes {
        for _ in 0..rng.below(6) {
            let t = (1u64 << 32) | next_task;
            next_task += 1;
            w.exec(&Op::AddT { task: t, rq: *rq, prio: *rng.pick(&levels) });
        }
    }
    for rq in &mn_classes {
        for _ in 0..rng.below(4) {
            let t = (1u64 << 32) | next_task;
            next_task += 1;
            w.exec(&Op::AddT { task: t, rq: *rq, prio: *rng.pick(&levels) });
        }
    }
    // partly busy connected workers
    if !w.workers.is_empty() && !sn_classes.is_empty() {
        for _ in 0..rng.below(4) {
            let (rq, _) = sn_classes[rng.below(sn_classes.len() as u64) as usize].clone();
            let t = (1u64 << 32) | next_task;
            next_task += 1;
            let worker = w.workers[rng.below(w.workers.len() as u64) as usize];
            w.exec(&Op::AddT { task: t, rq, prio: *rng.pick(&levels) });
            w.exec(&Op::Busy { task: t, worker, started: rng.chance(2, 3) });
        }
    }
    w.exec(&Op::State);
    // queries
    let n_q = if malformed && rng.chance(1, 3) { 0 } else { rng.range(1, 3) };
    let zero_sn = malformed && rng.chance(1, 2);
    let mut queries = Vec::new();
    for _ in 0..n_q {
        let partial = rng.chance(2, 5);
        let mut items: Vec<(u32, u32)> = Vec::new();
        if !partial || rng.chance(1, 2) {
            items.push((0, rng.range(1, 6) as u32));
        }
        for r in 1..n_res {
            if rng.chance(1, 2) {
                items.push((r as u32, rng.range(1, 3) as u32));
            }
        }
        if malformed && rng.chance(1, 3) {
            match rng.below(3) {
                0 => items.retain(|(r, _)| *r != 0),           // full descriptor without cpus
                1 if !items.is_empty() => items[0].1 = 0,       // empty resource
                _ if !items.is_empty() => items.push(items[0]), // defined twice
                _ => {}
            }
        }
        queries.push(QSpec {
            partial,
            tl: if rng.chance(3, 4) { Some(*rng.pick(&LIMITS)) } else { None },
            max_sn: if zero_sn { 0 } else { rng.below(5) as u32 },
            max_pa: rng.below(4) as u32,
            mu: *rng.pick(&[0u32, 0, 0, 50, 100]),
            items,
        });
    }
    w.exec(&Op::Query { queries });
    finish(w, out);
}

fn replay(input: &str) -> String {
    let mut out = String::new();
    let mut w: Option<World> = None;
    let mut hdr = String::new();
    for line in input.lines() {
        if line.starts_with("TRACE ") {
            hdr = line.to_string();
            w = None;
        } else if line == "END" {
            if let Some(x) = w.take() {
                finish(x, &mut out);
            }
        } else if let Some(rest) = line.strip_prefix("C res ") {
            let n_res: usize = rest.trim().parse().unwrap_or(1);
            let mut nw = World::new(n_res.clamp(1, 3));
            writeln!(nw.out, "{hdr}").unwrap();
            writeln!(nw.out, "{line}").unwrap();
            w = Some(nw);
        } else if let Some(x) = w.as_mut() {
            if line.starts_with("C ") {
                writeln!(x.out, "{line}").unwrap();
            } else if let Some(o) = line.strip_prefix("O ") {
                if let Some(op) = parse_op(o) {
                    x.exec(&op);
                }
            }
        }
    }
    out
}

/// HiGHS starts one worker thread per visible CPU and those spin while idle; with 16 harness shards in
/// parallel that costs more than the solves.  Pinning the process to one CPU (chosen from the seed)
/// makes `hardware_concurrency` report 1.  Purely a speed measure, no influence on results.
fn pin_to_one_cpu(seed: u64) {
    unsafe {
        let n = libc::sysconf(libc::_SC_NPROCESSORS_ONLN).max(1) as u64;
        let mut set: libc::cpu_set_t = std::mem::zeroed();
        libc::CPU_ZERO(&mut set);
        libc::CPU_SET((seed % n) as usize, &mut set);
        libc::sched_setaffinity(0, std::mem::size_of::<libc::cpu_set_t>(), &set);
    }
}

fn main() {
    install_panic_hook();
    let args: Vec<String> = std::env::args().collect();
    let get = |name: &str| args.iter().position(|a| a == name).map(|i| args[i + 1].clone());
    match args.get(1).map(|s| s.as_str()) {
        Some("gen") => {
            let seed: u64 = get("--seed").and_then(|s| s.parse().ok()).unwrap_or(env_u64("VERIF_SEED", 1));
            let count: u64 = get("--count").and_then(|s| s.parse().ok()).unwrap_or(100);
            let tier = get("--tier").unwrap_or("quick".to_string());
            let mode = get("--mode").unwrap_or("domain".to_string());
            let outp = get("--out").expect("--out");
            if std::env::var("HQV_SCHED_NOPIN").is_err() {
                pin_to_one_cpu(seed);
            }
            let mut rng = Rng::new(seed ^ match mode.as_str() { "wide" => 0x5eed, "variants" => 0x7a71, "exact" => 0xe8ac, "query" => 0xc17d, _ => 0 });
            let mut out = String::new();
            for i in 0..count {
                if mode == "variants" {
                    gen_variants_trace(seed * 100000 + i, &mut rng, &mut out);
                } else if mode == "query" {
                    gen_query_trace(seed * 100000 + i, &mut rng, &mut out);
                } else {
                    gen_trace(seed * 100000 + i, &mut rng, &tier, &mode, &mut out);
                }
            }
            std::fs::write(outp, out).unwrap();
        }
        Some("replay") => {
            let inp = get("--in").expect("--in");
            let outp = get("--out").expect("--out");
            let text = std::fs::read_to_string(inp).unwrap();
            if std::env::var("HQV_SCHED_NOPIN").is_err() {
                pin_to_one_cpu(std::process::id() as u64);
            }
            std::fs::write(outp, replay(&text)).unwrap();
        }
        _ => {
            eprintln!("usage: hqv-sched gen --seed S --count N --tier T [--mode domain|wide] --out FILE | replay --in FILE --out FILE");
            std::process::exit(2);
        }
    }
}
