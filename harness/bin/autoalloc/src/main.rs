//! Harness for component `autoalloc` (C17, C18): drives the REAL autoalloc functions
//! (`handle_message`, `perform_submits`, `queue_try_submit`, `do_periodic_update`, `remove_queue`)
//! over a real `AutoAllocState` with a scripted `QueueHandler`, an injected `RateLimiter` and a real
//! tako server core (whose waiting tasks create the demand `new_worker_query` reports).
//!
//! Trace vocabulary (see /verif/ocaml/autoalloc/driver.ml for the model side):
//!   O ADDQ <backlog> <mwpa> <maxw|-> <def | d0,d1,..:maxsf:maxaf>
//!   O TICK <k tasks> ord=<q,..|-> resp=<q:sn:mn:mnw;..|-> scr=<q:o5,f,d;..|->
//!   O TRY <q> <sn> <mn> <mnw> scr=<o5,f,d|->
//!   O REFRESH ord=<q,..|-> st=<q:[!]id=S,id=S;..|->      (! = the whole status call failed)
//!   O CONN <w> <alloc> | LOST <w> <alloc> <crashed 0|1> | JOB | PAUSE q | RESUME q | RMQ q <force> | ADV <secs>
//!   = RET b | SUBMIT q n | REMOVE q id | EV .. | PANIC site | SNAP ..
use hqv_common::{Rng, catch, env_u64, install_panic_hook, join};
use hyperqueue::verif::autoalloc as aa;
use std::cell::RefCell;
use std::collections::{BTreeMap, VecDeque};
use std::fmt::Write as _;
use std::future::Future;
use std::path::PathBuf;
use std::pin::Pin;
use std::rc::Rc;
use std::time::Duration;
use tako::control::ServerRef;
use tako::gateway::{
    CrashLimit, LostWorkerReason, ResourceRequestVariants, SharedTaskConfiguration,
    TaskConfiguration, TaskSubmit,
};
use tako::resources::ResourceDescriptor;
use tako::worker::{ServerLostPolicy, WorkerConfiguration};
use tako::{TaskId, WorkerId};

const QUANTUM: u64 = 600; // seconds; all injected limiter delays and ADV amounts are multiples of it

#[derive(Clone, Copy, Debug, PartialEq)]
enum SRes {
    Ok(u64),
    Fail,
    DirFail,
}
impl SRes {
    fn sym(&self) -> String {
        match self {
            SRes::Ok(id) => format!("o{id}"),
            SRes::Fail => "f".into(),
            SRes::DirFail => "d".into(),
        }
    }
    fn parse(s: &str) -> SRes {
        match s {
            "f" => SRes::Fail,
            "d" => SRes::DirFail,
            _ => SRes::Ok(s[1..].parse().unwrap()),
        }
    }
}

#[derive(Clone, Copy, Debug, PartialEq)]
enum X {
    Queued,
    Running,
    Finished,
    Failed,
    Error,
    Missing,
}
impl X {
    fn sym(&self) -> &'static str {
        match self {
            X::Queued => "Q",
            X::Running => "R",
            X::Finished => "F",
            X::Failed => "X",
            X::Error => "E",
            X::Missing => "M",
        }
    }
    fn parse(s: &str) -> X {
        match s {
            "Q" => X::Queued,
            "R" => X::Running,
            "F" => X::Finished,
            "X" => X::Failed,
            "E" => X::Error,
            _ => X::Missing,
        }
    }
}

#[derive(Clone, Copy, Debug, PartialEq)]
enum Mood {
    Steady,
    Chaos,
    Errors,
    WholeErr,
    Progress,
}

enum StatusMode {
    Gen(Mood),
    Plan(bool, BTreeMap<String, X>),
}

struct Shared {
    submit_script: VecDeque<SRes>,
    submit_calls: Vec<u64>,
    status_mode: StatusMode,
    status_log: Option<(bool, Vec<(String, X)>)>,
    remove_calls: Vec<String>,
    rng: Rng,
}

struct Handler(Rc<RefCell<Shared>>);

fn workdir() -> PathBuf {
    PathBuf::from("/nonexistent/hqv-autoalloc")
}

impl aa::QueueHandler for Handler {
    fn submit_allocation(
        &mut self,
        _queue_id: aa::QueueId,
        _queue_info: &aa::QueueInfo,
        worker_count: u64,
        _mode: aa::SubmitMode,
    ) -> Pin<Box<dyn Future<Output = aa::AutoAllocResult<aa::AllocationSubmissionResult>>>> {
        let mut sh = self.0.borrow_mut();
        sh.submit_calls.push(worker_count);
        let r = sh.submit_script.pop_front().unwrap_or(SRes::DirFail);
        Box::pin(async move {
            match r {
                SRes::Ok(id) => Ok(aa::AllocationSubmissionResult::new(Ok(id.to_string()), workdir().into())),
                SRes::Fail => Ok(aa::AllocationSubmissionResult::new(
                    Err(anyhow::anyhow!("submission rejected")),
                    workdir().into(),
                )),
                SRes::DirFail => Err(anyhow::anyhow!("cannot create directory")),
            }
        })
    }

    fn get_status_of_allocations(
        &self,
        allocations: &[&aa::Allocation],
    ) -> Pin<Box<dyn Future<Output = aa::AutoAllocResult<aa::AllocationStatusMap>>>> {
        let mut sh = self.0.borrow_mut();
        let mut log = Vec::new();
        let whole_err;
        match &sh.status_mode {
            StatusMode::Plan(err, plan) => {
                whole_err = *err;
                for a in allocations {
                    log.push((a.id.clone(), plan.get(&a.id).copied().unwrap_or(X::Missing)));
                }
            }
            StatusMode::Gen(mood) => {
                let mood = *mood;
                whole_err = mood == Mood::WholeErr;
                for a in allocations {
                    let queued = matches!(a.status, aa::AllocationState::Queued { .. });
                    let r = sh.rng.below(100);
                    let x = match mood {
                        Mood::Errors | Mood::WholeErr => {
                            if r < 85 {
                                X::Error
                            } else if queued {
                                X::Queued
                            } else {
                                X::Running
                            }
                        }
                        Mood::Steady => {
                            if r < 90 {
                                if queued { X::Queued } else { X::Running }
                            } else if r < 95 {
                                X::Running
                            } else {
                                X::Error
                            }
                        }
                        Mood::Progress => {
                            if queued {
                                *[X::Queued, X::Running, X::Running, X::Failed, X::Finished][sh.rng.below(5) as usize..].first().unwrap()
                            } else {
                                *[X::Running, X::Running, X::Finished, X::Failed][sh.rng.below(4) as usize..].first().unwrap()
                            }
                        }
                        Mood::Chaos => [X::Queued, X::Running, X::Finished, X::Failed, X::Error, X::Missing][sh.rng.below(6) as usize],
                    };
                    log.push((a.id.clone(), x));
                }
            }
        }
        sh.status_log = Some((whole_err, log.clone()));
        Box::pin(async move {
            if whole_err {
                return Err(anyhow::anyhow!("status call failed"));
            }
            let mut map: aa::AllocationStatusMap = Default::default();
            for (id, x) in log {
                let now = aa::AbsoluteTime::now();
                let v = match x {
                    X::Queued => Ok(aa::AllocationExternalStatus::Queued),
                    X::Running => Ok(aa::AllocationExternalStatus::Running),
                    X::Finished => Ok(aa::AllocationExternalStatus::Finished { started_at: None, finished_at: now }),
                    X::Failed => Ok(aa::AllocationExternalStatus::Failed { started_at: None, finished_at: now }),
                    X::Error => Err(anyhow::anyhow!("status error")),
                    X::Missing => continue,
                };
                map.insert(id, v);
            }
            Ok(map)
        })
    }

    fn remove_allocation(&self, allocation: &aa::Allocation) -> Pin<Box<dyn Future<Output = aa::AutoAllocResult<()>>>> {
        let mut sh = self.0.borrow_mut();
        sh.remove_calls.push(allocation.id.clone());
        let fail = sh.rng.chance(1, 5);
        Box::pin(async move { if fail { Err(anyhow::anyhow!("remove failed")) } else { Ok(()) } })
    }
}

#[derive(Clone, Debug)]
enum Op {
    AddQ { backlog: u32, mwpa: u32, maxw: Option<u32>, lim: Option<(Vec<u64>, u64, u64)> },
    Tick { k: u32, u: u32, t: u32, scripts: Vec<(u32, Vec<SRes>)> },
    Try { q: u32, sn: u32, mn: u32, mnw: u32, script: Vec<SRes> },
    /// None: statuses are drawn by the handlers (mood per queue set beforehand)
    Refresh { plan: Option<Vec<(u32, bool, Vec<(String, X)>)>>, mood: Mood },
    Conn { w: u32, a: String },
    Lost { w: u32, a: String, crashed: bool },
    Job,
    Pause(u32),
    Resume(u32),
    Rmq(u32, bool),
    Adv(u64),
}

fn kv<'a>(t: &'a [&'a str], key: &str) -> &'a str {
    for x in t {
        if let Some(r) = x.strip_prefix(key) {
            if let Some(r) = r.strip_prefix('=') {
                return r;
            }
        }
    }
    "-"
}

fn parse_script(s: &str) -> Vec<SRes> {
    if s == "-" || s.is_empty() { vec![] } else { s.split(',').map(SRes::parse).collect() }
}

fn parse_op(line: &str) -> Op {
    let t: Vec<&str> = line.split_whitespace().collect();
    let n = |i: usize| -> u32 { t[i].parse().unwrap() };
    match t[0] {
        "ADDQ" => Op::AddQ {
            backlog: n(1),
            mwpa: n(2),
            maxw: if t[3] == "-" { None } else { Some(n(3)) },
            lim: if t[4] == "def" {
                None
            } else {
                let p: Vec<&str> = t[4].split(':').collect();
                Some((p[0].split(',').map(|x| x.parse().unwrap()).collect(), p[1].parse().unwrap(), p[2].parse().unwrap()))
            },
        },
        "TICK" => {
            let scr = kv(&t, "scr");
            let scripts = if scr == "-" {
                vec![]
            } else {
                scr.split(';')
                    .map(|e| {
                        let (q, s) = e.split_once(':').unwrap();
                        (q.parse().unwrap(), parse_script(s))
                    })
                    .collect()
            };
            Op::Tick { k: n(1), u: kv(&t, "u").parse().unwrap_or(0), t: kv(&t, "t").parse().unwrap_or(0), scripts }
        }
        "TRY" => Op::Try { q: n(1), sn: n(2), mn: n(3), mnw: n(4), script: parse_script(kv(&t, "scr")) },
        "REFRESH" => {
            let st = kv(&t, "st");
            let mut plan = vec![];
            if st != "-" {
                for e in st.split(';') {
                    let (q, s) = e.split_once(':').unwrap();
                    let (err, s) = match s.strip_prefix('!') {
                        Some(r) => (true, r),
                        None => (false, s),
                    };
                    let ents = s
                        .split(',')
                        .filter(|x| !x.is_empty())
                        .map(|x| {
                            let (id, v) = x.split_once('=').unwrap();
                            (id.to_string(), X::parse(v))
                        })
                        .collect();
                    plan.push((q.parse().unwrap(), err, ents));
                }
            }
            Op::Refresh { plan: Some(plan), mood: Mood::Steady }
        }
        "CONN" => Op::Conn { w: n(1), a: t[2].to_string() },
        "LOST" => Op::Lost { w: n(1), a: t[2].to_string(), crashed: t[3] == "1" },
        "JOB" => Op::Job,
        "PAUSE" => Op::Pause(n(1)),
        "RESUME" => Op::Resume(n(1)),
        "RMQ" => Op::Rmq(n(1), t[2] == "1"),
        "ADV" => Op::Adv(t[1].parse().unwrap()),
        _ => panic!("bad op {line}"),
    }
}

struct NullEvents;
impl tako::events::EventProcessor for NullEvents {
    fn on_task_finished(&mut self, _: TaskId) {}
    fn on_task_started(&mut self, _: TaskId, _: tako::InstanceId, _: &[WorkerId], _: tako::ResourceVariantId, _: tako::task::SerializedTaskContext) {}
    fn on_task_error(&mut self, _: TaskId, _: Vec<TaskId>, _: tako::internal::messages::common::TaskFailInfo) -> Vec<TaskId> {
        vec![]
    }
    fn on_worker_new(&mut self, _: WorkerId, _: &WorkerConfiguration) {}
    fn on_worker_lost(&mut self, _: WorkerId, _: &[TaskId], _: LostWorkerReason) {}
    fn on_worker_overview(&mut self, _: Box<tako::worker::WorkerOverview>) {}
    fn on_task_notify(&mut self, _: TaskId, _: WorkerId, _: Box<[u8]>) {}
}

struct World {
    state: aa::AutoAllocState,
    senders: aa::Senders,
    server: ServerRef,
    ev_rx: tokio::sync::mpsc::UnboundedReceiver<aa::Event>,
    handlers: BTreeMap<u32, Rc<RefCell<Shared>>>,
    tasks: [Vec<TaskId>; 3],
    next_task: u32,
    rq_id: [Option<tako::resources::ResourceRqId>; 3],
    next_alloc: u64,
    next_worker: u32,
    clock_mark: std::time::Instant,
    rng: Rng,
    _server_future: Pin<Box<dyn Future<Output = tako::Result<()>>>>,
}

fn worker_config() -> WorkerConfiguration {
    WorkerConfiguration {
        resources: ResourceDescriptor::simple_cpus(1),
        listen_address: String::new(),
        hostname: String::new(),
        group: "g".into(),
        work_dir: Default::default(),
        heartbeat_interval: Default::default(),
        overview_configuration: Default::default(),
        idle_timeout: None,
        time_limit: None,
        retract_check_interval: Duration::from_secs(30),
        on_server_lost: ServerLostPolicy::Stop,
        min_utilization: 0.0,
        extra: Default::default(),
    }
}

fn manager_info(a: &str) -> aa::ManagerInfo {
    aa::ManagerInfo { manager: aa::ManagerType::Slurm, allocation_id: a.to_string(), time_limit: None, max_memory_mb: None }
}

fn panic_site(msg: &str) -> String {
    let m = msg;
    if m.contains("remainder with a divisor of zero") {
        "1".into()
    } else if m.contains("target_worker_count <= info.max_workers_per_alloc()") {
        "2".into()
    } else if m.contains("state.rs") && m.contains("self.allocations") {
        "3".into()
    } else if m.contains("attempt to add with overflow") && m.contains("state.rs") {
        "4".into()
    } else if m.contains("attempt to multiply with overflow") {
        "5".into()
    } else if m.contains("allocation_to_queue.remove") {
        "6".into()
    } else {
        format!("?{}", m.replace(' ', "_"))
    }
}

impl World {
    async fn new(seed: u64) -> World {
        let listener = tokio::net::TcpListener::bind("127.0.0.1:0").await.expect("bind");
        let (server, fut) = tako::server::server_start(
            listener,
            None,
            Duration::from_millis(20),
            false,
            None,
            None,
            "verif".to_string(),
            WorkerId::new(1),
            tako::server::SchedulerConfig::default(),
        )
        .expect("server_start");
        server.set_client_events(Box::new(NullEvents));
        let events = aa::EventStreamer::new(None);
        let (tx, ev_rx) = tokio::sync::mpsc::unbounded_channel();
        events.register_listener(aa::EventFilter::all_events(), tx);
        World {
            state: aa::AutoAllocState::new(1),
            senders: aa::Senders::new(server.clone(), events),
            server,
            ev_rx,
            handlers: BTreeMap::new(),
            tasks: [vec![], vec![], vec![]],
            next_task: 1,
            rq_id: [None, None, None],
            next_alloc: 1,
            next_worker: 1,
            clock_mark: std::time::Instant::now(),
            rng: Rng::new(seed ^ 0x5eed),
            _server_future: Box::pin(fut),
        }
    }

    /// class 0: 1-cpu tasks (fit the queues' 1-cpu workers); class 1: 4-cpu tasks (never fit);
    /// class 2: 1-cpu tasks with min_time 2 h (longer than the queues' 1 h time limit)
    fn set_demand(&mut self, class: usize, k: u32) {
        let k = k as usize;
        if self.tasks[class].len() > k {
            let drop: Vec<TaskId> = self.tasks[class].split_off(k);
            self.server.cancel_tasks(&drop);
        } else if self.tasks[class].len() < k {
            if self.rq_id[class].is_none() {
                let mut rq = tako::gateway::ResourceRequest::default();
                match class {
                    1 => rq.resources[0].policy = tako::resources::AllocationRequest::Compact(tako::resources::ResourceAmount::new_units(4)),
                    2 => rq.min_time = Duration::from_secs(7200),
                    _ => {}
                }
                let rqv = ResourceRequestVariants::new_simple(rq);
                self.rq_id[class] = Some(self.server.get_or_create_resource_rq_id(&rqv));
            }
            let rq = self.rq_id[class].unwrap();
            let mut tasks = vec![];
            while self.tasks[class].len() < k {
                let id = TaskId::new(1.into(), self.next_task.into());
                self.next_task += 1;
                self.tasks[class].push(id);
                tasks.push(TaskConfiguration { id, resource_rq_id: rq, shared_data_index: 0, task_deps: Default::default(), entry: None });
            }
            self.server
                .add_new_tasks(TaskSubmit {
                    tasks,
                    shared_data: vec![SharedTaskConfiguration {
                        time_limit: None,
                        priority: tako::UserPriority::new(0),
                        crash_limit: CrashLimit::default(),
                        body: Rc::from(Vec::<u8>::new()),
                    }],
                    adjust_instance_id_and_crash_counters: Default::default(),
                })
                .expect("add_new_tasks");
        }
    }

    fn drain_events(&mut self) -> Vec<String> {
        let mut v = vec![];
        while let Ok(e) = self.ev_rx.try_recv() {
            match e.payload {
                aa::EventPayload::AllocationQueueCreated(q, _) => v.push(format!("EV qcreated {q}")),
                aa::EventPayload::AllocationQueueRemoved(q) => v.push(format!("EV qremoved {q}")),
                aa::EventPayload::AllocationQueued { queue_id, allocation_id, worker_count } => {
                    v.push(format!("EV queued {queue_id} {allocation_id} {worker_count}"))
                }
                aa::EventPayload::AllocationStarted(q, a) => v.push(format!("EV started {q} {a}")),
                aa::EventPayload::AllocationFinished(q, a) => v.push(format!("EV finished {q} {a}")),
                _ => v.push("EV other".into()),
            }
        }
        v
    }

    /// Take the real time that has passed since the previous call out of every limiter.
    fn freeze_clock(&mut self) {
        let mark = self.clock_mark;
        for (_, q) in self.state.queues_mut() {
            q.limiter_mut().verif_freeze_clock(mark);
        }
        self.clock_mark = std::time::Instant::now();
    }

    fn queue_order(&self) -> Vec<u32> {
        self.state.queues().map(|(id, _)| id).collect()
    }

    /// Executes one operation on the real code.  Returns the (completed) O line and the output lines.
    async fn exec(&mut self, op: &Op) -> (String, Vec<String>) {
        let mut out = vec![];
        let line;
        // wall-clock never matters: real time that passed since the previous operation is taken
        // out of every limiter, only ADV moves their clocks
        self.freeze_clock();
        for h in self.handlers.values() {
            let mut h = h.borrow_mut();
            h.submit_calls.clear();
            h.remove_calls.clear();
            h.status_log = None;
            h.submit_script.clear();
        }
        match op {
            Op::AddQ { backlog, mwpa, maxw, lim } => {
                line = format!(
                    "ADDQ {backlog} {mwpa} {} {}",
                    maxw.map(|x| x.to_string()).unwrap_or("-".into()),
                    match lim {
                        None => "def".to_string(),
                        Some((d, sf, af)) => format!("{}:{sf}:{af}", join(d.iter(), ",")),
                    }
                );
                let params = aa::QueueParameters {
                    manager: aa::ManagerType::Slurm,
                    max_workers_per_alloc: *mwpa,
                    backlog: *backlog,
                    timelimit: Duration::from_secs(3600),
                    name: None,
                    max_worker_count: *maxw,
                    min_utilization: 0.0,
                    additional_args: vec![],
                    worker_start_cmd: None,
                    worker_stop_cmd: None,
                    worker_wrap_cmd: None,
                    cli_resource_descriptor: None,
                    worker_args: vec![],
                    idle_timeout: None,
                };
                let (token, mut rx) = aa::ResponseToken::new();
                let ret = aa::handle_message(
                    &mut self.state,
                    self.senders.events(),
                    aa::AutoAllocMessage::AddQueue {
                        server_directory: PathBuf::from("/nonexistent/hqv-autoalloc"),
                        params,
                        queue_id: None,
                        worker_resources: Some(ResourceDescriptor::simple_cpus(1)),
                        response: token,
                    },
                )
                .await;
                let id = rx.try_recv().expect("response").expect("queue created");
                let sh = Rc::new(RefCell::new(Shared {
                    submit_script: VecDeque::new(),
                    submit_calls: vec![],
                    status_mode: StatusMode::Gen(Mood::Steady),
                    status_log: None,
                    remove_calls: vec![],
                    rng: self.rng.fork(),
                }));
                let queue = self.state.get_queue_mut(id).unwrap();
                queue.verif_set_handler(Box::new(Handler(sh.clone())));
                if let Some((d, sf, af)) = lim {
                    *queue.limiter_mut() = aa::RateLimiter::new(d.iter().map(|s| Duration::from_secs(*s)).collect(), *sf, *af);
                }
                self.handlers.insert(id, sh);
                out.push(format!("RET {}", ret as u8));
            }
            Op::Tick { k, u, t, scripts } => {
                self.set_demand(0, *k);
                self.set_demand(1, *u);
                self.set_demand(2, *t);
                let order: Vec<u32> = self
                    .state
                    .queues()
                    .filter(|(_, q)| {
                        q.state().is_active()
                            && !matches!(
                                q.limiter().submission_status(),
                                aa::RateLimiterStatus::TooManyFailedSubmissions | aa::RateLimiterStatus::TooManyFailedAllocations
                            )
                    })
                    .map(|(id, _)| id)
                    .collect();
                let resps = if order.is_empty() {
                    vec![]
                } else {
                    let queries = order.iter().map(|id| aa::create_queue_worker_query(self.state.get_queue(*id).unwrap())).collect();
                    aa::compute_query_responses(&self.senders, queries).expect("query")
                };
                for (q, s) in scripts {
                    if let Some(h) = self.handlers.get(q) {
                        h.borrow_mut().submit_script = s.iter().copied().collect();
                    }
                }
                line = format!(
                    "TICK {k} u={u} t={t} ord={} resp={} scr={}",
                    join(order.iter(), ","),
                    join(order.iter().zip(resps.iter()).map(|(q, (a, b, c))| format!("{q}:{a}:{b}:{c}")), ";"),
                    join(scripts.iter().map(|(q, s)| format!("{q}:{}", join(s.iter().map(|x| x.sym()), ","))), ";"),
                );
                self.freeze_clock();
                aa::perform_submits(&mut self.state, &self.senders).await.expect("perform_submits");
                for q in &order {
                    if let Some(h) = self.handlers.get(q) {
                        for n in &h.borrow().submit_calls {
                            out.push(format!("SUBMIT {q} {n}"));
                        }
                    }
                }
                // submits for queues outside the predicted order would be a bug of the prediction or of the code
                for (q, h) in &self.handlers {
                    if !order.contains(q) {
                        for n in &h.borrow().submit_calls {
                            out.push(format!("SUBMIT {q} {n}"));
                        }
                    }
                }
            }
            Op::Try { q, sn, mn, mnw, script } => {
                line = format!("TRY {q} {sn} {mn} {mnw} scr={}", join(script.iter().map(|x| x.sym()), ","));
                if let Some(h) = self.handlers.get(q) {
                    h.borrow_mut().submit_script = script.iter().copied().collect();
                }
                aa::queue_try_submit(&mut self.state, *q, &self.senders, (*sn, *mn, *mnw)).await;
                if let Some(h) = self.handlers.get(q) {
                    for n in &h.borrow().submit_calls {
                        out.push(format!("SUBMIT {q} {n}"));
                    }
                }
            }
            Op::Refresh { plan, mood } => {
                let order = self.queue_order();
                for (q, h) in &self.handlers {
                    let mut h = h.borrow_mut();
                    h.status_mode = match plan {
                        None => StatusMode::Gen(*mood),
                        Some(p) => match p.iter().find(|(pq, _, _)| pq == q) {
                            Some((_, err, ents)) => StatusMode::Plan(*err, ents.iter().cloned().collect()),
                            None => StatusMode::Plan(false, BTreeMap::new()),
                        },
                    };
                }
                aa::do_periodic_update(&self.senders, &mut self.state).await;
                let mut sts = vec![];
                for q in &order {
                    if let Some(h) = self.handlers.get(q) {
                        if let Some((err, log)) = &h.borrow().status_log {
                            sts.push(format!(
                                "{q}:{}{}",
                                if *err { "!" } else { "" },
                                log.iter().map(|(id, x)| format!("{id}={}", x.sym())).collect::<Vec<_>>().join(",")
                            ));
                        }
                    }
                }
                line = format!("REFRESH ord={} st={}", join(order.iter(), ","), join(sts.iter(), ";"));
            }
            Op::Conn { w, a } => {
                line = format!("CONN {w} {a}");
                let ret = aa::handle_message(
                    &mut self.state,
                    self.senders.events(),
                    aa::AutoAllocMessage::WorkerConnected { id: WorkerId::new(*w), config: worker_config(), manager_info: manager_info(a) },
                )
                .await;
                out.push(format!("RET {}", ret as u8));
            }
            Op::Lost { w, a, crashed } => {
                line = format!("LOST {w} {a} {}", *crashed as u8);
                let details = if *crashed {
                    aa::LostWorkerDetails { reason: LostWorkerReason::ConnectionLost, lifetime: Duration::from_secs(10) }
                } else if w % 2 == 0 {
                    aa::LostWorkerDetails { reason: LostWorkerReason::ConnectionLost, lifetime: Duration::from_secs(3600) }
                } else {
                    aa::LostWorkerDetails { reason: LostWorkerReason::Stopped, lifetime: Duration::from_secs(5) }
                };
                let ret = aa::handle_message(
                    &mut self.state,
                    self.senders.events(),
                    aa::AutoAllocMessage::WorkerLost(WorkerId::new(*w), manager_info(a), details),
                )
                .await;
                out.push(format!("RET {}", ret as u8));
            }
            Op::Job => {
                line = "JOB".to_string();
                let ret = aa::handle_message(&mut self.state, self.senders.events(), aa::AutoAllocMessage::JobSubmitted(1.into())).await;
                out.push(format!("RET {}", ret as u8));
            }
            Op::Pause(q) => {
                line = format!("PAUSE {q}");
                let (token, mut rx) = aa::ResponseToken::new();
                aa::handle_message(&mut self.state, self.senders.events(), aa::AutoAllocMessage::PauseQueue { id: *q, response: token }).await;
                out.push(format!("RET {}", rx.try_recv().expect("response").is_ok() as u8));
            }
            Op::Resume(q) => {
                line = format!("RESUME {q}");
                let (token, mut rx) = aa::ResponseToken::new();
                aa::handle_message(&mut self.state, self.senders.events(), aa::AutoAllocMessage::ResumeQueue { id: *q, response: token }).await;
                out.push(format!("RET {}", rx.try_recv().expect("response").is_ok() as u8));
            }
            Op::Rmq(q, force) => {
                line = format!("RMQ {q} {}", *force as u8);
                let (token, mut rx) = aa::ResponseToken::new();
                aa::handle_message(
                    &mut self.state,
                    self.senders.events(),
                    aa::AutoAllocMessage::RemoveQueue { id: *q, force: *force, response: token },
                )
                .await;
                out.push(format!("RET {}", rx.try_recv().expect("response").is_ok() as u8));
                if let Some(h) = self.handlers.get(q) {
                    let mut ids = h.borrow().remove_calls.clone();
                    ids.sort_by_key(|a| (a.len(), a.clone()));
                    for id in ids {
                        out.push(format!("REMOVE {q} {id}"));
                    }
                }
            }
            Op::Adv(secs) => {
                line = format!("ADV {secs}");
                for (_, q) in self.state.queues_mut() {
                    q.limiter_mut().verif_advance_time(Duration::from_secs(*secs));
                }
            }
        }
        out.extend(self.drain_events());
        self.freeze_clock();
        out.extend(aa::snapshot(&self.state, QUANTUM));
        (line, out)
    }
}

/// Runs one op with panic capture. Returns (O line, outputs, panicked).
fn run_op(rt: &tokio::runtime::Runtime, w: &mut World, op: &Op, fallback_line: &str) -> (String, Vec<String>, bool) {
    // self-test of the clock freeze: HQV_AUTOALLOC_STALL_MS=<ms> stalls before every TICK
    if let (Op::Tick { .. }, Ok(ms)) = (op, std::env::var("HQV_AUTOALLOC_STALL_MS")) {
        std::thread::sleep(Duration::from_millis(ms.parse().unwrap_or(0)));
    }
    let r = catch(|| rt.block_on(w.exec(op)));
    match r {
        Ok((l, o)) => (l, o, false),
        Err(msg) => (fallback_line.to_string(), vec![format!("PANIC {}", panic_site(&msg))], true),
    }
}

fn op_fallback(op: &Op) -> String {
    match op {
        Op::Tick { k, u, t, scripts } => format!(
            "TICK {k} u={u} t={t} ord=- resp=- scr={}",
            join(scripts.iter().map(|(q, s)| format!("{q}:{}", join(s.iter().map(|x| x.sym()), ","))), ";")
        ),
        Op::Try { q, sn, mn, mnw, script } => format!("TRY {q} {sn} {mn} {mnw} scr={}", join(script.iter().map(|x| x.sym()), ",")),
        Op::Refresh { .. } => "REFRESH ord=- st=-".to_string(),
        Op::Rmq(q, f) => format!("RMQ {q} {}", *f as u8),
        Op::AddQ { .. } => "ADDQ ?".into(),
        Op::Conn { w, a } => format!("CONN {w} {a}"),
        Op::Lost { w, a, crashed } => format!("LOST {w} {a} {}", *crashed as u8),
        Op::Job => "JOB".into(),
        Op::Pause(q) => format!("PAUSE {q}"),
        Op::Resume(q) => format!("RESUME {q}"),
        Op::Adv(s) => format!("ADV {s}"),
    }
}

// ---------------------------------------------------------------------------------------------
// generation

struct AllocView {
    q: u32,
    id: String,
    connected: Vec<u32>,
    lost: Vec<u32>,
    active: bool,
}

fn view(w: &World) -> Vec<AllocView> {
    let mut v = vec![];
    for (q, queue) in w.state.queues() {
        for a in queue.all_allocations() {
            let (connected, lost) = match &a.status {
                aa::AllocationState::Running { connected_workers, disconnected_workers, .. } => (
                    connected_workers.iter().map(|x| x.as_num()).collect(),
                    disconnected_workers.verif_workers().keys().map(|x| x.as_num()).collect(),
                ),
                aa::AllocationState::Finished { disconnected_workers, .. } => (vec![], disconnected_workers.verif_workers().keys().map(|x| x.as_num()).collect()),
                aa::AllocationState::FinishedUnexpectedly { connected_workers, disconnected_workers, .. } => (
                    connected_workers.iter().map(|x| x.as_num()).collect(),
                    disconnected_workers.verif_workers().keys().map(|x| x.as_num()).collect(),
                ),
                _ => (vec![], vec![]),
            };
            let mut connected: Vec<u32> = connected;
            connected.sort_unstable();
            let mut lost: Vec<u32> = lost;
            lost.sort_unstable();
            v.push(AllocView { q, id: a.id.clone(), connected, lost, active: a.is_active() });
        }
    }
    v.sort_by_key(|a| (a.id.len(), a.id.clone()));
    v
}

fn gen_script(w: &mut World, rng: &mut Rng, len: usize, p_fail: u64) -> Vec<SRes> {
    (0..len)
        .map(|_| {
            if rng.below(100) < p_fail {
                if rng.chance(1, 3) { SRes::DirFail } else { SRes::Fail }
            } else {
                let id = w.next_alloc;
                w.next_alloc += 1;
                SRes::Ok(id)
            }
        })
        .collect()
}

fn gen_addq(rng: &mut Rng) -> Op {
    let backlog = *rng.pick(&[1u32, 1, 2, 2, 3, 4, 5, 0]);
    let mwpa = *rng.pick(&[1u32, 1, 2, 2, 3, 4, 4, 1, 2, 3, 0]);
    let mwpa = if mwpa == 0 && !rng.chance(1, 6) { 1 } else { mwpa };
    let maxw = if rng.chance(2, 5) { None } else { Some(*rng.pick(&[0u32, 1, 2, 3, 4, 5, 6, 8, 10])) };
    let lim = if rng.chance(1, 8) {
        None
    } else {
        let delays: Vec<u64> = match rng.below(6) {
            0 => vec![0],
            1 => vec![0, 3600],
            2 => vec![0, 600, 3600],
            3 => vec![600],
            4 => vec![0, 0, 1800],
            _ => vec![600, 0],
        };
        Some((delays, *rng.pick(&[1u64, 2, 3, 3, 10]), *rng.pick(&[1u64, 2, 3, 3, 5])))
    };
    Op::AddQ { backlog, mwpa, maxw, lim }
}

fn gen_op(w: &mut World, rng: &mut Rng, style: u64) -> Op {
    let qids: Vec<u32> = {
        let mut v = w.queue_order();
        v.sort_unstable();
        v
    };
    if qids.is_empty() {
        return gen_addq(rng);
    }
    let pick_q = |rng: &mut Rng| -> u32 {
        if rng.chance(1, 25) { *rng.pick(&[0u32, 7, 99]) } else { *rng.pick(&qids) }
    };
    let allocs = view(w);
    let r = rng.below(100);
    // style 0: balanced, 1: failure heavy, 2: worker-event heavy, 3: status heavy
    let (t_tick, t_try, t_ref, t_conn, t_lost) = match style {
        1 => (16, 43, 53, 63, 73),
        2 => (9, 23, 31, 58, 85),
        3 => (9, 23, 55, 67, 79),
        _ => (12, 32, 44, 59, 74),
    };
    let p_fail = match style {
        1 => 55,
        _ => 15,
    };
    if r < t_tick {
        let k = *rng.pick(&[0u32, 0, 1, 1, 2, 3, 4, 6, 10, 20]);
        // tasks that cannot run on the queues' workers: too many cpus (u) / longer than the time limit (t)
        let (u, t) = match rng.below(10) {
            0 | 1 => (*rng.pick(&[1u32, 3, 8]), 0),
            2 => (0, *rng.pick(&[1u32, 2, 5])),
            3 => (2, 2),
            _ => (0, 0),
        };
        let mut scripts = vec![];
        for q in &qids {
            let backlog = w.state.get_queue(*q).map(|x| x.info().backlog()).unwrap_or(1) as usize;
            let s = gen_script(w, rng, backlog.min(8) + 1, p_fail);
            scripts.push((*q, s));
        }
        Op::Tick { k, u, t, scripts }
    } else if r < t_try {
        let q = pick_q(rng);
        let mwpa = w.state.get_queue(q).map(|x| x.info().max_workers_per_alloc()).unwrap_or(1);
        let sn = *rng.pick(&[0u32, 0, 1, 2, 3, 5, 8, 20, 1_000_000]);
        let mn = *rng.pick(&[0u32, 0, 0, 0, 1, 2, 5]);
        let mnw = if mn == 0 && rng.chance(2, 3) {
            0
        } else {
            let over = if rng.chance(1, 12) { mwpa + 1 } else { mwpa };
            *rng.pick(&[0u32, 1.min(mwpa), 2.min(mwpa), 2.min(mwpa), 3.min(mwpa), mwpa, mwpa, over])
        };
        let script = gen_script(w, rng, 7, p_fail);
        Op::Try { q, sn, mn, mnw, script }
    } else if r < t_ref {
        let mood = match (style, rng.below(10)) {
            (3, 0..=4) => Mood::Errors,
            (3, 5) => Mood::WholeErr,
            (_, 0..=3) => Mood::Steady,
            (_, 4..=5) => Mood::Progress,
            (_, 6) => Mood::Chaos,
            (_, 7) => Mood::Errors,
            (_, 8) => Mood::WholeErr,
            _ => Mood::Progress,
        };
        Op::Refresh { plan: None, mood }
    } else if r < t_lost {
        let connect = r < t_conn;
        // choose an allocation
        let known: Vec<&AllocView> = allocs.iter().collect();
        let (a, av): (String, Option<&AllocView>) = if known.is_empty() || rng.chance(1, 12) {
            ((900 + rng.below(5)).to_string(), None)
        } else {
            let act: Vec<&&AllocView> = known.iter().filter(|a| a.active).collect();
            let av = if !act.is_empty() && rng.chance(5, 6) { **rng.pick(&act) } else { *rng.pick(&known) };
            (av.id.clone(), Some(av))
        };
        let fresh = |w: &mut World| {
            let id = w.next_worker;
            w.next_worker += 1;
            id
        };
        let wid = match av {
            None => fresh(w),
            Some(av) => {
                let c = rng.below(100);
                if connect {
                    if c < 60 {
                        fresh(w)
                    } else if c < 75 && !av.connected.is_empty() {
                        *rng.pick(&av.connected)
                    } else if c < 92 && !av.lost.is_empty() {
                        *rng.pick(&av.lost)
                    } else if w.next_worker > 1 {
                        rng.range(1, (w.next_worker - 1) as u64) as u32
                    } else {
                        fresh(w)
                    }
                } else if c < 60 && !av.connected.is_empty() {
                    *rng.pick(&av.connected)
                } else if c < 80 {
                    fresh(w)
                } else if c < 90 && !av.lost.is_empty() {
                    *rng.pick(&av.lost)
                } else if w.next_worker > 1 {
                    rng.range(1, (w.next_worker - 1) as u64) as u32
                } else {
                    fresh(w)
                }
            }
        };
        if connect { Op::Conn { w: wid, a } } else { Op::Lost { w: wid, a, crashed: rng.chance(2, 5) } }
    } else if r < 77 {
        Op::Job
    } else if r < 81 {
        Op::Pause(pick_q(rng))
    } else if r < 87 {
        Op::Resume(pick_q(rng))
    } else if r < 89 {
        Op::Rmq(pick_q(rng), rng.chance(1, 2))
    } else if r < 91 && qids.len() < 3 {
        gen_addq(rng)
    } else {
        Op::Adv(*rng.pick(&[600u64, 600, 600, 1800, 3600, 3600, 7200]))
    }
}

fn gen_trace(rt: &tokio::runtime::Runtime, id: u64, rng: &mut Rng, thorough: bool, out: &mut String) {
    let mut trng = rng.fork();
    let style = trng.below(4);
    let mut w = rt.block_on(World::new(id));
    let n_ops = if thorough { trng.range(10, 140) } else { trng.range(10, 100) };
    let _ = writeln!(out, "TRACE {id} style{style}");
    let _ = writeln!(out, "C quantum {QUANTUM}");
    let mut ops_done = 0;
    let n_init = if trng.chance(1, 4) { 2 } else { 1 };
    let mut pending: VecDeque<Op> = (0..n_init).map(|_| gen_addq(&mut trng)).collect();
    while ops_done < n_ops {
        let op = match pending.pop_front() {
            Some(o) => o,
            None => {
                let o = gen_op(&mut w, &mut trng, style);
                // status-error streaks need many consecutive refreshes
                if let Op::Refresh { mood, .. } = &o {
                    if matches!(mood, Mood::Errors | Mood::WholeErr) && trng.chance(1, 3) {
                        let m = *mood;
                        for _ in 0..trng.range(5, 24) {
                            pending.push_back(Op::Refresh { plan: None, mood: m });
                        }
                    }
                }
                o
            }
        };
        let fb = op_fallback(&op);
        let (line, outs, panicked) = run_op(rt, &mut w, &op, &fb);
        let _ = writeln!(out, "O {line}");
        for l in outs {
            let _ = writeln!(out, "= {l}");
        }
        ops_done += 1;
        if panicked {
            break;
        }
    }
    let _ = writeln!(out, "END");
}

fn replay(rt: &tokio::runtime::Runtime, text: &str) -> String {
    let mut out = String::new();
    let mut w: Option<World> = None;
    let mut dead = false;
    for line in text.lines() {
        if line.starts_with("TRACE ") {
            let _ = writeln!(out, "{line}");
            w = Some(rt.block_on(World::new(7)));
            dead = false;
        } else if line.starts_with("C quantum") {
            let _ = writeln!(out, "C quantum {QUANTUM}");
        } else if line.starts_with("C ") {
            let _ = writeln!(out, "{line}");
        } else if let Some(body) = line.strip_prefix("O ") {
            if dead {
                continue;
            }
            let Some(world) = w.as_mut() else { continue };
            let op = match catch(|| parse_op(body)) {
                Ok(o) => o,
                Err(_) => continue,
            };
            let fb = op_fallback(&op);
            let (l, outs, panicked) = run_op(rt, world, &op, &fb);
            let _ = writeln!(out, "O {l}");
            for o in outs {
                let _ = writeln!(out, "= {o}");
            }
            if panicked {
                dead = true;
            }
        } else if line == "END" {
            let _ = writeln!(out, "END");
            w = None;
        }
    }
    out
}

fn main() {
    install_panic_hook();
    let args: Vec<String> = std::env::args().collect();
    let get = |name: &str| args.iter().position(|a| a == name).map(|i| args[i + 1].clone());
    let rt = tokio::runtime::Builder::new_current_thread().enable_all().build().unwrap();
    match args.get(1).map(|s| s.as_str()) {
        Some("gen") => {
            let seed: u64 = get("--seed").and_then(|s| s.parse().ok()).unwrap_or(env_u64("VERIF_SEED", 1));
            let count: u64 = get("--count").and_then(|s| s.parse().ok()).unwrap_or(100);
            let tier = get("--tier").unwrap_or("quick".into());
            let outp = get("--out").expect("--out");
            let mut rng = Rng::new(seed);
            let mut out = String::new();
            for i in 0..count {
                gen_trace(&rt, seed * 100000 + i, &mut rng, tier == "thorough", &mut out);
            }
            std::fs::write(outp, out).unwrap();
        }
        Some("replay") => {
            let inp = get("--in").expect("--in");
            let outp = get("--out").expect("--out");
            let text = std::fs::read_to_string(inp).unwrap();
            std::fs::write(outp, replay(&rt, &text)).unwrap();
        }
        _ => {
            eprintln!("usage: hqv-autoalloc gen --seed S --count N --tier T --out FILE | replay --in FILE --out FILE");
            std::process::exit(2);
        }
    }
}
