//! Harness for component `cluster` (C01-C03, C05-C09, C13, C14): the REAL tako core + scheduler,
//! REAL worker state machines and the REAL HyperQueue job layer / client RPC loop, connected by
//! in-memory channels.  The harness decides, one step at a time, which message is delivered, which
//! task future ends how, when the scheduler runs, which worker dies, which client request arrives.
//!
//! Every step is logged as an `O` line (operation + the nondeterministic choices the real code made:
//! the solver's answer, hash-iteration orders) followed by `=` lines (everything observable:
//! client response, journal events, launcher calls, and canonical snapshots of the core, the job
//! layer, the workers and the channels).
use futures::{SinkExt, StreamExt};
use hqv_common::{Rng, env_u64, install_panic_hook, join};
use hyperqueue::common::arraydef::IntArray;
use hyperqueue::common::serverdir::ServerDir;
use hyperqueue::server::client::client_rpc_loop;
use hyperqueue::server::event::journal::EventStreamMessage;
use hyperqueue::server::event::payload::EventPayload;
use hyperqueue::server::event::streamer::{EventFilter, EventFilterFlags};
use hyperqueue::server::job::JobTaskState;
use hyperqueue::transfer::messages::{
    CancelJobResponse, CancelRequest, CloseJobRequest, CloseJobResponse, ForgetJobRequest,
    FromClientMessage, IdSelector, JobDescription, JobSubmitDescription, JobTaskDescription,
    PinMode, StreamEvents, StreamEventsMode, SubmitRequest, SubmitResponse, TaskDescription,
    TaskKind, TaskKindProgram, TaskWithDependencies, ToClientMessage,
};
use hyperqueue::verif::cluster::{HqSim, new_hq_sim, running_context};
use std::cell::RefCell;
use std::fmt::Write as _;
use std::rc::Rc;
use std::sync::Arc;
use std::time::Duration;
use tako::gateway::{
    CrashLimit, LostWorkerReason, ResourceRequest, ResourceRequestEntry, ResourceRequestVariants,
};
use tako::internal::scheduler::SchedulerConfig;
use tako::internal::verif::cluster::{VDown, VEnd, VUp, VUpdate, WorkerSpec};
use tako::program::ProgramDefinition;
use tako::resources::{AllocationRequest, ResourceAmount};
use tako::{JobId, JobTaskId, TaskId, WorkerId};
use tokio::sync::Notify;

const RES_NAMES: [&str; 3] = ["cpus", "gpus", "mem"];

fn tid(t: TaskId) -> String {
    format!("{}.{}", t.job_id(), t.job_task_id())
}
fn tids(ts: &[TaskId]) -> String {
    join(ts.iter().map(|t| tid(*t)), ",")
}
fn sorted_tids(ts: &[TaskId]) -> String {
    let mut v = ts.to_vec();
    v.sort();
    tids(&v)
}
fn parse_tid(s: &str) -> TaskId {
    let (j, t) = s.split_once('.').unwrap();
    TaskId::new(JobId::new(j.parse().unwrap()), JobTaskId::new(t.parse().unwrap()))
}

fn fail_class(msg: &str) -> &'static str {
    if msg.contains("Time limit reached") {
        "timelimit"
    } else if msg.contains("never restart") {
        "neverrestart"
    } else if msg.contains("limit was reached") {
        "crashlimit"
    } else if msg.contains("launch failed") {
        "launch"
    } else if msg.contains("task failed") {
        "task"
    } else {
        "other"
    }
}

fn down_str(m: &VDown) -> String {
    match m {
        VDown::Compute(ts) => format!(
            "compute {}",
            join(
                ts.iter().map(|(t, inst, rv, rq, nodes, tlim)| format!(
                    "{}:{}:{}:{}:{}:t{}",
                    tid(*t),
                    inst,
                    rv.map(|v| v.to_string()).unwrap_or("p".into()),
                    rq,
                    join(nodes.iter(), "+"),
                    *tlim as u32
                )),
                ","
            )
        ),
        VDown::Retract(ts) => format!("retract {}", sorted_tids(ts)),
        VDown::Cancel(ts) => format!("cancel {}", sorted_tids(ts)),
        VDown::NewWorker(w) => format!("newworker {w}"),
        VDown::LostWorker(w) => format!("lostworker {w}"),
        VDown::NewRq(r) => format!("newrq {r}"),
        VDown::Stop => "stop".into(),
        VDown::Other => "other".into(),
    }
}

fn up_str(m: &VUp) -> String {
    match m {
        VUp::Updates(us) => format!(
            "updates {}",
            join(
                {
                    // EnableRequest updates come last, in hash order of the blocked set: sort them
                    let mut us: Vec<&VUpdate> = us.iter().collect();
                    let first_en = us.iter().position(|u| matches!(u, VUpdate::Enable(..))).unwrap_or(us.len());
                    us[first_en..].sort_by_key(|u| match u { VUpdate::Enable(a, b) => (*a, *b), _ => (u32::MAX, u32::MAX) });
                    us
                }.into_iter().map(|u| match u {
                    VUpdate::Finished(t) => format!("fin:{}", tid(*t)),
                    VUpdate::Failed(t, m) => format!("fail:{}:{}", tid(*t), fail_class(m)),
                    VUpdate::Running(t, rv) => format!("run:{}:{}", tid(*t), rv),
                    VUpdate::RunningPrefilled(t, rv) => format!("runp:{}:{}", tid(*t), rv),
                    VUpdate::Reject(t, rv) => format!("rej:{}:{}", tid(*t), rv.map(|v| v.to_string()).unwrap_or("-".into())),
                    VUpdate::Enable(rq, rv) => format!("en:{rq}:{rv}"),
                }),
                ","
            )
        ),
        VUp::RetractResponse(ts) => format!("retractresp {}", tids(ts)),
        VUp::Other => "other".into(),
    }
}

/// Request shape: `n<k>` = multi-node with k nodes, `c<a>g<b>m<c>` = units of cpus / gpus / mem.
#[derive(Clone, Debug, PartialEq)]
struct RqSpec {
    nodes: u32,
    units: [u32; 3],
}
impl RqSpec {
    fn sym(&self) -> String {
        if self.nodes > 0 { format!("n{}", self.nodes) } else { format!("c{}g{}m{}", self.units[0], self.units[1], self.units[2]) }
    }
    fn parse(s: &str) -> RqSpec {
        if let Some(n) = s.strip_prefix('n') {
            return RqSpec { nodes: n.parse().unwrap(), units: [0; 3] };
        }
        let (c, rest) = s[1..].split_once('g').unwrap();
        let (g, m) = rest.split_once('m').unwrap();
        RqSpec { nodes: 0, units: [c.parse().unwrap(), g.parse().unwrap(), m.parse().unwrap()] }
    }
    fn to_rqv(&self) -> ResourceRequestVariants {
        let mut resources = smallvec::SmallVec::new();
        if self.nodes == 0 {
            for (i, u) in self.units.iter().enumerate() {
                if *u > 0 {
                    resources.push(ResourceRequestEntry { resource: RES_NAMES[i].to_string(), policy: AllocationRequest::Compact(ResourceAmount::new_units(*u)) });
                }
            }
        }
        ResourceRequestVariants::new(smallvec::smallvec![ResourceRequest { n_nodes: self.nodes, resources, min_time: Duration::ZERO, weight: Default::default() }])
    }
}

#[derive(Clone, Debug)]
enum Crash {
    Never,
    Max(u16),
    Unlimited,
}
impl Crash {
    fn sym(&self) -> String {
        match self {
            Crash::Never => "never".into(),
            Crash::Max(n) => n.to_string(),
            Crash::Unlimited => "unl".into(),
        }
    }
    fn parse(s: &str) -> Crash {
        match s {
            "never" => Crash::Never,
            "unl" => Crash::Unlimited,
            n => Crash::Max(n.parse().unwrap()),
        }
    }
    fn to_limit(&self) -> CrashLimit {
        match self {
            Crash::Never => CrashLimit::NeverRestart,
            Crash::Max(n) => CrashLimit::MaxCrashes(*n),
            Crash::Unlimited => CrashLimit::Unlimited,
        }
    }
}

fn task_desc(prio: i32, crash: &Crash, tlim: bool) -> TaskDescription {
    TaskDescription {
        kind: TaskKind::ExternalProgram(TaskKindProgram {
            program: ProgramDefinition { args: vec!["true".into()], env: Default::default(), stdout: Default::default(), stderr: Default::default(), stdin: vec![], cwd: "/tmp".into() },
            pin_mode: PinMode::None,
            task_dir: false,
        }),
        time_limit: if tlim { Some(Duration::from_secs(3600)) } else { None },
        priority: prio.into(),
        crash_limit: crash.to_limit(),
    }
}

#[derive(Clone, Debug)]
enum Op {
    Connect { units: [u32; 3], group: u32 },
    Lost { w: u32, reason: u32 },
    Submit { job: Option<u32>, ids: Option<Vec<u32>>, entries: Option<u32>, rq: RqSpec, prio: i32, crash: Crash, tlim: bool, maxfails: Option<u32> },
    SubmitG { job: Option<u32>, rqs: Vec<RqSpec>, tasks: Vec<(u32, u32, i32, Crash, Vec<u32>)>, maxfails: Option<u32> },
    Open { maxfails: Option<u32> },
    Close { job: u32 },
    Cancel { job: u32 },
    Forget { job: u32 },
    DDown { w: u32 },
    DUp { w: u32 },
    Sched,
    End { w: u32, t: TaskId, how: u32 }, // 0 ok, 1 fail, 2 follow stop
    FailNext { w: u32, t: TaskId },
    Timer,
    Prune,
    /// `hq submit --wait`: a new closed job of n equal tasks on a connection of its own, with live
    /// job events requested; the journal flush of this submit is HELD until FlushDone
    SubmitW { n: u32, rq: RqSpec, prio: i32 },
    /// the journal thread answers the held flush of waiting connection k
    FlushDone { k: usize },
    /// what the waiting client k has received so far; closes its connection
    WaitCheck { k: usize },
    /// a prune request on a connection of its own while the journal thread is slow (flush held)
    PruneW,
}

fn opt_u32(o: &Option<u32>) -> String {
    o.map(|x| x.to_string()).unwrap_or("-".into())
}

fn op_sym(o: &Op) -> String {
    match o {
        Op::Connect { units, group } => format!("CONNECT {},{},{} {}", units[0], units[1], units[2], group),
        Op::Lost { w, reason } => format!("LOST {w} {reason}"),
        Op::Submit { job, ids, entries, rq, prio, crash, tlim, maxfails } => format!(
            "SUBMIT {} {} {} {} {} {} {} {}",
            opt_u32(job),
            ids.as_ref().map(|v| join(v.iter(), ",")).unwrap_or("auto".into()),
            opt_u32(entries),
            rq.sym(),
            prio,
            crash.sym(),
            *tlim as u32,
            opt_u32(maxfails)
        ),
        Op::SubmitG { job, rqs, tasks, maxfails } => format!(
            "SUBMITG {} {} {} {}",
            opt_u32(job),
            join(rqs.iter().map(|r| r.sym()), "|"),
            join(tasks.iter().map(|(id, rq, p, c, d)| format!("{}:{}:{}:{}:{}", id, rq, p, c.sym(), join(d.iter(), "+"))), ";"),
            opt_u32(maxfails)
        ),
        Op::Open { maxfails } => format!("OPEN {}", opt_u32(maxfails)),
        Op::Close { job } => format!("CLOSE {job}"),
        Op::Cancel { job } => format!("CANCEL {job}"),
        Op::Forget { job } => format!("FORGET {job}"),
        Op::DDown { w } => format!("DDOWN {w}"),
        Op::DUp { w } => format!("DUP {w}"),
        Op::Sched => "SCHED".into(),
        Op::End { w, t, how } => format!("END {w} {} {}", tid(*t), ["ok", "fail", "stop"][*how as usize]),
        Op::FailNext { w, t } => format!("FAILNEXT {w} {}", tid(*t)),
        Op::Timer => "TIMER".into(),
        Op::Prune => "PRUNE".into(),
        Op::PruneW => "PRUNEW".into(),
        Op::SubmitW { n, rq, prio } => format!("SUBMITW {n} {} {prio}", rq.sym()),
        Op::FlushDone { k } => format!("FLUSHDONE {k}"),
        Op::WaitCheck { k } => format!("WAITCHECK {k}"),
    }
}

fn parse_opt(s: &str) -> Option<u32> {
    if s == "-" { None } else { Some(s.parse().unwrap()) }
}

fn parse_op(line: &str) -> Op {
    let t: Vec<&str> = line.split_whitespace().collect();
    match t[0] {
        "CONNECT" => {
            let u: Vec<u32> = t[1].split(',').map(|x| x.parse().unwrap()).collect();
            Op::Connect { units: [u[0], u[1], u[2]], group: t[2].parse().unwrap() }
        }
        "LOST" => Op::Lost { w: t[1].parse().unwrap(), reason: t[2].parse().unwrap() },
        "SUBMIT" => Op::Submit {
            job: parse_opt(t[1]),
            ids: if t[2] == "auto" { None } else { Some(t[2].split(',').filter(|x| *x != "-").map(|x| x.parse().unwrap()).collect()) },
            entries: parse_opt(t[3]),
            rq: RqSpec::parse(t[4]),
            prio: t[5].parse().unwrap(),
            crash: Crash::parse(t[6]),
            tlim: t[7] == "1",
            maxfails: parse_opt(t[8]),
        },
        "SUBMITG" => Op::SubmitG {
            job: parse_opt(t[1]),
            rqs: t[2].split('|').map(RqSpec::parse).collect(),
            tasks: t[3]
                .split(';')
                .map(|x| {
                    let p: Vec<&str> = x.split(':').collect();
                    (
                        p[0].parse().unwrap(),
                        p[1].parse().unwrap(),
                        p[2].parse().unwrap(),
                        Crash::parse(p[3]),
                        if p[4] == "-" { vec![] } else { p[4].split('+').map(|d| d.parse().unwrap()).collect() },
                    )
                })
                .collect(),
            maxfails: parse_opt(t[4]),
        },
        "OPEN" => Op::Open { maxfails: parse_opt(t[1]) },
        "CLOSE" => Op::Close { job: t[1].parse().unwrap() },
        "CANCEL" => Op::Cancel { job: t[1].parse().unwrap() },
        "FORGET" => Op::Forget { job: t[1].parse().unwrap() },
        "DDOWN" => Op::DDown { w: t[1].parse().unwrap() },
        "DUP" => Op::DUp { w: t[1].parse().unwrap() },
        "SCHED" => Op::Sched,
        "END" => Op::End { w: t[1].parse().unwrap(), t: parse_tid(t[2]), how: match t[3] { "ok" => 0, "fail" => 1, _ => 2 } },
        "FAILNEXT" => Op::FailNext { w: t[1].parse().unwrap(), t: parse_tid(t[2]) },
        "TIMER" => Op::Timer,
        "PRUNE" => Op::Prune,
        "PRUNEW" => Op::PruneW,
        "SUBMITW" => Op::SubmitW { n: t[1].parse().unwrap(), rq: RqSpec::parse(t[2]), prio: t[3].parse().unwrap() },
        "FLUSHDONE" => Op::FlushDone { k: t.get(1).map(|x| x.parse().unwrap()).unwrap_or(0) },
        "WAITCHECK" => Op::WaitCheck { k: t.get(1).map(|x| x.parse().unwrap()).unwrap_or(0) },
        _ => panic!("bad op {line}"),
    }
}

struct H {
    hq: HqSim,
    req_tx: futures::channel::mpsc::UnboundedSender<tako::Result<FromClientMessage>>,
    resp_rx: futures::channel::mpsc::UnboundedReceiver<ToClientMessage>,
    events: Rc<RefCell<Vec<String>>>,
    /// the last prune request the journal thread received: (live jobs, live workers), sorted
    pruned: Rc<RefCell<Option<(Vec<u32>, Vec<u32>)>>>,
    /// hold the next journal flush request (set by SUBMITW) / the held request
    hold_flush: Rc<std::cell::Cell<Option<usize>>>,
    prune_conns: Rc<RefCell<Vec<usize>>>,
    held_flush: Rc<RefCell<Vec<(usize, tokio::sync::oneshot::Sender<()>)>>>,
    /// the connections of the waiting clients (index = k): channels, the job (known once the
    /// response arrived); None = closed
    wait_conns: Vec<Option<(futures::channel::mpsc::UnboundedSender<tako::Result<FromClientMessage>>, futures::channel::mpsc::UnboundedReceiver<ToClientMessage>, Option<u32>)>>,
    /// jobs with a JobCompleted record in the journal
    completed_jobs: Rc<RefCell<Vec<u32>>>,
    launch_seen: std::collections::HashMap<u32, usize>,
    out: String,
    dead: bool,
}

async fn settle() {
    for _ in 0..40 {
        tokio::task::yield_now().await;
    }
}

fn event_str(p: &EventPayload) -> Option<String> {
    Some(match p {
        EventPayload::WorkerConnected(w, _) => format!("wconn {w}"),
        EventPayload::WorkerLost(w, r) => format!("wlost {w} {}", reason_idx(r)),
        EventPayload::Submit { job_id, closed_job, serialized_desc } => {
            let n = serialized_desc.deserialize().map(|r: SubmitRequest| r.submit_desc.task_desc.task_count()).unwrap_or(0);
            format!("submit {job_id} closed={} n={n}", *closed_job as u32)
        }
        EventPayload::JobCompleted(j) => format!("completed {j}"),
        EventPayload::JobOpen(j, _) => format!("open {j}"),
        EventPayload::JobClose(j) => format!("close {j}"),
        EventPayload::JobCancel { job_id, .. } => format!("jobcancel {job_id}"),
        EventPayload::TaskStarted { task_id, instance_id, worker_ids, rv_id } => {
            format!("started {} inst={} w={} rv={}", tid(*task_id), instance_id, join(worker_ids.iter(), "+"), rv_id)
        }
        EventPayload::TaskFinished { task_id } => format!("finished {}", tid(*task_id)),
        EventPayload::TaskFailed { task_id, error } => format!("failed {} {}", tid(*task_id), fail_class(error)),
        EventPayload::TasksCanceled { task_ids } => format!("canceled {}", sorted_tids(task_ids)),
        EventPayload::TasksAborted { task_ids } => format!("aborted {}", sorted_tids(task_ids)),
        _ => return None,
    })
}

fn reason_idx(r: &LostWorkerReason) -> u32 {
    match r {
        LostWorkerReason::Stopped => 0,
        LostWorkerReason::ConnectionLost => 1,
        LostWorkerReason::HeartbeatLost => 2,
        LostWorkerReason::IdleTimeout => 3,
        LostWorkerReason::TimeLimitReached => 4,
    }
}
fn reason_of(i: u32) -> LostWorkerReason {
    match i {
        0 => LostWorkerReason::Stopped,
        1 => LostWorkerReason::ConnectionLost,
        2 => LostWorkerReason::HeartbeatLost,
        3 => LostWorkerReason::IdleTimeout,
        _ => LostWorkerReason::TimeLimitReached,
    }
}

impl H {
    fn new(reserve: u32, max: u32) -> H {
        let config = SchedulerConfig { proactive_filling_reserve: reserve, proactive_filling_max: max, mip_time_limit: Duration::from_secs(20) };
        let mut hq = new_hq_sim(config, 0);
        let (req_tx, req_rx) = futures::channel::mpsc::unbounded::<tako::Result<FromClientMessage>>();
        let (resp_tx, resp_rx) = futures::channel::mpsc::unbounded::<ToClientMessage>();
        let events: Rc<RefCell<Vec<String>>> = Default::default();
        // journal sink: what the journal thread would do with the stream of messages
        let mut journal_rx = std::mem::replace(&mut hq.journal_rx, tokio::sync::mpsc::unbounded_channel().1);
        let ev2 = events.clone();
        let pruned: Rc<RefCell<Option<(Vec<u32>, Vec<u32>)>>> = Default::default();
        let pr2 = pruned.clone();
        let hold_flush: Rc<std::cell::Cell<Option<usize>>> = Default::default();
        let held_flush: Rc<RefCell<Vec<(usize, tokio::sync::oneshot::Sender<()>)>>> = Default::default();
        let completed_jobs: Rc<RefCell<Vec<u32>>> = Default::default();
        let (hold2, held2, comp2) = (hold_flush.clone(), held_flush.clone(), completed_jobs.clone());
        tokio::task::spawn_local(async move {
            while let Some(m) = journal_rx.recv().await {
                match m {
                    EventStreamMessage::Event(e) => {
                        if let EventPayload::JobCompleted(j) = &e.payload {
                            comp2.borrow_mut().push(j.as_num());
                        }
                        if let Some(s) = event_str(&e.payload) {
                            ev2.borrow_mut().push(s);
                        }
                    }
                    EventStreamMessage::FlushJournal(cb) => {
                        if let Some(k) = hold2.take() {
                            // the journal thread is slow: the rest of the server runs meanwhile
                            held2.borrow_mut().push((k, cb));
                            continue;
                        }
                        let _ = cb.send(());
                    }
                    EventStreamMessage::PruneJournal { callback, live_jobs, live_workers } => {
                        let mut js: Vec<u32> = live_jobs.iter().map(|j| j.as_num()).collect();
                        js.sort();
                        let mut ws: Vec<u32> = live_workers.iter().map(|w| w.as_num()).collect();
                        ws.sort();
                        *pr2.borrow_mut() = Some((js, ws));
                        let _ = callback.send(());
                    }
                    EventStreamMessage::ReplayJournal(_) => {}
                }
            }
        });
        // the real client RPC loop over in-memory channels
        let state_ref = hq.state_ref.clone();
        let senders = hq.senders.clone();
        let dir = tempfile::tempdir().unwrap();
        let server_dir = ServerDir::open(dir.path()).unwrap();
        tokio::task::spawn_local(async move {
            let _keep = dir;
            let sink = resp_tx.sink_map_err(|e| tako::Error::from(format!("{e:?}")));
            client_rpc_loop(sink, req_rx, server_dir, state_ref, &senders, Arc::new(Notify::new())).await;
        });
        H { hq, req_tx, resp_rx, events, pruned, hold_flush, prune_conns: Default::default(), held_flush, wait_conns: vec![], completed_jobs, launch_seen: Default::default(), out: String::new(), dead: false }
    }

    async fn client(&mut self, m: FromClientMessage) -> Option<ToClientMessage> {
        self.req_tx.unbounded_send(Ok(m)).ok()?;
        // ForgetJob drops the jobs on a blocking thread: give it real time (up to ~40 s on a loaded
        // machine; the loop ends as soon as the response is there)
        for i in 0..24000 {
            tokio::task::yield_now().await;
            if let Ok(Some(r)) = self.resp_rx.try_next() {
                return Some(r);
            }
            if i > 4000 {
                std::thread::sleep(Duration::from_millis(2));
            } else if i > 100 {
                std::thread::sleep(Duration::from_micros(200));
            }
        }
        None
    }

    fn wid(w: u32) -> WorkerId {
        WorkerId::new(w)
    }

    /// Everything observable after an operation.
    fn observe(&mut self) {
        self.hq.sim.pump();
        for e in self.events.borrow_mut().drain(..) {
            writeln!(self.out, "= EV {e}").unwrap();
        }
        let mut wids: Vec<WorkerId> = self.hq.sim.workers.keys().copied().collect();
        wids.sort();
        for w in &wids {
            let sw = &self.hq.sim.workers[w];
            let l = sw.launcher.borrow();
            let seen = self.launch_seen.entry(w.as_num()).or_insert(0);
            for r in &l.log[*seen..] {
                writeln!(self.out, "= LAUNCH {w} {} inst={} rv={} nodes={} {} alloc={}", tid(r.task_id), r.instance_id, r.rv_id, join(r.node_list.iter(), "+"),
                    if r.ok { "ok" } else { "err" },
                    join(r.allocation.iter().map(|(rid, idx, amount)| format!("{rid}:{amount}:{}", idx.len())), ",")).unwrap();
            }
            *seen = l.log.len();
        }
        let snap = self.hq.sim.snapshot();
        writeln!(self.out, "= CORE flag={} {}", snap.flag as u32,
            join(snap.tasks.iter().map(|t| format!("{}:{}:{}:{}:{}:{}:d{}:c{}", tid(t.id), t.state, t.rq, t.user_priority, t.instance, t.crash_counter, tids(&t.deps), tids(&t.consumers))), " ")).unwrap();
        writeln!(self.out, "= WRK {}", join(snap.workers.iter().map(|w| {
            let a = match (&w.sn, &w.mn) {
                (Some((a, p, f)), _) => format!("sn:a{}:p{}:f{}", tids(a), tids(p), join(f.iter(), "+")),
                (_, Some((t, root))) => format!("mn:{}:{}", tid(*t), *root as u32),
                _ => "?".into(),
            };
            format!("{}:{}:r{}:b{}:g{}:s{}:F{}", w.id, a, join(w.resources.iter(), "+"), join(w.blocked.iter().map(|(a, b)| format!("{a}/{b}")), "+"), w.group, w.stopping as u32, w.free as u32)
        }), " ")).unwrap();
        writeln!(self.out, "= QUE {}", join(snap.queues.iter().map(|q| {
            format!("{}:{}:{}", q.rq, join(q.ready.iter().map(|(p, ids)| format!("{p}={}", tids(ids))), "/"),
                q.prefill.as_ref().map(|(p, ids)| format!("{p}={}", tids(ids))).unwrap_or("-".into()))
        }), " ")).unwrap();
        writeln!(self.out, "= RED {}", join(snap.redirects.iter().map(|(t, w, v)| format!("{}>{w}:{v}", tid(*t))), " ")).unwrap();
        // job layer
        {
            let st = self.hq.state_ref.get();
            let mut jobs: Vec<_> = st.jobs().collect();
            jobs.sort_by_key(|j| j.job_id);
            writeln!(self.out, "= HQ {}", join(jobs.iter().map(|j| {
                let mut ts: Vec<_> = j.tasks.iter().collect();
                ts.sort_by_key(|(id, _)| **id);
                let c = &j.counters;
                format!("{}:{}:{},{},{},{},{}:{}:{}:{}", j.job_id, j.is_open as u32, c.n_running_tasks, c.n_finished_tasks, c.n_failed_tasks, c.n_canceled_tasks, c.n_aborted_tasks,
                    j.completion_date.is_some() as u32, opt_u32(&j.job_desc.max_fails),
                    join(ts.iter().map(|(id, info)| format!("{}{}", id, match info.state {
                        JobTaskState::Waiting => 'W',
                        JobTaskState::Running { .. } => 'R',
                        JobTaskState::Finished { .. } => 'F',
                        JobTaskState::Failed { .. } => 'X',
                        JobTaskState::Canceled { .. } => 'C',
                        JobTaskState::Aborted { .. } => 'A',
                    })), ","))
            }), " ")).unwrap();
        }
        for w in &wids {
            let ws = self.hq.sim.worker_snapshot(*w).unwrap();
            let pend = self.hq.sim.pending_tasks(*w);
            writeln!(self.out, "= WK {w} back={} run={} blk={} fut={} down=[{}] up=[{}]",
                join(ws.backlog.iter().map(|(rq, ts)| format!("{rq}:{}", tids(ts))), "/"),
                join(ws.running.iter().map(|(t, rv)| format!("{}:{rv}", tid(*t))), ","),
                join(ws.blocked.iter().map(|(a, b)| format!("{a}/{b}")), "+"),
                join(pend.iter().map(|(t, s)| format!("{}:{}", tid(*t), s.unwrap_or("-"))), ","),
                join(self.hq.sim.pending_down(*w).iter().map(down_str), " | "),
                join(self.hq.sim.pending_up(*w).iter().map(up_str), " | ")).unwrap();
        }
    }

    fn enabled(&self, o: &Op) -> bool {
        let sim = &self.hq.sim;
        match o {
            Op::Lost { w, .. } => sim.workers.contains_key(&Self::wid(*w)),
            Op::DDown { w } => sim.down_len(Self::wid(*w)) > 0,
            Op::DUp { w } => sim.up_len(Self::wid(*w)) > 0,
            Op::Sched => sim.scheduling_flag(),
            Op::End { w, t, .. } => sim.pending_tasks(Self::wid(*w)).iter().any(|(x, _)| x == t),
            Op::FailNext { w, .. } => sim.workers.contains_key(&Self::wid(*w)),
            Op::SubmitW { .. } | Op::PruneW => self.wait_conns.iter().filter(|c| c.is_some()).count() < 3 && self.hold_flush.get().is_none(),
            Op::FlushDone { k } => self.held_flush.borrow().iter().any(|(x, _)| x == k),
            Op::WaitCheck { k } => matches!(self.wait_conns.get(*k), Some(Some((_, _, Some(_))))),
            _ => true,
        }
    }

    /// Execute one operation on the real system; the `O` line is completed with the witnesses.
    async fn exec(&mut self, o: &Op) -> bool {
        if self.dead {
            return false;
        }
        self.hq.sim.pump();
        if !self.enabled(o) {
            return false;
        }
        let panics_before = hqv_common::PANIC_COUNT.with(|c| c.get());
        let mut oline = format!("O {}", op_sym(o));
        let mut resp_line: Option<String> = None;
        // hash-iteration orders the real code is about to observe
        let orders = self.hq.sim.orders();
        match o {
            Op::Lost { w, .. } => {
                if let Some((_, a, p)) = orders.worker_sets.iter().find(|(id, _, _)| id.as_num() == *w) {
                    write!(oline, " a={} p={}", tids(a), tids(p)).unwrap();
                } else {
                    write!(oline, " a=- p=-").unwrap();
                }
                write!(oline, " t={}", tids(&orders.tasks)).unwrap();
            }
            Op::DDown { w } => {
                write!(oline, " bo={}", join(self.hq.sim.backlog_rq_order(Self::wid(*w)).iter(), ",")).unwrap();
            }
            Op::Sched => {
                write!(oline, " w={} pf={}", join(orders.workers.iter(), ","), join(orders.prefill_sets.iter().map(|(rq, ts)| format!("{rq}:{}", tids(ts))), "/")).unwrap();
            }
            _ => {}
        }
        let res: Result<(), String> = {
            let this = &mut *self;
            let r = std::panic::AssertUnwindSafe(async {
                match o {
                    Op::Connect { units, group } => {
                        let spec = WorkerSpec {
                            resources: units.iter().enumerate().filter(|(_, u)| **u > 0).map(|(i, u)| (RES_NAMES[i].to_string(), *u)).collect(),
                            group: format!("g{group}"),
                        };
                        let w = this.hq.sim.connect_worker(&spec, Some(Box::new(running_context)));
                        resp_line = Some(format!("= W {w}"));
                    }
                    Op::Lost { w, reason } => this.hq.sim.lose_worker(Self::wid(*w), reason_of(*reason)),
                    Op::Submit { job, ids, entries, rq, prio, crash, tlim, maxfails } => {
                        let ids_arr = match ids {
                            None => IntArray::new_empty(),
                            Some(v) => {
                                let mut v = v.clone();
                                v.sort();
                                v.dedup();
                                IntArray::from_sorted_ids(v.into_iter())
                            }
                        };
                        let req = SubmitRequest {
                            job_desc: JobDescription { name: "j".into(), max_fails: *maxfails },
                            submit_desc: JobSubmitDescription {
                                task_desc: JobTaskDescription::Array {
                                    ids: ids_arr,
                                    entries: entries.map(|n| (0..n).map(|i| thin_vec::thin_vec![i as u8]).collect()),
                                    resource_rq: rq.to_rqv(),
                                    task_desc: task_desc(*prio, crash, *tlim),
                                },
                                submit_dir: "/tmp".into(),
                                stream_path: None,
                            },
                            job_id: job.map(JobId::new),
                        };
                        let r = this.client(FromClientMessage::Submit(req, None)).await;
                        resp_line = Some(submit_resp(r));
                    }
                    Op::SubmitG { job, rqs, tasks, maxfails } => {
                        let req = SubmitRequest {
                            job_desc: JobDescription { name: "j".into(), max_fails: *maxfails },
                            submit_desc: JobSubmitDescription {
                                task_desc: JobTaskDescription::Graph {
                                    resource_rqs: rqs.iter().map(|r| r.to_rqv()).collect(),
                                    tasks: tasks
                                        .iter()
                                        .map(|(id, rq, p, c, deps)| TaskWithDependencies {
                                            id: JobTaskId::new(*id),
                                            resource_rq_id: (*rq).into(),
                                            task_desc: task_desc(*p, c, false),
                                            task_deps: deps.iter().map(|d| JobTaskId::new(*d)).collect(),
                                        })
                                        .collect(),
                                },
                                submit_dir: "/tmp".into(),
                                stream_path: None,
                            },
                            job_id: job.map(JobId::new),
                        };
                        let r = this.client(FromClientMessage::Submit(req, None)).await;
                        resp_line = Some(submit_resp(r));
                    }
                    Op::Open { maxfails } => {
                        let r = this.client(FromClientMessage::OpenJob(JobDescription { name: "o".into(), max_fails: *maxfails })).await;
                        resp_line = Some(match r {
                            Some(ToClientMessage::OpenJobResponse(r)) => format!("= RESP open {}", r.job_id),
                            other => format!("= RESP open ?{}", other.is_some()),
                        });
                    }
                    Op::Close { job } => {
                        let r = this.client(FromClientMessage::CloseJob(CloseJobRequest { selector: IdSelector::Specific(IntArray::from_id(*job)) })).await;
                        resp_line = Some(match r {
                            Some(ToClientMessage::CloseJobResponse(v)) => format!("= RESP close {}", join(v.iter().map(|(_, r)| match r {
                                CloseJobResponse::Closed => "closed",
                                CloseJobResponse::InvalidJob => "invalid",
                                CloseJobResponse::AlreadyClosed => "already",
                            }), ",")),
                            other => format!("= RESP close ?{}", other.is_some()),
                        });
                    }
                    Op::Cancel { job } => {
                        let r = this.client(FromClientMessage::Cancel(CancelRequest { selector: IdSelector::Specific(IntArray::from_id(*job)), reason: None })).await;
                        resp_line = Some(match r {
                            Some(ToClientMessage::CancelJobResponse(v)) => format!("= RESP cancel {}", join(v.iter().map(|(_, r)| match r {
                                CancelJobResponse::Canceled(ids, already) => {
                                    let mut ids: Vec<u32> = ids.iter().map(|i| i.as_num()).collect();
                                    ids.sort();
                                    format!("ok:{}:{}", join(ids.iter(), "+"), already)
                                }
                                CancelJobResponse::InvalidJob => "invalid".to_string(),
                                CancelJobResponse::Failed(_) => "failed".to_string(),
                            }), ",")),
                            other => format!("= RESP cancel ?{}", other.is_some()),
                        });
                    }
                    Op::Forget { job } => {
                        use hyperqueue::client::status::Status;
                        let r = this.client(FromClientMessage::ForgetJob(ForgetJobRequest {
                            selector: IdSelector::Specific(IntArray::from_id(*job)),
                            filter: vec![Status::Finished, Status::Failed, Status::Canceled, Status::Aborted],
                        })).await;
                        resp_line = Some(match r {
                            Some(ToClientMessage::ForgetJobResponse(f)) => format!("= RESP forget {} {}", f.forgotten, f.ignored),
                            other => format!("= RESP forget ?{}", other.is_some()),
                        });
                    }
                    Op::DDown { w } => {
                        let m = this.hq.sim.deliver_down(Self::wid(*w));
                        resp_line = Some(format!("= DOWN {w} {}", m.as_ref().map(down_str).unwrap_or("-".into())));
                    }
                    Op::DUp { w } => {
                        let m = this.hq.sim.deliver_up(Self::wid(*w));
                        resp_line = Some(format!("= UP {w} {}", m.as_ref().map(up_str).unwrap_or("-".into())));
                    }
                    Op::Sched => {
                        let sol = this.hq.sim.schedule();
                        write!(oline, " sn={} mn={} opt={}",
                            join(sol.sn.iter().map(|((rq, rv), ws)| format!("{rq}/{rv}:{}", join(ws.iter().map(|(w, c)| format!("{w}={c}")), "+"))), ";"),
                            join(sol.mn.iter().map(|((rq, rv), sets)| format!("{rq}/{rv}:{}", join(sets.iter().map(|s| join(s.iter(), "+")), "&"))), ";"),
                            sol.is_optimal as u32).unwrap();
                    }
                    Op::End { w, t, how } => {
                        let end = match how {
                            0 => VEnd::Finished,
                            1 => VEnd::Failed("task failed".into()),
                            _ => VEnd::FollowStop,
                        };
                        this.hq.sim.end_task(Self::wid(*w), *t, end);
                    }
                    Op::FailNext { w, t } => {
                        if let Some(sw) = this.hq.sim.workers.get(&Self::wid(*w)) {
                            sw.launcher.borrow_mut().fail_next.push(*t);
                        }
                    }
                    Op::Timer => {
                        tokio::time::advance(Duration::from_secs(3601)).await;
                    }
                    Op::SubmitW { n, rq, prio } => {
                        let (wtx, wrx) = futures::channel::mpsc::unbounded::<tako::Result<FromClientMessage>>();
                        let (rtx, rrx) = futures::channel::mpsc::unbounded::<ToClientMessage>();
                        let state_ref = this.hq.state_ref.clone();
                        let senders = this.hq.senders.clone();
                        let dir = tempfile::tempdir().unwrap();
                        let server_dir = ServerDir::open(dir.path()).unwrap();
                        tokio::task::spawn_local(async move {
                            let _keep = dir;
                            let sink = rtx.sink_map_err(|e| tako::Error::from(format!("{e:?}")));
                            client_rpc_loop(sink, wrx, server_dir, state_ref, &senders, Arc::new(Notify::new())).await;
                        });
                        let req = SubmitRequest {
                            job_desc: JobDescription { name: "w".into(), max_fails: None },
                            submit_desc: JobSubmitDescription {
                                task_desc: JobTaskDescription::Array {
                                    ids: IntArray::from_sorted_ids(0..*n),
                                    entries: None,
                                    resource_rq: rq.to_rqv(),
                                    task_desc: task_desc(*prio, &Crash::Unlimited, false),
                                },
                                submit_dir: "/tmp".into(),
                                stream_path: None,
                            },
                            job_id: None,
                        };
                        let stream = StreamEvents { mode: StreamEventsMode::LiveEvents, enable_worker_overviews: false, filter: EventFilter::new(None, EventFilterFlags::JOB_EVENTS) };
                        let k = this.wait_conns.len();
                        this.hold_flush.set(Some(k));
                        let _ = wtx.unbounded_send(Ok(FromClientMessage::Submit(req, Some(stream))));
                        this.wait_conns.push(Some((wtx, rrx, None)));
                        resp_line = Some(format!("= RESP submitw pending {k}"));
                    }
                    Op::FlushDone { k } => {
                        let pos = this.held_flush.borrow().iter().position(|(x, _)| x == k);
                        if let Some(pos) = pos {
                            let (_, cb) = this.held_flush.borrow_mut().remove(pos);
                            let _ = cb.send(());
                        }
                        settle().await;
                        let mut line = "= RESP submit ?false".to_string();
                        if this.prune_conns.borrow().contains(k) {
                            let l = |v: &Vec<u32>| if v.is_empty() { "-".to_string() } else { join(v.iter(), ",") };
                            line = match this.pruned.borrow().as_ref() {
                                Some((js, ws)) => format!("= PRUNE late jobs={} workers={}", l(js), l(ws)),
                                None => "= PRUNE late ?".to_string(),
                            };
                            if let Some(c) = this.wait_conns.get_mut(*k) {
                                *c = None;
                            }
                        } else
                        if let Some(Some((_, rrx, job))) = this.wait_conns.get_mut(*k) {
                            if let Ok(Some(r)) = rrx.try_next() {
                                if let ToClientMessage::SubmitResponse(SubmitResponse::Ok { job: j, .. }) = &r {
                                    *job = Some(j.info.id.as_num());
                                }
                                line = submit_resp(Some(r));
                            }
                        }
                        resp_line = Some(line);
                    }
                    Op::WaitCheck { k } => {
                        settle().await;
                        if let Some((_, mut rrx, job)) = this.wait_conns.get_mut(*k).and_then(|c| c.take()) {
                            let job = job.unwrap_or(0);
                            let mut delivered = false;
                            while let Ok(Some(m)) = rrx.try_next() {
                                if let ToClientMessage::Event(e) = &m {
                                    if let EventPayload::JobCompleted(j) = &e.payload {
                                        if j.as_num() == job {
                                            delivered = true;
                                        }
                                    }
                                }
                            }
                            let completed = this.completed_jobs.borrow().contains(&job);
                            resp_line = Some(format!("= WAIT job={job} completed={} delivered={}", completed as u32, delivered as u32));
                        }
                    }
                    Op::PruneW => {
                        // the prune handler takes its snapshot of the live jobs / workers and hands it to
                        // the journal thread WITHOUT yielding in between; a handler that awaits something
                        // there (here: a journal flush, which is being held) sends a stale snapshot
                        let (wtx, wrx) = futures::channel::mpsc::unbounded::<tako::Result<FromClientMessage>>();
                        let (rtx, rrx) = futures::channel::mpsc::unbounded::<ToClientMessage>();
                        let state_ref = this.hq.state_ref.clone();
                        let senders = this.hq.senders.clone();
                        let dir = tempfile::tempdir().unwrap();
                        let server_dir = ServerDir::open(dir.path()).unwrap();
                        tokio::task::spawn_local(async move {
                            let _keep = dir;
                            let sink = rtx.sink_map_err(|e| tako::Error::from(format!("{e:?}")));
                            client_rpc_loop(sink, wrx, server_dir, state_ref, &senders, Arc::new(Notify::new())).await;
                        });
                        *this.pruned.borrow_mut() = None;
                        let k = this.wait_conns.len();
                        this.hold_flush.set(Some(k));
                        let _ = wtx.unbounded_send(Ok(FromClientMessage::PruneJournal));
                        settle().await;
                        let l = |v: &Vec<u32>| if v.is_empty() { "-".to_string() } else { join(v.iter(), ",") };
                        if let Some((js, ws)) = this.pruned.borrow().as_ref() {
                            // the request went through at once (no await before the hand-over)
                            this.hold_flush.set(None);
                            drop((wtx, rrx));
                            resp_line = Some(format!("= PRUNE jobs={} workers={}", l(js), l(ws)));
                        } else {
                            this.wait_conns.push(Some((wtx, rrx, None)));
                            this.prune_conns.borrow_mut().push(k);
                            resp_line = Some(format!("= PRUNE pending {k}"));
                        }
                    }
                    Op::Prune => {
                        *this.pruned.borrow_mut() = None;
                        let r = this.client(FromClientMessage::PruneJournal).await;
                        let l = |v: &Vec<u32>| if v.is_empty() { "-".to_string() } else { join(v.iter(), ",") };
                        resp_line = Some(match (r, this.pruned.borrow().as_ref()) {
                            (Some(ToClientMessage::Finished), Some((js, ws))) => format!("= PRUNE jobs={} workers={}", l(js), l(ws)),
                            (other, p) => format!("= PRUNE ?{} {}", other.is_some(), p.is_some()),
                        });
                    }
                }
                settle().await;
            });
            use futures::FutureExt;
            match r.catch_unwind().await {
                Ok(()) => Ok(()),
                Err(e) => {
                    let msg = if let Some(s) = e.downcast_ref::<&str>() { s.to_string() } else if let Some(s) = e.downcast_ref::<String>() { s.clone() } else { "?".into() };
                    let loc = hqv_common::LAST_PANIC_LOC.with(|l| l.borrow().clone());
                    Err(format!("{} @ {}", msg.replace('\n', " "), loc))
                }
            }
        };
        writeln!(self.out, "{oline}").unwrap();
        if let Some(r) = resp_line {
            writeln!(self.out, "{r}").unwrap();
        }
        let res = match res {
            Ok(()) if hqv_common::PANIC_COUNT.with(|c| c.get()) != panics_before => {
                // a panic inside a spawned task (client RPC loop, task future): tokio swallowed it
                let loc = hqv_common::LAST_PANIC_LOC.with(|l| l.borrow().clone());
                Err(format!("panic in a spawned task @ {loc}"))
            }
            r => r,
        };
        match res {
            Ok(()) => {
                let obs = hqv_common::catch(|| self.observe());
                if let Err(m) = obs {
                    writeln!(self.out, "= PANIC observe {m}").unwrap();
                    self.dead = true;
                }
            }
            Err(m) => {
                // the server (or worker) process would be gone: the history ends here
                let loc = m.rsplit(" @ ").next().unwrap_or("").to_string();
                writeln!(self.out, "= PANIC {loc} | {}", m.chars().take(160).collect::<String>()).unwrap();
                self.dead = true;
            }
        }
        true
    }
}

fn submit_resp(r: Option<ToClientMessage>) -> String {
    match r {
        Some(ToClientMessage::SubmitResponse(SubmitResponse::Ok { job, .. })) => {
            let mut ids: Vec<u32> = job.tasks.iter().map(|(id, _)| id.as_num()).collect();
            ids.sort();
            format!("= RESP submit ok {} n={} ids={}", job.info.id, job.info.n_tasks, join(ids.iter(), ","))
        }
        Some(ToClientMessage::SubmitResponse(SubmitResponse::JobNotOpened)) => "= RESP submit err notopen".into(),
        Some(ToClientMessage::SubmitResponse(SubmitResponse::JobNotFound)) => "= RESP submit err notfound".into(),
        Some(ToClientMessage::SubmitResponse(SubmitResponse::TaskIdAlreadyExists(i))) => format!("= RESP submit err exists {i}"),
        Some(ToClientMessage::SubmitResponse(SubmitResponse::NonUniqueTaskId(i))) => format!("= RESP submit err nonunique {i}"),
        Some(ToClientMessage::SubmitResponse(SubmitResponse::InvalidDependencies(i))) => format!("= RESP submit err invaliddep {i}"),
        // fix F27: a task graph naming a resource request it does not define is refused
        Some(ToClientMessage::Error(e)) if e.contains("undefined resource request") => {
            let id = e.split_whitespace().nth(1).unwrap_or("?").to_string();
            format!("= RESP submit err undefrq {id}")
        }
        // fix F26: a task array whose explicit ids do not match its entries in number is refused
        Some(ToClientMessage::Error(e)) if e.contains("does not match the number of entries") => "= RESP submit err idcount".into(),
        other => format!("= RESP submit ?{}", other.is_some()),
    }
}

// ---------------------------------------------------------------------------------------------
// generation

struct GenCfg {
    steps: u64,
    max_workers: u32,
    mn: bool,
    faults: bool,
}

fn random_rq(rng: &mut Rng, mn: bool) -> RqSpec {
    if mn && rng.chance(1, 8) {
        return RqSpec { nodes: 2, units: [0; 3] };
    }
    match rng.below(10) {
        0..=4 => RqSpec { nodes: 0, units: [1, 0, 0] },
        5..=6 => RqSpec { nodes: 0, units: [2, 0, 0] },
        7 => RqSpec { nodes: 0, units: [1, 1, 0] },
        8 => RqSpec { nodes: 0, units: [4, 0, 0] },
        _ => RqSpec { nodes: 0, units: [3, 0, 0] },
    }
}

fn random_crash(rng: &mut Rng) -> Crash {
    match rng.below(8) {
        0 => Crash::Never,
        1 | 2 => Crash::Max(1),
        3 => Crash::Max(2),
        4 => Crash::Unlimited,
        _ => Crash::Max(5),
    }
}

async fn gen_trace(id: u64, rng: &mut Rng, tier: &str) -> String {
    // focus mode ("prefill pressure"): one request class, many equal tasks, rising priorities, slow
    // message delivery, several workers - reaches the retract / redirect / prefill interleavings
    let focus = rng.chance(2, 5);
    // second focus mode ("multi-node pressure", added after finding F28): few small workers, many equal
    // single-node tasks (prefill), multi-node tasks of rising priority arriving in between, frequent
    // cancels, slow delivery - reaches "multi-node placement while retracts / cancels are in flight"
    let mnfocus = !focus && rng.chance(1, 4);
    let reserve = if focus { *rng.pick(&[0u32, 1, 1]) } else if mnfocus { 0 } else { *rng.pick(&[0u32, 1, 2, 2, 16]) };
    let maxp = if focus || mnfocus { *rng.pick(&[1u32, 2, 3]) } else { *rng.pick(&[1u32, 2, 3, 3, 40]) };
    let cfg = GenCfg {
        steps: if tier == "thorough" { rng.range(40, 260) } else { rng.range(30, 140) },
        max_workers: if focus { rng.range(2, 4) as u32 } else if mnfocus { rng.range(1, 3) as u32 } else { rng.range(1, 4) as u32 },
        mn: mnfocus || (!focus && rng.chance(1, 3)),
        faults: rng.chance(3, 4),
    };
    let deliver_w: u64 = if focus { *rng.pick(&[6u64, 10, 16]) } else if mnfocus { *rng.pick(&[4u64, 8, 12]) } else { 30 };
    let mut last_prio = 0i32;
    let mut h = H::new(reserve, maxp);
    writeln!(h.out, "TRACE {id} cluster").unwrap();
    writeln!(h.out, "C sched {reserve} {maxp}").unwrap();
    let mut jobs: Vec<(u32, bool)> = vec![]; // (job id, open)
    let mut next_job = 1u32;
    let mut n_workers_ever = 0u32;
    // a plausible beginning: a worker and a job
    let mut script: Vec<Op> = vec![];
    if rng.chance(3, 4) {
        script.push(Op::Connect { units: [*rng.pick(&[1u32, 2, 4, 4, 8]), rng.below(3) as u32 / 2, 0], group: 0 });
    }
    if mnfocus && rng.chance(1, 2) {
        // the shape of finding F28 with random variations, then the random walk takes over: a worker
        // filled with equal tasks (the surplus is prefilled), the assigned ones are cancelled, a
        // multi-node task of higher priority arrives (the prefilled tasks are retracted), a scheduler round
        let u = *rng.pick(&[1u32, 1, 2]);
        let sn1 = RqSpec { nodes: 0, units: [1, 0, 0] };
        let mut sc = vec![
            Op::Connect { units: [u, 0, 0], group: 0 },
            Op::Submit { job: None, ids: None, entries: if u > 1 { Some(u) } else { None }, rq: sn1.clone(), prio: 0, crash: Crash::Unlimited, tlim: false, maxfails: None },
            Op::Submit { job: None, ids: None, entries: if rng.chance(1, 2) { Some(2) } else { None }, rq: sn1, prio: 0, crash: Crash::Unlimited, tlim: false, maxfails: None },
            Op::Sched,
        ];
        if rng.chance(1, 2) {
            sc.push(Op::DDown { w: 1 });
            sc.push(Op::DDown { w: 1 });
            if rng.chance(1, 2) {
                sc.push(Op::DUp { w: 1 });
            }
        }
        sc.push(Op::Cancel { job: 1 });
        sc.push(Op::Submit { job: None, ids: None, entries: None, rq: RqSpec { nodes: 1, units: [0; 3] }, prio: 5, crash: Crash::Unlimited, tlim: false, maxfails: None });
        sc.push(Op::Sched);
        sc.reverse();
        script = sc;
    }
    let mut step = 0;
    while step < cfg.steps && !h.dead {
        step += 1;
        let o = if let Some(o) = script.pop() {
            o
        } else {
            h.hq.sim.pump();
            let mut wids: Vec<u32> = h.hq.sim.workers.keys().map(|w| w.as_num()).collect();
            wids.sort();
            let mut cands: Vec<(u64, Op)> = vec![];
            for w in &wids {
                let wid = WorkerId::new(*w);
                if h.hq.sim.down_len(wid) > 0 {
                    cands.push((deliver_w, Op::DDown { w: *w }));
                }
                if h.hq.sim.up_len(wid) > 0 {
                    cands.push((deliver_w, Op::DUp { w: *w }));
                }
                for (t, stop) in h.hq.sim.pending_tasks(wid) {
                    let how = if stop.is_some() { if rng.chance(4, 5) { 2 } else { 0 } } else if cfg.faults && rng.chance(1, 6) { 1 } else { 0 };
                    cands.push((8, Op::End { w: *w, t, how }));
                }
                if cfg.faults {
                    cands.push((1, Op::Lost { w: *w, reason: rng.below(5) as u32 }));
                }
            }
            if h.hq.sim.scheduling_flag() {
                cands.push((25, Op::Sched));
            }
            if (wids.len() as u32) < cfg.max_workers && n_workers_ever < 6 {
                let units0 = if focus { *rng.pick(&[1u32, 1, 2, 2, 4]) } else if mnfocus { *rng.pick(&[1u32, 1, 2]) } else { *rng.pick(&[1u32, 2, 2, 4, 4, 8]) };
                cands.push((if wids.is_empty() { 20 } else if focus { 6 } else { 3 }, Op::Connect { units: [units0, (rng.below(4) == 0) as u32, 0], group: rng.below(2) as u32 }));
            }
            // client requests
            let open_jobs: Vec<u32> = jobs.iter().filter(|(_, o)| *o).map(|(j, _)| *j).collect();
            let submit_w = if jobs.len() < 3 { 10 } else { 2 };
            {
                let job = if !open_jobs.is_empty() && rng.chance(2, 3) { Some(*rng.pick(&open_jobs)) } else if rng.chance(1, 12) { Some(rng.range(1, 4) as u32) } else { None };
                let maxfails = if rng.chance(1, 3) { Some(rng.below(3) as u32) } else { None };
                if rng.chance(2, 3) {
                    let entries = if rng.chance(1, 4) { Some(rng.range(1, 4) as u32) } else { None };
                    let ids = if rng.chance(1, 3) || entries.is_some() && rng.chance(1, 2) {
                        None
                    } else {
                        let start = rng.below(6) as u32;
                        let n = entries.unwrap_or(if focus { rng.range(3, 12) as u32 } else { rng.range(1, 9) as u32 });
                        // malformed stream: now and then more / fewer explicit ids than entries (F26: refused)
                        let n = if entries.is_some() && rng.chance(1, 6) { if n > 1 && rng.chance(1, 2) { n - 1 } else { n + 1 } } else { n };
                        Some((start..start + n).collect())
                    };
                    let (rq, prio) = if focus {
                        // mostly the same class; priorities tend to rise (each rise disposes prefill sets)
                        let rq = if rng.chance(4, 5) { RqSpec { nodes: 0, units: [1, 0, 0] } } else { RqSpec { nodes: 0, units: [2, 0, 0] } };
                        let prio = if rng.chance(1, 2) { last_prio + rng.range(0, 2) as i32 } else { *rng.pick(&[0, 0, 1, 2]) };
                        (rq, prio)
                    } else if mnfocus {
                        if rng.chance(2, 5) {
                            (RqSpec { nodes: *rng.pick(&[1u32, 1, 2]), units: [0; 3] }, last_prio + rng.range(1, 3) as i32)
                        } else {
                            (RqSpec { nodes: 0, units: [1, 0, 0] }, *rng.pick(&[0, 0, 0, 1]))
                        }
                    } else {
                        (random_rq(rng, cfg.mn), *rng.pick(&[0, 0, 0, 1, 2, -1, 5]))
                    };
                    cands.push((if focus { submit_w.max(4) } else { submit_w }, Op::Submit { job, ids, entries, rq, prio, crash: random_crash(rng), tlim: rng.chance(1, 3), maxfails }));
                } else {
                    // small DAG; ids ascending, deps mostly on earlier ids
                    let n = rng.range(2, 7) as u32;
                    let base = rng.below(4) as u32 * 10;
                    let rqs: Vec<RqSpec> = (0..rng.range(1, 2)).map(|_| random_rq(rng, false)).collect();
                    let mut tasks = vec![];
                    for i in 0..n {
                        let mut deps = vec![];
                        for d in 0..i {
                            if rng.chance(1, 3) {
                                deps.push(base + d);
                            }
                        }
                        if rng.chance(1, 25) {
                            deps.push(base + i); // self dependency (invalid)
                        }
                        if rng.chance(1, 25) {
                            deps.push(rng.below(40) as u32); // maybe unknown / maybe a task of an earlier submit
                        }
                        if job.is_some() && rng.chance(1, 8) {
                            // a graph submitted into an existing job: quite likely a task of an EARLIER submit of that
                            // job, in whatever state it is now (finished, failed, cancelled, aborted, still waiting)
                            deps.push(rng.below(4) as u32 * 10 + rng.below(3) as u32);
                        }
                        if i + 1 < n && rng.chance(1, 14) {
                            deps.push(base + i + 1); // a dependency on a task listed LATER in the same submit (must be rejected)
                        }
                        if !deps.is_empty() && rng.chance(1, 8) {
                            let d = deps[rng.below(deps.len() as u64) as usize];
                            deps.push(d); // the same dependency named twice
                        }
                        // malformed stream: now and then a task names a request index the message does not define (F27)
                        let rqi = if rng.chance(1, 40) { rqs.len() as u32 + rng.below(2) as u32 } else { rng.below(rqs.len() as u64) as u32 };
                        tasks.push((base + i, rqi, *rng.pick(&[0, 0, 1, 3]), random_crash(rng), deps));
                    }
                    cands.push((submit_w, Op::SubmitG { job, rqs, tasks, maxfails }));
                }
            }
            if jobs.len() < 3 {
                cands.push((2, Op::Open { maxfails: if rng.chance(1, 3) { Some(rng.below(2) as u32) } else { None } }));
            }
            for (j, open) in &jobs {
                if *open {
                    cands.push((2, Op::Close { job: *j }));
                }
                if cfg.faults || mnfocus {
                    cands.push((if mnfocus { 4 } else { 1 }, Op::Cancel { job: *j }));
                }
                cands.push((1, Op::Forget { job: *j }));
            }
            if rng.chance(1, 40) {
                cands.push((2, Op::Close { job: rng.range(1, 5) as u32 }));
                cands.push((2, Op::Cancel { job: rng.range(1, 5) as u32 }));
            }
            if rng.chance(1, 12) {
                cands.push((2, Op::Prune));
                cands.push((2, Op::PruneW));
            }
            if jobs.len() < 5 && rng.chance(1, 5) {
                cands.push((4, Op::SubmitW { n: rng.range(1, 3) as u32, rq: RqSpec { nodes: 0, units: [1, 0, 0] }, prio: *rng.pick(&[0, 1, 3]) }));
            }
            for (k, _) in h.held_flush.borrow().iter() {
                cands.push((2, Op::FlushDone { k: *k }));
            }
            for (k, c) in h.wait_conns.iter().enumerate() {
                if matches!(c, Some((_, _, Some(_)))) {
                    cands.push((1, Op::WaitCheck { k }));
                }
            }
            if cfg.faults && rng.chance(1, 10) {
                cands.push((2, Op::Timer));
                if let Some(w) = wids.first() {
                    // make the next launch of some queued task fail
                    let snap = h.hq.sim.snapshot();
                    if let Some(t) = snap.tasks.first() {
                        cands.push((3, Op::FailNext { w: *w, t: t.id }));
                    }
                }
            }
            let total: u64 = cands.iter().map(|(w, _)| *w).sum();
            let mut x = rng.below(total.max(1));
            let mut chosen = cands[0].1.clone();
            for (w, o) in cands {
                if x < w {
                    chosen = o;
                    break;
                }
                x -= w;
            }
            if matches!(chosen, Op::PruneW) && rng.chance(1, 2) {
                // something that changes the live set right behind the prune request
                script.push(Op::Open { maxfails: None });
            }
            chosen
        };
        if h.exec(&o).await {
            match &o {
                Op::Connect { .. } => n_workers_ever += 1,
                Op::Submit { prio, job, .. } => {
                    last_prio = last_prio.max(*prio);
                    if job.is_none() {
                        let st = h.hq.state_ref.get();
                        jobs = st.jobs().map(|j| (j.job_id.as_num(), j.is_open)).collect();
                        next_job = jobs.iter().map(|(j, _)| *j).max().unwrap_or(0) + 1;
                    }
                }
                Op::SubmitG { job: None, .. } => {
                    // a new job id is consumed only on success; track from the state
                    let st = h.hq.state_ref.get();
                    jobs = st.jobs().map(|j| (j.job_id.as_num(), j.is_open)).collect();
                    next_job = jobs.iter().map(|(j, _)| *j).max().unwrap_or(0) + 1;
                }
                _ => {
                    let st = h.hq.state_ref.get();
                    jobs = st.jobs().map(|j| (j.job_id.as_num(), j.is_open)).collect();
                }
            }
        }
    }
    let _ = next_job;
    for k in 0..h.wait_conns.len() {
        if !h.dead {
            h.exec(&Op::FlushDone { k }).await;
        }
    }
    // drain phase (half of the traces): no more faults or requests; deliver every message, run the
    // scheduler whenever it asks, let every started task end successfully - until the system is at
    // rest.  The model runner then checks that nothing is left in an in-between state (C02).
    if !h.dead && rng.chance(1, 2) {
        for _ in 0..600 {
            h.hq.sim.pump();
            let mut wids: Vec<u32> = h.hq.sim.workers.keys().map(|w| w.as_num()).collect();
            wids.sort();
            let mut next: Option<Op> = None;
            for w in &wids {
                let wid = WorkerId::new(*w);
                if h.hq.sim.down_len(wid) > 0 {
                    next = Some(Op::DDown { w: *w });
                    break;
                }
                if h.hq.sim.up_len(wid) > 0 {
                    next = Some(Op::DUp { w: *w });
                    break;
                }
            }
            if next.is_none() && h.hq.sim.scheduling_flag() {
                next = Some(Op::Sched);
            }
            if next.is_none() {
                for w in &wids {
                    if let Some((t, stop)) = h.hq.sim.pending_tasks(WorkerId::new(*w)).into_iter().next() {
                        next = Some(Op::End { w: *w, t, how: if stop.is_some() { 2 } else { 0 } });
                        break;
                    }
                }
            }
            match next {
                Some(o) => {
                    if !h.exec(&o).await || h.dead {
                        break;
                    }
                }
                None => break,
            }
        }
    }
    for k in 0..h.wait_conns.len() {
        if !h.dead {
            h.exec(&Op::WaitCheck { k }).await;
        }
    }
    writeln!(h.out, "END").unwrap();
    h.out
}

async fn replay(input: &str) -> String {
    let mut out = String::new();
    let mut h: Option<H> = None;
    let mut header = String::new();
    for line in input.lines() {
        if line.starts_with("TRACE ") {
            header = line.to_string();
            h = None;
        } else if line == "END" {
            if let Some(mut x) = h.take() {
                writeln!(x.out, "END").unwrap();
                out.push_str(&x.out);
            }
        } else if let Some(c) = line.strip_prefix("C sched ") {
            let p: Vec<u32> = c.split_whitespace().map(|x| x.parse().unwrap()).collect();
            let mut nh = H::new(p[0], p[1]);
            writeln!(nh.out, "{header}").unwrap();
            writeln!(nh.out, "{line}").unwrap();
            h = Some(nh);
        } else if let Some(o) = line.strip_prefix("O ") {
            if let Some(x) = h.as_mut() {
                x.exec(&parse_op(o)).await;
            }
        }
    }
    out
}

fn main() {
    install_panic_hook();
    let args: Vec<String> = std::env::args().collect();
    let get = |name: &str| args.iter().position(|a| a == name).map(|i| args[i + 1].clone());
    let rt = tokio::runtime::Builder::new_current_thread().enable_all().start_paused(true).build().unwrap();
    let local = tokio::task::LocalSet::new();
    match args.get(1).map(|s| s.as_str()) {
        Some("gen") => {
            let seed: u64 = get("--seed").and_then(|s| s.parse().ok()).unwrap_or(env_u64("VERIF_SEED", 1));
            let count: u64 = get("--count").and_then(|s| s.parse().ok()).unwrap_or(20);
            let tier = get("--tier").unwrap_or("quick".into());
            let outp = get("--out").expect("--out");
            let mut rng = Rng::new(seed);
            let mut out = String::new();
            for i in 0..count {
                let mut r = rng.fork();
                let s = local.block_on(&rt, gen_trace(seed * 100000 + i, &mut r, &tier));
                out.push_str(&s);
            }
            std::fs::write(outp, out).unwrap();
        }
        Some("replay") => {
            let inp = get("--in").expect("--in");
            let outp = get("--out").expect("--out");
            let text = std::fs::read_to_string(inp).unwrap();
            let s = local.block_on(&rt, replay(&text));
            std::fs::write(outp, s).unwrap();
        }
        _ => {
            eprintln!("usage: hqv-cluster gen --seed S --count N --tier T --out FILE | replay --in FILE --out FILE");
            std::process::exit(2);
        }
    }
}
