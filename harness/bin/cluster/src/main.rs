fn main() {
    println!("hqv-cluster");
}
