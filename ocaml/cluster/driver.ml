(* modelrun-cluster: replays the harness' operations (with their witnesses) on the extracted Coq
   model Cluster_model and prints the model's outputs and snapshots in the harness' format. *)
open Cluster_model

let rec pos_of_int i = if i = 1 then XH else if i land 1 = 0 then XO (pos_of_int (i lsr 1)) else XI (pos_of_int (i lsr 1))
let n_of_int i = if i <= 0 then N0 else Npos (pos_of_int i)
let rec int_of_pos = function XH -> 1 | XO p -> 2 * int_of_pos p | XI p -> (2 * int_of_pos p) + 1
let int_of_n = function N0 -> 0 | Npos p -> int_of_pos p
let z_of_int i = if i = 0 then Z0 else if i > 0 then Zpos (pos_of_int i) else Zneg (pos_of_int (-i))
let int_of_z = function Z0 -> 0 | Zpos p -> int_of_pos p | Zneg p -> - int_of_pos p

let split_on c s = if s = "" then [] else String.split_on_char c s
let words s = List.filter (fun x -> x <> "") (String.split_on_char ' ' s)
let ios = int_of_string
let join sep l = match l with [] -> "-" | _ -> String.concat sep l
let si = string_of_int
let sn n = si (int_of_n n)

let parse_tid s = match String.split_on_char '.' s with [ j; t ] -> (n_of_int (ios j), n_of_int (ios t)) | _ -> failwith ("tid " ^ s)
let tid_s (j, t) = sn j ^ "." ^ sn t
let parse_tids s = if s = "-" || s = "" then [] else List.map parse_tid (String.split_on_char ',' s)
let tids_s l = join "," (List.map tid_s l)
let parse_ints c s = if s = "-" || s = "" then [] else List.map ios (String.split_on_char c s)
let opt_n s = if s = "-" then None else Some (n_of_int (ios s))

(* key=value fields of an O line *)
let kv toks key =
  let pre = key ^ "=" in
  let l = String.length pre in
  match List.find_opt (fun t -> String.length t >= l && String.sub t 0 l = pre) toks with
  | Some t -> String.sub t l (String.length t - l)
  | None -> "-"

let parse_rq s =
  if s.[0] = 'n' then { rq_nodes = n_of_int (ios (String.sub s 1 (String.length s - 1))); rq_res = [ N0; N0; N0 ] }
  else
    (* c<a>g<b>m<c> *)
    let gi = String.index s 'g' and mi = String.index s 'm' in
    let c = ios (String.sub s 1 (gi - 1)) and g = ios (String.sub s (gi + 1) (mi - gi - 1)) and m = ios (String.sub s (mi + 1) (String.length s - mi - 1)) in
    { rq_nodes = N0; rq_res = [ n_of_int (c * 10000); n_of_int (g * 10000); n_of_int (m * 10000) ] }

let parse_crash = function "never" -> CNever | "unl" -> CUnl | n -> CMax (n_of_int (ios n))

let parse_op line =
  let toks = words line in
  match toks with
  | "CONNECT" :: units :: group :: _ ->
      OpConnect (List.map (fun u -> n_of_int (u * 10000)) (parse_ints ',' units), n_of_int (ios group))
  | "LOST" :: w :: reason :: _ -> OpLost (n_of_int (ios w), n_of_int (ios reason), parse_tids (kv toks "a"), parse_tids (kv toks "p"), parse_tids (kv toks "t"))
  | "SUBMIT" :: job :: ids :: entries :: rq :: prio :: crash :: tlim :: mf :: _ ->
      let ids = if ids = "auto" then [] else List.sort_uniq compare (parse_ints ',' ids) in
      OpSubmit (opt_n job, List.map n_of_int ids, opt_n entries, parse_rq rq, z_of_int (ios prio), parse_crash crash, tlim = "1", opt_n mf)
  | "SUBMITG" :: job :: rqs :: tasks :: mf :: _ ->
      let rqs = List.map parse_rq (String.split_on_char '|' rqs) in
      let ts =
        List.map
          (fun t ->
            match String.split_on_char ':' t with
            | [ id; rq; p; c; deps ] ->
                ((((n_of_int (ios id), n_of_int (ios rq)), z_of_int (ios p)), parse_crash c), List.map n_of_int (parse_ints '+' deps))
            | _ -> failwith ("gtask " ^ t))
          (String.split_on_char ';' tasks)
      in
      OpSubmitG (opt_n job, rqs, ts, opt_n mf)
  | "OPEN" :: mf :: _ -> OpOpen (opt_n mf)
  | "CLOSE" :: j :: _ -> OpClose (n_of_int (ios j))
  | "CANCEL" :: j :: _ -> OpCancel (n_of_int (ios j))
  | "FORGET" :: j :: _ -> OpForget (n_of_int (ios j))
  | "DDOWN" :: w :: _ -> OpDDown (n_of_int (ios w), List.map n_of_int (parse_ints ',' (kv toks "bo")))
  | "DUP" :: w :: _ -> OpDUp (n_of_int (ios w))
  | "SCHED" :: _ ->
      let sn_s = kv toks "sn" and mn_s = kv toks "mn" in
      let parse_key k = match String.split_on_char '/' k with [ rq; rv ] -> (n_of_int (ios rq), n_of_int (ios rv)) | _ -> failwith "key" in
      let sol_sn =
        if sn_s = "-" then []
        else
          List.map
            (fun e ->
              match String.split_on_char ':' e with
              | [ k; ws ] ->
                  ( parse_key k,
                    if ws = "-" then []
                    else List.map (fun wc -> match String.split_on_char '=' wc with [ w; c ] -> (n_of_int (ios w), n_of_int (ios c)) | _ -> failwith "wc") (String.split_on_char '+' ws) )
              | _ -> failwith "sn")
            (String.split_on_char ';' sn_s)
      in
      let sol_mn =
        if mn_s = "-" then []
        else
          List.map
            (fun e ->
              match String.split_on_char ':' e with
              | [ k; sets ] ->
                  (parse_key k, if sets = "-" then [] else List.map (fun s -> List.map (fun w -> n_of_int (ios w)) (String.split_on_char '+' s)) (String.split_on_char '&' sets))
              | _ -> failwith "mn")
            (String.split_on_char ';' mn_s)
      in
      let pf = kv toks "pf" in
      let sol_prefill =
        if pf = "-" then []
        else List.map (fun e -> match String.split_on_char ':' e with [ rq; ts ] -> (n_of_int (ios rq), parse_tids ts) | _ -> failwith "pf") (String.split_on_char '/' pf)
      in
      OpSched { sol_sn; sol_mn; sol_workers = List.map n_of_int (parse_ints ',' (kv toks "w")); sol_prefill }
  | "END" :: w :: t :: how :: _ -> OpEnd (n_of_int (ios w), parse_tid t, match how with "ok" -> EndOk | "fail" -> EndFail | _ -> EndFollowStop)
  | "FAILNEXT" :: w :: t :: _ -> OpFailNext (n_of_int (ios w), parse_tid t)
  | "TIMER" :: _ -> OpTimer
  | _ -> failwith ("bad op: " ^ line)

(* ---------- printing, identical to the harness ---------- *)
let fail_s = function FTimeLimit -> "timelimit" | FNeverRestart -> "neverrestart" | FCrashLimit -> "crashlimit" | FLaunch -> "launch" | FTask -> "task"

let compare_tid (a, b) (c, d) = compare (int_of_n a, int_of_n b) (int_of_n c, int_of_n d)

let down_s = function
  | DCompute ts ->
      "compute "
      ^ join ","
          (List.map
             (fun c ->
               Printf.sprintf "%s:%s:%s:%s:%s" (tid_s c.ct_id) (sn c.ct_inst) (match c.ct_rv with Some v -> sn v | None -> "p") (sn c.ct_rq) (join "+" (List.map sn c.ct_nodes)))
             ts)
  | DRetract ids -> "retract " ^ tids_s (List.sort compare_tid ids)
  | DCancel ids -> "cancel " ^ tids_s (List.sort compare_tid ids)
  | DNewWorker w -> "newworker " ^ sn w
  | DLostWorker w -> "lostworker " ^ sn w
  | DNewRq (r, _) -> "newrq " ^ sn r
  | DStop -> "stop"

let up_s = function
  | UUpdates us ->
      "updates "
      ^ join ","
          (List.map
             (function
               | UFinished t -> "fin:" ^ tid_s t
               | UFailed (t, k) -> "fail:" ^ tid_s t ^ ":" ^ fail_s k
               | URunning (t, rv) -> "run:" ^ tid_s t ^ ":" ^ sn rv
               | URunningPrefilled (t, rv) -> "runp:" ^ tid_s t ^ ":" ^ sn rv
               | UReject (t, rv) -> "rej:" ^ tid_s t ^ ":" ^ (match rv with Some v -> sn v | None -> "-")
               | UEnable (rq, rv) -> "en:" ^ sn rq ^ ":" ^ sn rv)
             us)
  | URetractResponse ids -> "retractresp " ^ tids_s ids

let event_s = function
  | EvWConn w -> "wconn " ^ sn w
  | EvWLost (w, r) -> "wlost " ^ sn w ^ " " ^ sn r
  | EvSubmit (j, closed, n) -> Printf.sprintf "submit %s closed=%d n=%s" (sn j) (if closed then 1 else 0) (sn n)
  | EvCompleted j -> "completed " ^ sn j
  | EvOpen j -> "open " ^ sn j
  | EvClose j -> "close " ^ sn j
  | EvJobCancel j -> "jobcancel " ^ sn j
  | EvStarted (t, inst, ws, rv) -> Printf.sprintf "started %s inst=%s w=%s rv=%s" (tid_s t) (sn inst) (join "+" (List.map sn ws)) (sn rv)
  | EvFinished t -> "finished " ^ tid_s t
  | EvFailed (t, k) -> "failed " ^ tid_s t ^ " " ^ fail_s k
  | EvCanceled ts -> "canceled " ^ tids_s (List.sort compare_tid ts)
  | EvAborted ts -> "aborted " ^ tids_s (List.sort compare_tid ts)

let resp_s = function
  | RSubmitOk (j, n, ids) -> Printf.sprintf "RESP submit ok %s n=%s ids=%s" (sn j) (sn n) (join "," (List.map sn ids))
  | RSubmitErr (code, arg) -> (
      match int_of_n code with
      | 0 -> "RESP submit err notopen"
      | 1 -> "RESP submit err notfound"
      | 2 -> "RESP submit err exists " ^ sn arg
      | 3 -> "RESP submit err nonunique " ^ sn arg
      | _ -> "RESP submit err invaliddep " ^ sn arg)
  | ROpen j -> "RESP open " ^ sn j
  | RClose c -> "RESP close " ^ (match int_of_n c with 0 -> "closed" | 1 -> "invalid" | _ -> "already")
  | RCancelOk (ids, already) -> Printf.sprintf "RESP cancel ok:%s:%s" (join "+" (List.map sn ids)) (sn already)
  | RCancelInvalid -> "RESP cancel invalid"
  | RForget (f, i) -> Printf.sprintf "RESP forget %s %s" (sn f) (sn i)

let state_s = function
  | Waiting n -> "W" ^ sn n
  | Assigned (w, rv) -> "A" ^ sn w ^ ":" ^ sn rv
  | Prefilled w -> "P" ^ sn w
  | Retracting w -> "S" ^ sn w
  | Running (w, rv) -> "R" ^ sn w ^ ":" ^ sn rv
  | RunningMN ws -> "M" ^ String.concat "," (List.map sn ws)
  | Finished -> "F"

let res_s l = join "+" (List.map sn l)
let blocked_s l = join "+" (List.map (fun (a, b) -> sn a ^ "/" ^ sn b) l)

let print_snapshot (s : sys) =
  let c = s.s_core in
  Printf.printf "= CORE flag=%d %s\n" (if c.c_flag then 1 else 0)
    (join " "
       (List.map
          (fun t ->
            Printf.sprintf "%s:%s:%s:%d:%s:%s:d%s:c%s" (tid_s t.t_id) (state_s t.t_state) (sn t.t_rq) (int_of_z t.t_prio) (sn t.t_inst) (sn t.t_crash) (tids_s t.t_deps)
              (tids_s t.t_consumers))
          c.c_tasks));
  Printf.printf "= WRK %s\n"
    (join " "
       (List.map
          (fun w ->
            let a = match w.w_assign with Sn (a, p, f) -> Printf.sprintf "sn:a%s:p%s:f%s" (tids_s a) (tids_s p) (res_s f) | Mn (t, root) -> Printf.sprintf "mn:%s:%d" (tid_s t) (if root then 1 else 0) in
            Printf.sprintf "%s:%s:r%s:b%s:gg%s:s%d" (sn w.w_id) a (res_s w.w_res) (blocked_s w.w_blocked) (sn w.w_group) (if w.w_stopping then 1 else 0))
          c.c_workers));
  Printf.printf "= QUE %s\n"
    (join " "
       (List.mapi
          (fun i q ->
            Printf.sprintf "%d:%s:%s" i
              (join "/" (List.map (fun e -> Printf.sprintf "%d=%s" (int_of_z e.qe_prio) (tids_s e.qe_ids)) q.q_ready))
              (match q.q_prefill with Some (p, ids) -> Printf.sprintf "%d=%s" (int_of_z p) (tids_s ids) | None -> "-"))
          c.c_queues));
  Printf.printf "= RED %s\n" (join " " (List.map (fun (t, (w, v)) -> Printf.sprintf "%s>%s:%s" (tid_s t) (sn w) (sn v)) c.c_redirects));
  Printf.printf "= HQ %s\n"
    (join " "
       (List.map
          (fun j ->
            Printf.sprintf "%s:%d:%s,%s,%s,%s,%s:%d:%s:%s" (sn j.j_id) (if j.j_open then 1 else 0) (sn j.j_nrun) (sn j.j_nfin) (sn j.j_nfail) (sn j.j_ncanc) (sn j.j_nabort)
              (if j.j_completed then 1 else 0)
              (match j.j_maxfails with Some m -> sn m | None -> "-")
              (join "," (List.map (fun (id, st) -> sn id ^ (match st with JW -> "W" | JR -> "R" | JF -> "F" | JX -> "X" | JC -> "C" | JA -> "A")) j.j_tasks)))
          s.s_hq.h_jobs));
  List.iter
    (fun p ->
      Printf.printf "= WK %s back=%s run=%s blk=%s fut=%s down=[%s] up=[%s]\n" (sn p.p_id)
        (join "/" (List.filter_map (fun (rq, ts) -> if ts = [] then None else Some (sn rq ^ ":" ^ tids_s (List.map (fun t -> t.wt_id) ts))) p.p_backlog))
        (join "," (List.map (fun (t, rv) -> tid_s t ^ ":" ^ sn rv) p.p_running))
        (blocked_s p.p_blocked)
        (join "," (List.map (fun (t, st) -> tid_s t ^ ":" ^ (match st with None -> "-" | Some SCancel -> "cancel" | Some STimeout -> "timeout")) p.p_futures))
        (join " | " (List.map down_s p.p_down))
        (join " | " (List.map up_s p.p_up)))
    s.s_procs

let print_outputs outs =
  List.iter (function ONewWorker w -> print_endline ("= W " ^ sn w) | OResp r -> print_endline ("= " ^ resp_s r) | ODown (w, m) -> Printf.printf "= DOWN %s %s\n" (sn w) (down_s m) | OUp (w, m) -> Printf.printf "= UP %s %s\n" (sn w) (up_s m) | _ -> ()) outs;
  List.iter (function OEv e -> print_endline ("= EV " ^ event_s e) | _ -> ()) outs;
  let launches = List.filter_map (function OLaunch l -> Some l | _ -> None) outs in
  let launches = List.stable_sort (fun a b -> compare (int_of_n a.l_w) (int_of_n b.l_w)) launches in
  List.iter
    (fun l ->
      let alloc = List.mapi (fun i a -> (i, int_of_n a)) l.l_alloc |> List.filter (fun (_, a) -> a > 0) |> List.map (fun (i, a) -> Printf.sprintf "%d:%d:%d" i a (a / 10000)) in
      Printf.printf "= LAUNCH %s %s inst=%s rv=%s nodes=%s %s alloc=%s\n" (sn l.l_w) (tid_s l.l_t) (sn l.l_inst) (sn l.l_rv) (join "+" (List.map sn l.l_nodes)) (if l.l_ok then "ok" else "err") (join "," alloc))
    launches

let process_trace header lines =
  print_endline header;
  let state = ref None in
  let dead = ref false in
  let nontrivial = ref false in
  let monitors = ref [] in
  List.iter
    (fun line ->
      if String.length line > 2 then
        let body = String.sub line 2 (String.length line - 2) in
        match line.[0] with
        | 'C' -> (
            match words body with
            | [ "sched"; r; m ] -> state := Some (init_sys (n_of_int (ios r)) (n_of_int (ios m)))
            | _ -> ())
        | 'O' when not !dead -> (
            print_endline line;
            match !state with
            | None -> ()
            | Some s -> (
                let o = parse_op body in
                (match o with OpLost _ | OpCancel _ | OpEnd (_, _, (EndFail | EndFollowStop)) | OpFailNext _ | OpTimer -> nontrivial := true | _ -> ());
                match step s o with
                | Ok (s', outs) ->
                    state := Some s';
                    print_outputs outs;
                    print_snapshot s'
                | Disabled ->
                    print_endline "= MODEL-DISABLED";
                    dead := true
                | Panic site ->
                    Printf.printf "= PANIC site=%s\n" (sn site);
                    dead := true))
        | '=' ->
            if String.length body >= 5 && String.sub body 0 5 = "PANIC" then
              monitors := ("M C09 FAIL panic " ^ String.concat "_" (words (String.sub body 5 (min 60 (String.length body - 5))))) :: !monitors
        | _ -> ())
    lines;
  List.iter print_endline (List.rev !monitors);
  if !nontrivial then print_endline "T nontrivial";
  print_endline "END"

let () =
  let header = ref "" and acc = ref [] in
  try
    while true do
      let line = input_line stdin in
      if String.length line >= 6 && String.sub line 0 6 = "TRACE " then begin
        (header := match words line with _ :: id :: _ -> "TRACE " ^ id | _ -> line);
        acc := []
      end
      else if line = "END" then process_trace !header (List.rev !acc)
      else acc := line :: !acc
    done
  with End_of_file -> ()
