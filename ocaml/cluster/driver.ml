(* modelrun-cluster: replays the harness' operations (with their witnesses) on the extracted Coq
   model Cluster_model and prints the model's outputs and snapshots in the harness' format. *)
open Cluster_model

let rec pos_of_int i = if i = 1 then XH else if i land 1 = 0 then XO (pos_of_int (i lsr 1)) else XI (pos_of_int (i lsr 1))
let n_of_int i = if i <= 0 then N0 else Npos (pos_of_int i)
let rec int_of_pos = function XH -> 1 | XO p -> 2 * int_of_pos p | XI p -> (2 * int_of_pos p) + 1
let int_of_n = function N0 -> 0 | Npos p -> int_of_pos p
let z_of_int i = if i = 0 then Z0 else if i > 0 then Zpos (pos_of_int i) else Zneg (pos_of_int (-i))
let int_of_z = function Z0 -> 0 | Zpos p -> int_of_pos p | Zneg p -> - int_of_pos p

let split_on c s = if s = "" then [] else String.split_on_char c s
let words s = List.filter (fun x -> x <> "") (String.split_on_char ' ' s)
let ios = int_of_string
let join sep l = match l with [] -> "-" | _ -> String.concat sep l
let si = string_of_int
let sn n = si (int_of_n n)

let parse_tid s = match String.split_on_char '.' s with [ j; t ] -> (n_of_int (ios j), n_of_int (ios t)) | _ -> failwith ("tid " ^ s)
let tid_s (j, t) = sn j ^ "." ^ sn t
let parse_tids s = if s = "-" || s = "" then [] else List.map parse_tid (String.split_on_char ',' s)
let tids_s l = join "," (List.map tid_s l)
let parse_ints c s = if s = "-" || s = "" then [] else List.map ios (String.split_on_char c s)
let opt_n s = if s = "-" then None else Some (n_of_int (ios s))

(* key=value fields of an O line *)
let kv toks key =
  let pre = key ^ "=" in
  let l = String.length pre in
  match List.find_opt (fun t -> String.length t >= l && String.sub t 0 l = pre) toks with
  | Some t -> String.sub t l (String.length t - l)
  | None -> "-"

let parse_rq s =
  if s.[0] = 'n' then { rq_nodes = n_of_int (ios (String.sub s 1 (String.length s - 1))); rq_res = [ N0; N0; N0 ] }
  else
    (* c<a>g<b>m<c> *)
    let gi = String.index s 'g' and mi = String.index s 'm' in
    let c = ios (String.sub s 1 (gi - 1)) and g = ios (String.sub s (gi + 1) (mi - gi - 1)) and m = ios (String.sub s (mi + 1) (String.length s - mi - 1)) in
    { rq_nodes = N0; rq_res = [ n_of_int (c * 10000); n_of_int (g * 10000); n_of_int (m * 10000) ] }

let parse_crash = function "never" -> CNever | "unl" -> CUnl | n -> CMax (n_of_int (ios n))

let parse_op line =
  let toks = words line in
  match toks with
  | "CONNECT" :: units :: group :: _ ->
      OpConnect (List.map (fun u -> n_of_int (u * 10000)) (parse_ints ',' units), n_of_int (ios group))
  | "LOST" :: w :: reason :: _ -> OpLost (n_of_int (ios w), n_of_int (ios reason), parse_tids (kv toks "a"), parse_tids (kv toks "p"), parse_tids (kv toks "t"))
  | "SUBMIT" :: job :: ids :: entries :: rq :: prio :: crash :: tlim :: mf :: _ ->
      let ids = if ids = "auto" then [] else List.sort_uniq compare (parse_ints ',' ids) in
      OpSubmit (opt_n job, List.map n_of_int ids, opt_n entries, parse_rq rq, z_of_int (ios prio), parse_crash crash, tlim = "1", opt_n mf)
  | "SUBMITG" :: job :: rqs :: tasks :: mf :: _ ->
      let rqs = List.map parse_rq (String.split_on_char '|' rqs) in
      let ts =
        List.map
          (fun t ->
            match String.split_on_char ':' t with
            | [ id; rq; p; c; deps ] ->
                ((((n_of_int (ios id), n_of_int (ios rq)), z_of_int (ios p)), parse_crash c), List.map n_of_int (parse_ints '+' deps))
            | _ -> failwith ("gtask " ^ t))
          (String.split_on_char ';' tasks)
      in
      OpSubmitG (opt_n job, rqs, ts, opt_n mf)
  | "OPEN" :: mf :: _ -> OpOpen (opt_n mf)
  | "CLOSE" :: j :: _ -> OpClose (n_of_int (ios j))
  | "CANCEL" :: j :: _ -> OpCancel (n_of_int (ios j))
  | "FORGET" :: j :: _ -> OpForget (n_of_int (ios j))
  | "PRUNE" :: _ -> OpPrune
  | "PRUNEW" :: _ -> OpPrune      (* the same request on its own connection while the journal flush is held: no await may lie between snapshot and hand-over *)
  | "SUBMITW" :: n :: rq :: prio :: _ ->
      (* `hq submit --wait`: for the state it is a plain submit of a new closed job with ids 0..n-1 *)
      OpSubmit (None, List.init (ios n) n_of_int, None, parse_rq rq, z_of_int (ios prio), CUnl, false, None)
  | "DDOWN" :: w :: _ -> OpDDown (n_of_int (ios w), List.map n_of_int (parse_ints ',' (kv toks "bo")))
  | "DUP" :: w :: _ -> OpDUp (n_of_int (ios w))
  | "SCHED" :: _ ->
      let sn_s = kv toks "sn" and mn_s = kv toks "mn" in
      let parse_key k = match String.split_on_char '/' k with [ rq; rv ] -> (n_of_int (ios rq), n_of_int (ios rv)) | _ -> failwith "key" in
      let sol_sn =
        if sn_s = "-" then []
        else
          List.map
            (fun e ->
              match String.split_on_char ':' e with
              | [ k; ws ] ->
                  ( parse_key k,
                    if ws = "-" then []
                    else List.map (fun wc -> match String.split_on_char '=' wc with [ w; c ] -> (n_of_int (ios w), n_of_int (ios c)) | _ -> failwith "wc") (String.split_on_char '+' ws) )
              | _ -> failwith "sn")
            (String.split_on_char ';' sn_s)
      in
      let sol_mn =
        if mn_s = "-" then []
        else
          List.map
            (fun e ->
              match String.split_on_char ':' e with
              | [ k; sets ] ->
                  (parse_key k, if sets = "-" then [] else List.map (fun s -> List.map (fun w -> n_of_int (ios w)) (String.split_on_char '+' s)) (String.split_on_char '&' sets))
              | _ -> failwith "mn")
            (String.split_on_char ';' mn_s)
      in
      let pf = kv toks "pf" in
      let sol_prefill =
        if pf = "-" then []
        else List.map (fun e -> match String.split_on_char ':' e with [ rq; ts ] -> (n_of_int (ios rq), parse_tids ts) | _ -> failwith "pf") (String.split_on_char '/' pf)
      in
      OpSched { sol_sn; sol_mn; sol_workers = List.map n_of_int (parse_ints ',' (kv toks "w")); sol_prefill }
  | "END" :: w :: t :: how :: _ -> OpEnd (n_of_int (ios w), parse_tid t, match how with "ok" -> EndOk | "fail" -> EndFail | _ -> EndFollowStop)
  | "FAILNEXT" :: w :: t :: _ -> OpFailNext (n_of_int (ios w), parse_tid t)
  | "TIMER" :: _ -> OpTimer
  | _ -> failwith ("bad op: " ^ line)

(* ---------- printing, identical to the harness ---------- *)
let fail_s = function FTimeLimit -> "timelimit" | FNeverRestart -> "neverrestart" | FCrashLimit -> "crashlimit" | FLaunch -> "launch" | FTask -> "task"

let compare_tid (a, b) (c, d) = compare (int_of_n a, int_of_n b) (int_of_n c, int_of_n d)

let down_s = function
  | DCompute ts ->
      "compute "
      ^ join ","
          (List.map
             (fun c ->
               Printf.sprintf "%s:%s:%s:%s:%s:t%d" (tid_s c.ct_id) (sn c.ct_inst) (match c.ct_rv with Some v -> sn v | None -> "p") (sn c.ct_rq) (join "+" (List.map sn c.ct_nodes)) (if c.ct_tlim then 1 else 0))
             ts)
  | DRetract ids -> "retract " ^ tids_s (List.sort compare_tid ids)
  | DCancel ids -> "cancel " ^ tids_s (List.sort compare_tid ids)
  | DNewWorker w -> "newworker " ^ sn w
  | DLostWorker w -> "lostworker " ^ sn w
  | DNewRq (r, _) -> "newrq " ^ sn r
  | DStop -> "stop"

let up_s = function
  | UUpdates us ->
      "updates "
      ^ join ","
          (List.map
             (function
               | UFinished t -> "fin:" ^ tid_s t
               | UFailed (t, k) -> "fail:" ^ tid_s t ^ ":" ^ fail_s k
               | URunning (t, rv) -> "run:" ^ tid_s t ^ ":" ^ sn rv
               | URunningPrefilled (t, rv) -> "runp:" ^ tid_s t ^ ":" ^ sn rv
               | UReject (t, rv) -> "rej:" ^ tid_s t ^ ":" ^ (match rv with Some v -> sn v | None -> "-")
               | UEnable (rq, rv) -> "en:" ^ sn rq ^ ":" ^ sn rv)
             us)
  | URetractResponse ids -> "retractresp " ^ tids_s ids

let event_s = function
  | EvWConn w -> "wconn " ^ sn w
  | EvWLost (w, r) -> "wlost " ^ sn w ^ " " ^ sn r
  | EvSubmit (j, closed, n) -> Printf.sprintf "submit %s closed=%d n=%s" (sn j) (if closed then 1 else 0) (sn n)
  | EvCompleted j -> "completed " ^ sn j
  | EvOpen j -> "open " ^ sn j
  | EvClose j -> "close " ^ sn j
  | EvJobCancel j -> "jobcancel " ^ sn j
  | EvStarted (t, inst, ws, rv) -> Printf.sprintf "started %s inst=%s w=%s rv=%s" (tid_s t) (sn inst) (join "+" (List.map sn ws)) (sn rv)
  | EvFinished t -> "finished " ^ tid_s t
  | EvFailed (t, k) -> "failed " ^ tid_s t ^ " " ^ fail_s k
  | EvCanceled ts -> "canceled " ^ tids_s (List.sort compare_tid ts)
  | EvAborted ts -> "aborted " ^ tids_s (List.sort compare_tid ts)

let resp_s = function
  | RSubmitOk (j, n, ids) -> Printf.sprintf "RESP submit ok %s n=%s ids=%s" (sn j) (sn n) (join "," (List.map sn ids))
  | RSubmitErr (code, arg) -> (
      match int_of_n code with
      | 0 -> "RESP submit err notopen"
      | 1 -> "RESP submit err notfound"
      | 2 -> "RESP submit err exists " ^ sn arg
      | 3 -> "RESP submit err nonunique " ^ sn arg
      | 4 -> "RESP submit err invaliddep " ^ sn arg
      | 5 -> "RESP submit err undefrq " ^ sn arg
      | _ -> "RESP submit err idcount")
  | ROpen j -> "RESP open " ^ sn j
  | RClose c -> "RESP close " ^ (match int_of_n c with 0 -> "closed" | 1 -> "invalid" | _ -> "already")
  | RCancelOk (ids, already) -> Printf.sprintf "RESP cancel ok:%s:%s" (join "+" (List.map sn ids)) (sn already)
  | RCancelInvalid -> "RESP cancel invalid"
  | RForget (f, i) -> Printf.sprintf "RESP forget %s %s" (sn f) (sn i)

let state_s = function
  | Waiting n -> "W" ^ sn n
  | Assigned (w, rv) -> "A" ^ sn w ^ ":" ^ sn rv
  | Prefilled w -> "P" ^ sn w
  | Retracting w -> "S" ^ sn w
  | Running (w, rv) -> "R" ^ sn w ^ ":" ^ sn rv
  | RunningMN ws -> "M" ^ String.concat "," (List.map sn ws)
  | Finished -> "F"

let res_s l = join "+" (List.map sn l)
let blocked_s l = join "+" (List.map (fun (a, b) -> sn a ^ "/" ^ sn b) l)

let print_snapshot (s : sys) =
  let c = s.s_core in
  Printf.printf "= CORE flag=%d %s\n" (if c.c_flag then 1 else 0)
    (join " "
       (List.map
          (fun t ->
            Printf.sprintf "%s:%s:%s:%d:%s:%s:d%s:c%s" (tid_s t.t_id) (state_s t.t_state) (sn t.t_rq) (int_of_z t.t_prio) (sn t.t_inst) (sn t.t_crash) (tids_s t.t_deps)
              (tids_s t.t_consumers))
          c.c_tasks));
  Printf.printf "= WRK %s\n"
    (join " "
       (List.map
          (fun w ->
            let a = match w.w_assign with Sn (a, p, f) -> Printf.sprintf "sn:a%s:p%s:f%s" (tids_s a) (tids_s p) (res_s f) | Mn (t, root) -> Printf.sprintf "mn:%s:%d" (tid_s t) (if root then 1 else 0) in
            (* F: Worker::is_free() - after fix F28 it also requires that no task is being retracted from the worker *)
            let free = worker_is_free w && (not w.w_stopping) && not (retracting_from c w.w_id) in
            Printf.sprintf "%s:%s:r%s:b%s:gg%s:s%d:F%d" (sn w.w_id) a (res_s w.w_res) (blocked_s w.w_blocked) (sn w.w_group) (if w.w_stopping then 1 else 0) (if free then 1 else 0))
          c.c_workers));
  Printf.printf "= QUE %s\n"
    (join " "
       (List.mapi
          (fun i q ->
            Printf.sprintf "%d:%s:%s" i
              (join "/" (List.map (fun e -> Printf.sprintf "%d=%s" (int_of_z e.qe_prio) (tids_s e.qe_ids)) q.q_ready))
              (match q.q_prefill with Some (p, ids) -> Printf.sprintf "%d=%s" (int_of_z p) (tids_s ids) | None -> "-"))
          c.c_queues));
  Printf.printf "= RED %s\n" (join " " (List.map (fun (t, (w, v)) -> Printf.sprintf "%s>%s:%s" (tid_s t) (sn w) (sn v)) c.c_redirects));
  Printf.printf "= HQ %s\n"
    (join " "
       (List.map
          (fun j ->
            Printf.sprintf "%s:%d:%s,%s,%s,%s,%s:%d:%s:%s" (sn j.j_id) (if j.j_open then 1 else 0) (sn j.j_nrun) (sn j.j_nfin) (sn j.j_nfail) (sn j.j_ncanc) (sn j.j_nabort)
              (if j.j_completed then 1 else 0)
              (match j.j_maxfails with Some m -> sn m | None -> "-")
              (join "," (List.map (fun (id, st) -> sn id ^ (match st with JW -> "W" | JR -> "R" | JF -> "F" | JX -> "X" | JC -> "C" | JA -> "A")) j.j_tasks)))
          s.s_hq.h_jobs));
  List.iter
    (fun p ->
      Printf.printf "= WK %s back=%s run=%s blk=%s fut=%s down=[%s] up=[%s]\n" (sn p.p_id)
        (join "/" (List.filter_map (fun (rq, ts) -> if ts = [] then None else Some (sn rq ^ ":" ^ tids_s (List.map (fun t -> t.wt_id) ts))) p.p_backlog))
        (join "," (List.map (fun (t, rv) -> tid_s t ^ ":" ^ sn rv) p.p_running))
        (blocked_s p.p_blocked)
        (join "," (List.map (fun (t, st) -> tid_s t ^ ":" ^ (match st with None -> "-" | Some SCancel -> "cancel" | Some STimeout -> "timeout")) p.p_futures))
        (join " | " (List.map down_s p.p_down))
        (join " | " (List.map up_s p.p_up)))
    s.s_procs

let print_outputs outs =
  List.iter (function ONewWorker w -> print_endline ("= W " ^ sn w) | OResp r -> print_endline ("= " ^ resp_s r) | ODown (w, m) -> Printf.printf "= DOWN %s %s\n" (sn w) (down_s m) | OUp (w, m) -> Printf.printf "= UP %s %s\n" (sn w) (up_s m)
    | OPrune (js, ws) -> let l x = if x = [] then "-" else String.concat "," (List.map sn x) in Printf.printf "= PRUNE jobs=%s workers=%s\n" (l js) (l ws)
    | _ -> ()) outs;
  List.iter (function OEv e -> print_endline ("= EV " ^ event_s e) | _ -> ()) outs;
  let launches = List.filter_map (function OLaunch l -> Some l | _ -> None) outs in
  let launches = List.stable_sort (fun a b -> compare (int_of_n a.l_w) (int_of_n b.l_w)) launches in
  List.iter
    (fun l ->
      let alloc = List.mapi (fun i a -> (i, int_of_n a)) l.l_alloc |> List.filter (fun (_, a) -> a > 0) |> List.map (fun (i, a) -> Printf.sprintf "%d:%d:%d" i a (a / 10000)) in
      Printf.printf "= LAUNCH %s %s inst=%s rv=%s nodes=%s %s alloc=%s\n" (sn l.l_w) (tid_s l.l_t) (sn l.l_inst) (sn l.l_rv) (join "+" (List.map sn l.l_nodes)) (if l.l_ok then "ok" else "err") (join "," alloc))
    launches

(* ---------- parsing the IMPLEMENTATION's snapshot lines into model values ---------- *)
let strip_prefix p s = if String.length s >= String.length p && String.sub s 0 (String.length p) = p then Some (String.sub s (String.length p) (String.length s - String.length p)) else None
let drop1 s = String.sub s 1 (String.length s - 1)

let parse_state toks =
  (* toks: the ':'-separated fields after the task id; returns (state, rest) *)
  match toks with
  | s :: rest when s.[0] = 'W' -> (Waiting (n_of_int (ios (drop1 s))), rest)
  | s :: rv :: rest when s.[0] = 'A' -> (Assigned (n_of_int (ios (drop1 s)), n_of_int (ios rv)), rest)
  | s :: rv :: rest when s.[0] = 'R' -> (Running (n_of_int (ios (drop1 s)), n_of_int (ios rv)), rest)
  | s :: rest when s.[0] = 'P' -> (Prefilled (n_of_int (ios (drop1 s))), rest)
  | s :: rest when s.[0] = 'S' -> (Retracting (n_of_int (ios (drop1 s))), rest)
  | s :: rest when s.[0] = 'M' -> (RunningMN (List.map (fun w -> n_of_int (ios w)) (String.split_on_char ',' (drop1 s))), rest)
  | "F" :: rest -> (Finished, rest)
  | _ -> failwith "state"

let parse_core_line body model_core =
  (* body: "flag=b tasks..." *)
  match words body with
  | flag :: tasks ->
      let tasks = if tasks = [ "-" ] then [] else tasks in
      let ts =
        List.map
          (fun tok ->
            match String.split_on_char ':' tok with
            | id :: rest -> (
                let st, rest = parse_state rest in
                match rest with
                | [ rq; prio; inst; crash; d; c ] ->
                    { t_id = parse_tid id; t_state = st; t_deps = parse_tids (drop1 d); t_consumers = parse_tids (drop1 c); t_rq = n_of_int (ios rq); t_prio = z_of_int (ios prio);
                      t_inst = n_of_int (ios inst); t_crash = n_of_int (ios crash); t_climit = CUnl; t_tlim = false }
                | _ -> failwith ("task " ^ tok))
            | _ -> failwith "task")
          tasks
      in
      { model_core with c_tasks = ts; c_flag = flag = "flag=1" }
  | _ -> model_core

let parse_res s = List.map (fun x -> n_of_int (ios x)) (String.split_on_char '+' s)
let parse_blocked s = if s = "-" then [] else List.map (fun x -> match String.split_on_char '/' x with [ a; b ] -> (n_of_int (ios a), n_of_int (ios b)) | _ -> failwith "blk") (String.split_on_char '+' s)

let parse_wrk_line body =
  let toks = words body in
  let toks = if toks = [ "-" ] then [] else toks in
  List.map
    (fun tok ->
      match String.split_on_char ':' tok with
      | [ id; "sn"; a; p; f; r; b; g; s; _ ] ->
          { w_id = n_of_int (ios id); w_assign = Sn (parse_tids (drop1 a), parse_tids (drop1 p), parse_res (drop1 f)); w_res = parse_res (drop1 r); w_blocked = parse_blocked (drop1 b);
            w_group = n_of_int (ios (String.sub g 2 (String.length g - 2))); w_stopping = s = "s1" }
      | [ id; "mn"; t; root; r; b; g; s; _ ] ->
          { w_id = n_of_int (ios id); w_assign = Mn (parse_tid t, root = "1"); w_res = parse_res (drop1 r); w_blocked = parse_blocked (drop1 b);
            w_group = n_of_int (ios (String.sub g 2 (String.length g - 2))); w_stopping = s = "s1" }
      | _ -> failwith ("wrk " ^ tok))
    toks

let parse_que_line body =
  let toks = words body in
  let toks = if toks = [ "-" ] then [] else toks in
  List.map
    (fun tok ->
      match String.split_on_char ':' tok with
      | [ _rq; ready; pf ] ->
          let entry e = match String.split_on_char '=' e with [ p; ids ] -> (z_of_int (ios p), parse_tids ids) | _ -> failwith "qe" in
          { q_ready = (if ready = "-" then [] else List.map (fun e -> let p, ids = entry e in { qe_prio = p; qe_more = true; qe_ids = ids }) (String.split_on_char '/' ready));
            q_prefill = (if pf = "-" then None else Some (entry pf)) }
      | _ -> failwith ("que " ^ tok))
    toks

let parse_red_line body =
  let toks = words body in
  let toks = if toks = [ "-" ] then [] else toks in
  List.map
    (fun tok ->
      match String.split_on_char '>' tok with
      | [ t; wv ] -> ( match String.split_on_char ':' wv with [ w; v ] -> (parse_tid t, (n_of_int (ios w), n_of_int (ios v))) | _ -> failwith "red")
      | _ -> failwith "red")
    toks

let parse_hq_line body =
  let toks = words body in
  let toks = if toks = [ "-" ] then [] else toks in
  List.map
    (fun tok ->
      match String.split_on_char ':' tok with
      | [ j; op; cnt; comp; mf; tasks ] ->
          let c = List.map (fun x -> n_of_int (ios x)) (String.split_on_char ',' cnt) in
          let tasks =
            if tasks = "-" then []
            else
              List.map
                (fun t ->
                  let l = String.length t in
                  ( n_of_int (ios (String.sub t 0 (l - 1))),
                    match t.[l - 1] with 'W' -> JW | 'R' -> JR | 'F' -> JF | 'X' -> JX | 'C' -> JC | _ -> JA ))
                (String.split_on_char ',' tasks)
          in
          { j_id = n_of_int (ios j); j_open = op = "1"; j_tasks = tasks; j_nrun = List.nth c 0; j_nfin = List.nth c 1; j_nfail = List.nth c 2; j_ncanc = List.nth c 3; j_nabort = List.nth c 4;
            j_completed = comp = "1"; j_maxfails = opt_n mf }
      | _ -> failwith ("hq " ^ tok))
    toks

(* WK line: "<w> back=.. run=.. blk=.. fut=.. down=[..] up=[..]" -> (w, backlog ids, running, futures) *)
let parse_wk_line body =
  let toks = words body in
  match toks with
  | w :: _ ->
      let back = kv toks "back" and run = kv toks "run" and fut = kv toks "fut" in
      let backlog = if back = "-" then [] else List.concat_map (fun e -> match String.split_on_char ':' e with [ _; ids ] -> parse_tids ids | _ -> []) (String.split_on_char '/' back) in
      let running = if run = "-" then [] else List.map (fun e -> match String.split_on_char ':' e with [ t; rv ] -> (parse_tid t, n_of_int (ios rv)) | _ -> failwith "run") (String.split_on_char ',' run) in
      let futs = if fut = "-" then [] else List.map (fun e -> match String.split_on_char ':' e with [ t; st ] -> (parse_tid t, st) | _ -> failwith "fut") (String.split_on_char ',' fut) in
      (n_of_int (ios w), backlog, running, futs)
  | _ -> failwith "wk"

let parse_event body =
  let toks = words body in
  match toks with
  | [ "wconn"; w ] -> Some (EvWConn (n_of_int (ios w)))
  | [ "wlost"; w; r ] -> Some (EvWLost (n_of_int (ios w), n_of_int (ios r)))
  | [ "submit"; j; c; n ] -> Some (EvSubmit (n_of_int (ios j), c = "closed=1", n_of_int (ios (String.sub n 2 (String.length n - 2)))))
  | [ "completed"; j ] -> Some (EvCompleted (n_of_int (ios j)))
  | [ "open"; j ] -> Some (EvOpen (n_of_int (ios j)))
  | [ "close"; j ] -> Some (EvClose (n_of_int (ios j)))
  | [ "jobcancel"; j ] -> Some (EvJobCancel (n_of_int (ios j)))
  | "started" :: t :: _ ->
      let ws = kv toks "w" in
      Some (EvStarted (parse_tid t, n_of_int (ios (kv toks "inst")), (if ws = "-" then [] else List.map (fun w -> n_of_int (ios w)) (String.split_on_char '+' ws)), n_of_int (ios (kv toks "rv"))))
  | [ "finished"; t ] -> Some (EvFinished (parse_tid t))
  | [ "failed"; t; k ] -> Some (EvFailed (parse_tid t, match k with "timelimit" -> FTimeLimit | "neverrestart" -> FNeverRestart | "crashlimit" -> FCrashLimit | "launch" -> FLaunch | _ -> FTask))
  | [ "canceled"; ts ] -> Some (EvCanceled (parse_tids ts))
  | [ "aborted"; ts ] -> Some (EvAborted (parse_tids ts))
  | _ -> None


(* coverage tags: which branches of the model an operation exercises (pre-state + operation + outputs) *)
let st_name = function
  | Waiting _ -> "waiting" | Assigned _ -> "assigned" | Prefilled _ -> "prefilled" | Retracting _ -> "retracting"
  | Running _ -> "running" | RunningMN _ -> "runningmn" | Finished -> "finished"

(* messages appended to the down channels by a step *)
let new_down (s : sys) (s' : sys) : dmsg list =
  List.concat_map
    (fun p' ->
      let before = match find_proc s.s_procs p'.p_id with Some p -> List.length p.p_down | None -> 0 in
      let rec drop n l = if n <= 0 then l else match l with [] -> [] | _ :: t -> drop (n - 1) t in
      drop before p'.p_down)
    s'.s_procs

let tags_of (s : sys) (o : op) (outs : out list) (s' : sys) : string list =
  let c = s.s_core in
  let tg = ref [] in
  let add t = if not (List.mem t !tg) then tg := t :: !tg in
  let task_tag prefix id = match find_task c.c_tasks id with Some t -> add (prefix ^ st_name t.t_state) | None -> add (prefix ^ "unknown") in
  (match o with
  | OpLost (w, reason, _, _, _) -> (
      add (if int_of_n reason = 1 || int_of_n reason = 2 then "lost-failure" else "lost-stop");
      (match find_worker c.c_workers w with
      | Some wk -> (
          match wk.w_assign with
          | Sn (a, p, _) ->
              if p <> [] then add "lost-with-prefilled";
              List.iter (fun id -> task_tag "lost-assigned-set-" id) a
          | Mn (_, root) -> add (if root then "lost-mn-root" else "lost-mn-nonroot"))
      | None -> ());
      List.iter
        (fun t ->
          match t.t_state with
          | Retracting w1 when w1 = w -> add (match find_redirect c.c_redirects t.t_id with Some _ -> "lost-retracting-redirected" | None -> "lost-retracting-noredirect")
          | Running (w1, _) when w1 = w -> (
              match t.t_climit with
              | CNever -> add "lost-running-never-restart"
              | CMax n -> if int_of_n t.t_crash + 1 >= int_of_n n then add "lost-running-crash-limit" else add "lost-running-requeue"
              | CUnl -> add "lost-running-requeue")
          | _ -> ())
        c.c_tasks)
  | OpDUp w -> (
      match find_proc s.s_procs w with
      | Some p -> (
          match p.p_up with
          | UUpdates us :: _ ->
              List.iter
                (function
                  | UFinished t -> task_tag "up-finished-" t
                  | UFailed (t, _) -> task_tag "up-failed-" t
                  | URunning (t, _) -> task_tag "up-running-" t
                  | URunningPrefilled (t, _) -> task_tag "up-runprefilled-" t
                  | UReject (t, rv) -> task_tag (match rv with Some _ -> "up-reject-soft-" | None -> "up-reject-hard-") t
                  | UEnable _ -> add "up-enable")
                us
          | URetractResponse ids :: _ ->
              List.iter
                (fun id ->
                  match find_task c.c_tasks id with
                  | Some t -> (
                      match t.t_state with
                      | Retracting w1 when w1 = w -> add (match find_redirect c.c_redirects id with Some _ -> "rr-redirect" | None -> "rr-requeue")
                      | st -> add ("rr-stale-" ^ st_name st))
                  | None -> add "rr-unknown")
                ids
          | [] -> ())
      | None -> ())
  | OpCancel j ->
      List.iter (fun t -> if fst t.t_id = j then add ("cancel-" ^ st_name t.t_state)) c.c_tasks;
      List.iter (fun t -> if fst t.t_id = j && t.t_consumers <> [] then add "cancel-with-consumers") c.c_tasks
  | OpSubmit (job, ids, entries, _, _, _, _, mf) ->
      add (match job with Some _ -> "submit-into-open" | None -> "submit-new");
      if ids <> [] then add "submit-explicit-ids";
      if entries <> None then add "submit-entries";
      if mf <> None then add "submit-maxfails"
  | OpSubmitG (job, _, ts, _) ->
      add (match job with Some _ -> "graph-into-open" | None -> "graph-new");
      if List.exists (function OResp (RSubmitErr (c, _)) -> int_of_n c = 5 | _ -> false) outs then add "graph-undefined-request-refused";
      let own = List.map (fun g -> let ((((id, _), _), _), _) = g in id) ts in
      List.iter (fun g -> let (_, deps) = g in if deps <> [] then add "graph-deps"; if List.exists (fun d -> not (List.mem d own)) deps then add "graph-dep-on-earlier-submit") ts
  | OpSched _ ->
      List.iter
        (function
          | DRetract _ -> add "sched-retract"
          | DCompute cts ->
              List.iter (fun ct -> if ct.ct_rv = None then add "sched-prefill" else if ct.ct_nodes <> [] then add "sched-mn" else add "sched-assign") cts
          | _ -> ())
        (new_down s s');
      if List.length s'.s_core.c_redirects > List.length c.c_redirects then add "sched-redirect-recorded";
      List.iter
        (fun q ->
          match q.q_ready with
          | e :: _ ->
              let st id = match find_task c.c_tasks id with Some t -> (match t.t_state with Waiting _ -> 0 | _ -> 1) | None -> 2 in
              let nw = List.exists (fun id -> st id = 1) e.qe_ids and w = List.exists (fun id -> st id = 0) e.qe_ids in
              if nw && w then add "sched-top-entry-mixed-retracting-waiting" else if nw then add "sched-top-entry-retracting-only";
              if q.q_prefill <> None then add "sched-with-prefill-set"
          | [] -> ())
        c.c_queues
  | OpEnd (_, _, how) -> add (match how with EndOk -> "end-ok" | EndFail -> "end-fail" | EndFollowStop -> "end-follow-stop")
  | OpForget _ -> if List.length s'.s_hq.h_jobs < List.length s.s_hq.h_jobs then add "forget-done"
  | OpPrune -> add "prune"; if List.exists (fun j -> j.j_open && not (List.exists (fun (_, v) -> v = JW || v = JR) j.j_tasks)) s.s_hq.h_jobs then add "prune-with-idle-open-job"
  | OpTimer -> add "timer"
  | _ -> ());
  List.iter
    (function
      | OEv (EvAborted _) -> add "ev-aborted"
      | OEv (EvFailed (_, FCrashLimit)) -> add "ev-failed-crashlimit"
      | OEv (EvFailed (_, FNeverRestart)) -> add "ev-failed-neverrestart"
      | OEv (EvFailed (_, FLaunch)) -> add "ev-failed-launch"
      | OEv (EvFailed (_, FTimeLimit)) -> add "ev-failed-timelimit"
      | OEv (EvCompleted _) -> add "ev-completed"
      | ODown (_, DCancel _) -> add "down-cancel"
      | _ -> ())
    outs;
  (* max-fails: a failure and an abort of further tasks in the same step *)
  if List.exists (function OEv (EvFailed _) -> true | _ -> false) outs && List.exists (function DCancel _ -> true | _ -> false) (new_down s s') then add "maxfails-cancels-running";
  if List.exists (function OEv (EvFailed _) -> true | _ -> false) outs && List.exists (function OEv (EvAborted _) -> true | _ -> false) outs then add "failed-with-aborts";
  (match o with OpLost _ -> if List.exists (function DRetract _ -> true | _ -> false) (new_down s s') then add "lost-causes-retract" | _ -> ());
  !tg

let process_trace header lines =
  print_endline header;
  let state = ref None in
  let dead = ref false in
  let nontrivial = ref false in
  let monitors = ref [] in
  let add_mon m = if not (List.mem m !monitors) then monitors := m :: !monitors in
  (* implementation-side view *)
  let items = ref [] in
  let item i = items := i :: !items in
  let cur_op = ref None and cur_line = ref "" in
  let icore = ref None and ihq = ref [] in
  let iprocs = ref [] in
  (* per worker: backlog / futures as of the previous step *)
  let prev_wk : (int, tid list * (tid * string) list) Hashtbl.t = Hashtbl.create 8 in
  let cur_wk : (int, tid list * (tid * string) list) Hashtbl.t = Hashtbl.create 8 in
  let job_known : (int, int list) Hashtbl.t = Hashtbl.create 8 in
  let limits = ref [] in
  let dead_tasks = ref [] in
  let f12 = ref false in
  let stepno = ref 0 in
  let tainted = ref [] in
  let covtags = ref [] in
  let prev_core = ref None in
  let pending_resp : (int, string) Hashtbl.t = Hashtbl.create 4 and wait_job : (int, int) Hashtbl.t = Hashtbl.create 4 and completed_model = ref [] in
  let next_conn = ref 0 and flushed : (int, unit) Hashtbl.t = Hashtbl.create 4 in
  let cur_resp = ref "" in
  let check_state () =
    match (!state, !icore) with
    | Some ms, Some c ->
        let isys = { s_core = c; s_hq = { h_jobs = !ihq; h_counter = N0 }; s_procs = !iprocs } in
        (* C05 accounting, per worker; finding F23: a prefilled task started by the worker itself can
           overbook the worker (the server assigned the freed resources concurrently) and the
           saturating counter then drifts *)
        let bad = List.map int_of_n (accounting_bad_workers c) in
        (match !cur_op with
        | Some (OpDUp w) when List.mem (int_of_n w) bad && (try ignore (Str.search_forward (Str.regexp_string "runp:") !cur_resp 0); true with Not_found -> false) ->
            if not (List.mem (int_of_n w) !tainted) then tainted := int_of_n w :: !tainted
        | Some (OpLost (w, _, _, _, _)) -> tainted := List.filter (fun x -> x <> int_of_n w) !tainted
        | _ -> ());
        List.iter
          (fun w ->
            if List.mem w !tainted then add_mon "M C05 KNOWN F23-prefill-start-race-overbooks a prefilled task started by the worker overbooked it; the saturating free-resource counter drifts"
            else add_mon (Printf.sprintf "M C05 FAIL core-invariant-accounting worker=%d step=%d" w !stepno))
          bad;
        let which = int_of_n (core_ok_which c) in
        if which <> 0 then begin
          let names = [| ""; "worker-sets"; "task-place"; "queues-live"; "accounting"; "multinode"; "deps" |] in
          let props = match which with 4 | 5 -> [ "C05" ] | 2 | 3 -> [ "C02"; "C08" ] | 6 -> [ "C03" ] | _ -> [ "C02"; "C05" ] in
          List.iter (fun p -> add_mon (Printf.sprintf "M %s FAIL core-invariant-%s step=%d" p names.(which) !stepno)) props
        end;
        if not (hq_ok isys) then add_mon (Printf.sprintf "M C13 FAIL job-counters step=%d" !stepno);
        (* job layer = core (finding F26, a submit with more explicit ids than entries, used to leave
           phantom tasks here; it is refused since its repair) *)
        if not (hq_core_bijection_ok isys) then add_mon (Printf.sprintf "M C02 FAIL hq-core-bijection step=%d" !stepno);
        if not (single_execution_ok isys) then add_mon (Printf.sprintf "M C06 FAIL two-executions step=%d" !stepno);
        (* C02, "runnable work is not forgotten" (Cluster/Wake.v, findings F30 / F31): while the
           scheduler flag is off and nothing is in flight in the core, no ready task of the top
           priority fits a worker *)
        if not (wake_inv isys) then add_mon (Printf.sprintf "M C02 FAIL runnable-work-forgotten step=%d" !stepno);
        (* C07 (theorem crash_counter_rule as a monitor on the implementation's snapshots): the crash
           counter of a surviving task changes only by +1, only when a worker is lost for a failure
           reason, only for a task that was running *)
        (match !prev_core with
        | Some pc ->
            List.iter
              (fun t ->
                match find_task pc.c_tasks t.t_id with
                | Some t0 ->
                    let d = int_of_n t.t_crash - int_of_n t0.t_crash in
                    let running0 = (match t0.t_state with Running _ | RunningMN _ -> true | _ -> false) in
                    let failure_loss = (match !cur_op with Some (OpLost (_, r, _, _, _)) -> int_of_n r = 1 || int_of_n r = 2 | _ -> false) in
                    if d <> 0 && not (d = 1 && failure_loss && running0) then
                      add_mon (Printf.sprintf "M C07 FAIL crash-counter-rule delta=%d failure-loss=%b was-running=%b" d failure_loss running0)
                | None -> ())
              c.c_tasks
        | None -> ());
        prev_core := Some c;
        (* C02, progress half: when the system is at rest (no message in flight, nothing running, the
           scheduler has nothing to do) no task may be in an in-between state: every task left in the
           core is waiting (for a dependency, or for a worker that can run it) *)
        let at_rest = (not ms.s_core.c_flag) && ms.s_procs <> [] && List.for_all (fun p -> p.p_down = [] && p.p_up = [] && p.p_futures = []) ms.s_procs in
        if at_rest then begin
          if not (List.mem "at-rest" !covtags) then covtags := "at-rest" :: !covtags;
          List.iter
            (fun t -> match t.t_state with
               | Waiting _ -> ()
               | st -> add_mon (Printf.sprintf "M C02 FAIL task-in-limbo-at-rest state=%s" (st_name st)))
            c.c_tasks
        end;
        ignore ms
    | _ -> ()
  in
  let finish_step () =
    (match !icore with Some _ -> check_state () | None -> ());
    Hashtbl.reset prev_wk;
    Hashtbl.iter (fun k v -> Hashtbl.replace prev_wk k v) cur_wk;
    Hashtbl.reset cur_wk;
    icore := None;
    iprocs := []
  in
  List.iter
    (fun line ->
      if String.length line > 2 then
        let body = String.sub line 2 (String.length line - 2) in
        match line.[0] with
        | 'C' -> (
            match words body with
            | [ "sched"; r; m ] -> state := Some (init_sys (n_of_int (ios r)) (n_of_int (ios m)))
            | _ -> ())
        | 'O' ->
            finish_step ();
            incr stepno;
            let o = try Some (parse_op body) with _ -> None in
            cur_op := o;
            cur_line := body;
            cur_resp := "";
            (match o with
            | Some (OpLost (w, reason, _, _, _)) -> item (ILost (w, int_of_n reason = 1 || int_of_n reason = 2))
            | Some (OpEnd (w, t, how)) ->
                let stop = try List.assoc t (snd (Hashtbl.find prev_wk (int_of_n w))) with Not_found -> "?" in
                if how = EndOk || (how = EndFollowStop && stop = "-") then item (IEndOk (w, t))
            | _ -> ());
            let pseudo = match words body with ("FLUSHDONE" | "WAITCHECK") :: _ -> true | _ -> false in
            let is_submitw = match words body with "SUBMITW" :: _ -> true | _ -> false in
            if (not !dead) && pseudo then begin
              (* the held journal flush is answered / the waiting client is asked what it received:
                 no step of the state machine; the specification is that the client that asked to
                 be told receives the completion of its job whenever the job completed *)
              print_endline line;
              let karg = match words body with _ :: k :: _ -> (try ios k with _ -> 0) | _ -> 0 in
              (match (words body, !state) with
              | "FLUSHDONE" :: _, Some s ->
                  (match Hashtbl.find_opt pending_resp karg with Some r -> print_endline r | None -> print_endline "= RESP submit ?false");
                  Hashtbl.remove pending_resp karg;
                  Hashtbl.replace flushed karg ();
                  print_snapshot s
              | "WAITCHECK" :: _, Some s ->
                  (match Hashtbl.find_opt wait_job karg with
                  | Some j ->
                      let c = if List.mem j !completed_model then 1 else 0 in
                      Printf.printf "= WAIT job=%d completed=%d delivered=%d\n" j c c
                  | None -> ());
                  Hashtbl.remove wait_job karg;
                  print_snapshot s
              | _ -> ())
            end
            else
            if not !dead then begin
              print_endline line;
              match (!state, o) with
              | Some s, Some o -> (
                  (match o with OpLost _ | OpCancel _ | OpEnd (_, _, (EndFail | EndFollowStop)) | OpFailNext _ | OpTimer -> nontrivial := true | _ -> ());
                  (* the executable hypothesis of the core-level invariant theorems (RejHyp.v) *)
                  if not (step_fresh s o) then List.iter (fun p -> add_mon (Printf.sprintf "M %s FAIL hypothesis-step_fresh-violated step=%d" p !stepno)) [ "C02"; "C03"; "C05" ];
                  (* hypotheses of the no-panic theorems (C09): the scheduler's answer is well formed
                     ([NoPanicS7.sol_ok]), the request / answer satisfies [NoPanicU0.op_ok] *)
                  (match o with
                   | OpSched sol when s.s_core.c_flag && not (sol_ok s.s_core sol) -> add_mon (Printf.sprintf "M C09 FAIL hypothesis-sol_ok-violated step=%d" !stepno)
                   | OpSched sol when s.s_core.c_flag && not (sched_retract_ok s.s_core sol) -> add_mon (Printf.sprintf "M C09 FAIL hypothesis-sched_retract_ok-violated step=%d" !stepno)
                   | _ -> ());
                  if not (op_ok s o) then add_mon (Printf.sprintf "M C09 FAIL hypothesis-op_ok-violated step=%d" !stepno);
                  match step s o with
                  | Ok (s', outs) ->
                      (* the joint server / worker protocol invariant (NoPanicU0.v), on every state *)
                      if not (proto_ok s') then
                        add_mon (Printf.sprintf "M C09 FAIL protocol-invariant-violated step=%d codes=%s culprits=%s" !stepno
                                   (String.concat "," (List.map sn (proto_why s')))
                                   (String.concat ";" (List.map (fun ((w, t), c) -> sn w ^ ":" ^ tid_s t ^ ":" ^ sn c) (proto_culprits s'))));
                      List.iter (fun t -> if not (List.mem t !covtags) then covtags := t :: !covtags) (tags_of s o (snd (s', outs)) s');
                      state := Some s';
                      List.iter
                        (function
                          | OEv (EvCompleted j) ->
                              completed_model := int_of_n j :: !completed_model;
                              Hashtbl.iter (fun k jj -> if jj = int_of_n j && Hashtbl.mem pending_resp k && not (List.mem "wait-completed-while-flush-held" !covtags) then
                                covtags := "wait-completed-while-flush-held" :: !covtags) wait_job
                          | _ -> ())
                        outs;
                      let outs =
                        if is_submitw then begin
                          (* the response is delivered when the held flush is answered *)
                          let k = !next_conn in
                          incr next_conn;
                          List.iter (function OResp (RSubmitOk (j, _, _) as r) -> Hashtbl.replace pending_resp k ("= " ^ resp_s r); Hashtbl.replace wait_job k (int_of_n j) | _ -> ()) outs;
                          Printf.printf "= RESP submitw pending %d\n" k;
                          if Hashtbl.length wait_job >= 2 && not (List.mem "wait-two-clients" !covtags) then covtags := "wait-two-clients" :: !covtags;
                          if not (List.mem "submit-wait" !covtags) then covtags := "submit-wait" :: !covtags;
                          List.filter (function OResp _ -> false | _ -> true) outs
                        end
                        else outs
                      in
                      print_outputs outs;
                      print_snapshot s'
                  | Disabled ->
                      print_endline "= MODEL-DISABLED";
                      dead := true
                  | Panic site ->
                      Printf.printf "= PANIC site=%s\n" (sn site);
                      dead := true)
              | _ -> ()
            end
        | '=' -> (
            try
              match words body with
              | "PANIC" :: rest -> add_mon ("M C09 FAIL panic " ^ String.concat "_" (List.filteri (fun i _ -> i < 6) rest))
              | "EV" :: _ -> (
                  match parse_event (String.sub body 3 (String.length body - 3)) with
                  | Some e ->
                      item (IEv e);
                      (match e with
                      | EvFailed (t, _) -> dead_tasks := t :: !dead_tasks
                      | EvCanceled ts | EvAborted ts -> dead_tasks := ts @ !dead_tasks
                      | _ -> ())
                  | None -> ())
              | "LAUNCH" :: w :: t :: rest ->
                  let nodes = kv rest "nodes" in
                  item
                    (ILaunch
                       { l_w = n_of_int (ios w); l_t = parse_tid t; l_inst = n_of_int (ios (kv rest "inst")); l_rv = n_of_int (ios (kv rest "rv"));
                         l_nodes = (if nodes = "-" then [] else List.map (fun x -> n_of_int (ios x)) (String.split_on_char '+' nodes)); l_ok = List.mem "ok" rest; l_alloc = [] })
              | [ "RESP"; "cancel"; r ] -> (
                  match (!cur_op, String.split_on_char ':' r) with
                  | Some (OpCancel j), [ "ok"; ids; _ ] -> item (ICancelResp (j, List.map n_of_int (parse_ints '+' ids)))
                  | _ -> ())
              | "RESP" :: "submit" :: "ok" :: j :: _ :: ids :: _ -> (
                  let j = ios j in
                  let all_ids = parse_ints ',' (String.sub ids 4 (String.length ids - 4)) in
                  let known = try Hashtbl.find job_known j with Not_found -> [] in
                  let fresh = List.filter (fun i -> not (List.mem i known)) all_ids in
                  Hashtbl.replace job_known j all_ids;
                  match !cur_op with
                  | Some (OpSubmitG (_, _, ts, _)) ->
                      let tasks = List.map (fun g -> let ((((id, _), _), _), deps) = g in (id, deps)) ts in
                      List.iter (fun (_, deps) -> if List.exists (fun d -> List.mem (n_of_int j, d) !dead_tasks) deps then f12 := true) tasks;
                      item (ISubmitted (n_of_int j, tasks))
                  | _ -> item (ISubmitted (n_of_int j, List.map (fun i -> (n_of_int i, [])) fresh)))
              | "WAIT" :: _ ->
                  let c = kv (words body) "completed" and d = kv (words body) "delivered" in
                  if c = "1" && d = "0" then add_mon ("M C13 FAIL wait-missed-completion " ^ kv (words body) "job");
                  if c = "1" then (if not (List.mem "wait-job-completed-before-check" !covtags) then covtags := "wait-job-completed-before-check" :: !covtags)
              | "UP" :: _ -> cur_resp := body
              | "DOWN" :: w :: "compute" :: ts :: _ ->
                  item (IDownCompute (n_of_int (ios w), List.map (fun e -> parse_tid (List.hd (String.split_on_char ':' e))) (String.split_on_char ',' ts)))
              | "DOWN" :: w :: "cancel" :: ts :: _ -> item (IDownCancel (n_of_int (ios w), parse_tids ts))
              | "DOWN" :: w :: "retract" :: ts :: _ ->
                  let ids = parse_tids ts in
                  let backlog = try fst (Hashtbl.find prev_wk (ios w)) with Not_found -> [] in
                  item (IRetractAck (n_of_int (ios w), List.filter (fun t -> List.mem t backlog) ids))
              | "PRUNE" :: "late" :: rest ->
                  (* a prune request that reached the journal thread only after the held flush was released:
                     its snapshot is stale if a job that is live now is missing (C12: prune must not change
                     what a restart restores) *)
                  let jobs = match List.find_opt (fun x -> String.length x > 5 && String.sub x 0 5 = "jobs=") rest with
                    | Some x -> parse_ints ',' (String.sub x 5 (String.length x - 5))
                    | None -> [] in
                  let live = List.filter_map (fun j -> if j.j_open || List.exists (fun (_, v) -> v = JW || v = JR) j.j_tasks then Some (int_of_n j.j_id) else None) !ihq in
                  (match List.filter (fun j -> not (List.mem j jobs)) live with
                   | [] -> ()
                   | missing -> add_mon (Printf.sprintf "M C12 FAIL prune-live-set-stale live jobs %s are not in the snapshot the journal thread received" (String.concat "," (List.map si missing))))
              | "CORE" :: _ -> (
                  match !state with Some ms -> icore := Some (parse_core_line (String.sub body 5 (String.length body - 5)) ms.s_core) | None -> ())
              | "WRK" :: _ -> ( match !icore with Some c -> icore := Some { c with c_workers = parse_wrk_line (String.sub body 4 (String.length body - 4)) } | None -> ())
              | "QUE" :: _ -> ( match !icore with Some c -> icore := Some { c with c_queues = parse_que_line (String.sub body 4 (String.length body - 4)) } | None -> ())
              | "RED" :: _ -> ( match !icore with Some c -> icore := Some { c with c_redirects = parse_red_line (String.sub body 4 (String.length body - 4)) } | None -> ())
              | "HQ" :: _ ->
                  ihq := parse_hq_line (String.sub body 3 (String.length body - 3));
                  List.iter (fun j -> match j.j_maxfails with Some m -> if not (List.mem_assoc j.j_id !limits) then limits := (j.j_id, m) :: !limits | None -> ()) !ihq
              | "WK" :: _ ->
                  let w, backlog, running, futs = parse_wk_line (String.sub body 3 (String.length body - 3)) in
                  Hashtbl.replace cur_wk (int_of_n w) (backlog, futs);
                  iprocs :=
                    { p_id = w; p_backlog = []; p_running = running; p_alloc = []; p_blocked = []; p_total = []; p_free = []; p_futures = []; p_timers = []; p_failnext = []; p_rqs = []; p_down = []; p_up = [] }
                    :: !iprocs
              | _ -> ()
            with Failure m -> add_mon ("M C09 FAIL driver-parse-error " ^ m))
        | _ -> ())
    lines;
  finish_step ();
  (* trace predicates on the implementation's history *)
  let tr = List.rev !items in
  if not (terminal_once [] tr) then add_mon "M C01 FAIL terminal-outcome-not-unique";
  if not (finish_after_start [] [] tr) then add_mon "M C01 FAIL finish-without-current-start-or-successful-run";
  (* (finding F12 - a dependency on an already failed / cancelled task was dropped and the task started -
     used to be classified as known here; such a submit is refused since its repair) *)
  if not (deps_respected [] [] [] tr) then add_mon "M C03 FAIL dependency-order-violated";
  if not (journal_dep_closed [] [] tr) then begin
    add_mon "M C03 FAIL journal-prefix-would-restart-dependent-of-dead-task";
    (* ... which is also a crash point at which a restart does not reproduce the recorded state (C10) *)
    add_mon "M C10 FAIL journal-prefix-would-restart-dependent-of-dead-task"
  end;
  if not (instances_increase [] tr) then add_mon "M C06 FAIL instance-id-not-increasing";
  if not (no_start_after_giveup [] tr) then begin
    add_mon "M C06 FAIL start-after-retract-ack-or-cancel";
    add_mon "M C08 FAIL start-after-retract-ack-or-cancel"
  end;
  if not (cancel_final [] tr) then add_mon "M C08 FAIL report-after-cancel";
  if not (completed_once [] tr) then add_mon "M C13 FAIL job-completed-twice";
  if not (abort_justified [] !limits [] [] tr) then add_mon "M C14 FAIL abort-without-cause";
  List.iter print_endline (List.rev !monitors);
  if !nontrivial then print_endline "T nontrivial";
  if !f12 then print_endline "T dep-on-dead";
  List.iter (fun t -> print_endline ("T " ^ t)) (List.sort compare !covtags);
  print_endline "END"

let () =
  let header = ref "" and acc = ref [] in
  try
    while true do
      let line = input_line stdin in
      if String.length line >= 6 && String.sub line 0 6 = "TRACE " then begin
        (header := match words line with _ :: id :: _ -> "TRACE " ^ id | _ -> line);
        acc := []
      end
      else if line = "END" then process_trace !header (List.rev !acc)
      else acc := line :: !acc
    done
  with End_of_file -> ()
