(* modelrun-journal: replays the harness' symbolic journal operations on the extracted Coq model
   (Journal_model: restore / prune / gstep / abs), prints the model's outputs in the harness'
   format, and evaluates the C10 / C11 / C12 monitors on the IMPLEMENTATION's outputs. *)
open Journal_model

let rec pos_of_int i = if i = 1 then XH else if i land 1 = 0 then XO (pos_of_int (i lsr 1)) else XI (pos_of_int (i lsr 1))
let n_of_int i = if i = 0 then N0 else Npos (pos_of_int i)
let rec int_of_pos = function XH -> 1 | XO p -> 2 * int_of_pos p | XI p -> 2 * int_of_pos p + 1
let int_of_n = function N0 -> 0 | Npos p -> int_of_pos p
let rec int_of_nat = function O -> 0 | S k -> 1 + int_of_nat k

let split_on c s = List.filter (fun x -> x <> "") (String.split_on_char c s)
let words s = split_on ' ' s
let ios = int_of_string
let soi = string_of_int
let sn x = soi (int_of_n x)
let join sep l = match l with [] -> "-" | _ -> String.concat sep l
let plus l = match l with [] -> "-" | _ -> String.concat "+" (List.map sn l)
let parse_plus s = if s = "-" then [] else List.map (fun x -> n_of_int (ios x)) (String.split_on_char '+' s)
let starts_with p s = String.length s >= String.length p && String.sub s 0 (String.length p) = p
let rec take k l = if k <= 0 then [] else match l with [] -> [] | x :: r -> x :: take (k - 1) r
let rec drop_last d l = take (List.length l - d) l

(* ---------- symbolic events ---------- *)
let crash_s = function CNever -> "n" | CUnlimited -> "u" | CMax k -> "m" ^ sn k
let parse_crash s = if s = "n" then CNever else if s = "u" then CUnlimited else CMax (n_of_int (ios (String.sub s 1 (String.length s - 1))))
let ids_s l = match l with [] -> "-" | _ -> String.concat "," (List.map (fun (j, t) -> sn j ^ "." ^ sn t) l)
let parse_ids s =
  if s = "-" then []
  else List.map (fun x -> match String.split_on_char '.' x with [ a; b ] -> (n_of_int (ios a), n_of_int (ios b)) | _ -> failwith "ids") (String.split_on_char ',' s)
let reason_of_int = function 0 -> RStopped | 1 -> RConnLost | 2 -> RHbLost | 3 -> RIdle | _ -> RTimeLimit
let int_of_reason = function RStopped -> 0 | RConnLost -> 1 | RHbLost -> 2 | RIdle -> 3 | RTimeLimit -> 4

let ev_s = function
  | ESubmit (j, closed, tasks) ->
      (* the array/graph kind is not part of the abstract event; it is re-derived by [kind_of] *)
      Printf.sprintf "submit %s %d %s" (sn j) (if closed then 1 else 0)
        (match tasks with
         | [] -> "-"
         | _ -> String.concat ";" (List.map (fun t -> Printf.sprintf "%s:%s:%s" (sn t.ts_id) (crash_s t.ts_crash) (plus t.ts_deps)) tasks))
  | EJobOpen j -> "open " ^ sn j
  | EJobClose j -> "close " ^ sn j
  | EJobCompleted j -> "completed " ^ sn j
  | EJobCancel j -> "cancel " ^ sn j
  | ETaskStarted (j, t, i, ws) -> Printf.sprintf "started %s %s %s %s" (sn j) (sn t) (sn i) (plus ws)
  | ETaskFinished (j, t) -> Printf.sprintf "finished %s %s" (sn j) (sn t)
  | ETaskFailed (j, t) -> Printf.sprintf "failed %s %s" (sn j) (sn t)
  | ETasksCanceled ids -> "canceled " ^ ids_s ids
  | ETasksAborted ids -> "aborted " ^ ids_s ids
  | EWorkerConnected (w, a) -> Printf.sprintf "wconn %s %s" (sn w) (match a with Some a -> sn a | None -> "-")
  | EWorkerLost (w, r) -> Printf.sprintf "wlost %s %d" (sn w) (int_of_reason r)
  | EWorkerOverview w -> "wover " ^ sn w
  | EQueueCreated q -> "qcreate " ^ sn q
  | EQueueRemoved q -> "qremove " ^ sn q
  | EAllocQueued (q, a) -> Printf.sprintf "aqueued %s %s" (sn q) (sn a)
  | EAllocStarted (q, a) -> Printf.sprintf "astarted %s %s" (sn q) (sn a)
  | EAllocFinished (q, a) -> Printf.sprintf "afinished %s %s" (sn q) (sn a)
  | EServerStart u -> "sstart " ^ sn u
  | EServerStop -> "sstop"

(* events are kept together with the submit kind (a/g) that the harness chose, for printing *)
type sev = { ev : event; kind : string }

let sev_s e =
  match e.ev with
  | ESubmit (j, closed, tasks) ->
      Printf.sprintf "submit %s %d %s %s" (sn j) (if closed then 1 else 0) e.kind
        (match tasks with
         | [] -> "-"
         | _ -> String.concat ";" (List.map (fun t -> Printf.sprintf "%s:%s:%s" (sn t.ts_id) (crash_s t.ts_crash) (plus t.ts_deps)) tasks))
  | x -> ev_s x

let parse_ev toks =
  let n i = n_of_int (ios (List.nth toks i)) in
  match toks with
  | "submit" :: _ :: c :: k :: ts :: _ ->
      let tasks =
        if ts = "-" then []
        else
          List.map
            (fun x -> match String.split_on_char ':' x with
               | [ id; cr; deps ] -> { ts_id = n_of_int (ios id); ts_crash = parse_crash cr; ts_deps = parse_plus deps }
               | _ -> failwith "task")
            (String.split_on_char ';' ts)
      in
      { ev = ESubmit (n 1, c = "1", tasks); kind = k }
  | "open" :: _ -> { ev = EJobOpen (n 1); kind = "" }
  | "close" :: _ -> { ev = EJobClose (n 1); kind = "" }
  | "completed" :: _ -> { ev = EJobCompleted (n 1); kind = "" }
  | "cancel" :: _ -> { ev = EJobCancel (n 1); kind = "" }
  | "started" :: _ :: _ :: _ :: ws :: _ -> { ev = ETaskStarted (n 1, n 2, n 3, parse_plus ws); kind = "" }
  | "finished" :: _ -> { ev = ETaskFinished (n 1, n 2); kind = "" }
  | "failed" :: _ -> { ev = ETaskFailed (n 1, n 2); kind = "" }
  | "canceled" :: ids :: _ -> { ev = ETasksCanceled (parse_ids ids); kind = "" }
  | "aborted" :: ids :: _ -> { ev = ETasksAborted (parse_ids ids); kind = "" }
  | "wconn" :: _ :: a :: _ -> { ev = EWorkerConnected (n 1, if a = "-" then None else Some (n 2)); kind = "" }
  | "wlost" :: _ :: r :: _ -> { ev = EWorkerLost (n 1, reason_of_int (ios r)); kind = "" }
  | "wover" :: _ -> { ev = EWorkerOverview (n 1); kind = "" }
  | "qcreate" :: _ -> { ev = EQueueCreated (n 1); kind = "" }
  | "qremove" :: _ -> { ev = EQueueRemoved (n 1); kind = "" }
  | "aqueued" :: _ -> { ev = EAllocQueued (n 1, n 2); kind = "" }
  | "astarted" :: _ -> { ev = EAllocStarted (n 1, n 2); kind = "" }
  | "afinished" :: _ -> { ev = EAllocFinished (n 1, n 2); kind = "" }
  | "sstart" :: _ -> { ev = EServerStart (n 1); kind = "" }
  | "sstop" :: _ -> { ev = EServerStop; kind = "" }
  | _ -> failwith ("bad event: " ^ String.concat " " toks)

(* ---------- rendering a restored state ---------- *)
let class_c = function TWaiting -> "w" | TRunning _ -> "r" | TFinished -> "f" | TFailed -> "x" | TCanceled -> "c" | TAborted -> "a"

let job_s (j : sJob) =
  let tasks = List.sort compare (List.map (fun (t, s) -> (int_of_n t, class_c s)) j.sj_tasks) in
  let c = j.sj_counters in
  Printf.sprintf "%s:%s:s%s:%s:%s/%s/%s/%s/%s:%s" (sn j.sj_id)
    (if j.sj_open then "o" else "c")
    (sn j.sj_nsubmits)
    (match tasks with [] -> "-" | _ -> String.concat "," (List.map (fun (t, c) -> soi t ^ c) tasks))
    (sn c.c_running) (sn c.c_finished) (sn c.c_failed) (sn c.c_canceled) (sn c.c_aborted)
    (match n_waiting j with Ok n -> "nw" ^ sn n | _ -> "nwP")

let sorted_deps d = List.sort compare (List.map int_of_n d)
let deps_s d = match d with [] -> "-" | _ -> String.concat "+" (List.map soi d)

(* batches as (job, [(task, deps, adjust)]) *)
let batch_s (j, (b : aBatch)) =
  let ts = List.sort compare (List.map (fun ((t, deps), adj) -> (int_of_n t, sorted_deps deps, adj)) b) in
  ( (match ts with (t, _, _) :: _ -> (int_of_n j, t) | [] -> (int_of_n j, -1)),
    String.concat ","
      (List.map
         (fun (t, deps, adj) ->
           Printf.sprintf "%s.%d<%s%s" (sn j) t (deps_s deps) (match adj with Some (i, c) -> Printf.sprintf "[%s.%s]" (sn i) (sn c) | None -> ""))
         ts) )

let batches_s bs = join ";" (List.map snd (List.sort compare (List.map batch_s bs)))

let core_tasks_s (l : (int * int * int * int * int list) list) =
  join "," (List.map (fun (j, t, i, c, d) -> Printf.sprintf "%d.%d:%d:%d<%s" j t i c (deps_s d)) (List.sort compare l))

let core_of_model (bs : batch list) =
  match core_of [] bs with
  | Ok l -> core_tasks_s (List.map (fun c -> (int_of_n c.ct_job, int_of_n c.ct_id, int_of_n c.ct_inst, int_of_n c.ct_crash, sorted_deps c.ct_deps)) l)
  | _ -> "ERR"

(* the core the abstract state calls for: every pending task once, with its history *)
let core_of_abs (bs : (n * aBatch) list) =
  core_tasks_s
    (List.concat_map
       (fun (j, b) ->
         List.map (fun ((t, deps), adj) ->
             let i, c = match adj with Some (i, c) -> (int_of_n i, int_of_n c) | None -> (0, 0) in
             (int_of_n j, int_of_n t, i, c, sorted_deps deps)) b)
       bs)

let queues_s qs =
  join "," (List.map (fun (q, w) -> Printf.sprintf "%d:%s" q (match w with Some w -> soi (10 + int_of_n w) | None -> "-"))
              (List.sort compare (List.map (fun (q, w) -> (int_of_n q, w)) qs)))

let fields_of_ar (ar : absRestored) core =
  [ ("jc", sn ar.ar_job_counter); ("wc", sn ar.ar_worker_counter); ("qc", sn ar.ar_queue_counter);
    ("uid", (match ar.ar_uid with Some u -> sn u | None -> "-"));
    ("jobs", join ";" (List.map job_s (List.sort (fun a b -> compare (int_of_n a.sj_id) (int_of_n b.sj_id)) ar.ar_jobs)));
    ("batches", batches_s ar.ar_batches); ("core", core); ("queues", queues_s ar.ar_queues) ]

let line_of_fields fs trunc = "ok " ^ String.concat " " (List.map (fun (k, v) -> k ^ "=" ^ v) fs) ^ " trunc=" ^ trunc

let site_name s =
  match int_of_n s with
  | 1 -> "TaskFinished:none" | 2 -> "TaskFinished:state" | 3 -> "TaskFailed:none" | 4 -> "TaskFailed:state"
  | 5 -> "AllocationQueueCreated:assert" | 6 -> "JobClose:none" | 7 -> "JobCancel:none"
  | 10 -> "n_waiting:overflow" | 11 -> "core_add" | k -> "site" ^ soi k

let model_restore evs trunc =
  match restore evs with
  | Ok r -> line_of_fields (fields_of_ar (view r) (core_of_model r.r_batches)) trunc
  | Disabled -> "err"
  | Panic s -> "panic " ^ site_name s

(* ---------- parsing an implementation line back into fields ---------- *)
let parse_fields line =
  (* "ok k=v k=v ..." *)
  List.filter_map (fun w -> match String.index_opt w '=' with
      | Some i -> Some (String.sub w 0 i, String.sub w (i + 1) (String.length w - i - 1))
      | None -> None) (words line)
let field fs k = try List.assoc k fs with Not_found -> "?"

let job_id_of_item s =
  (* "12:o:..." or "12.3<.." or "12.3:0:0<.." : the leading integer *)
  let n = String.length s in
  let rec go i = if i < n && s.[i] >= '0' && s.[i] <= '9' then go (i + 1) else i in
  let k = go 0 in
  if k = 0 then -1 else ios (String.sub s 0 k)

let restrict_items sep keep s =
  if s = "-" then "-" else join (String.make 1 sep) (List.filter (fun it -> keep (job_id_of_item it)) (String.split_on_char sep s))

(* batches are ';'-separated groups of ','-separated tasks: a group belongs to one job *)
let restrict_fields keep fs =
  List.map (fun (k, v) ->
      match k with
      | "jobs" -> (k, restrict_items ';' keep v)
      | "batches" -> (k, restrict_items ';' keep v)
      | "core" -> (k, if v = "ERR" then v else restrict_items ',' keep v)
      | _ -> (k, v)) fs

(* strip the recorded worker resources of the queues: "1:12,2:-" -> "1,2" *)
let queue_ids v = if v = "-" then "-" else join "," (List.map (fun it -> List.hd (String.split_on_char ':' it)) (String.split_on_char ',' v))

(* erase the crash counters of a batches / core field *)
let strip_crash v =
  let v = Str.global_replace (Str.regexp "\\[\\([0-9]+\\)\\.[0-9]+\\]") "[\\1.]" v in
  Str.global_replace (Str.regexp ":\\([0-9]+\\):[0-9]+<") ":\\1:<" v

(* ---------- ids mentioned in a journal ---------- *)
let maxl l = List.fold_left max 0 l
let job_ids e = match e with
  | ESubmit (j, _, _) | EJobOpen j | EJobClose j | EJobCompleted j | EJobCancel j
  | ETaskStarted (j, _, _, _) | ETaskFinished (j, _) | ETaskFailed (j, _) -> [ int_of_n j ]
  | ETasksCanceled ids | ETasksAborted ids -> List.map (fun (j, _) -> int_of_n j) ids
  | _ -> []
let worker_ids e = match e with
  | EWorkerConnected (w, _) | EWorkerLost (w, _) | EWorkerOverview w -> [ int_of_n w ]
  | ETaskStarted (_, _, _, ws) -> List.map int_of_n ws
  | _ -> []
let queue_ids_of e = match e with
  | EQueueCreated q | EQueueRemoved q | EAllocQueued (q, _) | EAllocStarted (q, _) | EAllocFinished (q, _) -> [ int_of_n q ]
  | _ -> []
let last_uid evs = List.fold_left (fun acc e -> match e with EServerStart u -> Some (int_of_n u) | _ -> acc) None evs

(* ---------- one trace ---------- *)
let process_trace header lines =
  let hw = words header in
  print_endline ("TRACE " ^ List.nth hw 1);
  let tags = match hw with _ :: _ :: t -> t | _ -> [] in
  let adversarial = List.mem "adversarial" tags in
  (* group: op line followed by its impl output lines *)
  let groups = ref [] in
  List.iter (fun l ->
      if starts_with "O " l then groups := (String.sub l 2 (String.length l - 2), ref []) :: !groups
      else if starts_with "= " l then match !groups with (_, o) :: _ -> o := String.sub l 2 (String.length l - 2) :: !o | [] -> ())
    lines;
  let groups = List.rev_map (fun (op, o) -> (op, List.rev !o)) !groups in
  let jb = ref [] and ja = ref [] in          (* server journal / complete history (sev lists) *)
  let base = ref 0 and base_a = ref 0 in
  let pruned = ref false in
  let dropped = ref [] in                     (* jobs dropped by prunes although not completed *)
  let pre_prune = ref None in                 (* impl line of the RESTORE before the last PRUNE, with its live sets *)
  let last_prune = ref None in
  let nontrivial = ref false in
  let mon = ref [] in
  let m prop verdict cls detail = mon := Printf.sprintf "M %s %s %s %s" prop verdict cls detail :: !mon in
  let evs_of l = List.map (fun e -> e.ev) l in
  let gstate hist = if adversarial then None else grun g0 (evs_of hist) in
  (* monitors on one implementation restore line.
     [jr]: the journal that was restored; [hist]: the complete history it stands for *)
  let check_restore what (impl : string) (jr : sev list) (hist : sev list) (is_pruned : bool) (want_trunc : string) =
    let jre = evs_of jr in
    let g = gstate hist in
    if List.exists (fun e -> match e with EWorkerLost _ | ETaskFailed _ | ETasksCanceled _ | ETasksAborted _ -> true | _ -> false) jre
       || List.length (List.filter (fun e -> match e with EServerStart _ -> true | _ -> false) jre) > 1 || is_pruned
    then nontrivial := true;
    if starts_with "ok " impl then begin
      let fs = parse_fields impl in
      let gi k = try ios (field fs k) with _ -> -1 in
      (* C11: freshness w.r.t. the journal itself (any event list) *)
      let mj = maxl (List.concat_map job_ids jre) and mw = maxl (List.concat_map worker_ids jre) and mq = maxl (List.concat_map queue_ids_of jre) in
      if gi "jc" <= mj then m "C11" "FAIL" "job-id-not-fresh" (Printf.sprintf "%s: next job id %d <= mentioned %d" what (gi "jc") mj);
      if gi "wc" + 1 <= mw then m "C11" "FAIL" "worker-id-not-fresh" (Printf.sprintf "%s: next worker id %d <= mentioned %d" what (gi "wc" + 1) mw);
      if gi "qc" <= mq then m "C11" "FAIL" "queue-id-not-fresh" (Printf.sprintf "%s: next queue id %d <= mentioned %d" what (gi "qc") mq);
      let u = match last_uid jre with Some u -> soi u | None -> "-" in
      if field fs "uid" <> u then m "C11" "FAIL" "uid-not-kept" (Printf.sprintf "%s: uid %s, last ServerStart %s" what (field fs "uid") u);
      if want_trunc <> "" && field fs "trunc" <> want_trunc then
        m "C10" "FAIL" "torn-tail" (Printf.sprintf "%s: truncate position %s, expected record %s" what (field fs "trunc") want_trunc);
      match g with
      | None -> ()
      | Some g ->
          let ar = abs g in
          (* C11 composed: ids ever issued in the history *)
          let hj = int_of_n g.g_max_job and hw_ = int_of_n g.g_max_worker and hq = int_of_n g.g_max_queue in
          let stale k v lim = if v <= lim then m "C11" (if is_pruned then "KNOWN" else "FAIL")
                (if is_pruned then "F8-prune-id-highwater" else k ^ "-reused")
                (Printf.sprintf "%s: next %s id %d but id %d was issued before" what k v lim) in
          stale "job" (gi "jc") hj; stale "worker" (gi "wc" + 1) hw_; stale "queue" (gi "qc") hq;
          let keep j = not (List.mem j !dropped) in
          let want = fields_of_ar ar (core_of_abs ar.ar_batches) in
          let want = if is_pruned then restrict_fields keep want else want in
          let prop = if is_pruned then "C12" else "C10" in
          List.iter (fun (k, v) ->
              let got = field fs k in
              match k with
              | "jc" | "wc" | "qc" when is_pruned -> ()
              | "queues" when is_pruned ->
                  if queue_ids got <> queue_ids v then m prop "FAIL" "prune-equiv-queues" (Printf.sprintf "%s: queues %s, expected %s" what got v)
                  else if got <> v then m prop "KNOWN" "F8-prune-queue-resources" (Printf.sprintf "%s: queues %s, expected %s" what got v)
              | ("batches" | "core") when is_pruned && got <> v && strip_crash got = strip_crash v ->
                  m prop "KNOWN" "F8-prune-crash-counter" (Printf.sprintf "%s: %s=%s, the history calls for %s" what k got v)
              | _ ->
                  if got <> v then
                    m prop "FAIL" ((if is_pruned then "prune-equiv-" else "refine-") ^ k)
                      (Printf.sprintf "%s: %s=%s, the history calls for %s" what k got v))
            want
    end
    else begin
      match g with
      | Some _ -> if is_pruned then m "C12" "FAIL" "pruned-restore-failed" (what ^ ": " ^ impl) else m "C10" "FAIL" "restore-failed" (what ^ ": " ^ impl)
      | None -> ()
    end
  in
  List.iter (fun (op, impl) ->
      print_endline ("O " ^ op);
      let toks = words op in
      (match toks with
       | "EV" :: rest ->
           let e = parse_ev rest in
           let ok = adversarial || (match grun g0 (evs_of !ja) with Some g -> gstep g e.ev <> None | None -> false) in
           jb := !jb @ [ e ]; ja := !ja @ [ e ];
           last_prune := None; pre_prune := None;
           print_endline (if ok then "= ok" else "= NOT-PRODUCIBLE")
       | [ "CUTS" ] ->
           let n = List.length !jb in
           let il = ref impl in
           for k = !base to n do
             let jr = take k !jb in
             print_endline (Printf.sprintf "= R k=%d %s" k (model_restore (evs_of jr) "-"));
             (match !il with
              | l :: r ->
                  il := r;
                  let pfx = Printf.sprintf "R k=%d " k in
                  if starts_with pfx l then
                    check_restore (Printf.sprintf "cut %d" k) (String.sub l (String.length pfx) (String.length l - String.length pfx))
                      jr (take (k - !base + !base_a) !ja) !pruned ""
              | [] -> ())
           done
       | [ "CUTB"; k; _b ] ->
           let k = ios k in
           let jr = take k !jb in
           print_endline (Printf.sprintf "= R k=%d %s" k (model_restore (evs_of jr) (soi k)));
           (match impl with
            | l :: _ ->
                let pfx = Printf.sprintf "R k=%d " k in
                if starts_with pfx l then
                  check_restore (Printf.sprintf "byte cut in record %d" k) (String.sub l (String.length pfx) (String.length l - String.length pfx))
                    jr (take (k - !base + !base_a) !ja) !pruned (soi k)
            | [] -> ())
       | [ "RESTORE" ] ->
           print_endline ("= R " ^ model_restore (evs_of !jb) "-");
           (match impl with
            | l :: _ when starts_with "R " l ->
                let il = String.sub l 2 (String.length l - 2) in
                check_restore "restore" il !jb !ja !pruned "";
                (* direct metamorphic check: restore after prune vs restore before it *)
                (match !last_prune, !pre_prune with
                 | Some (lj, _), Some pre when starts_with "ok " pre ->
                     let keep j = List.mem j lj in
                     if starts_with "ok " il then begin
                       let a = restrict_fields keep (parse_fields pre) and b = parse_fields il in
                       List.iter (fun k ->
                           if field a k <> field b k && (k = "batches" || k = "core") && strip_crash (field a k) = strip_crash (field b k) then
                             m "C12" "KNOWN" "F8-prune-crash-counter" (Printf.sprintf "before prune (live jobs only): %s=%s after: %s=%s" k (field a k) k (field b k))
                           else if field a k <> field b k then
                             m "C12" "FAIL" ("prune-changes-" ^ k) (Printf.sprintf "before prune (live jobs only): %s=%s after: %s=%s" k (field a k) k (field b k)))
                         [ "uid"; "jobs"; "batches"; "core" ];
                       if queue_ids (field a "queues") <> queue_ids (field b "queues") then
                         m "C12" "FAIL" "prune-changes-queues" (Printf.sprintf "before %s after %s" (field a "queues") (field b "queues"))
                     end
                     else m "C12" "FAIL" "pruned-restore-failed" ("restore was fine before the prune, after it: " ^ il)
                 | _ -> ());
                last_prune := None;
                pre_prune := Some il
            | _ -> ())
       | [ "RESTOREFULL" ] ->
           print_endline ("= R " ^ model_restore (evs_of !ja) "-");
           (match impl with
            | l :: _ when starts_with "R " l -> check_restore "restore of the unpruned history" (String.sub l 2 (String.length l - 2)) !ja !ja false ""
            | _ -> ())
       | [ "DROP"; d ] ->
           let d = ios d in
           jb := drop_last d !jb; ja := drop_last d !ja;
           print_endline (Printf.sprintf "= n=%d" (List.length !jb))
       | [ "READ" ] ->
           print_endline (Printf.sprintf "= J %s partial=0 err=0 aligned=1" (join " | " (List.map sev_s !jb)));
           (match impl with
            | l :: _ -> if l <> Printf.sprintf "J %s partial=0 err=0 aligned=1" (join " | " (List.map sev_s !jb)) then
                  m "C10" "FAIL" "write-read-roundtrip" "the journal read back differs from what was written"
            | [] -> ())
       | [ "PRUNE"; js; ws ] ->
           let pl s = if s = "-" then [] else List.map ios (String.split_on_char ',' s) in
           let lj = pl js and lw = pl ws in
           let nj = List.map n_of_int lj and nw = List.map n_of_int lw in
           (* witness validation: the live sets are the ones the abstract state calls for *)
           (match gstate !ja with
            | Some g ->
                let wj = List.sort compare (List.map int_of_n (live_jobs g)) and ww = List.sort compare (List.map int_of_n (live_workers g)) in
                if wj <> List.sort compare lj || ww <> List.sort compare lw then
                  m "C12" "FAIL" "live-sets" (Printf.sprintf "harness live sets %s/%s, abstract state %s/%s" js ws (join "," (List.map soi wj)) (join "," (List.map soi ww)));
                List.iter (fun (j, _) -> let j = int_of_n j in if not (List.mem j lj) && not (List.mem j !dropped) then dropped := j :: !dropped) g.g_jobs
            | None -> ());
           let keep e = match prune_event nj nw e.ev with Some e' -> [ { e with ev = e' } ] | None -> [] in
           let old = !jb in
           jb := List.concat_map keep old;
           (* cross-check with the extracted [prune] *)
           assert (List.map ev_s (prune nj nw (evs_of old)) = List.map ev_s (evs_of !jb));
           base := List.length !jb; base_a := List.length !ja; pruned := true; nontrivial := true;
           last_prune := Some (lj, lw);
           print_endline (Printf.sprintf "= J %s partial=0 err=0" (join " | " (List.map sev_s !jb)))
       | _ -> print_endline "= ?");
      List.iter print_endline (List.rev !mon);
      mon := [])
    groups;
  List.iter (fun t -> print_endline ("T " ^ t)) tags;
  if not adversarial then print_endline "T producible";
  if !nontrivial then print_endline "T nontrivial";
  print_endline "END"

let () =
  let header = ref None and lines = ref [] in
  (try
     while true do
       let l = input_line stdin in
       if starts_with "TRACE " l then (header := Some l; lines := [])
       else if l = "END" then (
         (match !header with Some h -> process_trace h (List.rev !lines) | None -> ());
         header := None; lines := [])
       else lines := l :: !lines
     done
   with End_of_file -> ())
